#!/venv/bin/python
"""Helper used while writing props/*.v: copies the statement of a proved theorem from a proofs file.
usage: mkprops.py <proofs file> <theorem name> <new name>   -> prints 'Theorem new : stmt. Proof. exact old. Qed. Print Assumptions new.'"""
import re, sys
src, name, new = sys.argv[1:4]
txt = open(src).read()
m = re.search(r'(?:Theorem|Lemma|Corollary|Example)\s+' + re.escape(name) + r'\b(.*?)\n\s*Proof\b', txt, flags=re.S)
if not m:
    sys.exit('not found: ' + name)
stmt = m.group(1).rstrip()
if stmt.rstrip().endswith('.'):
    stmt = stmt.rstrip()[:-1]
print(f'Theorem {new}{stmt}.\nProof. exact {name}. Qed.\nPrint Assumptions {new}.\n')
