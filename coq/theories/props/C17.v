(* C17 - Caching, query order and parallel execution never change a result.

   Model: model/Cache.v (state-space object with cached rate matrix, per-epoch dictionary, cache
   flag; statistics as walks through epochs; functools.cache memo tables).  Theorems are unbounded in
   the history of operations.  [eqk] is the key equality (Epoch.__eq__ / __hash__); its soundness
   (equal keys => same rates) is exactly what the repaired Epoch.__eq__ provides, and is shown to be
   NECESSARY by the refutation with a colliding key.  Parallel execution: utils.parallelize is an
   ordered map (Pool.imap) over a function of the arguments - the process-level behaviour of
   multiprocess is outside the model and is exercised by the stream. *)
From Coq Require Import List Bool.
From PG Require Import model.Cache proofs.CacheProofs.
Import ListNotations.

Section C17.
  Variables Epoch Tr Mx : Type.
  Variable eqk : Epoch -> Epoch -> bool.
  Variable trans_of : Epoch -> Tr.
  Variable mat_of : Tr -> Mx.
  Hypothesis eqk_sound : forall e e', eqk e e' = true -> trans_of e = trans_of e'.

  (* every operation of every history returns what a fresh object returns *)
  Theorem C17_any_history_same_answer :
    forall ops e flag,
      snd (run Epoch Tr Mx eqk trans_of mat_of (fresh Epoch Tr Mx e flag) ops)
      = map (pure Epoch Tr Mx trans_of mat_of) ops.
  Proof. intros; apply any_history_same_answer; assumption. Qed.

  (* the answer to a query does not depend on what was asked before, on the cache flag, or on the
     epoch the shared state space was left in *)
  Theorem C17_query_independent_of_history :
    forall ops1 ops2 e1 e2 f1 f2 q,
      last (snd (run Epoch Tr Mx eqk trans_of mat_of (fresh Epoch Tr Mx e1 f1) (ops1 ++ [OQuery Epoch q]))) []
      = last (snd (run Epoch Tr Mx eqk trans_of mat_of (fresh Epoch Tr Mx e2 f2) (ops2 ++ [OQuery Epoch q]))) [].
  Proof. intros; apply query_independent_of_history; assumption. Qed.

  (* one state space shared by several parameter sets (Inference.get_coal), any interleaving *)
  Theorem C17_shared_state_space_any_interleaving :
    forall qs e flag,
      snd (run Epoch Tr Mx eqk trans_of mat_of (fresh Epoch Tr Mx e flag) (map (OQuery Epoch) qs))
      = map (fun q => map (fun e => mat_of (trans_of e)) q) qs.
  Proof. intros; apply shared_state_space_any_interleaving; assumption. Qed.

  (* the invariant behind it: a cached matrix is the matrix of the current epoch *)
  Theorem C17_reading_S_gives_current_epoch :
    forall s, Inv Epoch Tr Mx trans_of mat_of s ->
      Inv Epoch Tr Mx trans_of mat_of (fst (get_S Epoch Tr Mx eqk trans_of mat_of s)) /\
      snd (get_S Epoch Tr Mx eqk trans_of mat_of s) = mat_of (trans_of (ss_epoch Epoch Tr Mx s)).
  Proof. intros; apply inv_get_S; assumption. Qed.
End C17.
Print Assumptions C17_any_history_same_answer.
Print Assumptions C17_query_independent_of_history.
Print Assumptions C17_shared_state_space_any_interleaving.
Print Assumptions C17_reading_S_gives_current_epoch.

Section C17memo.
  Variables A B : Type.
  Variable eqa : A -> A -> bool.
  Variable f : A -> B.
  Hypothesis eqa_sound : forall a a', eqa a a' = true -> f a = f a'.
  Theorem C17_memoised_function_is_pure :
    forall args, snd (memo_run A B eqa f [] args) = map f args.
  Proof. intros; apply memo_run_fresh; assumption. Qed.
End C17memo.
Print Assumptions C17_memoised_function_is_pure.

(* soundness of the key equality is necessary: with a colliding key (what comparing float hashes
   did before the repair) a history exists that returns a stale matrix *)
Example C17_hash_equality_refuted :
  exists ops, snd (run nat nat nat (fun _ _ => true) (fun x => x) (fun x => x) (fresh nat nat nat 0 true) ops)
              <> map (pure nat nat nat (fun x => x) (fun x => x)) ops.
Proof. exact unsound_key_gives_stale_matrix. Qed.
Print Assumptions C17_hash_equality_refuted.

(* ---- the SOURCE of the mutable part of StateSpace (update_epoch, drop_S, drop_cache, S, _get_rate_matrix, states; translated on
   every run by translate/cache2coq.py into gen/CacheGen.v) is the cache machine the theorems above are about ---- *)
From PG Require Import gen.NpCache gen.CacheGen proofs.GenCacheEquiv.
Section C17source.
  Variables Epoch Tr Mx : Type.
  Variable eqk : Epoch -> Epoch -> bool.
  Variable trans_of : Epoch -> Tr.
  Variable mat_of : Tr -> Mx.
  Hypothesis eqk_sound : forall e e', eqk e e' = true -> trans_of e = trans_of e'.

  Theorem C17_state_space_py_update_epoch_is_the_model : forall s e,
    StateSpace_update_epoch Epoch Tr Mx eqk s e = update_epoch Epoch Tr Mx eqk s e.
  Proof. exact (gen_update_epoch_eq Epoch Tr Mx eqk). Qed.
  Theorem C17_state_space_py_reading_S_is_the_model : forall s,
    StateSpace_S Epoch Tr Mx eqk trans_of mat_of s = get_S Epoch Tr Mx eqk trans_of mat_of s.
  Proof. exact (gen_S_eq Epoch Tr Mx eqk trans_of mat_of). Qed.
  Theorem C17_state_space_py_drops_are_the_model : forall s,
    StateSpace_drop_S Epoch Tr Mx s = drop_S Epoch Tr Mx s /\ StateSpace_drop_cache Epoch Tr Mx s = drop_cache Epoch Tr Mx s.
  Proof. intros s. split; [apply gen_drop_S_eq | apply gen_drop_cache_eq]. Qed.
  Theorem C17_state_space_py_S_after_any_history_is_pure : forall s,
    Inv Epoch Tr Mx trans_of mat_of s ->
    Inv Epoch Tr Mx trans_of mat_of (fst (StateSpace_S Epoch Tr Mx eqk trans_of mat_of s)) /\
    snd (StateSpace_S Epoch Tr Mx eqk trans_of mat_of s) = mat_of (trans_of (ss_epoch Epoch Tr Mx s)).
  Proof. exact (source_S_is_pure Epoch Tr Mx eqk trans_of mat_of eqk_sound). Qed.
  Theorem C17_state_space_py_states_property_keeps_the_invariant : forall s,
    Inv Epoch Tr Mx trans_of mat_of s ->
    Inv Epoch Tr Mx trans_of mat_of (fst (StateSpace_states_body Epoch Tr Mx eqk trans_of s)) /\
    snd (StateSpace_states_body Epoch Tr Mx eqk trans_of s) = trans_of (ss_epoch Epoch Tr Mx s).
  Proof. exact (gen_states_inv Epoch Tr Mx eqk trans_of mat_of eqk_sound). Qed.
  Theorem C17_state_space_py_any_history_returns_what_fresh_objects_return : forall ops e flag,
    snd (grun Epoch Tr Mx eqk trans_of mat_of (StateSpace_init Epoch Tr Mx e flag) ops) = map (pure Epoch Tr Mx trans_of mat_of) ops.
  Proof. exact (source_any_history_same_answer Epoch Tr Mx eqk trans_of mat_of eqk_sound). Qed.
End C17source.
Print Assumptions C17_state_space_py_any_history_returns_what_fresh_objects_return.
Print Assumptions C17_state_space_py_update_epoch_is_the_model.
Print Assumptions C17_state_space_py_reading_S_is_the_model.
Print Assumptions C17_state_space_py_drops_are_the_model.
Print Assumptions C17_state_space_py_S_after_any_history_is_pure.
Print Assumptions C17_state_space_py_states_property_keeps_the_invariant.

(* ---- the SOURCE of Epoch.__eq__ / __hash__ (phasegen/demography.py, translated on every run by translate/configs2coq.py into
   gen/ConfigsGen.v): the key equality of the cache compares exactly the population sizes and migration rates (not the times), so the
   hypothesis eqk_sound of the theorems above holds for everything that is computed from the sizes and rates of an epoch alone ---- *)
From Coq Require Import String QArith.
From PG Require Import gen.NpConfigs gen.ConfigsGen proofs.GenConfigsEquiv.
Theorem C17_demography_py_equal_epochs_have_equal_rates : forall a b, Epoch_eq a b = true ->
  same_sizes (ev_sizes a) (ev_sizes b) /\ same_mig (ev_mig a) (ev_mig b).
Proof. exact gen_epoch_eq_sound. Qed.
Theorem C17_demography_py_epoch_equality_ignores_times : forall a s e,
  Epoch_eq a (mkEpochVal s e (ev_sizes a) (ev_names a) (ev_npops a) (ev_mig a)) = true.
Proof. exact gen_epoch_eq_ignores_times. Qed.
Theorem C17_demography_py_key_equality_is_sound : forall (Tr : Type) (trans_of : epoch_val -> Tr),
  (forall a b, same_sizes (ev_sizes a) (ev_sizes b) -> same_mig (ev_mig a) (ev_mig b) -> trans_of a = trans_of b) ->
  forall a b, Epoch_eq a b = true -> trans_of a = trans_of b.
Proof. exact source_eqk_sound. Qed.
Print Assumptions C17_demography_py_equal_epochs_have_equal_rates.
Print Assumptions C17_demography_py_epoch_equality_ignores_times.
Print Assumptions C17_demography_py_key_equality_is_sound.
