(* C05 - The epoch schedule reproduces the demography the user specified.

   Model: model/Demography.v (epoch generator with _prepare_events/_broadcast/_apply for discrete
   events, population splits and discretised trajectories).  The theorems below are unbounded
   (every list of discrete events, in every order, with coincident times; every query time).
   Discretised trajectories and population splits are covered by the correspondence stream
   (exact comparison of the first 14 epochs) and, for the split direction and the 1e-10 grid
   fringe, by the recorded known findings; they are not covered by these theorems. *)
From Coq Require Import ZArith QArith List Permutation.
From PG Require Import base.Perm model.Demography proofs.DemographyProofs.
Import ListNotations.
Open Scope Q_scope.

(* epochs tile [0, inf): first starts at 0, consecutive, strictly increasing, last one infinite *)
Theorem C05_epochs_tile :
  forall np events fuel, Forall wf_event events -> (length (all_times events) < fuel)%nat ->
    let eps := epochs np events fuel in
    eps <> [] /\
    e_start (hd (epoch0 np) eps) == 0 /\
    e_end (last eps (epoch0 np)) = None /\
    (forall i ep ep', nth_error eps i = Some ep -> nth_error eps (S i) = Some ep' -> e_end ep = Some (e_start ep')) /\
    (forall ep t, In ep eps -> e_end ep = Some t -> e_start ep < t).
Proof. exact epochs_tile. Qed.
Print Assumptions C05_epochs_tile.

(* at EVERY time t >= 0 the sizes and rates in force are those of the most recent change at or
   before t (size 1 / rate 0 before any change) *)
Theorem C05_value_in_force :
  forall np events fuel, Forall wf_event events -> (length (all_times events) < fuel)%nat ->
    forall t k, 0 <= t -> valid_key np k ->
      exists ep, get_epoch (epochs np events fuel) t = Some ep /\ get_key ep k == rate_at events k t.
Proof. exact get_epoch_spec. Qed.
Print Assumptions C05_value_in_force.

Theorem C05_epoch_carries_value_at_start :
  forall np events fuel, Forall wf_event events -> (length (all_times events) < fuel)%nat ->
    forall ep k, In ep (epochs np events fuel) -> valid_key np k ->
      get_key ep k == rate_at events k (e_start ep).
Proof. exact epochs_carry_spec. Qed.
Print Assumptions C05_epoch_carries_value_at_start.

(* every specified change time is an epoch boundary *)
Theorem C05_change_times_are_boundaries :
  forall np events fuel, Forall wf_event events -> (length (all_times events) < fuel)%nat ->
    forall t, In t (all_times events) -> 0 < t ->
      exists ep, In ep (epochs np events fuel) /\ e_start ep == t.
Proof. exact change_times_are_boundaries. Qed.
Print Assumptions C05_change_times_are_boundaries.

(* no change time lies strictly inside an epoch *)
Theorem C05_no_change_inside_an_epoch :
  forall np events fuel, Forall wf_event events -> (length (all_times events) < fuel)%nat ->
    forall ep k t, In ep (epochs np events fuel) -> in_epoch t ep = true ->
      rate_at events k t == rate_at events k (e_start ep).
Proof. exact epochs_constant_inside. Qed.
Print Assumptions C05_no_change_inside_an_epoch.

(* the order in which events are passed or added does not matter (no two events changing the same
   key at the same time; otherwise the later-listed one wins, as rate_at says) *)
Theorem C05_event_order_irrelevant :
  forall (np : nat) ev1 ev2 fuel, Permutation ev1 ev2 -> Forall wf_event ev1 ->
    (length (all_times ev1) < fuel)%nat ->
    (forall k t, (length (filter (fun c => key_eqb (fst (snd c)) k && Qeq_bool (fst c) t) (discrete_changes ev1)) <= 1)%nat) ->
    forall t k, 0 <= t -> rate_at ev1 k t == rate_at ev2 k t.
Proof. exact event_order_irrelevant. Qed.
Print Assumptions C05_event_order_irrelevant.

(* non-vacuity: a concrete demography (two events given out of order, coincident change time)
   meets the hypotheses, and its epochs are computed *)
Example C05_concrete :
  Forall wf_event ex_events /\ (length (all_times ex_events) < 5)%nat /\ length (epochs 2 ex_events 5) = 3%nat.
Proof. destruct ex_hypotheses as [H1 [H2 _]]. split; [exact H1|split; [exact H2|vm_compute; reflexivity]]. Qed.
Print Assumptions C05_concrete.

(* ---- the SOURCE of the epoch generator and of the discrete event class (phasegen/demography.py, pinned on every run by
   translate/demography2coq.py into gen/DemographyGen.v): the generator yields epochs without gaps, a discrete event ends the candidate
   epoch at its first change time inside (start, end] and changes neither time when it is applied ---- *)
From Coq Require Import String.
From PG Require Import gen.NpConfigs gen.NpDemography gen.DemographyGen proofs.GenDemographyEquiv.
Theorem C05_demography_py_epochs_are_consecutive :
  forall (Ev : Type) (ev_broadcast ev_apply : Ev -> epoch_val -> epoch_val) (events : list Ev),
    (forall e ep, ev_start (ev_broadcast e ep) = ev_start ep) -> (forall e ep, ev_start (ev_apply e ep) = ev_start ep) ->
  forall fuel prev,
    match Demography_epochs_loop Ev ev_broadcast ev_apply events fuel prev with [] => True | e :: _ => ev_start e = fin_end prev end /\
    (forall pre a b post, Demography_epochs_loop Ev ev_broadcast ev_apply events fuel prev = pre ++ a :: b :: post ->
                          ev_start b = fin_end a /\ ev_end a <> None).
Proof. exact gen_epochs_consecutive. Qed.
Theorem C05_demography_py_discrete_broadcast : forall times ep t0,
  ev_start (DiscreteDemographicEvent_broadcast times ep) = ev_start ep /\
  (ev_end (DiscreteDemographicEvent_broadcast times ep) = Some t0 ->
   ev_end ep = Some t0 \/ ((ev_start ep < t0)%Q /\ le_end t0 (ev_end ep) = true /\ (0 < t0)%Q /\ In t0 times)).
Proof. intros times ep t0. split; [apply discrete_broadcast_start | apply discrete_broadcast_shortens]. Qed.
Theorem C05_demography_py_discrete_apply_keeps_the_times : forall times ps ms ep,
  ev_start (DiscreteRateChanges_apply times ps ms ep) = ev_start ep /\ ev_end (DiscreteRateChanges_apply times ps ms ep) = ev_end ep.
Proof. exact discrete_apply_times. Qed.
Print Assumptions C05_demography_py_epochs_are_consecutive.
Print Assumptions C05_demography_py_discrete_broadcast.
Print Assumptions C05_demography_py_discrete_apply_keeps_the_times.
