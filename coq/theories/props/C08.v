(* C08 - Results do not depend on population naming, listing order or the process.

   (1) Model level (bounded reflection, n <= 4 over 2-3 demes, all deme permutations, three models,
   both state spaces; two loci n <= 3 / 2 demes): permuting the deme axis of the inputs permutes the
   states, leaves every rate, alpha, tree-height/branch-length rewards unchanged, and carries the
   per-deme reward of deme d to its new position - which requires the deme index to be looked up in
   the order of the state axis (the defect repaired in DemeReward).  (2) For every backend obeying
   the laws of the matrix exponential, every order k: relabelling the states by any permutation does
   not change the k-th order moment functional.  Population names never enter the model except as
   positions, so renaming is the identity.  Hash-seed independence: the model uses no hash; the set
   iteration order of the populations completed by Coalescent.__init__ is a listing order (1).
   The naming stream runs the implementation under permuted containers and several PYTHONHASHSEEDs. *)
From Coq Require Import ZArith QArith List Arith.
From PG Require Import base.Ops model.CoalModels model.StateSpace model.Rewards model.Check
                       model.SpaceChecks proofs.SpaceFacts.
Import ListNotations.
Local Open Scope Q_scope.

Theorem C08_deme_permutation_equivariant_bounded :
  (forall nd n V m lc sigma,
     In nd [2; 3]%nat -> In n [2; 3; 4]%nat -> In V (sc_vals nd) ->
     In m [Kingman; Beta (3#2) false; Dirac (1#3) (5#2) false] -> In lc [true; false] ->
     In sigma (deme_perms nd) ->
     perm_spec (sc_mkP V m lc) 1 nd n sigma) /\
  (forall n V sigma,
     In n [2; 3]%nat -> In V (sc_vals 2) -> In sigma (deme_perms 2) ->
     perm_spec (sc_mkP V Kingman true) 2 2 n sigma).
Proof. exact deme_permutation_equivariant_bounded. Qed.
Print Assumptions C08_deme_permutation_equivariant_bounded.

(* ---- the SOURCE of LineageConfig.__init__ (translated on every run by translate/configs2coq.py into gen/ConfigsGen.v): the counts are
   kept in the order in which the populations were GIVEN (dictionary insertion order / position), with the names given or pop_i ---- *)
From PG Require Import gen.NpConfigs gen.ConfigsGen proofs.GenConfigsEquiv.
Theorem C08_lineage_py_dictionary_keeps_the_given_order : forall d,
  LineageConfig_init (NDict d) = (map snd d, fold_right Z.add 0%Z (map snd d), length d, map fst d).
Proof. exact gen_lineage_init_dict. Qed.
Theorem C08_lineage_py_iterable_names_by_position : forall l,
  LineageConfig_init (NIter l) = (l, fold_right Z.add 0%Z l, length l, map pop_name (seq 0 (length l))).
Proof. exact gen_lineage_init_iterable. Qed.
Print Assumptions C08_lineage_py_dictionary_keeps_the_given_order.
Print Assumptions C08_lineage_py_iterable_names_by_position.

Theorem C08_distributions_py_completion_keeps_given_populations : forall d so p,
  firstn (length d) (Coalescent_completed_lineages d so) = d /\
  ((exists v, dict_get p d = Some v) -> dict_get p (Coalescent_completed_lineages d so) = dict_get p d) /\
  (dict_get p d = None -> In p so -> dict_get p (Coalescent_completed_lineages d so) = Some 0%Z) /\
  fold_right Z.add 0%Z (map snd (Coalescent_completed_lineages d so)) = fold_right Z.add 0%Z (map snd d).
Proof.
  intros d so p. split; [apply gen_completion_keeps_given | split; [apply gen_completion_given_counts | split; [apply gen_completion_added_counts | apply gen_completion_total]]].
Qed.
Print Assumptions C08_distributions_py_completion_keeps_given_populations.

From mathcomp Require Import all_ssreflect all_algebra fingroup perm.
From PG Require Import proofs.ExpLaws.
Set Implicit Arguments. Unset Strict Implicit. Unset Printing Implicit Defensive.
Import GRing.Theory.
Local Open Scope ring_scope.
Section C08.
Variable R : comRingType.
Variable expm : forall n : nat, 'M[R]_n -> 'M[R]_n.
Hypothesis expm0 : forall n, expm (0 : 'M[R]_n) = 1%:M.
Hypothesis expmD : forall n (A B : 'M[R]_n), A *m B = B *m A -> expm (A + B) = expm A *m expm B.
Hypothesis expm_intertwine : forall m n (A : 'M[R]_m) (B : 'M[R]_n) (P : 'M[R]_(m, n)),
    A *m P = P *m B -> expm A *m P = P *m expm B.
Theorem C08_state_relabelling_invariant_given_ExpLaws :
  forall n (a : 'rV[R]_n) (S : 'M[R]_n) (Rs : nat -> 'M[R]_n) (k : nat) (t : R) (s : 'S_n),
    let P := perm_mx s in
    mk expm (a *m P) (P^T *m S *m P) (fun i => P^T *m Rs i *m P) k t = mk expm a S Rs k t.
Proof. by move=> *; apply: mk_permutation. Qed.
End C08.
Print Assumptions C08_state_relabelling_invariant_given_ExpLaws.

(* ------------------------------------------------------------------------------------------------
   Unconditional over the reals: the laws E0-E2 (and positivity) are theorems about the real matrix
   exponential mexp (analysis/MExp.v: entrywise limit of the exponential series), so the statements
   above hold for the matrix exponential itself, not only "given ExpLaws". *)
From Coq Require Import Rdefinitions.
From PG Require Import analysis.Rstruct analysis.RSums analysis.MExp analysis.MExpLaws.

Theorem C08_state_relabelling_invariant_real :
  forall n (a : 'rV[R]_n) (S : 'M[R]_n) (Rs : nat -> 'M[R]_n) (k : nat) (t : R) (s : 'S_n),
    let P := perm_mx s in
    mk (fun n : nat => @mexp n) (a *m P) (P^T *m S *m P) (fun i => P^T *m Rs i *m P) k t
    = mk (fun n : nat => @mexp n) a S Rs k t.
Proof. by move=> *; apply: real_mk_permutation. Qed.
Print Assumptions C08_state_relabelling_invariant_real.

(* ------------------------------------------------------------------------------------------------
   proofs/SpaceFactsAllRates.v: deme-permutation equivariance for EVERY REAL VALUATION of the rates.
   The model of the state-space construction is run once with the population time scales, the
   migration rates and the recombination rate as SYMBOLS (model/LinForm.v), the criteria of (1) above
   are decided on the symbolic rates (model/SpaceChecksSym.v) and transported by parametricity to every
   real valuation [rho : rval] of those symbols: [realP rho nd m lc] is the real parameter record with
   nd demes, coalescent model m and lineage-counting flag lc whose rates are read off rho.  So the
   statement no longer depends on a few sample values of the rates; it is bounded only in the sample
   size and the number of demes ((n, demes) in [perm_groups1] for one locus, in [perm_groups2] for
   two loci) and, for one locus, in the multiple-merger models ([sym_models]).

   [perm_spec_R P nl nd n sigma states states'] says about the code's algorithm: listing the demes in
   the order sigma (new position i holds old deme sigma[i]; parameters [perm_params_g OpsR sigma P])
   (i) the breadth-first construction succeeds on both systems with state lists [states], [states'],
   and permuting the deme axis of every state maps one list onto the other, (ii) the REAL rate between
   any two states equals the rate between the permuted states, (iii) every initial distribution, for
   every sample configuration and number of unlinked samples, corresponds, (iv) tree height, total
   branch length and unit rewards are unchanged and the reward of deme d is carried to its new
   position.  The state lists do not depend on the valuation (they are quantified before rho).

   C08_deme_permutation_equivariant_all_rates    for the records [realP rho ..], all rho at once.
   C08_deme_permutation_equivariant_all_params   the same for ANY real parameter record P with nd time
                                                 scales and an nd x nd migration matrix whose model is
                                                 one of [sym_models] (one locus; either state space) or
                                                 Kingman with lineage counting (two loci). *)
From PG Require Import base.OpsR model.LinForm model.SpaceChecksSym proofs.SpaceFactsAllRates.
Module C08_all_rates.
Local Close Scope ring_scope.

Theorem C08_deme_permutation_equivariant_all_rates :
  (forall (n nd : nat) (m : cmodel (T:=Q)) (lc : bool) (sigma : list nat),
     In (n, nd) perm_groups1 -> In m sym_models -> In sigma (deme_perms nd) ->
     exists states states' : list state, forall rho : rval,
       perm_spec_R (realP rho nd m lc) 1 nd n sigma states states') /\
  (forall (n nd : nat) (sigma : list nat),
     In (n, nd) perm_groups2 -> In sigma (deme_perms nd) ->
     exists states states' : list state, forall rho : rval,
       perm_spec_R (realP rho nd Kingman true) 2 nd n sigma states states').
Proof. exact deme_permutation_equivariant_all_rates. Qed.
Print Assumptions C08_deme_permutation_equivariant_all_rates.

Theorem C08_deme_permutation_equivariant_all_params :
  forall (n nd : nat) (sigma : list nat) (P : params (T:=R)),
    length (p_tscale P) = nd -> length (p_mig P) = nd ->
    (forall row, In row (p_mig P) -> length row = nd) ->
    In sigma (deme_perms nd) ->
    ((In (n, nd) perm_groups1 /\ exists m, In m sym_models /\ p_model P = cmodel_map Q2R m) ->
       exists states states' : list state, perm_spec_R P 1 nd n sigma states states') /\
    ((In (n, nd) perm_groups2 /\ p_model P = Kingman /\ p_lc P = true) ->
       exists states states' : list state, perm_spec_R P 2 nd n sigma states states').
Proof. exact deme_permutation_equivariant_all_params. Qed.
Print Assumptions C08_deme_permutation_equivariant_all_params.

Local Open Scope Q_scope.
Example C08_all_rates_groups :
  perm_groups1 = [(2,2); (3,2); (4,2); (5,2); (6,2); (2,3); (3,3); (4,3); (2,4)]%nat /\
  perm_groups2 = [(2,2); (3,2); (4,2); (2,3)]%nat /\
  sym_models = [Kingman; Beta (3#2) false; Beta (7#4) false; Dirac (1#3) (5#2) false].
Proof. repeat split; reflexivity. Qed.
Print Assumptions C08_all_rates_groups.
End C08_all_rates.
