(* C20 - Unsupported or invalid requests fail loudly instead of returning numbers.

   Model: model/Validate.v - every guard of the code as a function request -> ok | ValueError |
   NotImplementedError, and the documented domain [in_domain].  The theorems quantify over ALL members
   of each invalid class (all values, all routes).  The tie to the code is the `invalid` stream, which
   compares the model's verdict with the exception class the implementation raises for generated
   members of every class and route, plus a valid-input control stream. *)
From Coq Require Import ZArith QArith List Bool.
From PG Require Import model.Validate proofs.ValidateProofs.
Open Scope Q_scope.

Theorem C20_invalid_requests_fail_loudly : forall r, ~ in_domain r -> outcome r <> Ok.
Proof. exact invalid_requests_fail_loudly. Qed.
Print Assumptions C20_invalid_requests_fail_loudly.

Theorem C20_valid_requests_accepted : forall r, in_domain r -> outcome r = Ok.
Proof. exact valid_requests_accepted. Qed.
Print Assumptions C20_valid_requests_accepted.

Theorem C20_unsupported_is_not_implemented :
  (forall n u rec, (2 < n)%Z -> outcome (RLocusConfig n u rec) = NotImpl) /\
  (forall loci, (1 < loci)%Z -> outcome (RSfsTwoLoci loci) = NotImpl) /\
  (forall loci, (1 < loci)%Z -> outcome (RMultipleMergerLoci true loci) = NotImpl) /\
  (forall len ex theta ne, (1 < ne)%nat -> outcome (RMutationConfig len ex theta ne) = NotImpl).
Proof. exact unsupported_is_not_implemented. Qed.
Print Assumptions C20_unsupported_is_not_implemented.

Theorem C20_every_route_is_guarded :
  (forall (rt : size_route) v, v <= 0 -> outcome (RPopSize rt v) = ValueErr) /\
  (forall (rt : mig_route) v, v < 0 -> outcome (RMigrationRate rt v) = ValueErr) /\
  (forall rec, rec < 0 -> outcome (RRecombinationKeyword rec) = ValueErr).
Proof. exact every_route_is_guarded. Qed.
Print Assumptions C20_every_route_is_guarded.

Theorem C20_examples :
  outcome (RLocusConfig 3 0 0) = NotImpl /\ outcome (RLocusConfig 0 0 0) = ValueErr /\
  outcome (RConstructTimes 2 (Some 1)) = ValueErr /\ outcome (RBetaAlpha (5#2)) = ValueErr /\
  outcome (RDiracPsi 1) = ValueErr /\ outcome (RQuantile (3#2)) = ValueErr /\
  outcome (RPopSize STrajectoryValue (-1)) = ValueErr /\ outcome (RRewardCount 2 3) = ValueErr /\
  outcome (RConstructTimes 0 (Some 3)) = Ok.
Proof. exact invalid_examples. Qed.
Print Assumptions C20_examples.

