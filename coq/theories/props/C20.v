(* C20 - Unsupported or invalid requests fail loudly instead of returning numbers.

   Model: model/Validate.v - every guard of the code as a function request -> ok | ValueError |
   NotImplementedError, and the documented domain [in_domain].  The theorems quantify over ALL members
   of each invalid class (all values, all routes).  The tie to the code is the `invalid` stream, which
   compares the model's verdict with the exception class the implementation raises for generated
   members of every class and route, plus a valid-input control stream. *)
From Coq Require Import ZArith QArith List Bool.
From PG Require Import model.Validate proofs.ValidateProofs.
Open Scope Q_scope.

Theorem C20_invalid_requests_fail_loudly : forall r, ~ in_domain r -> outcome r <> Ok.
Proof. exact invalid_requests_fail_loudly. Qed.
Print Assumptions C20_invalid_requests_fail_loudly.

Theorem C20_valid_requests_accepted : forall r, in_domain r -> outcome r = Ok.
Proof. exact valid_requests_accepted. Qed.
Print Assumptions C20_valid_requests_accepted.

Theorem C20_unsupported_is_not_implemented :
  (forall n u rec, (2 < n)%Z -> outcome (RLocusConfig n u rec) = NotImpl) /\
  (forall loci, (1 < loci)%Z -> outcome (RSfsTwoLoci loci) = NotImpl) /\
  (forall loci, (1 < loci)%Z -> outcome (RMultipleMergerLoci true loci) = NotImpl) /\
  (forall len ex theta ne, (1 < ne)%nat -> outcome (RMutationConfig len ex theta ne) = NotImpl).
Proof. exact unsupported_is_not_implemented. Qed.
Print Assumptions C20_unsupported_is_not_implemented.

Theorem C20_every_route_is_guarded :
  (forall (rt : size_route) v, v <= 0 -> outcome (RPopSize rt v) = ValueErr) /\
  (forall (rt : mig_route) v, v < 0 -> outcome (RMigrationRate rt v) = ValueErr) /\
  (forall rec, rec < 0 -> outcome (RRecombinationKeyword rec) = ValueErr).
Proof. exact every_route_is_guarded. Qed.
Print Assumptions C20_every_route_is_guarded.

Theorem C20_examples :
  outcome (RLocusConfig 3 0 0) = NotImpl /\ outcome (RLocusConfig 0 0 0) = ValueErr /\
  outcome (RConstructTimes 2 (Some 1)) = ValueErr /\ outcome (RBetaAlpha (5#2)) = ValueErr /\
  outcome (RDiracPsi 1) = ValueErr /\ outcome (RQuantile (3#2)) = ValueErr /\
  outcome (RPopSize STrajectoryValue (-1)) = ValueErr /\ outcome (RRewardCount 2 3) = ValueErr /\
  outcome (RConstructTimes 0 (Some 3)) = Ok.
Proof. exact invalid_examples. Qed.
Print Assumptions C20_examples.


(* ---- the SOURCE of LocusConfig.__init__ (translated on every run by translate/configs2coq.py into gen/ConfigsGen.v): its guards,
   in the order the code evaluates them, are the model's, reject every configuration outside the documented domain and accept
   every one inside it ---- *)
From PG Require Import gen.NpConfigs gen.ConfigsGen proofs.GenConfigsEquiv.
Theorem C20_locus_py_guards_are_the_model : forall n u r, LocusConfig_init_verdict n u r = outcome (RLocusConfig n u r).
Proof. exact gen_locus_config_guards. Qed.
Theorem C20_locus_py_rejects_invalid_configurations : forall n u r,
  ~ ((1 <= n <= 2)%Z /\ (0 <= u)%Z /\ (0 <= r)%Q) -> LocusConfig_init_verdict n u r <> Ok.
Proof. exact source_locus_config_rejects. Qed.
Theorem C20_locus_py_accepts_valid_configurations : forall n u r,
  (1 <= n <= 2)%Z -> (0 <= u)%Z -> (0 <= r)%Q -> LocusConfig_init_verdict n u r = Ok.
Proof. exact source_locus_config_accepts. Qed.
Theorem C20_locus_py_more_than_two_loci_not_implemented : forall n u r,
  (2 < n)%Z -> LocusConfig_init_verdict n u r = NotImpl.
Proof. exact source_more_than_two_loci_not_implemented. Qed.
Print Assumptions C20_locus_py_guards_are_the_model.
Print Assumptions C20_locus_py_rejects_invalid_configurations.
Print Assumptions C20_locus_py_accepts_valid_configurations.
Print Assumptions C20_locus_py_more_than_two_loci_not_implemented.

(* ---- the SOURCE of the argument guards at the entry points (translated on every run by translate/guards2coq.py into gen/GuardsGen.v:
   conditions, exception kinds and ORDER, with the values returned before a later guard) is the model's `outcome` ---- *)
From PG Require Import gen.GuardsGen proofs.GenGuardsEquiv.
Theorem C20_distributions_py_construct_times_guards_are_the_model : forall st en,
  TreeHeightDistribution_init_verdict st en = outcome (RConstructTimes st en).
Proof. exact gen_construct_times_eq. Qed.
Theorem C20_distributions_py_mutation_config_guards_are_the_model : forall ne len expected theta,
  SFSDistribution_get_mutation_config_verdict ne len expected theta = outcome (RMutationConfig len expected theta ne).
Proof. exact gen_mutation_config_eq. Qed.
Theorem C20_distributions_py_mutation_config_rejects : forall ne len expected theta,
  ~ ((ne <= 1)%nat /\ (0 <= theta)%Q /\ len = expected) -> SFSDistribution_get_mutation_config_verdict ne len expected theta <> Ok.
Proof. exact source_mutation_config_rejects. Qed.
Theorem C20_distributions_py_reward_count_guard_is_the_model : forall k nr,
  PhaseTypeDistribution_accumulate_verdict k nr = outcome (RRewardCount k nr).
Proof. exact gen_reward_count_eq. Qed.
Theorem C20_distributions_py_quantile_guards : forall q ef,
  ((1 < ef)%Q -> TreeHeightDistribution_quantile_verdict q ef = outcome (RQuantile q)) /\
  ((ef <= 1)%Q -> TreeHeightDistribution_quantile_verdict q ef = ValueErr).
Proof. intros q ef. split; [apply gen_quantile_eq | apply gen_quantile_expansion_factor]. Qed.
Theorem C20_distributions_py_negative_times_rejected_elementwise : forall ts,
  (TreeHeightDistribution_cdf_verdict true ts = ValueErr <-> exists t, In t ts /\ outcome (RCdfTime t) = ValueErr) /\
  (PhaseTypeDistribution__accumulate_verdict ts = ValueErr <-> exists t, In t ts /\ outcome (RAccumulateTime t) = ValueErr).
Proof. intros ts. split; [apply gen_cdf_times_eq | apply gen_accumulate_times_eq]. Qed.
Theorem C20_state_space_py_guards_are_the_model : forall (n : Z) r,
  BlockCountingStateSpace_init_verdict (Some n) = outcome (RSfsTwoLoci n) /\ Transition_recombine_verdict 2 r = outcome (RRecombinationKeyword r).
Proof. intros n r. split; [apply gen_sfs_two_loci_eq | apply gen_recombine_eq]. Qed.
Print Assumptions C20_distributions_py_construct_times_guards_are_the_model.
Print Assumptions C20_distributions_py_mutation_config_guards_are_the_model.
Print Assumptions C20_distributions_py_mutation_config_rejects.
Print Assumptions C20_distributions_py_reward_count_guard_is_the_model.
Print Assumptions C20_distributions_py_quantile_guards.
Print Assumptions C20_distributions_py_negative_times_rejected_elementwise.
Print Assumptions C20_state_space_py_guards_are_the_model.
