(* C18 - Serialisation round-trips preserve configuration and results.

   Model: model/Serial.v.  The codec (jsonpickle keys=True with the numpy handlers, dill for the
   callables of Inference) is a section variable with the round-trip contract dec (enc v) = Some v;
   it is exercised on every run by the stream, not modelled.  "Statistics are a pure function of
   the configuration" is C17's theorem. *)
From Coq Require Import List.
From PG Require Import model.Serial proofs.SerialProofs.

Section C18.
  Variables Config Caches Json : Type.
  Variable drop : Caches -> Caches.
  Variable enc : Config * Caches -> Json.
  Variable dec : Json -> option (Config * Caches).
  Hypothesis codec_roundtrip : forall v, dec (enc v) = Some v.
  Variables Stat Value : Type.
  Variable stat : Config -> Stat -> Value.

  Theorem C18_roundtrip_preserves_config : forall o : obj Config Caches,
    exists o', from_json Config Caches Json dec (snd (to_json Config Caches Json drop enc o)) = Some o'
               /\ o_config Config Caches o' = o_config Config Caches o
               /\ o_caches Config Caches o' = drop (o_caches Config Caches o).
  Proof. intros; apply roundtrip_preserves_config; assumption. Qed.

  Theorem C18_save_does_not_alter_original : forall o : obj Config Caches,
    fst (to_json Config Caches Json drop enc o) = o.
  Proof. intros; apply save_does_not_alter_original. Qed.

  Theorem C18_results_after_load : forall (o : obj Config Caches) s,
    exists o', from_json Config Caches Json dec (snd (to_json Config Caches Json drop enc o)) = Some o'
               /\ query Config Caches Stat Value stat o' s = query Config Caches Stat Value stat o s.
  Proof. intros; apply results_after_load; assumption. Qed.

  Theorem C18_repeated_cycles : forall n (o : obj Config Caches),
    exists o', cycles Config Caches Json drop enc dec n o = Some o'
               /\ o_config Config Caches o' = o_config Config Caches o
               /\ forall s, query Config Caches Stat Value stat o' s = query Config Caches Stat Value stat o s.
  Proof. intros; apply repeated_cycles; assumption. Qed.
End C18.
Print Assumptions C18_roundtrip_preserves_config.
Print Assumptions C18_save_does_not_alter_original.
Print Assumptions C18_results_after_load.
Print Assumptions C18_repeated_cycles.

(* non-vacuity: the identity codec satisfies the contract *)
Example C18_contract_satisfiable :
  forall v : nat * nat, (fun j => Some j) ((fun x : nat * nat => x) v) = Some v.
Proof. reflexivity. Qed.
Print Assumptions C18_contract_satisfiable.

(* ---- the serialisation code (phasegen/serialization.py, Coalescent.__getstate__ / __setstate__ / to_json, Inference.__getstate__ /
   __setstate__), PINNED in gen/SerialGen.v and re-checked against the source on every run by translate/serial2coq.py; its reading is
   model/Serial.v: everything but the rate-matrix caches, the two shared state spaces and the (dill-pickled) callables is part of the
   serialised configuration ---- *)
From PG Require Import gen.SerialGen proofs.GenSerialEquiv.
Theorem C18_source_roundtrip_preserves_config :
  forall (Config Caches Json : Type) (drop : Caches -> Caches) (enc : Config * Caches -> Json) (dec : Json -> option (Config * Caches)),
    (forall v, dec (enc v) = Some v) ->
  forall o : obj Config Caches,
    exists o', Serializable_from_json Config Caches Json dec (snd (Coalescent_to_json Config Caches Json drop enc o)) = Some o'
               /\ o_config Config Caches o' = o_config Config Caches o
               /\ o_caches Config Caches o' = drop (o_caches Config Caches o).
Proof. exact gen_roundtrip_preserves_config. Qed.
Print Assumptions C18_source_roundtrip_preserves_config.

Theorem C18_source_repeated_cycles :
  forall (Config Caches Json : Type) (drop : Caches -> Caches) (enc : Config * Caches -> Json) (dec : Json -> option (Config * Caches)),
    (forall v, dec (enc v) = Some v) ->
  forall (Stat Value : Type) (stat : Config -> Stat -> Value) n (o : obj Config Caches),
    exists o', save_load_cycles Config Caches Json drop enc dec n o = Some o'
               /\ o_config Config Caches o' = o_config Config Caches o
               /\ forall s, query Config Caches Stat Value stat o' s = query Config Caches Stat Value stat o s.
Proof. exact gen_repeated_cycles. Qed.
Print Assumptions C18_source_repeated_cycles.
