(* C10 - Accumulation over time is consistent: refinement, truncation, additivity.

   Proved for the propagation loop of _accumulate / cdf (model/Loop.v) over any monoid of matrices
   and any family of propagators with the semigroup laws: inserting a redundant change point never
   changes a result; evaluating on any grid (any order, repeats) gives, at each point, the value of
   evaluating that point alone (so refining the grid changes nothing); continuing from an earlier
   evaluation point equals evaluating from scratch; evaluation on an epoch boundary is independent
   of the boundary convention.  For the default horizon (model/Search.v, repaired condition): the
   search returns a time whose absorption probability reaches p_absorption, or the warning flag is
   set - never a silent truncation.
   Raw accumulation curves of FIRST moments of non-negative rewards are non-decreasing: proved for the translated
   _accumulate on any demography with generator rate matrices (C10_source_first_moment_curve_nondecreasing at the end of this
   file; analysis/SourceMonotone.v).  The same for raw moments of EVERY order k:
   C10_source_moment_curve_nondecreasing (analysis/SourceMonotoneK.v). *)
From Coq Require Import QArith List.
From PG Require Import base.Perm model.Loop proofs.LoopProofs model.Search proofs.SearchProofs.
Import ListNotations.
Open Scope Q_scope.

Section C10loop.
  Variables M V : Type.
  Variable mul : M -> M -> M.
  Variable one : M.
  Variable step : V -> Q -> M.
  Hypothesis mulA : forall a b c, mul a (mul b c) = mul (mul a b) c.
  Hypothesis mul1l : forall a, mul one a = a.
  Hypothesis mul1r : forall a, mul a one = a.
  Hypothesis step_proper : forall v a b, a == b -> step v a = step v b.
  Hypothesis step0 : forall v, step v 0 = one.
  Hypothesis step_add : forall v a b, 0 <= a -> 0 <= b -> mul (step v a) (step v b) = step v (a + b).
  Theorem C10_redundant_change_point :
    forall (vlast : V) (epochs : list (Q * V)) (c u : Q),
      epochs_wf V 0 epochs -> 0 < c -> 0 <= u ->
      eval_at M V mul one step (split_epoch V c vlast epochs) vlast u
      = eval_at M V mul one step epochs vlast u.
  Proof. intros; apply redundant_change_point; assumption. Qed.
  Theorem C10_grid_refinement :
    forall (vlast : V) (epochs : list (Q * V)) (ts : list Q) (i : nat),
      epochs_wf V 0 epochs -> Forall (fun t => 0 <= t) ts -> (i < length ts)%nat ->
      nth i (loop_vectorised M V mul one step epochs vlast ts) one
      = nth 0 (loop_vectorised M V mul one step epochs vlast [nth i ts 0]) one.
  Proof. intros; apply loop_vectorised_singleton; assumption. Qed.
  Theorem C10_continuation_equals_from_scratch :
    forall (vlast : V) (epochs : list (Q * V)) (u1 u2 : Q),
      epochs_wf V 0 epochs -> 0 <= u1 -> u1 <= u2 ->
      lQ (advance M V mul step vlast (advance M V mul step vlast (init M V one epochs) u1) u2)
      = eval_at M V mul one step epochs vlast u2.
  Proof. intros; apply advance_advance; assumption. Qed.
End C10loop.
Print Assumptions C10_redundant_change_point.
Print Assumptions C10_grid_refinement.
Print Assumptions C10_continuation_equals_from_scratch.

Theorem C10_default_horizon_or_warning : forall (F : Q -> Q) t0 p_abs max_iter,
  p_abs <= F (fst (horizon F t0 p_abs max_iter)) \/ snd (horizon F t0 p_abs max_iter) = true.
Proof. exact horizon_never_silent. Qed.
Print Assumptions C10_default_horizon_or_warning.

Example C10_horizon_example :
  (let '(t, w) := horizon exF 1 (99 # 100) 20 in Qred t = 128 /\ w = false) /\
  (let '(t, w) := horizon exF 1 (99 # 100) 3 in Qred t = 16 /\ w = true).
Proof. exact ex_horizon. Qed.
Print Assumptions C10_horizon_example.

(* ---- the SOURCE of PhaseTypeDistribution.moment (translated on every run by translate/moments2coq.py into gen/MomentsGen.v):
   a moment with an end time IS the accumulation at that time, a moment over a window is the difference of two accumulations
   of one call, and the default window is that of the tree-height distribution ---- *)
From Coq Require Import Reals.
From PG Require Import base.Ops base.OpsR model.CoalModels model.Matrix model.PhaseType gen.NpMoments gen.MomentsGen proofs.GenMomentsEquiv.
Import ListNotations.
Section C10source.
  Variable expm : mat (T:=R) -> mat (T:=R).
  Variables (Ss : list (Q * mat (T:=R))) (Slast : mat (T:=R)) (alpha : vec (T:=R)) (lam : R).
  Variable self_reward : vec (T:=R).
  Variables self_start_time self_t_max : Q.
  Notation raw := (raw_model expm Ss Slast alpha lam).

  Theorem C10_distributions_py_moment_with_end_time_is_the_accumulation_at_that_time : forall k Rs c p st en,
    length Rs = k -> (st <= 0)%Q ->
    PhaseTypeDistribution_moment OpsR raw self_reward self_start_time self_t_max k (Some Rs) (Some st) (Some en) c p
    = nth 0 (PhaseTypeDistribution_accumulate OpsR raw self_reward k [en] (Some Rs) c p) 0%R.
  Proof. exact (source_moment_is_accumulate_at_end expm Ss Slast alpha lam self_reward self_start_time self_t_max). Qed.

  Theorem C10_distributions_py_moment_over_a_window_is_a_difference : forall k Rs c p st en,
    length Rs = k -> (0 < st)%Q ->
    PhaseTypeDistribution_moment OpsR raw self_reward self_start_time self_t_max k (Some Rs) (Some st) (Some en) c p
    = (nth 1 (PhaseTypeDistribution_accumulate OpsR raw self_reward k [st; en] (Some Rs) c p) 0
       - nth 0 (PhaseTypeDistribution_accumulate OpsR raw self_reward k [st; en] (Some Rs) c p) 0)%R.
  Proof. exact (source_moment_window expm Ss Slast alpha lam self_reward self_start_time self_t_max). Qed.
End C10source.
Print Assumptions C10_distributions_py_moment_with_end_time_is_the_accumulation_at_that_time.
Print Assumptions C10_distributions_py_moment_over_a_window_is_a_difference.

(* ---- the SOURCE of the default horizon (TreeHeightDistribution._get_absorption_time / t_max, translated on every run by
   translate/search2coq.py into gen/SearchGen.v): the doubling search runs on the source's own distribution function, and when no
   warning is logged the probability required was reached at the time that is used ---- *)
From mathcomp Require Import all_ssreflect all_algebra.
From PG Require Import analysis.Rstruct analysis.RSums analysis.MExp analysis.Denote analysis.CdfFacts.
From PG Require Import gen.NpLoops gen.SearchGen proofs.GenSearchEquiv analysis.SourceSearch.
Delimit Scope Q_scope with QQ.
Theorem C10_distributions_py_horizon_is_the_search_on_its_own_cdf :
  forall (expm : seq (seq R) -> seq (seq R)),
    (forall n A, wf n n A -> wf n n (expm A) /\ mx_of n n (expm A) = mexp (mx_of n n A)) ->
  forall (lt_TQ : R -> Q -> bool) (n : nat) (Ss : seq (Q * seq (seq R))) (Slast : seq (seq R)) (alpha e : seq R),
    all_wf n Ss -> wf n n Slast -> size e = n -> epochs_wf (seq (seq R)) 0%QQ Ss ->
  forall (t0 p_abs : Q) (max_iter : nat), (0 <= t0)%QQ ->
    TreeHeightDistribution_get_absorption_time OpsR expm lt_TQ n alpha e (pos_of Slast Ss).1 (pos_of Slast Ss).2 t0 p_abs max_iter
    = t_horizon (cdf_at expm Ss Slast alpha e) lt_TQ t0 p_abs max_iter.
Proof. exact @source_horizon_is_search_on_cdf. Qed.
Print Assumptions C10_distributions_py_horizon_is_the_search_on_its_own_cdf.

Theorem C10_distributions_py_default_horizon_or_warning :
  forall (expm : seq (seq R) -> seq (seq R)),
    (forall n A, wf n n A -> wf n n (expm A) /\ mx_of n n (expm A) = mexp (mx_of n n A)) ->
  forall n Ss Slast alpha e t0 p_abs max_iter,
    all_wf n Ss -> wf n n Slast -> size e = n -> epochs_wf (seq (seq R)) 0%QQ Ss -> (0 <= t0)%QQ ->
    let lt_RQ := fun (x : R) (q : Q) => if Rlt_dec x (Q2R q) then true else false in
    let r := TreeHeightDistribution_get_absorption_time OpsR expm lt_RQ n alpha e (pos_of Slast Ss).1 (pos_of Slast Ss).2 t0 p_abs max_iter in
    r.2 = false -> Rle (Q2R p_abs) (cdf_at expm Ss Slast alpha e r.1).
Proof. exact @source_horizon_sound. Qed.
Print Assumptions C10_distributions_py_default_horizon_or_warning.

(* raw first-moment accumulation curves of non-negative rewards never decrease (translated _accumulate, any demography) *)
From PG Require Import gen.LoopsGen analysis.SourceLinear analysis.SourceMonotone.
Theorem C10_source_first_moment_curve_nondecreasing :
  forall (expm : seq (seq R) -> seq (seq R)),
    (forall n A, wf n n A -> wf n n (expm A) /\ mx_of n n (expm A) = mexp (mx_of n n A)) ->
  forall (regf : seq (seq R) -> R) (n : nat) (Ss : seq (Q * seq (seq R))) (Slast : seq (seq R)) (alpha r : seq R) (t1 t2 : Q),
    regf (List.hd (None, Slast) (all_epochs Ss Slast)).2 <> 0%R ->
    List.Forall (fun x : Q * seq (seq R) => is_generator n x.2) Ss -> is_generator n Slast ->
    (forall j, (j < n)%N -> Rle R0 (nth 0%R alpha j)) ->
    size r = n -> (forall j, (j < n)%N -> Rle R0 (nth 0%R r j)) ->
    epochs_wf (seq (seq R)) 0%QQ Ss -> (0 <= t1)%QQ -> (t1 <= t2)%QQ ->
    Rle (nth 0%R (acc1 expm regf Ss Slast alpha [:: t1] r) 0%N) (nth 0%R (acc1 expm regf Ss Slast alpha [:: t2] r) 0%N).
Proof. exact: source_first_moment_monotone. Qed.
Print Assumptions C10_source_first_moment_curve_nondecreasing.

(* a redundant change point changes nothing (translated _accumulate / cdf, any demography, any order, any times) *)
From PG Require Import analysis.SourceRefine.
Theorem C10_source_accumulate_redundant_change_point :
  forall (expm : seq (seq R) -> seq (seq R)),
    (forall n A, wf n n A -> wf n n (expm A) /\ mx_of n n (expm A) = mexp (mx_of n n A)) ->
  forall (regf : seq (seq R) -> R) (n k : nat) (Ss : seq (Q * seq (seq R))) (Slast : seq (seq R)) (Rs : seq (seq R))
         (alpha : seq R) (ts : seq Q) (c : Q),
    regf (List.hd (None, Slast) (all_epochs Ss Slast)).2 <> 0%R ->
    List.Forall (fun x : Q * seq (seq R) => wf n n x.2) Ss -> wf n n Slast ->
    (forall i, (i < k)%N -> size (nth [::] Rs i) = n) ->
    epochs_wf (seq (seq R)) 0%QQ Ss -> epochs_wf (seq (seq R)) 0%QQ (split_epoch _ c Slast Ss) -> (0 < c)%QQ ->
    List.Forall (fun t => (0 <= t)%QQ) ts ->
    PhaseTypeDistribution_accumulate OpsR expm regf (length Slast) k (all_epochs (split_epoch _ c Slast Ss) Slast) Rs alpha ts
    = PhaseTypeDistribution_accumulate OpsR expm regf (length Slast) k (all_epochs Ss Slast) Rs alpha ts.
Proof. exact: source_accumulate_redundant_change_point. Qed.
Print Assumptions C10_source_accumulate_redundant_change_point.

Theorem C10_source_cdf_redundant_change_point :
  forall (expm : seq (seq R) -> seq (seq R)),
    (forall n A, wf n n A -> wf n n (expm A) /\ mx_of n n (expm A) = mexp (mx_of n n A)) ->
  forall (n : nat) (Ss : seq (Q * seq (seq R))) (Slast : seq (seq R)) (alpha e : seq R) (ts : seq Q) (c : Q),
    List.Forall (fun x : Q * seq (seq R) => wf n n x.2) Ss -> wf n n Slast -> size e = n ->
    epochs_wf (seq (seq R)) 0%QQ Ss -> epochs_wf (seq (seq R)) 0%QQ (split_epoch _ c Slast Ss) -> (0 < c)%QQ ->
    List.Forall (fun t => (0 <= t)%QQ) ts ->
    TreeHeightDistribution_cdf OpsR expm (length Slast) (all_epochs (split_epoch _ c Slast Ss) Slast) alpha e ts
    = TreeHeightDistribution_cdf OpsR expm (length Slast) (all_epochs Ss Slast) alpha e ts.
Proof. exact: source_cdf_redundant_change_point. Qed.
Print Assumptions C10_source_cdf_redundant_change_point.

(* raw accumulation curves of ANY order of non-negative rewards never decrease (translated _accumulate, any demography) *)
From PG Require Import analysis.SourceMonotoneK.
Theorem C10_source_moment_curve_nondecreasing :
  forall (expm : seq (seq R) -> seq (seq R)),
    (forall n A, wf n n A -> wf n n (expm A) /\ mx_of n n (expm A) = mexp (mx_of n n A)) ->
  forall (regf : seq (seq R) -> R) (n k : nat) (Ss : seq (Q * seq (seq R))) (Slast : seq (seq R))
         (alpha : seq R) (Rs : seq (seq R)) (t1 t2 : Q),
    regf (List.hd (None, Slast) (all_epochs Ss Slast)).2 <> 0%R ->
    List.Forall (fun x : Q * seq (seq R) => is_generator n x.2) Ss -> is_generator n Slast ->
    (forall j, (j < n)%N -> Rle R0 (nth 0%R alpha j)) ->
    (forall i, (i < k)%N -> size (nth [::] Rs i) = n) -> (forall i j, Rle R0 (nth 0%R (nth [::] Rs i) j)) ->
    epochs_wf (seq (seq R)) 0%QQ Ss -> (0 <= t1)%QQ -> (t1 <= t2)%QQ ->
    Rle (nth 0%R (PhaseTypeDistribution_accumulate OpsR expm regf (length Slast) k (all_epochs Ss Slast) Rs alpha [:: t1]) 0%N)
        (nth 0%R (PhaseTypeDistribution_accumulate OpsR expm regf (length Slast) k (all_epochs Ss Slast) Rs alpha [:: t2]) 0%N).
Proof. exact: source_moment_monotone. Qed.
Print Assumptions C10_source_moment_curve_nondecreasing.
