(* C02 - Site-frequency-spectrum moments equal those of the true coalescent.

   (1) Per-bin rewards (model/Rewards.v): the folded reward is the fold of the unfolded one; the
   unfolded rewards are the counts of blocks of each size and sum to the branch-length reward (every
   block-counting state with sum_i i a_i = n).  (2) The block-counting merger rates, including
   multiple mergers, sum over all outcomes of one reduction to the lineage-counting rate - all block
   vectors, all k, three models (generalised Vandermonde).  (3) The block-counting chain is the
   lumping of the labelled coalescent with "number of blocks of size i" as rewards (C04, bounded),
   and k-th order cross moments transfer along ANY such lumping for every backend obeying the laws
   of the matrix exponential - stated below for second-order cross moments of two bins.
   Assembly (zeros at 0 and n, bin i at index i), symmetrisation (M + M^T)/2 - mu mu^T and the
   correlation matrix are compared entry by entry by the sfs stream. *)
From Coq Require Import ZArith Reals List Arith.
From PG Require Import base.Ops base.OpsR model.CoalModels model.StateSpace model.Rewards model.LambdaSpec
                       proofs.RewardProofs proofs.BlockSumProofs.
Import ListNotations.
Local Open Scope R_scope.

Theorem C02_folded_reward_is_fold :
  forall n i s, (1 <= i)%nat -> (i <= n - i)%nat ->
    reward_get OpsR n (RFoldedSFS i) s
    = if Nat.eqb i (n - i) then reward_get OpsR n (RUnfoldedSFS i) s
      else reward_get OpsR n (RUnfoldedSFS i) s + reward_get OpsR n (RUnfoldedSFS (n - i)) s.
Proof. exact folded_is_fold. Qed.
Print Assumptions C02_folded_reward_is_fold.

Theorem C02_bins_sum_to_branch_length :
  forall n s, (2 <= n)%nat -> bc_inv n s ->
    fold_right Rplus 0 (map (fun i => reward_get OpsR n (RUnfoldedSFS i) s) (seq 1 (n - 1)))
    = reward_get OpsR n RTotalBranchLength s.
Proof. exact sfs_sums_to_branch_length. Qed.
Print Assumptions C02_bins_sum_to_branch_length.

Theorem C02_block_counting_rates_sum :
  forall (m : cmodel (T:=R)) (blocks : list nat) (k : nat),
    wf_blocks blocks ->
    (2 <= length blocks)%nat -> (2 <= k)%nat ->
    outcome_rate_sum m blocks k = get_rate_bk OpsR m (sum_nat blocks) k.
Proof. exact block_outcomes_sum. Qed.
Print Assumptions C02_block_counting_rates_sum.

Theorem C02_vandermonde_general :
  forall (blocks : list nat) (k : nat),
    Zlsum (map (fun comb => if Nat.eqb (sum_nat comb) k then prodb blocks comb else 0%Z)
               (all_combs blocks))
    = binom (sum_nat blocks) k.
Proof. exact vandermonde_general. Qed.
Print Assumptions C02_vandermonde_general.

(* ---- the SOURCE of the assembly of the SFS statistics (SFSDistribution.moment / cov / get_cov and the bin indices; pinned on every run by
   translate/sfs2coq.py into gen/SfsGen.v): the spectrum has n + 1 entries with zeros at 0 and n and the bin moments in between; the
   covariance entry (a, b) is (A a b + A b a) / 2 - mean_a mean_b with A the ordered raw second moments of the bins; it is symmetric ---- *)
From PG Require Import gen.NpSfs gen.SfsGen proofs.GenSfsEquiv.
Theorem C02_distributions_py_unfolded_spectrum_layout :
  forall (T : Type) (OP : Ops T) (Rw : Type) (combined : Rw -> nat -> Rw) (pmoment : nat -> list Rw -> bool -> bool -> T) (self_reward : Rw)
         n k rewards c p,
    (1 <= n)%nat ->
    nth 0 (SFSDistribution_moment OP Rw combined pmoment self_reward n (UnfoldedSFSDistribution_get_indices n) k (Some rewards) c p) (o0 OP) = o0 OP /\
    nth n (SFSDistribution_moment OP Rw combined pmoment self_reward n (UnfoldedSFSDistribution_get_indices n) k (Some rewards) c p) (o0 OP) = o0 OP /\
    (forall i, (1 <= i)%nat -> (i < n)%nat ->
       nth i (SFSDistribution_moment OP Rw combined pmoment self_reward n (UnfoldedSFSDistribution_get_indices n) k (Some rewards) c p) (o0 OP)
       = SFSDistribution__moment Rw combined pmoment k i rewards c p).
Proof.
  intros T OP Rw combined pmoment self_reward n k rewards c p Hn.
  destruct (gen_sfs_unfolded_borders OP Rw combined pmoment self_reward n k rewards c p Hn) as [H0 H1].
  split; [exact H0 | split; [exact H1 | intros i Hi1 Hi2; apply gen_sfs_unfolded_entry; assumption]].
Qed.
Theorem C02_distributions_py_covariance_entry :
  forall (T : Type) (OP : Ops T) (Rw : Type) (combined : Rw -> nat -> Rw) (pmoment : nat -> list Rw -> bool -> bool -> T) (self_reward : Rw)
         n indices mean a b,
    NoDup indices -> Forall (fun i => (i < n + 1)%nat) indices -> length mean = (n + 1)%nat -> (a < n + 1)%nat -> (b < n + 1)%nat ->
    mget OP (SFSDistribution_cov OP Rw combined pmoment self_reward n indices mean) a b
    = osub OP (odiv OP (oadd OP (A2 OP Rw combined pmoment self_reward indices a b) (A2 OP Rw combined pmoment self_reward indices b a)) (oofN OP 2))
              (omul OP (nth a mean (o0 OP)) (nth b mean (o0 OP))).
Proof. exact @gen_sfs_cov_entry. Qed.
Theorem C02_distributions_py_covariance_symmetric :
  forall (Rw : Type) (combined : Rw -> nat -> Rw) (pmoment : nat -> list Rw -> bool -> bool -> R) (self_reward : Rw) n indices mean a b,
    NoDup indices -> Forall (fun i => (i < n + 1)%nat) indices -> length mean = (n + 1)%nat -> (a < n + 1)%nat -> (b < n + 1)%nat ->
    mget OpsR (SFSDistribution_cov OpsR Rw combined pmoment self_reward n indices mean) a b
    = mget OpsR (SFSDistribution_cov OpsR Rw combined pmoment self_reward n indices mean) b a.
Proof. exact gen_sfs_cov_symmetric. Qed.
Print Assumptions C02_distributions_py_unfolded_spectrum_layout.
Print Assumptions C02_distributions_py_covariance_entry.
Print Assumptions C02_distributions_py_covariance_symmetric.

(* ---- the SOURCE of utils.parallelize (pinned on every run by translate/utils2coq.py into gen/UtilsGen.v): the reading "ordered map" that
   the assembly above assumes of it holds whatever the parallelize / pbar flags: entry i of the result is func of entry i of the data ---- *)
From PG Require Import gen.UtilsGen proofs.GenUtilsEquiv.
Theorem C02_utils_py_parallelize_is_ordered_map :
  forall (A B : Type) (func : A -> B) (data : list A) (par pbar : bool),
    parallelize func data par pbar = map func data /\
    (forall i da db, (i < length data)%nat -> nth i (parallelize func data par pbar) db = func (nth i data da)).
Proof.
  intros A B func data par pbar. split; [apply gen_parallelize_is_ordered_map | intros i da db Hi; apply gen_parallelize_entry; exact Hi].
Qed.
Print Assumptions C02_utils_py_parallelize_is_ordered_map.

(* ---- two ties composed: the translated accumulate (moments tie, gen/MomentsGen.v) inside the pinned SFS assembly (sfs tie, gen/SfsGen.v).
   On ANY piecewise-constant demography and at any end time the matrix route sfs.cov[a, b] and the scalar route sfs.get_cov(a, b) are the
   same real number for all bins 1 <= a, b <= n - 1, and the diagonal of sfs.cov is the variance spectrum sfs.var ---- *)
From Coq Require Import Reals.
From PG Require Import model.Matrix model.PhaseType proofs.SourceSfsRoutes.
Theorem C02_source_cov_matrix_entry_is_get_cov :
  forall (expm : mat (T:=R) -> mat (T:=R)) (Ss : list (QArith_base.Q * mat (T:=R))) (Slast : mat (T:=R)) (alpha : vec (T:=R)) (lam : R)
         (dist_reward : vec (T:=R)) (combined : vec (T:=R) -> nat -> vec (T:=R)) (self_reward : vec (T:=R)) (t : QArith_base.Q) (n a b : nat),
    (1 <= a)%nat -> (a < n)%nat -> (1 <= b)%nat -> (b < n)%nat ->
    let pm := pmoment_src expm Ss Slast alpha lam dist_reward t in
    let indices := UnfoldedSFSDistribution_get_indices n in
    let mean := SFSDistribution_moment OpsR _ combined pm self_reward n indices 1 None true true in
    mget OpsR (SFSDistribution_cov OpsR _ combined pm self_reward n indices mean) a b = SFSDistribution_get_cov OpsR _ combined pm self_reward n a b.
Proof. intros expm Ss Slast alpha lam dist_reward combined self_reward t n a b. apply source_sfs_cov_matrix_entry_is_get_cov. Qed.
Theorem C02_source_cov_diagonal_is_var :
  forall (expm : mat (T:=R) -> mat (T:=R)) (Ss : list (QArith_base.Q * mat (T:=R))) (Slast : mat (T:=R)) (alpha : vec (T:=R)) (lam : R)
         (dist_reward : vec (T:=R)) (combined : vec (T:=R) -> nat -> vec (T:=R)) (self_reward : vec (T:=R)) (t : QArith_base.Q) (n a : nat),
    (1 <= a)%nat -> (a < n)%nat ->
    let pm := pmoment_src expm Ss Slast alpha lam dist_reward t in
    let indices := UnfoldedSFSDistribution_get_indices n in
    let mean := SFSDistribution_moment OpsR _ combined pm self_reward n indices 1 None true true in
    mget OpsR (SFSDistribution_cov OpsR _ combined pm self_reward n indices mean) a a
    = nth a (SFSDistribution_moment OpsR _ combined pm self_reward n indices 2 None true true) 0%R.
Proof. intros expm Ss Slast alpha lam dist_reward combined self_reward t n a. apply source_sfs_cov_diagonal_is_var. Qed.
Print Assumptions C02_source_cov_matrix_entry_is_get_cov.
Print Assumptions C02_source_cov_diagonal_is_var.

From mathcomp Require Import all_ssreflect all_algebra.
From PG Require Import proofs.ExpLaws.
Set Implicit Arguments. Unset Strict Implicit. Unset Printing Implicit Defensive.
Import GRing.Theory.
Local Open Scope ring_scope.
Section C02.
Variable R : comRingType.
Variable expm : forall n : nat, 'M[R]_n -> 'M[R]_n.
Hypothesis expm0 : forall n, expm (0 : 'M[R]_n) = 1%:M.
Hypothesis expmD : forall n (A B : 'M[R]_n), A *m B = B *m A -> expm (A + B) = expm A *m expm B.
Hypothesis expm_intertwine : forall m n (A : 'M[R]_m) (B : 'M[R]_n) (P : 'M[R]_(m, n)),
    A *m P = P *m B -> expm A *m P = P *m expm B.
(* second-order cross moment of two bins i, j: rewards RL 0, RL 1 on the labelled chain (number of
   blocks of size i resp. j), RC 0, RC 1 on the block-counting chain *)
Theorem C02_sfs_cross_moments_transfer_given_ExpLaws :
  forall m n (P : 'M[R]_(m, n)) (SL : 'M[R]_m) (SC : 'M[R]_n) (RL : nat -> 'M[R]_m) (RC : nat -> 'M[R]_n)
         (aL : 'rV[R]_m) (eC : 'cV[R]_n) (t : R),
    SL *m P = P *m SC -> (forall i, (i < 2)%N -> RL i *m P = P *m RC i) ->
    aL *m vltr (k:=2) (expm (t *: vl SL RL 2)) *m (P *m eC)
    = (aL *m P) *m vltr (k:=2) (expm (t *: vl SC RC 2)) *m eC.
Proof. by move=> *; apply: mk_lumping. Qed.
(* first moments are additive in the reward: the mean SFS sums to the mean branch length *)
Theorem C02_mean_additive_in_reward_given_ExpLaws :
  forall n (a : 'rV[R]_n) (S R1 R2 : 'M[R]_n) (t : R),
    m1 expm a S (R1 + R2) t = m1 expm a S R1 t + m1 expm a S R2 t.
Proof. by move=> *; apply: m1_additive. Qed.
End C02.
Print Assumptions C02_sfs_cross_moments_transfer_given_ExpLaws.
Print Assumptions C02_mean_additive_in_reward_given_ExpLaws.

(* ------------------------------------------------------------------------------------------------
   Unconditional over the reals: the laws E0-E2 (and positivity) are theorems about the real matrix
   exponential mexp (analysis/MExp.v: entrywise limit of the exponential series), so the statements
   above hold for the matrix exponential itself, not only "given ExpLaws". *)
From PG Require Import analysis.Rstruct analysis.RSums analysis.MExp analysis.MExpLaws.

Theorem C02_sfs_cross_moments_transfer_real :
  forall m n (P : 'M[R]_(m, n)) (SL : 'M[R]_m) (SC : 'M[R]_n) (RL : nat -> 'M[R]_m) (RC : nat -> 'M[R]_n)
         (aL : 'rV[R]_m) (eC : 'cV[R]_n) (t : R),
    SL *m P = P *m SC -> (forall i, (i < 2)%N -> RL i *m P = P *m RC i) ->
    aL *m vltr (k:=2) (mexp (t *: vl SL RL 2)) *m (P *m eC)
    = (aL *m P) *m vltr (k:=2) (mexp (t *: vl SC RC 2)) *m eC.
Proof. by move=> *; apply: real_mk_lumping. Qed.
Print Assumptions C02_sfs_cross_moments_transfer_real.

(* ------------------------------------------------------------------------------------------------
   The MODEL's moment function [accumulate_raw] (model/PhaseType.v; the transcription of
   PhaseTypeDistribution._accumulate, which computes every SFS moment: one call per bin / pair of
   bins with the reward vectors of model/Rewards.v), run over the reals with a backend [expm]
   denoting the real matrix exponential (analysis/DenotePhaseType.v; see props/C01.v for the
   contract and for the hypothesis-free backend [expm_ideal]).

   C02_model_accumulate_pointwise.  For any piecewise-constant demography Ss/Slast (epoch start
   times increasing from 0), any order k and reward vectors Rs, any lam <> 0 and any list of
   non-negative times (any order, repeats allowed), the list returned by the model is, time by
   time, k! * alpha * (top-right block of T(t)) * 1  ([mk_val]), where T(t) is the ordered product
   over the epochs traversed up to t of mexp (duration *: VanLoan(S_epoch; diag Rs)) ([evalM] over
   [denCk]: the un-regularised Van Loan matrices).  So each returned entry depends on its own time
   only, and on the demography only through the epochs before that time.

   C02_model_moments_lump.  If P (m x n, rows summing to one: P 1 = 1) intertwines, in every epoch,
   the generator of a fine chain L with that of a coarse chain C, and the reward matrices
   diag RsL_i P = P diag RsC_i for the k rewards, then the model returns THE SAME list of k-th order
   (cross) moments on L started from alphaL and on C started from alphaL P.  With L the labelled
   coalescent and C the block-counting chain (C04) this is "the SFS moments computed on the
   block-counting state space are those of the labelled coalescent". *)
From Coq Require Import QArith Qreals.
From PG Require Import model.Matrix model.Loop model.PhaseType
                       analysis.Denote analysis.CdfFacts analysis.DenotePhaseType.
(* QArith rebinds the keys %Q and %N; restore the mathcomp convention %N = nat_scope, use %QQ for Q *)
Delimit Scope Q_scope with QQ.
Delimit Scope nat_scope with N.
Local Open Scope ring_scope.

Theorem C02_model_accumulate_pointwise :
  forall (n k : nat) (Ss : seq (Q * seq (seq R))) (Slast Rs : seq (seq R)) (alpha : seq R)
         (lam : R) (ts : seq Q),
    lam <> 0 ->
    List.Forall (fun x : Q * seq (seq R) => wf n n x.2) Ss -> wf n n Slast ->
    (forall i, (i < k)%N -> size (nth [::] Rs i) = n) ->
    epochs_wf (seq (seq R)) 0%QQ Ss -> List.Forall (fun t => (0 <= t)%QQ) ts ->
    accumulate_raw OpsR expm_ideal k Ss Slast Rs alpha lam ts =
    List.map (fun t => mk_val alpha
       (evalM (vlsz n k) (denCk n k Rs Ss) (vl (mx_of n n Slast) (rwd n Rs) k) t)) ts.
Proof. exact: (accumulate_pointwise expm_ideal_sound). Qed.
Print Assumptions C02_model_accumulate_pointwise.

Theorem C02_model_accumulate_pointwise_any_sound_backend :
  forall expm : seq (seq R) -> seq (seq R),
    (forall n A, wf n n A -> wf n n (expm A) /\ mx_of n n (expm A) = mexp (mx_of n n A)) ->
  forall (n k : nat) (Ss : seq (Q * seq (seq R))) (Slast Rs : seq (seq R)) (alpha : seq R)
         (lam : R) (ts : seq Q),
    lam <> 0 ->
    List.Forall (fun x : Q * seq (seq R) => wf n n x.2) Ss -> wf n n Slast ->
    (forall i, (i < k)%N -> size (nth [::] Rs i) = n) ->
    epochs_wf (seq (seq R)) 0%QQ Ss -> List.Forall (fun t => (0 <= t)%QQ) ts ->
    accumulate_raw OpsR expm k Ss Slast Rs alpha lam ts =
    List.map (fun t => mk_val alpha
       (evalM (vlsz n k) (denCk n k Rs Ss) (vl (mx_of n n Slast) (rwd n Rs) k) t)) ts.
Proof. exact: accumulate_pointwise. Qed.
Print Assumptions C02_model_accumulate_pointwise_any_sound_backend.

Theorem C02_model_moments_lump :
  forall (m n k : nat) (P : seq (seq R)) (SsL : seq (Q * seq (seq R))) (SlastL : seq (seq R))
         (SsC : seq (Q * seq (seq R))) (SlastC RsL RsC : seq (seq R)) (alphaL : seq R) (lam : R)
         (ts : seq Q),
    wf m n P -> wf m m SlastL -> wf n n SlastC ->
    List.Forall2 (fun x y : Q * seq (seq R) =>
                    [/\ x.1 = y.1, wf m m x.2, wf n n y.2 & mmul OpsR x.2 P = mmul OpsR P y.2])
                 SsL SsC ->
    mmul OpsR SlastL P = mmul OpsR P SlastC ->
    (forall i, (i < k)%N ->
       mmul OpsR (diagm OpsR (nth [::] RsL i)) P = mmul OpsR P (diagm OpsR (nth [::] RsC i))) ->
    mvec OpsR P (ones OpsR n) = ones OpsR m ->
    (forall i, (i < k)%N -> size (nth [::] RsL i) = m) ->
    (forall i, (i < k)%N -> size (nth [::] RsC i) = n) ->
    size alphaL = m ->
    accumulate_raw OpsR expm_ideal k SsL SlastL RsL alphaL lam ts
    = accumulate_raw OpsR expm_ideal k SsC SlastC RsC (vmat OpsR alphaL P) lam ts.
Proof. exact: (accumulate_lumping expm_ideal_sound). Qed.
Print Assumptions C02_model_moments_lump.

Theorem C02_model_moments_lump_any_sound_backend :
  forall expm : seq (seq R) -> seq (seq R),
    (forall n A, wf n n A -> wf n n (expm A) /\ mx_of n n (expm A) = mexp (mx_of n n A)) ->
  forall (m n k : nat) (P : seq (seq R)) (SsL : seq (Q * seq (seq R))) (SlastL : seq (seq R))
         (SsC : seq (Q * seq (seq R))) (SlastC RsL RsC : seq (seq R)) (alphaL : seq R) (lam : R)
         (ts : seq Q),
    wf m n P -> wf m m SlastL -> wf n n SlastC ->
    List.Forall2 (fun x y : Q * seq (seq R) =>
                    [/\ x.1 = y.1, wf m m x.2, wf n n y.2 & mmul OpsR x.2 P = mmul OpsR P y.2])
                 SsL SsC ->
    mmul OpsR SlastL P = mmul OpsR P SlastC ->
    (forall i, (i < k)%N ->
       mmul OpsR (diagm OpsR (nth [::] RsL i)) P = mmul OpsR P (diagm OpsR (nth [::] RsC i))) ->
    mvec OpsR P (ones OpsR n) = ones OpsR m ->
    (forall i, (i < k)%N -> size (nth [::] RsL i) = m) ->
    (forall i, (i < k)%N -> size (nth [::] RsC i) = n) ->
    size alphaL = m ->
    accumulate_raw OpsR expm k SsL SlastL RsL alphaL lam ts
    = accumulate_raw OpsR expm k SsC SlastC RsC (vmat OpsR alphaL P) lam ts.
Proof. exact: accumulate_lumping. Qed.
Print Assumptions C02_model_moments_lump_any_sound_backend.

(* ------------------------------------------------------------------------------------------------
   Stated DIRECTLY about the translated source, on ANY piecewise-constant demography
   (analysis/SourceLinear.v, analysis/SourceCovariance.v; gen/LoopsGen.v = _accumulate, gen/MomentsGen.v = accumulate,
   gen/RewardsGen.v = the reward vectors - all regenerated from the source on every run):

   C02_source_expected_sfs_sums_to_branch_length          for any reward r0 (the unit reward of SFSDistribution; a deme reward for
   C02_source_expected_folded_sfs_sums_to_branch_length   sfs.demes) the expected (un)folded spectrum sums to the expected
                                                          r0-weighted total branch length
   C02_source_sfs_covariances_sum_to_branch_length_variance
                                                          the entries of the covariance matrix of the spectrum, as get_cov computes
                                                          them (centred, permutation-averaged), sum to the variance of the
                                                          (r0-weighted) total branch length                                   *)
From PG Require Import proofs.RewardProofs gen.RewardsGen proofs.GenRewardsEquiv gen.NpLoops analysis.SourceLinear analysis.SourceCovariance.
Local Notation Q0 := (QArith_base.Qmake BinNums.Z0 BinNums.xH).

Theorem C02_source_expected_sfs_sums_to_branch_length :
  forall (expm : seq (seq R) -> seq (seq R)),
    (forall n A, wf n n A -> wf n n (expm A) /\ mx_of n n (expm A) = mexp (mx_of n n A)) ->
  forall (regf : seq (seq R) -> R) (n : nat) (Ss : seq (QArith_base.Q * seq (seq R))) (Slast : seq (seq R)) (alpha : seq R)
         (ts : seq QArith_base.Q),
    regf (List.hd (None, Slast) (all_epochs Ss Slast)).2 <> 0 ->
    List.Forall (fun x : QArith_base.Q * seq (seq R) => wf n n x.2) Ss -> wf n n Slast ->
    epochs_wf (seq (seq R)) Q0 Ss -> List.Forall (fun t => QArith_base.Qle Q0 t) ts ->
  forall (nn : nat) (r0 : reward) (sts : seq state),
    size sts = n -> (2 <= nn)%coq_nat -> reward_ok nn r0 = true -> List.Forall (fun s => bc_inv nn s) sts ->
    acc1 expm regf Ss Slast alpha ts [seq gen_reward_get OpsR nn 1 (RProduct [:: r0; RTotalBranchLength]) s | s <- sts]
    = SourceLinear.vsum (size ts)
        [seq acc1 expm regf Ss Slast alpha ts [seq gen_reward_get OpsR nn 1 (RProduct [:: r0; RUnfoldedSFS i]) s | s <- sts]
        | i <- iota 1 (nn - 1)].
Proof. move=> expm es regf n Ss Slast alpha ts; exact: source_expected_sfs_sums_to_branch_length. Qed.
Print Assumptions C02_source_expected_sfs_sums_to_branch_length.

Theorem C02_source_expected_folded_sfs_sums_to_branch_length :
  forall (expm : seq (seq R) -> seq (seq R)),
    (forall n A, wf n n A -> wf n n (expm A) /\ mx_of n n (expm A) = mexp (mx_of n n A)) ->
  forall (regf : seq (seq R) -> R) (n : nat) (Ss : seq (QArith_base.Q * seq (seq R))) (Slast : seq (seq R)) (alpha : seq R)
         (ts : seq QArith_base.Q),
    regf (List.hd (None, Slast) (all_epochs Ss Slast)).2 <> 0 ->
    List.Forall (fun x : QArith_base.Q * seq (seq R) => wf n n x.2) Ss -> wf n n Slast ->
    epochs_wf (seq (seq R)) Q0 Ss -> List.Forall (fun t => QArith_base.Qle Q0 t) ts ->
  forall (nn : nat) (r0 : reward) (sts : seq state),
    size sts = n -> (2 <= nn)%coq_nat -> reward_ok nn r0 = true -> List.Forall (fun s => bc_inv nn s) sts ->
    acc1 expm regf Ss Slast alpha ts [seq gen_reward_get OpsR nn 1 (RProduct [:: r0; RTotalBranchLength]) s | s <- sts]
    = SourceLinear.vsum (size ts)
        [seq acc1 expm regf Ss Slast alpha ts [seq gen_reward_get OpsR nn 1 (RProduct [:: r0; RFoldedSFS i]) s | s <- sts]
        | i <- iota 1 (Nat.div nn 2)].
Proof. move=> expm es regf n Ss Slast alpha ts; exact: source_expected_folded_sfs_sums_to_branch_length. Qed.
Print Assumptions C02_source_expected_folded_sfs_sums_to_branch_length.

Theorem C02_source_sfs_covariances_sum_to_branch_length_variance :
  forall (expm : seq (seq R) -> seq (seq R)),
    (forall n A, wf n n A -> wf n n (expm A) /\ mx_of n n (expm A) = mexp (mx_of n n A)) ->
  forall (n : nat) (Ss : seq (QArith_base.Q * seq (seq R))) (Slast : seq (seq R)) (alpha : seq R) (lam : R) (t : QArith_base.Q),
    lam <> 0 ->
    List.Forall (fun x : QArith_base.Q * seq (seq R) => wf n n x.2) Ss -> wf n n Slast ->
    epochs_wf (seq (seq R)) Q0 Ss -> QArith_base.Qle Q0 t ->
  forall (self_reward : seq R) (nn : nat) (r0 : reward) (sts : seq state),
    size sts = n -> (2 <= nn)%coq_nat -> reward_ok nn r0 = true -> List.Forall (fun s => bc_inv nn s) sts ->
    let rv x := [seq gen_reward_get OpsR nn 1 x s | s <- sts] in
    \sum_(i <- iota 1 (nn - 1)) \sum_(j <- iota 1 (nn - 1))
       src_cov expm Ss Slast alpha lam t self_reward (rv (RProduct [:: r0; RUnfoldedSFS i])) (rv (RProduct [:: r0; RUnfoldedSFS j]))
    = src_cov expm Ss Slast alpha lam t self_reward (rv (RProduct [:: r0; RTotalBranchLength])) (rv (RProduct [:: r0; RTotalBranchLength])).
Proof. move=> expm es n Ss Slast alpha lam t l0 h1 h2 h5 t0 sr; exact: source_sfs_covariances_sum_to_branch_length_variance. Qed.
Print Assumptions C02_source_sfs_covariances_sum_to_branch_length_variance.
