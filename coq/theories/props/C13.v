(* C13 - Expected spectra are consistent across sample sizes.

   Bounded reflection (one population, block counting, n = 3..10, Kingman / Beta(3/2) / Beta(5/4) /
   Dirac(1/3, 5/2) / Dirac(3/4, 1/2)): with Phi the kernel "remove one uniformly chosen sample" from
   the states of n to those of n-1,  K_n Phi = Phi K_{n-1}  exactly, Phi maps the initial state to the
   initial state, Phi r^{(n-1)}_j = ((n-j)/n) r^{(n)}_j + ((j+1)/n) r^{(n)}_{j+1} (hypergeometric
   down-projection of the SFS rewards), and Phi r_H^{(n-1)} <= r_H^{(n)}, Phi r_L^{(n-1)} <= r_L^{(n)}.
   For every backend obeying the laws of the matrix exponential the first-moment functional transfers
   along ANY intertwining matrix (it need not be 0/1), through any sequence of epochs and any end
   time: together these give the down-projection of the expected SFS.  The all-n statement
   (sampling consistency of Lambda-coalescents at the level of the block-counting chain) is not proved;
   the per-set rates are proved sampling consistent for all b, k in C14.  Monotonicity in n of the
   expected height/length additionally needs positivity of the propagators: checked by the stream. *)
From Coq Require Import ZArith QArith List Arith.
From PG Require Import base.Ops model.CoalModels model.StateSpace model.Rewards model.Check
                       model.SpaceChecks proofs.SpaceFacts.
Import ListNotations.
Local Open Scope Q_scope.

Theorem C13_sample_size_projection_bounded :
  forall n m, In n [3; 4; 5; 6; 7; 8; 9; 10]%nat ->
    In m [Kingman; Beta (3#2) false; Beta (5#4) false; Dirac (1#3) (5#2) false; Dirac (3#4) (1#2) false] ->
    proj_spec m n.
Proof. exact sample_size_projection_bounded. Qed.
Print Assumptions C13_sample_size_projection_bounded.

From mathcomp Require Import all_ssreflect all_algebra.
From PG Require Import proofs.ExpLaws.
Set Implicit Arguments. Unset Strict Implicit. Unset Printing Implicit Defensive.
Import GRing.Theory.
Local Open Scope ring_scope.
Section C13.
Variable R : comRingType.
Variable expm : forall n : nat, 'M[R]_n -> 'M[R]_n.
Hypothesis expm0 : forall n, expm (0 : 'M[R]_n) = 1%:M.
Hypothesis expmD : forall n (A B : 'M[R]_n), A *m B = B *m A -> expm (A + B) = expm A *m expm B.
Hypothesis expm_intertwine : forall m n (A : 'M[R]_m) (B : 'M[R]_n) (P : 'M[R]_(m, n)),
    A *m P = P *m B -> expm A *m P = P *m expm B.
Theorem C13_first_moment_transfers_along_projection_given_ExpLaws :
  forall m n (SL RL : 'M[R]_m) (SC RC : 'M[R]_n) (P : 'M[R]_(m, n)) (aL : 'rV[R]_m) (eC : 'cV[R]_n) (t : R),
    SL *m P = P *m SC -> RL *m P = P *m RC ->
    aL *m ursubmx (expm (t *: vl1 SL RL)) *m (P *m eC) = (aL *m P) *m ursubmx (expm (t *: vl1 SC RC)) *m eC.
Proof. by move=> *; apply: m1_lumping. Qed.
End C13.
Print Assumptions C13_first_moment_transfers_along_projection_given_ExpLaws.

(* ------------------------------------------------------------------------------------------------
   Unconditional over the reals: the laws E0-E2 (and positivity) are theorems about the real matrix
   exponential mexp (analysis/MExp.v: entrywise limit of the exponential series), so the statements
   above hold for the matrix exponential itself, not only "given ExpLaws". *)
From Coq Require Import Rdefinitions.
From PG Require Import analysis.Rstruct analysis.RSums analysis.MExp analysis.MExpLaws.

Theorem C13_first_moment_transfers_along_projection_real :
  forall m n (SL RL : 'M[R]_m) (SC RC : 'M[R]_n) (P : 'M[R]_(m, n)) (aL : 'rV[R]_m) (eC : 'cV[R]_n) (t : R),
    SL *m P = P *m SC -> RL *m P = P *m RC ->
    aL *m ursubmx (mexp (t *: vl1 SL RL)) *m (P *m eC) = (aL *m P) *m ursubmx (mexp (t *: vl1 SC RC)) *m eC.
Proof. by move=> *; apply: (m1_lumping (expm := fun n : nat => @mexp n) (@mexp_intertwine)). Qed.
Print Assumptions C13_first_moment_transfers_along_projection_real.

(* the same transfer for the translated _accumulate (gen/LoopsGen.v, regenerated from the source on every run), for moments of every
   order, on ANY piecewise-constant demography: if the row-stochastic projection P (the hypergeometric down-projection of block-count
   states) intertwines the rate matrices of n and n - 1 samples in EVERY epoch and the rewards, the accumulated moments of the n-sample
   chain are those of the (n - 1)-sample chain started from alpha P (analysis/SourceLumpMoments.v) *)
From PG Require Import base.Ops base.OpsR model.Matrix model.Loop model.PhaseType analysis.Denote analysis.CdfFacts gen.NpLoops gen.LoopsGen
                       analysis.SourceLumpMoments.
Delimit Scope nat_scope with N.
Theorem C13_source_moments_transfer_along_projection :
  forall expm : seq (seq R) -> seq (seq R),
    (forall n A, wf n n A -> wf n n (expm A) /\ mx_of n n (expm A) = mexp (mx_of n n A)) ->
  forall (regfL regfC : seq (seq R) -> R) (m n k : nat) (P : seq (seq R))
         (SsL : seq (QArith_base.Q * seq (seq R))) (SlastL : seq (seq R)) (SsC : seq (QArith_base.Q * seq (seq R))) (SlastC : seq (seq R))
         (RsL RsC : seq (seq R)) (alphaL : seq R) (ts : seq QArith_base.Q),
    regfL (List.hd (None, SlastL) (all_epochs SsL SlastL)).2 <> 0 ->
    regfC (List.hd (None, SlastC) (all_epochs SsC SlastC)).2 <> 0 ->
    wf m n P -> wf m m SlastL -> wf n n SlastC ->
    List.Forall2 (lump_rel m n P) SsL SsC ->
    mmul OpsR SlastL P = mmul OpsR P SlastC ->
    (forall i, (i < k)%N -> mmul OpsR (diagm OpsR (nth [::] RsL i)) P = mmul OpsR P (diagm OpsR (nth [::] RsC i))) ->
    mvec OpsR P (ones OpsR n) = ones OpsR m ->
    (forall i, (i < k)%N -> size (nth [::] RsL i) = m) -> (forall i, (i < k)%N -> size (nth [::] RsC i) = n) ->
    size alphaL = m ->
    PhaseTypeDistribution_accumulate OpsR expm regfL (length SlastL) k (all_epochs SsL SlastL) RsL alphaL ts
    = PhaseTypeDistribution_accumulate OpsR expm regfC (length SlastC) k (all_epochs SsC SlastC) RsC (vmat OpsR alphaL P) ts.
Proof. exact: source_accumulate_lumping. Qed.
Print Assumptions C13_source_moments_transfer_along_projection.
