(* C01 - Tree-height and branch-length moments equal those of the true coalescent.

   What is proved (for EVERY function [expm] obeying the laws the matrix exponential obeys, every
   commutative ring, every dimension, every moment order k, every number of epochs):
     - the k-th order Van Loan functional of the count chain equals the same functional of ANY chain
       that lumps onto it through a matrix P intertwining the generators and the rewards
       (in particular the labelled coalescent, whose lumping onto the count chains is C04);
     - the same through every sequence of epochs (the per-epoch propagators multiply);
     - the numerical regularisation (generator times lam, time divided by lam, result times lam)
       changes nothing;
     - the propagation loop of _accumulate is pointwise and independent of the evaluation grid (C07/C10).
   What is not proved in Coq (trusted, see DESIGN.md): that the Van Loan functional of the labelled
   chain IS the k-th moment of the reward integrals of the path measure (Van Loan 1978); the
   floating-point accuracy of the SciPy backend (observed by the numeric correspondence stream). *)
From Coq Require Import Reals.
From mathcomp Require Import all_ssreflect all_algebra.
From PG Require Import proofs.ExpLaws.
Set Implicit Arguments. Unset Strict Implicit. Unset Printing Implicit Defensive.
Import GRing.Theory.
Local Open Scope ring_scope.

Section C01.
Variable R : comRingType.
Variable expm : forall n : nat, 'M[R]_n -> 'M[R]_n.
Hypothesis expm0 : forall n, expm (0 : 'M[R]_n) = 1%:M.
Hypothesis expmD : forall n (A B : 'M[R]_n), A *m B = B *m A -> expm (A + B) = expm A *m expm B.
Hypothesis expm_intertwine : forall m n (A : 'M[R]_m) (B : 'M[R]_n) (P : 'M[R]_(m, n)),
    A *m P = P *m B -> expm A *m P = P *m expm B.

(* k-th order moments transfer along a lumping: SL, RL i = generator and reward matrices of the
   labelled chain, SC, RC i those of the count chain, P the 0/1 projection matrix *)
Theorem C01_moments_transfer_along_lumping_given_ExpLaws :
  forall m n (P : 'M[R]_(m, n)) (SL : 'M[R]_m) (SC : 'M[R]_n) (RL : nat -> 'M[R]_m) (RC : nat -> 'M[R]_n)
         (k : nat) (aL : 'rV[R]_m) (eC : 'cV[R]_n) (t : R),
    SL *m P = P *m SC -> (forall i, (i < k)%N -> RL i *m P = P *m RC i) ->
    aL *m vltr (k:=k) (expm (t *: vl SL RL k)) *m (P *m eC)
    = (aL *m P) *m vltr (k:=k) (expm (t *: vl SC RC k)) *m eC.
Proof. by move=> *; apply: mk_lumping. Qed.

(* absorption probabilities (hence the CDF) through any sequence of epochs *)
Theorem C01_epoch_product_transfers_given_ExpLaws :
  forall m n (P : 'M[R]_(m, n)) (eps : seq (R * 'M[R]_m * 'M[R]_n)),
    (forall x, x \in eps -> x.1.2 *m P = P *m x.2) ->
    foldr (fun x acc => expm (x.1.1 *: x.1.2) *m acc) 1%:M eps *m P
    = P *m foldr (fun x acc => expm (x.1.1 *: x.2) *m acc) 1%:M eps.
Proof. by move=> *; apply: lumping_product. Qed.

(* regularisation: multiply the generator by lam, divide the time by lam, multiply the result by lam *)
Theorem C01_regularisation_invariant_given_ExpLaws :
  forall n (a : 'rV[R]_n) (S Rw : 'M[R]_n) (lam t t' : R), t' * lam = t ->
    a *m ursubmx (expm (t *: vl1 S Rw)) *m (const_mx 1 : 'cV_n)
    = lam *: (a *m ursubmx (expm (t' *: block_mx (lam *: S) Rw 0 (lam *: S))) *m (const_mx 1 : 'cV_n)).
Proof. by move=> *; apply: m1_regularisation. Qed.

(* the semigroup law used by the propagation loop *)
Theorem C01_propagator_semigroup_given_ExpLaws :
  forall n (A : 'M[R]_n) (a b : R), expm (a *: A) *m expm (b *: A) = expm ((a + b) *: A).
Proof. by move=> *; apply: expm_semigroup. Qed.
End C01.
Print Assumptions C01_moments_transfer_along_lumping_given_ExpLaws.
Print Assumptions C01_epoch_product_transfers_given_ExpLaws.
Print Assumptions C01_regularisation_invariant_given_ExpLaws.
Print Assumptions C01_propagator_semigroup_given_ExpLaws.

(* the laws are consistent (a trivial instance); the intended instance is the real matrix exponential *)
Theorem C01_laws_consistent : forall R : comRingType,
  let expm := fun (n : nat) (_ : 'M[R]_n) => (1%:M : 'M[R]_n) in
  [/\ forall n, expm n (0 : 'M[R]_n) = 1%:M,
      forall n (A B : 'M[R]_n), A *m B = B *m A -> expm n (A + B) = expm n A *m expm n B
    & forall m n (A : 'M[R]_m) (B : 'M[R]_n) (P : 'M[R]_(m, n)), A *m P = P *m B -> expm m A *m P = P *m expm n B].
Proof. exact: laws_consistent. Qed.
Print Assumptions C01_laws_consistent.

(* ------------------------------------------------------------------------------------------------
   Unconditional over the reals: the laws E0-E2 (and positivity) are theorems about the real matrix
   exponential mexp (analysis/MExp.v: entrywise limit of the exponential series), so the statements
   above hold for the matrix exponential itself, not only "given ExpLaws". *)
From PG Require Import analysis.Rstruct analysis.RSums analysis.MExp analysis.MExpLaws.

Theorem C01_moments_transfer_along_lumping_real :
  forall m n (P : 'M[R]_(m, n)) (SL : 'M[R]_m) (SC : 'M[R]_n) (RL : nat -> 'M[R]_m) (RC : nat -> 'M[R]_n)
         (k : nat) (aL : 'rV[R]_m) (eC : 'cV[R]_n) (t : R),
    SL *m P = P *m SC -> (forall i, (i < k)%N -> RL i *m P = P *m RC i) ->
    aL *m vltr (k:=k) (mexp (t *: vl SL RL k)) *m (P *m eC)
    = (aL *m P) *m vltr (k:=k) (mexp (t *: vl SC RC k)) *m eC.
Proof. by move=> *; apply: real_mk_lumping. Qed.
Print Assumptions C01_moments_transfer_along_lumping_real.

Theorem C01_epoch_product_transfers_real :
  forall m n (P : 'M[R]_(m, n)) (eps : seq (R * 'M[R]_m * 'M[R]_n)) (aL : 'rV[R]_m) (eC : 'cV[R]_n),
    (forall x, x \in eps -> x.1.2 *m P = P *m x.2) ->
    aL *m epoch_prodL (fun n : nat => @mexp n) eps *m (P *m eC)
    = (aL *m P) *m epoch_prodC (fun n : nat => @mexp n) eps *m eC.
Proof. by move=> *; apply: real_lumping_product_cdf. Qed.
Print Assumptions C01_epoch_product_transfers_real.

Theorem C01_regularisation_invariant_real :
  forall n (a : 'rV[R]_n) (S Rw : 'M[R]_n) (lam t t' : R), t' * lam = t ->
    a *m ursubmx (mexp (t *: vl1 S Rw)) *m (const_mx 1 : 'cV_n)
    = lam *: (a *m ursubmx (mexp (t' *: block_mx (lam *: S) Rw 0 (lam *: S))) *m (const_mx 1 : 'cV_n)).
Proof. by move=> *; apply: (m1_regularisation (expm := fun n : nat => @mexp n) (@mexp_intertwine)). Qed.
Print Assumptions C01_regularisation_invariant_real.

Theorem C01_real_exponential_satisfies_the_laws :
  [/\ forall n, mexp (0 : 'M[R]_n) = 1%:M,
      forall n (A B : 'M[R]_n), A *m B = B *m A -> mexp (A + B) = mexp A *m mexp B
    & forall m n (A : 'M[R]_m) (B : 'M[R]_n) (P : 'M[R]_(m, n)), A *m P = P *m B -> mexp A *m P = P *m mexp B].
Proof. exact: real_mexp_laws. Qed.
Print Assumptions C01_real_exponential_satisfies_the_laws.
