(* C01 - Tree-height and branch-length moments equal those of the true coalescent.

   What is proved (for EVERY function [expm] obeying the laws the matrix exponential obeys, every
   commutative ring, every dimension, every moment order k, every number of epochs):
     - the k-th order Van Loan functional of the count chain equals the same functional of ANY chain
       that lumps onto it through a matrix P intertwining the generators and the rewards
       (in particular the labelled coalescent, whose lumping onto the count chains is C04);
     - the same through every sequence of epochs (the per-epoch propagators multiply);
     - the numerical regularisation (generator times lam, time divided by lam, result times lam)
       changes nothing;
     - the propagation loop of _accumulate is pointwise and independent of the evaluation grid (C07/C10).
   What is not proved in Coq (trusted, see DESIGN.md): that the Van Loan functional of the labelled
   chain IS the k-th moment of the reward integrals of the path measure (Van Loan 1978); the
   floating-point accuracy of the SciPy backend (observed by the numeric correspondence stream). *)
From Coq Require Import Reals.
From mathcomp Require Import all_ssreflect all_algebra.
From PG Require Import proofs.ExpLaws.
Set Implicit Arguments. Unset Strict Implicit. Unset Printing Implicit Defensive.
Import GRing.Theory.
Local Open Scope ring_scope.

Section C01.
Variable R : comRingType.
Variable expm : forall n : nat, 'M[R]_n -> 'M[R]_n.
Hypothesis expm0 : forall n, expm (0 : 'M[R]_n) = 1%:M.
Hypothesis expmD : forall n (A B : 'M[R]_n), A *m B = B *m A -> expm (A + B) = expm A *m expm B.
Hypothesis expm_intertwine : forall m n (A : 'M[R]_m) (B : 'M[R]_n) (P : 'M[R]_(m, n)),
    A *m P = P *m B -> expm A *m P = P *m expm B.

(* k-th order moments transfer along a lumping: SL, RL i = generator and reward matrices of the
   labelled chain, SC, RC i those of the count chain, P the 0/1 projection matrix *)
Theorem C01_moments_transfer_along_lumping_given_ExpLaws :
  forall m n (P : 'M[R]_(m, n)) (SL : 'M[R]_m) (SC : 'M[R]_n) (RL : nat -> 'M[R]_m) (RC : nat -> 'M[R]_n)
         (k : nat) (aL : 'rV[R]_m) (eC : 'cV[R]_n) (t : R),
    SL *m P = P *m SC -> (forall i, (i < k)%N -> RL i *m P = P *m RC i) ->
    aL *m vltr (k:=k) (expm (t *: vl SL RL k)) *m (P *m eC)
    = (aL *m P) *m vltr (k:=k) (expm (t *: vl SC RC k)) *m eC.
Proof. by move=> *; apply: mk_lumping. Qed.

(* absorption probabilities (hence the CDF) through any sequence of epochs *)
Theorem C01_epoch_product_transfers_given_ExpLaws :
  forall m n (P : 'M[R]_(m, n)) (eps : seq (R * 'M[R]_m * 'M[R]_n)),
    (forall x, x \in eps -> x.1.2 *m P = P *m x.2) ->
    foldr (fun x acc => expm (x.1.1 *: x.1.2) *m acc) 1%:M eps *m P
    = P *m foldr (fun x acc => expm (x.1.1 *: x.2) *m acc) 1%:M eps.
Proof. by move=> *; apply: lumping_product. Qed.

(* regularisation: multiply the generator by lam, divide the time by lam, multiply the result by lam *)
Theorem C01_regularisation_invariant_given_ExpLaws :
  forall n (a : 'rV[R]_n) (S Rw : 'M[R]_n) (lam t t' : R), t' * lam = t ->
    a *m ursubmx (expm (t *: vl1 S Rw)) *m (const_mx 1 : 'cV_n)
    = lam *: (a *m ursubmx (expm (t' *: block_mx (lam *: S) Rw 0 (lam *: S))) *m (const_mx 1 : 'cV_n)).
Proof. by move=> *; apply: m1_regularisation. Qed.

(* the semigroup law used by the propagation loop *)
Theorem C01_propagator_semigroup_given_ExpLaws :
  forall n (A : 'M[R]_n) (a b : R), expm (a *: A) *m expm (b *: A) = expm ((a + b) *: A).
Proof. by move=> *; apply: expm_semigroup. Qed.
End C01.
Print Assumptions C01_moments_transfer_along_lumping_given_ExpLaws.
Print Assumptions C01_epoch_product_transfers_given_ExpLaws.
Print Assumptions C01_regularisation_invariant_given_ExpLaws.
Print Assumptions C01_propagator_semigroup_given_ExpLaws.

(* the laws are consistent (a trivial instance); the intended instance is the real matrix exponential *)
Theorem C01_laws_consistent : forall R : comRingType,
  let expm := fun (n : nat) (_ : 'M[R]_n) => (1%:M : 'M[R]_n) in
  [/\ forall n, expm n (0 : 'M[R]_n) = 1%:M,
      forall n (A B : 'M[R]_n), A *m B = B *m A -> expm n (A + B) = expm n A *m expm n B
    & forall m n (A : 'M[R]_m) (B : 'M[R]_n) (P : 'M[R]_(m, n)), A *m P = P *m B -> expm m A *m P = P *m expm n B].
Proof. exact: laws_consistent. Qed.
Print Assumptions C01_laws_consistent.

(* ------------------------------------------------------------------------------------------------
   Unconditional over the reals: the laws E0-E2 (and positivity) are theorems about the real matrix
   exponential mexp (analysis/MExp.v: entrywise limit of the exponential series), so the statements
   above hold for the matrix exponential itself, not only "given ExpLaws". *)
From PG Require Import analysis.Rstruct analysis.RSums analysis.MExp analysis.MExpLaws.

Theorem C01_moments_transfer_along_lumping_real :
  forall m n (P : 'M[R]_(m, n)) (SL : 'M[R]_m) (SC : 'M[R]_n) (RL : nat -> 'M[R]_m) (RC : nat -> 'M[R]_n)
         (k : nat) (aL : 'rV[R]_m) (eC : 'cV[R]_n) (t : R),
    SL *m P = P *m SC -> (forall i, (i < k)%N -> RL i *m P = P *m RC i) ->
    aL *m vltr (k:=k) (mexp (t *: vl SL RL k)) *m (P *m eC)
    = (aL *m P) *m vltr (k:=k) (mexp (t *: vl SC RC k)) *m eC.
Proof. by move=> *; apply: real_mk_lumping. Qed.
Print Assumptions C01_moments_transfer_along_lumping_real.

Theorem C01_epoch_product_transfers_real :
  forall m n (P : 'M[R]_(m, n)) (eps : seq (R * 'M[R]_m * 'M[R]_n)) (aL : 'rV[R]_m) (eC : 'cV[R]_n),
    (forall x, x \in eps -> x.1.2 *m P = P *m x.2) ->
    aL *m epoch_prodL (fun n : nat => @mexp n) eps *m (P *m eC)
    = (aL *m P) *m epoch_prodC (fun n : nat => @mexp n) eps *m eC.
Proof. by move=> *; apply: real_lumping_product_cdf. Qed.
Print Assumptions C01_epoch_product_transfers_real.

Theorem C01_regularisation_invariant_real :
  forall n (a : 'rV[R]_n) (S Rw : 'M[R]_n) (lam t t' : R), t' * lam = t ->
    a *m ursubmx (mexp (t *: vl1 S Rw)) *m (const_mx 1 : 'cV_n)
    = lam *: (a *m ursubmx (mexp (t' *: block_mx (lam *: S) Rw 0 (lam *: S))) *m (const_mx 1 : 'cV_n)).
Proof. by move=> *; apply: (m1_regularisation (expm := fun n : nat => @mexp n) (@mexp_intertwine)). Qed.
Print Assumptions C01_regularisation_invariant_real.

Theorem C01_real_exponential_satisfies_the_laws :
  [/\ forall n, mexp (0 : 'M[R]_n) = 1%:M,
      forall n (A B : 'M[R]_n), A *m B = B *m A -> mexp (A + B) = mexp A *m mexp B
    & forall m n (A : 'M[R]_m) (B : 'M[R]_n) (P : 'M[R]_(m, n)), A *m P = P *m B -> mexp A *m P = P *m mexp B].
Proof. exact: real_mexp_laws. Qed.
Print Assumptions C01_real_exponential_satisfies_the_laws.

(* ------------------------------------------------------------------------------------------------
   The MODEL's moment function (model/PhaseType.v [accumulate_raw], the Gallina transcription of
   PhaseTypeDistribution._accumulate: build the (k+1)n x (k+1)n Van Loan block matrix from the
   regularised generator lam * S and the reward vectors, call the matrix-exponential backend once per
   epoch traversed, read the top-right n x n block, contract with alpha and 1, multiply by k! and by
   the regularisation power), run over the real numbers (analysis/DenotePhaseType.v).

   The backend is a parameter [expm] of the model; its contract is "on a well-formed n x n list
   matrix, return a well-formed n x n list matrix denoting the real matrix exponential mexp".
   [expm_ideal] (analysis/CdfFacts.v) meets the contract, which gives hypothesis-free statements;
   the general forms (suffix _any_sound_backend) hold for every backend meeting the contract.

   C01_model_accumulate_is_van_loan_functional.  In one epoch with generator Slast (n x n list
   matrix), reward vectors Rs (k of them, each of size n), initial vector alpha and ANY regularisation
   factor lam <> 0, the model returns at time t exactly
        k! * alpha * (top-right block of  mexp (t * VanLoan(S; diag Rs_0, ..., diag Rs_(k-1))))  * 1
   - k! times the functional [mk] of proofs/ExpLaws.v, to which C01_moments_transfer_along_lumping_real
   and C09/C11/C12 apply - computed from the UN-regularised generator.

   C01_model_regularisation_parameter_irrelevant.  For any demography (any number of epochs), any
   order k, any times, two non-zero regularisation factors give the same list of moments. *)
From Coq Require Import QArith Qreals.
From PG Require Import base.Ops base.OpsR model.CoalModels model.Matrix model.PhaseType
                       analysis.Denote analysis.CdfFacts analysis.DenotePhaseType.
(* QArith rebinds the keys %Q and %N; restore the mathcomp convention %N = nat_scope, use %QQ for Q *)
Delimit Scope Q_scope with QQ.
Delimit Scope nat_scope with N.
Local Open Scope ring_scope.

Theorem C01_model_accumulate_is_van_loan_functional :
  forall (n k : nat) (Slast Rs : seq (seq R)) (alpha : seq R) (lam : R) (t : Q),
    lam <> 0 -> wf n n Slast -> (forall i, (i < k)%N -> size (nth [::] Rs i) = n) ->
    accumulate_raw OpsR expm_ideal k [::] Slast Rs alpha lam [:: t] =
    [:: IZR (fact_Z k) *
        mk (fun n : nat => @mexp n) (rv_of n alpha) (mx_of n n Slast)
           (fun i => diag_mx (rv_of n (nth [::] Rs i))) k (Q2R t) ord0 ord0].
Proof. exact: (accumulate_is_mk expm_ideal_sound). Qed.
Print Assumptions C01_model_accumulate_is_van_loan_functional.

Theorem C01_model_accumulate_is_van_loan_functional_any_sound_backend :
  forall expm : seq (seq R) -> seq (seq R),
    (forall n A, wf n n A -> wf n n (expm A) /\ mx_of n n (expm A) = mexp (mx_of n n A)) ->
  forall (n k : nat) (Slast Rs : seq (seq R)) (alpha : seq R) (lam : R) (t : Q),
    lam <> 0 -> wf n n Slast -> (forall i, (i < k)%N -> size (nth [::] Rs i) = n) ->
    accumulate_raw OpsR expm k [::] Slast Rs alpha lam [:: t] =
    [:: IZR (fact_Z k) *
        mk (fun n : nat => @mexp n) (rv_of n alpha) (mx_of n n Slast)
           (fun i => diag_mx (rv_of n (nth [::] Rs i))) k (Q2R t) ord0 ord0].
Proof. exact: accumulate_is_mk. Qed.
Print Assumptions C01_model_accumulate_is_van_loan_functional_any_sound_backend.

Theorem C01_model_regularisation_parameter_irrelevant :
  forall (n k : nat) (Ss : seq (Q * seq (seq R))) (Slast Rs : seq (seq R)) (alpha : seq R)
         (lam1 lam2 : R) (ts : seq Q),
    lam1 <> 0 -> lam2 <> 0 ->
    List.Forall (fun x : Q * seq (seq R) => wf n n x.2) Ss -> wf n n Slast ->
    (forall i, (i < k)%N -> size (nth [::] Rs i) = n) ->
    accumulate_raw OpsR expm_ideal k Ss Slast Rs alpha lam1 ts =
    accumulate_raw OpsR expm_ideal k Ss Slast Rs alpha lam2 ts.
Proof. exact: (accumulate_lam_irrelevant expm_ideal_sound). Qed.
Print Assumptions C01_model_regularisation_parameter_irrelevant.

Theorem C01_model_regularisation_parameter_irrelevant_any_sound_backend :
  forall expm : seq (seq R) -> seq (seq R),
    (forall n A, wf n n A -> wf n n (expm A) /\ mx_of n n (expm A) = mexp (mx_of n n A)) ->
  forall (n k : nat) (Ss : seq (Q * seq (seq R))) (Slast Rs : seq (seq R)) (alpha : seq R)
         (lam1 lam2 : R) (ts : seq Q),
    lam1 <> 0 -> lam2 <> 0 ->
    List.Forall (fun x : Q * seq (seq R) => wf n n x.2) Ss -> wf n n Slast ->
    (forall i, (i < k)%N -> size (nth [::] Rs i) = n) ->
    accumulate_raw OpsR expm k Ss Slast Rs alpha lam1 ts =
    accumulate_raw OpsR expm k Ss Slast Rs alpha lam2 ts.
Proof. exact: accumulate_lam_irrelevant. Qed.
Print Assumptions C01_model_regularisation_parameter_irrelevant_any_sound_backend.

(* ---- the tie to phasegen/distributions.py by translation: PhaseTypeDistribution._accumulate (gen/LoopsGen.v is regenerated from
        the source on every run; proofs/GenLoopsEquiv.v proves it equal to the model's accumulate_raw; analysis/SourceLoops.v
        transports the analytic facts) ---- *)
From Coq Require Import QArith Reals.
From mathcomp Require Import all_ssreflect all_algebra.
From PG Require Import analysis.Rstruct analysis.RSums analysis.MExp analysis.MExpLaws.
From PG Require Import base.Ops base.OpsR model.CoalModels model.Matrix model.Loop model.PhaseType proofs.ExpLaws
                       analysis.Denote analysis.CdfFacts analysis.DenotePhaseType
                       gen.NpLoops gen.LoopsGen proofs.GenLoopsEquiv analysis.SourceLoops.
Delimit Scope Q_scope with QQ.
Delimit Scope nat_scope with N.

Theorem C01_distributions_py_accumulate_is_the_model :
  forall (expm : seq (seq R) -> seq (seq R)) (regf : seq (seq R) -> R) (k : nat)
         (Ss : seq (Q * seq (seq R))) (Slast : seq (seq R)) (Rs : seq (seq R)) (alpha : seq R) (ts : seq Q),
    PhaseTypeDistribution_accumulate OpsR expm regf (length Slast) k (all_epochs Ss Slast) Rs alpha ts
    = accumulate_raw OpsR expm k Ss Slast Rs alpha (regf (snd (List.hd (None, Slast) (all_epochs Ss Slast)))) ts.
Proof. exact: gen_accumulate_eq_model_R. Qed.
Print Assumptions C01_distributions_py_accumulate_is_the_model.

(* pointwise in the end times (any order, repeats); the right-hand side does not mention the regularisation factor *)
Theorem C01_distributions_py_accumulate_pointwise :
  forall expm : seq (seq R) -> seq (seq R),
    (forall n A, wf n n A -> wf n n (expm A) /\ mx_of n n (expm A) = mexp (mx_of n n A)) ->
  forall (regf : seq (seq R) -> R) (n k : nat) (Ss : seq (Q * seq (seq R))) (Slast : seq (seq R)) (Rs : seq (seq R))
         (alpha : seq R) (ts : seq Q),
    regf (List.hd (None, Slast) (all_epochs Ss Slast)).2 <> 0%R ->
    List.Forall (fun x : Q * seq (seq R) => wf n n x.2) Ss -> wf n n Slast ->
    (forall i, (i < k)%N -> size (nth [::] Rs i) = n) ->
    epochs_wf (seq (seq R)) 0%QQ Ss -> List.Forall (fun t => (0 <= t)%QQ) ts ->
    PhaseTypeDistribution_accumulate OpsR expm regf (length Slast) k (all_epochs Ss Slast) Rs alpha ts =
    List.map (fun t => mk_val alpha
       (evalM (vlsz n k) (denCk n k Rs Ss) (vl (mx_of n n Slast) (rwd n Rs) k) t)) ts.
Proof. exact: source_accumulate_pointwise. Qed.
Print Assumptions C01_distributions_py_accumulate_pointwise.

(* the moments of every order transfer along a lumping that holds in EVERY epoch (labelled coalescent -> the state space in use):
   stated about the translated _accumulate, any demography, any list of end times; the two objects may use different non-zero
   regularisation factors *)
From PG Require Import analysis.SourceLumpMoments.
Theorem C01_distributions_py_moments_transfer_along_lumping :
  forall expm : seq (seq R) -> seq (seq R),
    (forall n A, wf n n A -> wf n n (expm A) /\ mx_of n n (expm A) = mexp (mx_of n n A)) ->
  forall (regfL regfC : seq (seq R) -> R) (m n k : nat) (P : seq (seq R))
         (SsL : seq (Q * seq (seq R))) (SlastL : seq (seq R)) (SsC : seq (Q * seq (seq R))) (SlastC : seq (seq R))
         (RsL RsC : seq (seq R)) (alphaL : seq R) (ts : seq Q),
    regfL (List.hd (None, SlastL) (all_epochs SsL SlastL)).2 <> 0%R ->
    regfC (List.hd (None, SlastC) (all_epochs SsC SlastC)).2 <> 0%R ->
    wf m n P -> wf m m SlastL -> wf n n SlastC ->
    List.Forall2 (lump_rel m n P) SsL SsC ->
    mmul OpsR SlastL P = mmul OpsR P SlastC ->
    (forall i, (i < k)%N -> mmul OpsR (diagm OpsR (nth [::] RsL i)) P = mmul OpsR P (diagm OpsR (nth [::] RsC i))) ->
    mvec OpsR P (ones OpsR n) = ones OpsR m ->
    (forall i, (i < k)%N -> size (nth [::] RsL i) = m) -> (forall i, (i < k)%N -> size (nth [::] RsC i) = n) ->
    size alphaL = m ->
    PhaseTypeDistribution_accumulate OpsR expm regfL (length SlastL) k (all_epochs SsL SlastL) RsL alphaL ts
    = PhaseTypeDistribution_accumulate OpsR expm regfC (length SlastC) k (all_epochs SsC SlastC) RsC (vmat OpsR alphaL P) ts.
Proof. exact: source_accumulate_lumping. Qed.
Print Assumptions C01_distributions_py_moments_transfer_along_lumping.
