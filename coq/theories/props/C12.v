(* C12 - Per-population and per-locus marginals decompose the totals.

   (1) For every state with at least one lineage the per-deme fractions sum to one, hence for every
   reward r: sum_d r * Deme_d = r; per-locus branch lengths / heights sum to the totals (all states).
   (2) First moments are additive in the reward for every backend obeying the laws of the matrix
   exponential, so the marginal means sum to the mean.  (3) For every linear expectation the matrix
   of central second cross-moments is a Gram matrix: x^T C x is the central second moment of the
   linear combination (proofs/CentralMoments.v); its non-negativity - hence PSD and |corr| <= 1 -
   needs the path-measure reading of the functional and is NOT proved; it is checked on the
   implementation by the marginals stream, as is "a population that can never hold a lineage
   contributes exactly zero". *)
From Coq Require Import ZArith Reals List Arith.
From PG Require Import base.Ops base.OpsR model.CoalModels model.StateSpace model.Rewards proofs.RewardProofs.
Import ListNotations.
Local Open Scope R_scope.

Theorem C12_deme_fractions_sum_to_one :
  forall n s, (1 <= total_lineages s)%nat -> Forall (fun loc => length loc = n_demes s) (lin s) ->
    fold_right Rplus 0 (map (fun d => reward_get OpsR n (RDeme d) s) (seq 0 (n_demes s))) = 1.
Proof. exact deme_fractions_sum_to_one. Qed.
Print Assumptions C12_deme_fractions_sum_to_one.

Theorem C12_deme_marginals_decompose :
  forall n r s, (1 <= total_lineages s)%nat -> Forall (fun loc => length loc = n_demes s) (lin s) ->
    fold_right Rplus 0 (map (fun d => reward_get OpsR n (RProduct [r; RDeme d]) s) (seq 0 (n_demes s)))
    = reward_get OpsR n r s.
Proof. exact deme_marginals_decompose. Qed.
Print Assumptions C12_deme_marginals_decompose.

Theorem C12_locus_branch_lengths_sum :
  forall n s,
    fold_right Rplus 0 (map (fun l => reward_get OpsR n (RTBLLocus l) s) (seq 0 (n_loci s)))
    = reward_get OpsR n RTotalBranchLength s.
Proof. exact locus_branch_lengths_sum. Qed.
Print Assumptions C12_locus_branch_lengths_sum.

(* ---- the tie to phasegen/rewards.py by translation (gen/RewardsGen.v is regenerated from the source on every run) ---- *)
From PG Require Import gen.NpState gen.RewardsGen proofs.GenRewardsEquiv.

Theorem C12_rewards_py_deme_fractions_sum_to_one :
  forall n s, (0 < total_lineages s)%nat -> Forall (fun m => length m = n_demes s) (lin s) ->
    fold_right Rplus 0%R (map (fun d => gen_reward_get OpsR n (n_loci s) (RDeme d) s) (seq 0 (n_demes s))) = 1%R.
Proof. exact source_deme_fractions_sum_to_one. Qed.
Print Assumptions C12_rewards_py_deme_fractions_sum_to_one.

Theorem C12_rewards_py_is_the_model :
  forall (n nl : nat) (r : reward) (states : list state),
    reward_ok n r = true -> Forall (fun s => n_loci s = nl) states ->
    map (gen_reward_get OpsR n nl r) states = reward_vector OpsR n r states.
Proof. exact gen_reward_vector_eq_R. Qed.
Print Assumptions C12_rewards_py_is_the_model.

(* ---- the tie to the marginal distributions of phasegen/distributions.py by a PIN (gen/MarginalsGen.v is re-checked against the
   source on every run by translate/marginals2coq.py): entry (row j, column i) of dist.demes.cov is get_cov of the i-th and j-th
   population - the centred second cross moment of CombinedReward([r, DemeReward(.)]) whose double sum is the variance
   (C12_source_deme_covariances_sum_to_variance below); the same for loci; corr = cov / (std std) ---- *)
From PG Require Import gen.MarginalsGen proofs.GenMarginalsEquiv.

Theorem C12_distributions_py_deme_cov_entry :
  forall (Rw Pop : Type) (comb_deme : Rw -> Pop -> Rw) (pmoment : Rw -> nat -> option (list Rw) -> bool -> R)
         (r : Rw) (pops : list Pop) (i j : nat) (d : Pop), (i < length pops)%nat -> (j < length pops)%nat ->
    nth i (nth j (MarginalDemeDistributions_cov Rw Pop comb_deme pmoment r pops) []) 0
    = pmoment r 2%nat (Some [comb_deme r (nth i pops d); comb_deme r (nth j pops d)]) true.
Proof. exact gen_deme_cov_entry. Qed.
Print Assumptions C12_distributions_py_deme_cov_entry.

Theorem C12_distributions_py_deme_cov_total :
  forall (Rw Pop : Type) (comb_deme : Rw -> Pop -> Rw) (pmoment : Rw -> nat -> option (list Rw) -> bool -> R) (r : Rw) (pops : list Pop),
    rsum (map rsum (MarginalDemeDistributions_cov Rw Pop comb_deme pmoment r pops))
    = rsum (map (fun p2 => rsum (map (fun p1 => MarginalDemeDistributions_get_cov Rw Pop comb_deme pmoment r p1 p2) pops)) pops).
Proof. exact gen_deme_cov_total. Qed.
Print Assumptions C12_distributions_py_deme_cov_total.

Theorem C12_distributions_py_locus_cov_entry :
  forall (Rw : Type) (comb_locus : Rw -> nat -> Rw) (pmoment : Rw -> nat -> option (list Rw) -> bool -> R) (r : Rw) (nl i j : nat),
    (i < nl)%nat -> (j < nl)%nat ->
    nth i (nth j (MarginalLocusDistributions_cov Rw comb_locus pmoment r nl) []) 0
    = pmoment r 2%nat (Some [comb_locus r i; comb_locus r j]) true.
Proof. exact gen_locus_cov_entry. Qed.
Print Assumptions C12_distributions_py_locus_cov_entry.

Theorem C12_distributions_py_deme_corr_entry :
  forall (Rw Pop : Type) (comb_deme : Rw -> Pop -> Rw) (pmoment : Rw -> nat -> option (list Rw) -> bool -> R) (sqrtf : R -> R)
         (r : Rw) (pops : list Pop) (i j : nat) (d : Pop), (i < length pops)%nat -> (j < length pops)%nat ->
    nth i (nth j (MarginalDemeDistributions_corr OpsR Rw Pop comb_deme pmoment sqrtf r pops) []) 0
    = nth i (nth j (MarginalDemeDistributions_cov Rw Pop comb_deme pmoment r pops) []) 0
      / (sqrtf (pmoment (comb_deme r (nth i pops d)) 2%nat None true) * sqrtf (pmoment (comb_deme r (nth j pops d)) 2%nat None true)).
Proof. exact gen_deme_corr_entry. Qed.
Print Assumptions C12_distributions_py_deme_corr_entry.

From mathcomp Require Import all_ssreflect all_algebra.
From PG Require Import proofs.ExpLaws.
Set Implicit Arguments. Unset Strict Implicit. Unset Printing Implicit Defensive.
Import GRing.Theory.
Local Open Scope ring_scope.
Section C12.
Variable R : comRingType.
Variable expm : forall n : nat, 'M[R]_n -> 'M[R]_n.
Hypothesis expm0 : forall n, expm (0 : 'M[R]_n) = 1%:M.
Hypothesis expmD : forall n (A B : 'M[R]_n), A *m B = B *m A -> expm (A + B) = expm A *m expm B.
Hypothesis expm_intertwine : forall m n (A : 'M[R]_m) (B : 'M[R]_n) (P : 'M[R]_(m, n)),
    A *m P = P *m B -> expm A *m P = P *m expm B.
Theorem C12_marginal_means_add_up_given_ExpLaws :
  forall n (a : 'rV[R]_n) (S R1 R2 : 'M[R]_n) (t : R),
    m1 expm a S (R1 + R2) t = m1 expm a S R1 t + m1 expm a S R2 t.
Proof. by move=> *; apply: m1_additive. Qed.
Theorem C12_mean_homogeneous_given_ExpLaws :
  forall n (a : 'rV[R]_n) (S Rw : 'M[R]_n) (c t : R), m1 expm a S (c *: Rw) t = c *: m1 expm a S Rw t.
Proof. by move=> *; apply: m1_scale. Qed.
End C12.
Print Assumptions C12_marginal_means_add_up_given_ExpLaws.
Print Assumptions C12_mean_homogeneous_given_ExpLaws.

(* ------------------------------------------------------------------------------------------------
   Unconditional over the reals: the laws E0-E2 (and positivity) are theorems about the real matrix
   exponential mexp (analysis/MExp.v: entrywise limit of the exponential series), so the statements
   above hold for the matrix exponential itself, not only "given ExpLaws". *)
From PG Require Import analysis.Rstruct analysis.RSums analysis.MExp analysis.MExpLaws.

Theorem C12_marginal_means_add_up_real :
  forall n (a : 'rV[R]_n) (S R1 R2 : 'M[R]_n) (t : R),
    m1 (fun n : nat => @mexp n) a S (R1 + R2) t
    = m1 (fun n : nat => @mexp n) a S R1 t + m1 (fun n : nat => @mexp n) a S R2 t.
Proof. by move=> *; apply: real_m1_additive. Qed.
Print Assumptions C12_marginal_means_add_up_real.

(* ------------------------------------------------------------------------------------------------
   Finite sums and order k, with the real matrix exponential (proofs/ExpLaws2.v).

   C12_first_moment_of_sum_real    the first-moment functional of a finite sum of reward matrices
                                   (any finite index type: the demes, the loci) is the sum of the
                                   first moments: the per-population / per-locus marginal means add
                                   up to the mean of the total, for any number of populations.
   C12_moment_slot_additive_real   at any order k, the k-th order functional [mk] is additive in each
                                   of its k reward slots separately ([rset Rs j X] is the reward
                                   family Rs with slot j replaced by X): replacing the reward in
                                   slot j by a sum X + Y gives the sum of the two k-th order (cross)
                                   moments - so k-th order cross moments of marginals decompose the
                                   k-th order moments of the totals, slot by slot. *)
From PG Require Import proofs.ExpLaws2.

Theorem C12_first_moment_of_sum_real :
  forall n (a : 'rV[R]_n) (S : 'M[R]_n) (t : R) (I : finType) (Rs : I -> 'M[R]_n),
    m1 (fun n : nat => @mexp n) a S (\sum_i Rs i) t = \sum_i m1 (fun n : nat => @mexp n) a S (Rs i) t.
Proof. exact: real_m1_sum. Qed.
Print Assumptions C12_first_moment_of_sum_real.

Theorem C12_moment_slot_additive_real :
  forall n (a : 'rV[R]_n) (S : 'M[R]_n) (Rs : nat -> 'M[R]_n) (j : nat) (X Y : 'M[R]_n) (k : nat) (t : R),
    (j < k)%N ->
    mk (fun n : nat => @mexp n) a S (rset Rs j (X + Y)) k t
    = mk (fun n : nat => @mexp n) a S (rset Rs j X) k t + mk (fun n : nat => @mexp n) a S (rset Rs j Y) k t.
Proof. exact: real_mk_additive_slot. Qed.
Print Assumptions C12_moment_slot_additive_real.

(* ------------------------------------------------------------------------------------------------
   The same decompositions stated DIRECTLY about the translated source, on ANY piecewise-constant
   demography (any number of epochs) - analysis/SourceLinear.v, analysis/SourceCovariance.v.

   [expm] is any backend that computes the real matrix exponential on the matrices it is given; [regf] is
   _get_regularization_factor (any non-zero value); Ss / Slast are the rate matrices of the epochs; the
   functions are those of gen/LoopsGen.v (_accumulate), gen/MomentsGen.v (accumulate: centring and
   permutation average) and gen/RewardsGen.v (the reward vectors), all regenerated from the source on every run.

   C12_source_first_moment_linear      _accumulate of order 1 is linear in the reward
   C12_source_moment_slot_linear       _accumulate of order k is linear in each of its k rewards
   C12_source_deme_means_sum_to_mean   the per-deme marginal means of ANY reward sum to its mean
   C12_source_locus_*_means_sum        per-locus branch lengths / heights sum to the totals
   C12_source_deme_covariances_sum_to_variance
                                       the entries of the covariance matrix across demes (get_cov: centred,
                                       permutation-averaged second cross moments) sum to the variance           *)
From PG Require Import base.Ops base.OpsR model.Loop analysis.Denote gen.NpLoops analysis.SourceLinear analysis.SourceCovariance.
Local Notation Q0 := (QArith_base.Qmake BinNums.Z0 BinNums.xH).

Theorem C12_source_first_moment_linear :
  forall (expm : seq (seq R) -> seq (seq R)),
    (forall n A, wf n n A -> wf n n (expm A) /\ mx_of n n (expm A) = mexp (mx_of n n A)) ->
  forall (regf : seq (seq R) -> R) (n : nat) (Ss : seq (QArith_base.Q * seq (seq R))) (Slast : seq (seq R)) (alpha : seq R)
         (ts : seq QArith_base.Q) (r1 r2 : seq R) (c1 c2 : R),
    regf (List.hd (None, Slast) (all_epochs Ss Slast)).2 <> 0 ->
    List.Forall (fun x : QArith_base.Q * seq (seq R) => wf n n x.2) Ss -> wf n n Slast ->
    size r1 = n -> size r2 = n ->
    epochs_wf (seq (seq R)) Q0 Ss -> List.Forall (fun t => QArith_base.Qle Q0 t) ts ->
    acc1 expm regf Ss Slast alpha ts (Matrix.vadd OpsR (Matrix.vscale OpsR c1 r1) (Matrix.vscale OpsR c2 r2))
    = Matrix.vadd OpsR (Matrix.vscale OpsR c1 (acc1 expm regf Ss Slast alpha ts r1))
                       (Matrix.vscale OpsR c2 (acc1 expm regf Ss Slast alpha ts r2)).
Proof. exact: source_first_moment_linear. Qed.
Print Assumptions C12_source_first_moment_linear.

Theorem C12_source_moment_slot_linear :
  forall (expm : seq (seq R) -> seq (seq R)),
    (forall n A, wf n n A -> wf n n (expm A) /\ mx_of n n (expm A) = mexp (mx_of n n A)) ->
  forall (regf : seq (seq R) -> R) (n : nat) (Ss : seq (QArith_base.Q * seq (seq R))) (Slast : seq (seq R)) (alpha : seq R)
         (ts : seq QArith_base.Q),
    regf (List.hd (None, Slast) (all_epochs Ss Slast)).2 <> 0 ->
    List.Forall (fun x : QArith_base.Q * seq (seq R) => wf n n x.2) Ss -> wf n n Slast ->
    epochs_wf (seq (seq R)) Q0 Ss -> List.Forall (fun t => QArith_base.Qle Q0 t) ts ->
  forall (k j : nat) (Rs : seq (seq R)) (r1 r2 : seq R) (c1 c2 : R),
    (j < k)%N -> (forall i, (i < k)%N -> i != j -> size (nth [::] Rs i) = n) -> size r1 = n -> size r2 = n ->
    acck expm regf Ss Slast alpha ts k (set_nth [::] Rs j (Matrix.vadd OpsR (Matrix.vscale OpsR c1 r1) (Matrix.vscale OpsR c2 r2)))
    = Matrix.vadd OpsR (Matrix.vscale OpsR c1 (acck expm regf Ss Slast alpha ts k (set_nth [::] Rs j r1)))
                       (Matrix.vscale OpsR c2 (acck expm regf Ss Slast alpha ts k (set_nth [::] Rs j r2))).
Proof. move=> expm es regf n Ss Slast alpha ts; exact: source_moment_slot_linear. Qed.
Print Assumptions C12_source_moment_slot_linear.

Theorem C12_source_deme_means_sum_to_mean :
  forall (expm : seq (seq R) -> seq (seq R)),
    (forall n A, wf n n A -> wf n n (expm A) /\ mx_of n n (expm A) = mexp (mx_of n n A)) ->
  forall (regf : seq (seq R) -> R) (n : nat) (Ss : seq (QArith_base.Q * seq (seq R))) (Slast : seq (seq R)) (alpha : seq R)
         (ts : seq QArith_base.Q),
    regf (List.hd (None, Slast) (all_epochs Ss Slast)).2 <> 0 ->
    List.Forall (fun x : QArith_base.Q * seq (seq R) => wf n n x.2) Ss -> wf n n Slast ->
    epochs_wf (seq (seq R)) Q0 Ss -> List.Forall (fun t => QArith_base.Qle Q0 t) ts ->
  forall (nn nl nd : nat) (r : reward) (sts : seq state),
    size sts = n -> reward_ok nn r = true ->
    List.Forall (fun s => n_loci s = nl) sts ->
    List.Forall (fun s => n_demes s = nd /\ (1 <= total_lineages s)%coq_nat /\
                          List.Forall (fun loc => length loc = n_demes s) (lin s)) sts ->
    acc1 expm regf Ss Slast alpha ts [seq gen_reward_get OpsR nn nl r s | s <- sts]
    = vsum (size ts) [seq acc1 expm regf Ss Slast alpha ts [seq gen_reward_get OpsR nn nl (RProduct [:: r; RDeme d]) s | s <- sts]
                     | d <- iota 0 nd].
Proof. move=> expm es regf n Ss Slast alpha ts; exact: source_deme_means_sum_to_mean. Qed.
Print Assumptions C12_source_deme_means_sum_to_mean.

Theorem C12_source_locus_branch_length_means_sum :
  forall (expm : seq (seq R) -> seq (seq R)),
    (forall n A, wf n n A -> wf n n (expm A) /\ mx_of n n (expm A) = mexp (mx_of n n A)) ->
  forall (regf : seq (seq R) -> R) (n : nat) (Ss : seq (QArith_base.Q * seq (seq R))) (Slast : seq (seq R)) (alpha : seq R)
         (ts : seq QArith_base.Q),
    regf (List.hd (None, Slast) (all_epochs Ss Slast)).2 <> 0 ->
    List.Forall (fun x : QArith_base.Q * seq (seq R) => wf n n x.2) Ss -> wf n n Slast ->
    epochs_wf (seq (seq R)) Q0 Ss -> List.Forall (fun t => QArith_base.Qle Q0 t) ts ->
  forall (nn nl : nat) (sts : seq state),
    size sts = n -> List.Forall (fun s => n_loci s = nl) sts ->
    acc1 expm regf Ss Slast alpha ts [seq gen_reward_get OpsR nn nl RTotalBranchLength s | s <- sts]
    = vsum (size ts) [seq acc1 expm regf Ss Slast alpha ts [seq gen_reward_get OpsR nn nl (RTBLLocus l) s | s <- sts] | l <- iota 0 nl].
Proof. move=> expm es regf n Ss Slast alpha ts; exact: source_locus_branch_length_means_sum. Qed.
Print Assumptions C12_source_locus_branch_length_means_sum.

Theorem C12_source_locus_height_means_sum :
  forall (expm : seq (seq R) -> seq (seq R)),
    (forall n A, wf n n A -> wf n n (expm A) /\ mx_of n n (expm A) = mexp (mx_of n n A)) ->
  forall (regf : seq (seq R) -> R) (n : nat) (Ss : seq (QArith_base.Q * seq (seq R))) (Slast : seq (seq R)) (alpha : seq R)
         (ts : seq QArith_base.Q),
    regf (List.hd (None, Slast) (all_epochs Ss Slast)).2 <> 0 ->
    List.Forall (fun x : QArith_base.Q * seq (seq R) => wf n n x.2) Ss -> wf n n Slast ->
    epochs_wf (seq (seq R)) Q0 Ss -> List.Forall (fun t => QArith_base.Qle Q0 t) ts ->
  forall (nn nl : nat) (sts : seq state),
    size sts = n -> List.Forall (fun s => n_loci s = nl) sts ->
    acc1 expm regf Ss Slast alpha ts [seq gen_reward_get OpsR nn nl RTotalTreeHeight s | s <- sts]
    = vsum (size ts) [seq acc1 expm regf Ss Slast alpha ts [seq gen_reward_get OpsR nn nl (RLocus l) s | s <- sts] | l <- iota 0 nl].
Proof. move=> expm es regf n Ss Slast alpha ts; exact: source_locus_height_means_sum. Qed.
Print Assumptions C12_source_locus_height_means_sum.

Theorem C12_source_deme_covariances_sum_to_variance :
  forall (expm : seq (seq R) -> seq (seq R)),
    (forall n A, wf n n A -> wf n n (expm A) /\ mx_of n n (expm A) = mexp (mx_of n n A)) ->
  forall (n : nat) (Ss : seq (QArith_base.Q * seq (seq R))) (Slast : seq (seq R)) (alpha : seq R) (lam : R) (t : QArith_base.Q),
    lam <> 0 ->
    List.Forall (fun x : QArith_base.Q * seq (seq R) => wf n n x.2) Ss -> wf n n Slast ->
    epochs_wf (seq (seq R)) Q0 Ss -> QArith_base.Qle Q0 t ->
  forall (self_reward : seq R) (nn nl nd : nat) (r : reward) (sts : seq state),
    size sts = n -> reward_ok nn r = true ->
    List.Forall (fun s => n_loci s = nl) sts ->
    List.Forall (fun s => n_demes s = nd /\ (1 <= total_lineages s)%coq_nat /\
                          List.Forall (fun loc => length loc = n_demes s) (lin s)) sts ->
    let rv x := [seq gen_reward_get OpsR nn nl x s | s <- sts] in
    \sum_(p <- iota 0 nd) \sum_(q <- iota 0 nd)
       src_cov expm Ss Slast alpha lam t self_reward (rv (RProduct [:: r; RDeme p])) (rv (RProduct [:: r; RDeme q]))
    = src_cov expm Ss Slast alpha lam t self_reward (rv r) (rv r).
Proof. move=> expm es n Ss Slast alpha lam t l0 h1 h2 h5 t0 sr; exact: source_deme_covariances_sum_to_variance. Qed.
Print Assumptions C12_source_deme_covariances_sum_to_variance.

(* a population that holds no lineage in any state of the state space contributes EXACTLY zero (the zero reward vector gives the zero
   moment by linearity), at every end time, on any demography *)
Theorem C12_source_unvisited_deme_contributes_zero :
  forall (expm : seq (seq R) -> seq (seq R)),
    (forall n A, wf n n A -> wf n n (expm A) /\ mx_of n n (expm A) = mexp (mx_of n n A)) ->
  forall (regf : seq (seq R) -> R) (n : nat) (Ss : seq (QArith_base.Q * seq (seq R))) (Slast : seq (seq R)) (alpha : seq R)
         (ts : seq QArith_base.Q),
    regf (List.hd (None, Slast) (all_epochs Ss Slast)).2 <> 0 ->
    List.Forall (fun x : QArith_base.Q * seq (seq R) => wf n n x.2) Ss -> wf n n Slast ->
    epochs_wf (seq (seq R)) Q0 Ss -> List.Forall (fun t => QArith_base.Qle Q0 t) ts ->
  forall (nn nl d : nat) (r : reward) (sts : seq state),
    size sts = n -> reward_ok nn r = true -> List.Forall (fun s => n_loci s = nl) sts ->
    List.Forall (fun s => deme_lineages s d = 0%N) sts ->
    acc1 expm regf Ss Slast alpha ts [seq gen_reward_get OpsR nn nl (RProduct [:: r; RDeme d]) s | s <- sts] = nseq (size ts) 0.
Proof. move=> expm es regf n Ss Slast alpha ts; exact: source_unvisited_deme_contributes_zero. Qed.
Print Assumptions C12_source_unvisited_deme_contributes_zero.
