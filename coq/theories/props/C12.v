(* C12 - Per-population and per-locus marginals decompose the totals.

   (1) For every state with at least one lineage the per-deme fractions sum to one, hence for every
   reward r: sum_d r * Deme_d = r; per-locus branch lengths / heights sum to the totals (all states).
   (2) First moments are additive in the reward for every backend obeying the laws of the matrix
   exponential, so the marginal means sum to the mean.  (3) For every linear expectation the matrix
   of central second cross-moments is a Gram matrix: x^T C x is the central second moment of the
   linear combination (proofs/CentralMoments.v); its non-negativity - hence PSD and |corr| <= 1 -
   needs the path-measure reading of the functional and is NOT proved; it is checked on the
   implementation by the marginals stream, as is "a population that can never hold a lineage
   contributes exactly zero". *)
From Coq Require Import ZArith Reals List Arith.
From PG Require Import base.Ops base.OpsR model.CoalModels model.StateSpace model.Rewards proofs.RewardProofs.
Import ListNotations.
Local Open Scope R_scope.

Theorem C12_deme_fractions_sum_to_one :
  forall n s, (1 <= total_lineages s)%nat -> Forall (fun loc => length loc = n_demes s) (lin s) ->
    fold_right Rplus 0 (map (fun d => reward_get OpsR n (RDeme d) s) (seq 0 (n_demes s))) = 1.
Proof. exact deme_fractions_sum_to_one. Qed.
Print Assumptions C12_deme_fractions_sum_to_one.

Theorem C12_deme_marginals_decompose :
  forall n r s, (1 <= total_lineages s)%nat -> Forall (fun loc => length loc = n_demes s) (lin s) ->
    fold_right Rplus 0 (map (fun d => reward_get OpsR n (RProduct [r; RDeme d]) s) (seq 0 (n_demes s)))
    = reward_get OpsR n r s.
Proof. exact deme_marginals_decompose. Qed.
Print Assumptions C12_deme_marginals_decompose.

Theorem C12_locus_branch_lengths_sum :
  forall n s,
    fold_right Rplus 0 (map (fun l => reward_get OpsR n (RTBLLocus l) s) (seq 0 (n_loci s)))
    = reward_get OpsR n RTotalBranchLength s.
Proof. exact locus_branch_lengths_sum. Qed.
Print Assumptions C12_locus_branch_lengths_sum.

(* ---- the tie to phasegen/rewards.py by translation (gen/RewardsGen.v is regenerated from the source on every run) ---- *)
From PG Require Import gen.NpState gen.RewardsGen proofs.GenRewardsEquiv.

Theorem C12_rewards_py_deme_fractions_sum_to_one :
  forall n s, (0 < total_lineages s)%nat -> Forall (fun m => length m = n_demes s) (lin s) ->
    fold_right Rplus 0%R (map (fun d => gen_reward_get OpsR n (n_loci s) (RDeme d) s) (seq 0 (n_demes s))) = 1%R.
Proof. exact source_deme_fractions_sum_to_one. Qed.
Print Assumptions C12_rewards_py_deme_fractions_sum_to_one.

Theorem C12_rewards_py_is_the_model :
  forall (n nl : nat) (r : reward) (states : list state),
    reward_ok n r = true -> Forall (fun s => n_loci s = nl) states ->
    map (gen_reward_get OpsR n nl r) states = reward_vector OpsR n r states.
Proof. exact gen_reward_vector_eq_R. Qed.
Print Assumptions C12_rewards_py_is_the_model.

From mathcomp Require Import all_ssreflect all_algebra.
From PG Require Import proofs.ExpLaws.
Set Implicit Arguments. Unset Strict Implicit. Unset Printing Implicit Defensive.
Import GRing.Theory.
Local Open Scope ring_scope.
Section C12.
Variable R : comRingType.
Variable expm : forall n : nat, 'M[R]_n -> 'M[R]_n.
Hypothesis expm0 : forall n, expm (0 : 'M[R]_n) = 1%:M.
Hypothesis expmD : forall n (A B : 'M[R]_n), A *m B = B *m A -> expm (A + B) = expm A *m expm B.
Hypothesis expm_intertwine : forall m n (A : 'M[R]_m) (B : 'M[R]_n) (P : 'M[R]_(m, n)),
    A *m P = P *m B -> expm A *m P = P *m expm B.
Theorem C12_marginal_means_add_up_given_ExpLaws :
  forall n (a : 'rV[R]_n) (S R1 R2 : 'M[R]_n) (t : R),
    m1 expm a S (R1 + R2) t = m1 expm a S R1 t + m1 expm a S R2 t.
Proof. by move=> *; apply: m1_additive. Qed.
Theorem C12_mean_homogeneous_given_ExpLaws :
  forall n (a : 'rV[R]_n) (S Rw : 'M[R]_n) (c t : R), m1 expm a S (c *: Rw) t = c *: m1 expm a S Rw t.
Proof. by move=> *; apply: m1_scale. Qed.
End C12.
Print Assumptions C12_marginal_means_add_up_given_ExpLaws.
Print Assumptions C12_mean_homogeneous_given_ExpLaws.

(* ------------------------------------------------------------------------------------------------
   Unconditional over the reals: the laws E0-E2 (and positivity) are theorems about the real matrix
   exponential mexp (analysis/MExp.v: entrywise limit of the exponential series), so the statements
   above hold for the matrix exponential itself, not only "given ExpLaws". *)
From PG Require Import analysis.Rstruct analysis.RSums analysis.MExp analysis.MExpLaws.

Theorem C12_marginal_means_add_up_real :
  forall n (a : 'rV[R]_n) (S R1 R2 : 'M[R]_n) (t : R),
    m1 (fun n : nat => @mexp n) a S (R1 + R2) t
    = m1 (fun n : nat => @mexp n) a S R1 t + m1 (fun n : nat => @mexp n) a S R2 t.
Proof. by move=> *; apply: real_m1_additive. Qed.
Print Assumptions C12_marginal_means_add_up_real.

(* ------------------------------------------------------------------------------------------------
   Finite sums and order k, with the real matrix exponential (proofs/ExpLaws2.v).

   C12_first_moment_of_sum_real    the first-moment functional of a finite sum of reward matrices
                                   (any finite index type: the demes, the loci) is the sum of the
                                   first moments: the per-population / per-locus marginal means add
                                   up to the mean of the total, for any number of populations.
   C12_moment_slot_additive_real   at any order k, the k-th order functional [mk] is additive in each
                                   of its k reward slots separately ([rset Rs j X] is the reward
                                   family Rs with slot j replaced by X): replacing the reward in
                                   slot j by a sum X + Y gives the sum of the two k-th order (cross)
                                   moments - so k-th order cross moments of marginals decompose the
                                   k-th order moments of the totals, slot by slot. *)
From PG Require Import proofs.ExpLaws2.

Theorem C12_first_moment_of_sum_real :
  forall n (a : 'rV[R]_n) (S : 'M[R]_n) (t : R) (I : finType) (Rs : I -> 'M[R]_n),
    m1 (fun n : nat => @mexp n) a S (\sum_i Rs i) t = \sum_i m1 (fun n : nat => @mexp n) a S (Rs i) t.
Proof. exact: real_m1_sum. Qed.
Print Assumptions C12_first_moment_of_sum_real.

Theorem C12_moment_slot_additive_real :
  forall n (a : 'rV[R]_n) (S : 'M[R]_n) (Rs : nat -> 'M[R]_n) (j : nat) (X Y : 'M[R]_n) (k : nat) (t : R),
    (j < k)%N ->
    mk (fun n : nat => @mexp n) a S (rset Rs j (X + Y)) k t
    = mk (fun n : nat => @mexp n) a S (rset Rs j X) k t + mk (fun n : nat => @mexp n) a S (rset Rs j Y) k t.
Proof. exact: real_mk_additive_slot. Qed.
Print Assumptions C12_moment_slot_additive_real.
