(* C15 - Moment algebra and documented API routes agree with each other.

   (1) proofs/CentralMoments.v: for EVERY linear expectation E on a commutative algebra, the
   inclusion-exclusion the code uses,  sum_I (-1)^(k-|I|) mu(I) prod_{j not in I} m_j,  is
   E[prod_j (Y_j - m_j)], for every order k; it is symmetric under permutations of the variables; the
   quadratic form of the covariance matrix is the central second moment of the linear combination
   (Gram matrix).  (2) proofs/PhaseTypeProofs.v, about the model of the code itself (model/
   PhaseType.v [accumulate], over the reals, any backend): for k = 1 no centering happens, for k = 2
   and 3 the code computes exactly var = m2 - mean^2, the covariance and the third central moment
   from the raw moments; center = False returns the raw moment; a moment with end time is the
   accumulation at that time, with start time the difference of two accumulations; the average over
   reward permutations is symmetric in the rewards.  (3) Composite rewards act pointwise (Rewards.v);
   memoisation keyed by sound equality returns the pure value (C17).
   PSD / unit-diagonal correlations need non-negativity of a central second moment (path-measure
   reading): checked on the implementation by the routes and marginals streams. *)
From Coq Require Import ZArith QArith Reals List Arith.
From PG Require Import base.Ops base.OpsR base.Perm model.CoalModels model.StateSpace model.Rewards
                       model.Matrix model.Loop model.PhaseType proofs.PhaseTypeProofs proofs.RewardProofs.
Import ListNotations.
Local Open Scope R_scope.

Section C15model.
  Variable expm : mat (T:=R) -> mat (T:=R).
  Variables (Ss : list (Q * mat (T:=R))) (Slast : mat (T:=R)) (alpha : vec (T:=R)) (lam : R).
  Notation U := (fun k Rs p t => nth 0 (accumulate_uncentered OpsR expm k Ss Slast Rs alpha lam p [t]) 0).

  Theorem C15_variance_is_m2_minus_mean_squared : forall r p t,
    nth 0 (accumulate OpsR expm 2 Ss Slast [r; r] alpha lam true p [t]) 0
    = U 2%nat [r; r] p t - (U 1%nat [r] true t) ^ 2.
  Proof. intros; apply accumulate_variance. Qed.

  Theorem C15_covariance_from_raw : forall r0 r1 p t,
    nth 0 (accumulate OpsR expm 2 Ss Slast [r0; r1] alpha lam true p [t]) 0
    = U 2%nat [r0; r1] p t - U 1%nat [r0] true t * U 1%nat [r1] true t.
  Proof. intros; apply accumulate_center_k2. Qed.

  Theorem C15_third_central_from_raw : forall r0 r1 r2 p t,
    nth 0 (accumulate OpsR expm 3 Ss Slast [r0; r1; r2] alpha lam true p [t]) 0
    = U 3%nat [r0; r1; r2] p t - U 1%nat [r0] true t * U 2%nat [r1; r2] p t
      - U 1%nat [r1] true t * U 2%nat [r0; r2] p t - U 1%nat [r2] true t * U 2%nat [r0; r1] p t
      + 2 * U 1%nat [r0] true t * U 1%nat [r1] true t * U 1%nat [r2] true t.
  Proof. intros; apply accumulate_center_k3. Qed.

  Theorem C15_cross_moment_symmetric : forall r0 r1 t,
    U 2%nat [r0; r1] true t = U 2%nat [r1; r0] true t.
  Proof. intros; apply U2_symmetric. Qed.

  Theorem C15_moment_is_accumulation_at_end_time : forall k Rs c p start_time end_time,
    (start_time <= 0)%Q ->
    moment OpsR expm k Ss Slast Rs alpha lam c p start_time end_time
    = nth 0 (accumulate OpsR expm k Ss Slast Rs alpha lam c p [end_time]) 0.
  Proof. intros; apply moment_is_accumulate_at_end; assumption. Qed.

  Theorem C15_moment_with_start_time_is_a_difference : forall k Rs c p start_time end_time,
    (0 < start_time)%Q ->
    moment OpsR expm k Ss Slast Rs alpha lam c p start_time end_time
    = nth 1 (accumulate OpsR expm k Ss Slast Rs alpha lam c p [start_time; end_time]) 0
      - nth 0 (accumulate OpsR expm k Ss Slast Rs alpha lam c p [start_time; end_time]) 0.
  Proof. intros; apply moment_window; assumption. Qed.
End C15model.
Print Assumptions C15_variance_is_m2_minus_mean_squared.
Print Assumptions C15_covariance_from_raw.
Print Assumptions C15_third_central_from_raw.
Print Assumptions C15_cross_moment_symmetric.
Print Assumptions C15_moment_is_accumulation_at_end_time.
Print Assumptions C15_moment_with_start_time_is_a_difference.

(* ---- the SOURCE of PhaseTypeDistribution.accumulate / moment (translated on every run by translate/moments2coq.py into
   gen/MomentsGen.v) is the model the theorems above are about, and therefore satisfies them ---- *)
From PG Require Import gen.NpMoments gen.MomentsGen proofs.GenMomentsEquiv.
From Coq Require Import Permutation.
Section C15source.
  Variable expm : mat (T:=R) -> mat (T:=R).
  Variables (Ss : list (Q * mat (T:=R))) (Slast : mat (T:=R)) (alpha : vec (T:=R)) (lam : R).
  Variable self_reward : vec (T:=R).
  Variables self_start_time self_t_max : Q.
  Notation raw := (raw_model expm Ss Slast alpha lam).

  Theorem C15_distributions_py_accumulate_is_the_model : forall k Rs c p ts,
    length Rs = k ->
    PhaseTypeDistribution_accumulate OpsR raw self_reward k ts (Some Rs) c p
    = accumulate OpsR expm k Ss Slast Rs alpha lam c p ts.
  Proof. exact (gen_accumulate_eq expm Ss Slast alpha lam self_reward). Qed.

  Theorem C15_distributions_py_moment_is_the_model : forall k Rs c p st en,
    length Rs = k ->
    PhaseTypeDistribution_moment OpsR raw self_reward self_start_time self_t_max k (Some Rs) (Some st) (Some en) c p
    = moment OpsR expm k Ss Slast Rs alpha lam c p st en.
  Proof. exact (gen_moment_eq expm Ss Slast alpha lam self_reward self_start_time self_t_max). Qed.

  Theorem C15_distributions_py_moment_defaults : forall k Rs c p,
    length Rs = k ->
    PhaseTypeDistribution_moment OpsR raw self_reward self_start_time self_t_max k (Some Rs) None None c p
    = moment OpsR expm k Ss Slast Rs alpha lam c p self_start_time self_t_max.
  Proof. exact (gen_moment_defaults expm Ss Slast alpha lam self_reward self_start_time self_t_max). Qed.

  Theorem C15_distributions_py_variance_formula : forall r p t,
    nth 0 (PhaseTypeDistribution_accumulate OpsR raw self_reward 2 [t] (Some [r; r]) true p) 0
    = U expm Ss Slast alpha lam 2 [r; r] p t - (U expm Ss Slast alpha lam 1 [r] true t) ^ 2.
  Proof. exact (source_variance_formula expm Ss Slast alpha lam self_reward). Qed.

  Theorem C15_distributions_py_third_central_formula : forall r0 r1 r2 p t,
    nth 0 (PhaseTypeDistribution_accumulate OpsR raw self_reward 3 [t] (Some [r0; r1; r2]) true p) 0
    = U expm Ss Slast alpha lam 3 [r0; r1; r2] p t
      - U expm Ss Slast alpha lam 1 [r0] true t * U expm Ss Slast alpha lam 2 [r1; r2] p t
      - U expm Ss Slast alpha lam 1 [r1] true t * U expm Ss Slast alpha lam 2 [r0; r2] p t
      - U expm Ss Slast alpha lam 1 [r2] true t * U expm Ss Slast alpha lam 2 [r0; r1] p t
      + 2 * U expm Ss Slast alpha lam 1 [r0] true t * U expm Ss Slast alpha lam 1 [r1] true t * U expm Ss Slast alpha lam 1 [r2] true t.
  Proof. exact (source_third_central_formula expm Ss Slast alpha lam self_reward). Qed.

  Theorem C15_distributions_py_raw_cross_moment_symmetric : forall k Rs Rs' ts,
    Permutation Rs Rs' ->
    PhaseTypeDistribution_accumulate OpsR raw self_reward k ts (Some Rs) false true
    = PhaseTypeDistribution_accumulate OpsR raw self_reward k ts (Some Rs') false true.
  Proof. exact (source_raw_cross_moment_symmetric expm Ss Slast alpha lam self_reward). Qed.

  Theorem C15_itertools_permutations_is_a_rearrangement : forall (A : Type) (l : list A),
    Permutation (it_permutations l) (permutations l).
  Proof. exact it_permutations_perm. Qed.
End C15source.
Print Assumptions C15_distributions_py_accumulate_is_the_model.
Print Assumptions C15_distributions_py_moment_is_the_model.
Print Assumptions C15_distributions_py_moment_defaults.
Print Assumptions C15_distributions_py_variance_formula.
Print Assumptions C15_distributions_py_third_central_formula.
Print Assumptions C15_distributions_py_raw_cross_moment_symmetric.
Print Assumptions C15_itertools_permutations_is_a_rearrangement.

Theorem C15_sum_reward_linear :
  forall n rs s, reward_get OpsR n (RSum rs) s = fold_right Rplus 0 (map (fun r => reward_get OpsR n r s) rs).
Proof. exact sum_reward_linear. Qed.
Print Assumptions C15_sum_reward_linear.
Theorem C15_product_reward_pointwise :
  forall n rs s, reward_get OpsR n (RProduct rs) s = fold_right Rmult 1 (map (fun r => reward_get OpsR n r s) rs).
Proof. exact product_reward_pointwise. Qed.
Print Assumptions C15_product_reward_pointwise.

(* ---- the ROUTES of class Coalescent (moment, _raw_moment, accumulate, _get_dist, tree_height, total_branch_length, sfs, fsfs),
   PINNED in gen/CoalescentGen.v and re-checked against the source on every run by translate/coalescent2coq.py ---- *)
From PG Require Import model.Rewards gen.CoalescentGen proofs.GenCoalescentEquiv.
Theorem C15_distributions_py_moment_default_rewards : forall k st en c p,
  Coalescent_moment k None st en c p = mkRoute LineageCounting RUnit k (repeat RTreeHeight k) st en c p.
Proof. exact gen_moment_default_rewards. Qed.
Print Assumptions C15_distributions_py_moment_default_rewards.

Theorem C15_distributions_py_state_space_choice : forall k rs st en c p,
  r_space (Coalescent_moment k (Some rs) st en c p) = LineageCounting <-> Forall (fun r => supports_lc r = true) rs.
Proof. exact gen_moment_space_iff_supported. Qed.
Print Assumptions C15_distributions_py_state_space_choice.

Theorem C15_distributions_py_accumulate_same_route_as_moment : forall k rs c p,
  Coalescent_accumulate k rs c p = Coalescent_moment k rs None None c p.
Proof. exact gen_accumulate_same_route_as_moment. Qed.
Print Assumptions C15_distributions_py_accumulate_same_route_as_moment.

From mathcomp Require Import all_ssreflect all_fingroup all_algebra.
From PG Require Import proofs.CentralMoments.
Set Implicit Arguments. Unset Strict Implicit. Unset Printing Implicit Defensive.
Import GRing.Theory.
Local Close Scope R_scope.
Local Open Scope ring_scope.

Section C15algebra.
  Variables (R : comRingType) (A : comAlgType R).
  Variable E : {scalar A}.
  Variable k : nat.
  Variable Y : 'I_k -> A.
  (* the code's inclusion-exclusion is the expectation of the product of the centred variables *)
  Theorem C15_central_from_raw :
    E (\prod_(j < k) (Y j - (mu E Y [set j])%:A))
    = \sum_(I : {set 'I_k}) (-1) ^+ (k - #|I|) * mu E Y I * \prod_(j in ~: I) mu E Y [set j].
  Proof. exact: central_from_raw. Qed.
  Theorem C15_central_moment_symmetric : forall s : 'S_k,
    E (\prod_(j < k) (Y (s j) - (mu E Y [set s j])%:A)) = E (\prod_(j < k) (Y j - (mu E Y [set j])%:A)).
  Proof. exact: central_perm. Qed.
End C15algebra.
Print Assumptions C15_central_from_raw.
Print Assumptions C15_central_moment_symmetric.

(* ------------------------------------------------------------------------------------------------
   Stated about the translated source on ANY piecewise-constant demography (analysis/SourceLinear.v): the mean of
   SumReward([r_1, .., r_m]) is the sum of the means of the r_i - one route (one reward object) against m routes. *)
From PG Require Import base.Ops base.OpsR model.Loop model.StateSpace model.Rewards analysis.Rstruct analysis.MExp analysis.Denote
                       gen.NpLoops gen.RewardsGen proofs.GenRewardsEquiv analysis.SourceLinear.
Local Notation Q0 := (QArith_base.Qmake BinNums.Z0 BinNums.xH).
Theorem C15_source_sum_reward_mean_is_sum_of_means :
  forall (expm : seq (seq R) -> seq (seq R)),
    (forall n A, wf n n A -> wf n n (expm A) /\ mx_of n n (expm A) = mexp (mx_of n n A)) ->
  forall (regf : seq (seq R) -> R) (n : nat) (Ss : seq (QArith_base.Q * seq (seq R))) (Slast : seq (seq R)) (alpha : seq R)
         (ts : seq QArith_base.Q),
    regf (List.hd (None, Slast) (all_epochs Ss Slast)).2 <> 0 ->
    List.Forall (fun x : QArith_base.Q * seq (seq R) => wf n n x.2) Ss -> wf n n Slast ->
    epochs_wf (seq (seq R)) Q0 Ss -> List.Forall (fun t => QArith_base.Qle Q0 t) ts ->
  forall (nn nl : nat) (rs : seq reward) (sts : seq state),
    size sts = n -> all (reward_ok nn) rs -> List.Forall (fun s => n_loci s = nl) sts ->
    acc1 expm regf Ss Slast alpha ts [seq gen_reward_get OpsR nn nl (RSum rs) s | s <- sts]
    = SourceLinear.vsum (size ts) [seq acc1 expm regf Ss Slast alpha ts [seq gen_reward_get OpsR nn nl r s | s <- sts] | r <- rs].
Proof. move=> expm es regf n Ss Slast alpha ts; exact: source_sum_reward_mean. Qed.
Print Assumptions C15_source_sum_reward_mean_is_sum_of_means.

(* the covariance that accumulate(k=2, center=True, permute=True) computes (model of the translated accumulate) is symmetric and
   bilinear in the reward vectors, on any demography *)
From PG Require Import analysis.SourceCovariance.
Theorem C15_source_covariance_symmetric :
  forall (expm : seq (seq R) -> seq (seq R)) (Ss : seq (QArith_base.Q * seq (seq R))) (Slast : seq (seq R)) (alpha : seq R) (lam : R)
         (t : QArith_base.Q) (a b : seq R),
    cov_t expm Ss Slast alpha lam t a b = cov_t expm Ss Slast alpha lam t b a.
Proof. exact: cov_t_sym. Qed.
Print Assumptions C15_source_covariance_symmetric.

Theorem C15_source_covariance_bilinear :
  forall (expm : seq (seq R) -> seq (seq R)),
    (forall n A, wf n n A -> wf n n (expm A) /\ mx_of n n (expm A) = mexp (mx_of n n A)) ->
  forall (n : nat) (Ss : seq (QArith_base.Q * seq (seq R))) (Slast : seq (seq R)) (alpha : seq R) (lam : R) (t : QArith_base.Q),
    lam <> 0 ->
    List.Forall (fun x : QArith_base.Q * seq (seq R) => wf n n x.2) Ss -> wf n n Slast ->
    epochs_wf (seq (seq R)) Q0 Ss -> QArith_base.Qle Q0 t ->
  forall a1 a2 b (c1 c2 : R), size a1 = n -> size a2 = n -> size b = n ->
    cov_t expm Ss Slast alpha lam t (Matrix.vadd OpsR (Matrix.vscale OpsR c1 a1) (Matrix.vscale OpsR c2 a2)) b
    = c1 * cov_t expm Ss Slast alpha lam t a1 b + c2 * cov_t expm Ss Slast alpha lam t a2 b.
Proof. move=> expm es n Ss Slast alpha lam t; exact: cov_t_lin_l. Qed.
Print Assumptions C15_source_covariance_bilinear.

(* ---- the SOURCE of SFSDistribution.accumulate / get_accumulation (pinned on every run by translate/sfs2coq.py into gen/SfsGen.v): row i
   of sfs.accumulate(k, end_times, rewards, center, permute) is the accumulation of PhaseTypeDistribution (the parameter paccumulate)
   with the rewards combined with the reward of bin i and THE SAME center and permute - the route through all bins and the route through
   get_accumulation for one bin are the same number, for every order, centred or raw, symmetrised or ordered ---- *)
From PG Require Import gen.SfsGen proofs.GenSfsEquiv.
Theorem C15_distributions_py_sfs_accumulate_hands_on_center_and_permute :
  forall (T : Type) (OP : Ops T) (Rw : Type) (combined : Rw -> nat -> Rw) (self_reward : Rw)
         (paccumulate : nat -> list Rw -> bool -> bool -> list T) (n nt k : nat) (rewards : list Rw) (c p : bool) (i : nat),
    Nat.le 1 i -> Nat.lt i n ->
    List.nth i (SFSDistribution_accumulate OP Rw combined self_reward paccumulate n (UnfoldedSFSDistribution_get_indices n) nt k (Some rewards) c p)
             (List.repeat (o0 OP) nt)
    = paccumulate k (List.map (fun r => combined r i) rewards) c p
    /\ List.nth i (SFSDistribution_accumulate OP Rw combined self_reward paccumulate n (UnfoldedSFSDistribution_get_indices n) nt k (Some rewards) c p)
                (List.repeat (o0 OP) nt)
       = SFSDistribution_get_accumulation Rw combined self_reward paccumulate k i (Some rewards) c p.
Proof.
  move=> T OP Rw combined self_reward paccumulate n nt k rewards c p i H1 H2.
  split; exact: (gen_sfs_accumulate_unfolded_entry OP Rw combined self_reward paccumulate n nt k rewards c p i H1 H2).
Qed.
Print Assumptions C15_distributions_py_sfs_accumulate_hands_on_center_and_permute.

Theorem C15_distributions_py_sfs_accumulate_layout :
  forall (T : Type) (OP : Ops T) (Rw : Type) (combined : Rw -> nat -> Rw) (self_reward : Rw)
         (paccumulate : nat -> list Rw -> bool -> bool -> list T) (n : nat) (indices : list nat) (nt k : nat) (rewards : option (list Rw)) (c p : bool),
    Nat.le (List.length indices) n ->
    List.length (SFSDistribution_accumulate OP Rw combined self_reward paccumulate n indices nt k rewards c p) = Nat.add n 1 /\
    List.nth 0 (SFSDistribution_accumulate OP Rw combined self_reward paccumulate n indices nt k rewards c p) (List.repeat (o0 OP) nt)
      = List.repeat (o0 OP) nt /\
    (forall q, Nat.lt (List.length indices) q ->
       List.nth q (SFSDistribution_accumulate OP Rw combined self_reward paccumulate n indices nt k rewards c p) (List.repeat (o0 OP) nt)
       = List.repeat (o0 OP) nt).
Proof.
  move=> T OP Rw combined self_reward paccumulate n indices nt k rewards c p Hle.
  case: (gen_sfs_accumulate_layout OP Rw combined self_reward paccumulate n indices nt k rewards c p Hle) => H0 [H1 [_ H3]].
  by split; [exact: H0 | split; [exact: H1 | exact: H3]].
Qed.
Print Assumptions C15_distributions_py_sfs_accumulate_layout.
