(* C14 - Coalescent-model merger rates follow their defining measure and time scale.

   Property theorems only: each is closed by [exact] of a lemma proved elsewhere and followed by
   Print Assumptions.  The model (model/CoalModels.v) is generic over an operations record; the
   theorems are about its instance over the reals, the correspondence check runs its instance over
   exact rationals against phasegen.coalescent_models on every run. *)
From Coq Require Import ZArith Reals List Arith Lra.
From PG Require Import base.Ops base.OpsR model.CoalModels model.LambdaSpec
                       proofs.RatesProofs.
Import ListNotations.
Open Scope R_scope.

(* The rate at which one given set of k out of b lineages merges is the integral of
   x^(k-2) (1-x)^(b-k) against the model's Lambda measure (Kingman delta_0, Beta(2-alpha, alpha),
   Dirac delta_0 + c psi^2 delta_psi), written through the moments of Lambda. *)
Theorem C14_rate_is_lambda_integral :
  forall (m : cmodel (T:=R)) (b k : nat), (2 <= k <= b)%nat ->
    get_rate_bk OpsR m b k = IZR (binom b k) * lambda_integral m b k.
Proof.
  intros m b k H. rewrite <- (rate_is_lambda_integral m b k H). exact (rate_counts_ways m b k H).
Qed.
Print Assumptions C14_rate_is_lambda_integral.

Theorem C14_rates_nonneg :
  forall (m : cmodel (T:=R)) (b k : nat), valid_model m -> (2 <= k <= b)%nat ->
    0 <= get_rate_bk OpsR m b k.
Proof. exact rates_nonneg. Qed.
Print Assumptions C14_rates_nonneg.

Theorem C14_sampling_consistency :
  forall (m : cmodel (T:=R)) (b k : nat), (2 <= k <= b)%nat ->
    lam m b k = lam m (b + 1) k + lam m (b + 1) (k + 1).
Proof. exact sampling_consistency. Qed.
Print Assumptions C14_sampling_consistency.

Theorem C14_beta_alpha2_is_kingman :
  forall st (b k : nat), (2 <= k <= b)%nat ->
    get_rate_bk OpsR (Beta 2 st) b k = get_rate_bk OpsR Kingman b k.
Proof. exact beta_alpha2_is_kingman. Qed.
Print Assumptions C14_beta_alpha2_is_kingman.

Theorem C14_dirac_c0_is_kingman :
  forall psi st (b k : nat), (2 <= k <= b)%nat ->
    get_rate_bk OpsR (Dirac psi 0 st) b k = get_rate_bk OpsR Kingman b k.
Proof. exact dirac_c0_is_kingman. Qed.
Print Assumptions C14_dirac_c0_is_kingman.

Theorem C14_get_rate_spec :
  forall (m : cmodel (T:=R)) (s1 s2 : nat),
    get_rate OpsR m s1 s2 = if Nat.ltb s1 s2 then 0 else get_rate_bk OpsR m s1 (s1 + 1 - s2).
Proof. exact get_rate_spec. Qed.
Print Assumptions C14_get_rate_spec.

(* non-vacuity: the hypotheses are met by concrete non-trivial instances *)
Example C14_hypotheses_satisfiable :
  valid_model (Beta (3/2) true) /\ valid_model (Dirac (1/2) 1 true) /\ (2 <= 3 <= 5)%nat.
Proof. simpl; repeat split; try lra; auto with arith. Qed.
Print Assumptions C14_hypotheses_satisfiable.

(* The block-counting rates of all outcomes with the same reduction sum to the lineage-counting
   rate: every block vector (a_1..a_n) with sum_i i*a_i <= n, every merger size k >= 2, all three
   models - unbounded, stronger than the "up to 7 lineages" of the property. *)
From PG Require Import proofs.BlockSumProofs.
Theorem C14_block_outcomes_sum :
  forall (m : cmodel (T:=R)) (blocks : list nat) (k : nat),
    wf_blocks blocks -> (2 <= length blocks)%nat -> (2 <= k)%nat ->
    outcome_rate_sum m blocks k = get_rate_bk OpsR m (sum_nat blocks) k.
Proof. exact block_outcomes_sum. Qed.
Print Assumptions C14_block_outcomes_sum.

Example C14_wf_blocks_satisfiable : wf_blocks [2; 1; 1; 0; 0; 0; 0]%nat.
Proof. unfold wf_blocks; simpl. auto with arith. Qed.
Print Assumptions C14_wf_blocks_satisfiable.
