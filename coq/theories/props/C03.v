(* C03 - Tree-height CDF, density and quantiles describe the true time to the MRCA.

   Proved: (1) quantile (model/Search.v: expanding + bisecting search over any CDF that is monotone on
   t >= 0): when the iteration budget is not exhausted the returned time t satisfies
   |F(t) - q| <= precision, with F(a) <= q <= F(b) for the final bracket; (2) evaluating the CDF
   exactly on an epoch boundary does not depend on the side the boundary is attributed to, cdf(0)
   uses the identity propagator, and the vectorised CDF is pointwise (model/Loop.v); (3) the
   absorption probability of the count chain equals that of every chain lumping onto it, through any
   number of epochs, and propagators of a generator have row sums one (proofs/ExpLaws.v, restated
   in props/C01.v).
   (4) with the real matrix exponential (analysis/MExp.v, analysis/CdfFacts.v; end of this file): the
   model's cdf function takes values in [0,1], is non-decreasing in t, equals 1 - alpha T(t) e, is
   pointwise, and transfers along lumpings - for every backend denoting the real exponential.
   Not proved: cdf -> 1; pdf = derivative.  These are checked on the implementation by the cdf stream. *)
From Coq Require Import QArith Qabs List.
From PG Require Import base.Perm model.Loop proofs.LoopProofs model.Search proofs.SearchProofs.
Import ListNotations.
Open Scope Q_scope.

Section C03quantile.
  Variable F : Q -> Q.
  Hypothesis F_mono : forall a b, 0 <= a -> a <= b -> F a <= F b.
  Theorem C03_quantile_spec : forall q ef prec max_iter res a b i,
    F 0 <= q -> 1 < ef ->
    quantile F q ef prec max_iter = (res, a, b, i) ->
    (i < max_iter)%nat ->
    0 <= a /\ a <= res /\ res <= b /\ F a <= q /\ q <= F b /\ F b - F a <= prec /\
    F a <= F res /\ F res <= F b /\
    F res - q <= prec /\ q - F res <= prec /\ Qabs (F res - q) <= prec.
  Proof. intros; eapply quantile_spec; eassumption. Qed.
End C03quantile.
Print Assumptions C03_quantile_spec.

Section C03loop.
  Variables M V : Type.
  Variable mul : M -> M -> M.
  Variable one : M.
  Variable step : V -> Q -> M.
  Hypothesis mulA : forall a b c, mul a (mul b c) = mul (mul a b) c.
  Hypothesis mul1l : forall a, mul one a = a.
  Hypothesis mul1r : forall a, mul a one = a.
  Hypothesis step_proper : forall v a b, a == b -> step v a = step v b.
  Hypothesis step0 : forall v, step v 0 = one.
  Hypothesis step_add : forall v a b, 0 <= a -> 0 <= b -> mul (step v a) (step v b) = step v (a + b).
  Theorem C03_boundary_convention_irrelevant :
    forall (vlast : V) (epochs : list (Q * V)) (u : Q),
      epochs_wf V 0 epochs -> 0 <= u ->
      eval_at_le M V mul one step epochs vlast u = eval_at M V mul one step epochs vlast u.
  Proof. intros; apply boundary_convention_irrelevant; assumption. Qed.
  Theorem C03_cdf_at_zero_uses_identity :
    forall (vlast : V) (epochs : list (Q * V)), epochs_wf V 0 epochs ->
      eval_at M V mul one step epochs vlast 0 = one.
  Proof. intros; apply eval_at_zero; assumption. Qed.
  Theorem C03_vectorised_cdf_pointwise :
    forall (vlast : V) (epochs : list (Q * V)) (ts : list Q),
      epochs_wf V 0 epochs -> Forall (fun t => 0 <= t) ts ->
      loop_vectorised M V mul one step epochs vlast ts = map (eval_at M V mul one step epochs vlast) ts.
  Proof. intros; apply loop_vectorised_pointwise; assumption. Qed.
End C03loop.
Print Assumptions C03_boundary_convention_irrelevant.
Print Assumptions C03_cdf_at_zero_uses_identity.
Print Assumptions C03_vectorised_cdf_pointwise.

Example C03_quantile_example :
  let '(res, a, b, i) := quantile exF (1 # 2) 2 (1 # 100) 100 in
  (Nat.ltb i 100 = true) /\ Qred a = 31 # 32 /\ Qred b = 1 /\ Qred res = 63 # 64 /\ i = 5%nat /\
  Qle_bool (Qabs (exF res - (1 # 2))) (1 # 100) = true /\
  Qle_bool (Qabs (res - 1)) (1 # 50) = true.
Proof. exact ex_quantile. Qed.
Print Assumptions C03_quantile_example.

(* ------------------------------------------------------------------------------------------------
   With the real matrix exponential (analysis/MExp.v): the propagator of a generator over any
   non-negative time is a stochastic matrix (entries >= 0, rows summing to 1) - so every cdf value
   1 - alpha P(t) e with alpha a probability vector and e a 0/1 vector lies in [0,1] - and the
   absorption probability transfers along any lumping through any sequence of epochs. *)
(* ---- the density (TreeHeightDistribution.pdf, PINNED in gen/MarginalsGen.v and re-checked against the source on every run):
   pdf(t) is the difference quotient of the distribution function over a window [x1, x1 + dx] that starts at x1 = max(t - dx/2, 0) >= 0
   and contains t; it is non-negative whenever the distribution function is non-decreasing on [0, oo)
   (C03_distributions_py_cdf_monotone below) ---- *)
From Coq Require Import QArith Reals List.
From PG Require Import base.Ops base.OpsR gen.MarginalsGen proofs.GenMarginalsEquiv.
Theorem C03_distributions_py_pdf_is_difference_quotient :
  forall (F : Q -> R) (q99 : Q) (ts : list Q) (dx : Q),
    TreeHeightDistribution_pdf OpsR (map F) q99 ts (Some dx)
    = map (fun t => ((F (pdf_x1 dx t + dx)%Q - F (pdf_x1 dx t)) / oofQ OpsR dx)%R) ts.
Proof. exact gen_pdf_pointwise. Qed.
Print Assumptions C03_distributions_py_pdf_is_difference_quotient.

Theorem C03_distributions_py_pdf_window_contains_t :
  forall dx t : Q, (0 < dx)%Q -> (0 <= t)%Q -> (0 <= pdf_x1 dx t)%Q /\ (pdf_x1 dx t <= t)%Q /\ (t <= pdf_x1 dx t + dx)%Q.
Proof. intros dx t Hdx Ht. split; [apply pdf_x1_ge0 | apply pdf_window; assumption]. Qed.
Print Assumptions C03_distributions_py_pdf_window_contains_t.

Theorem C03_distributions_py_pdf_nonneg :
  forall (F : Q -> R) (q99 : Q),
    (forall a b : Q, (0 <= a)%Q -> (a <= b)%Q -> (F a <= F b)%R) ->
  forall (ts : list Q) (dx : Q), (0 < dx)%Q -> (0 < oofQ OpsR dx)%R ->
    Forall (fun x => (0 <= x)%R) (TreeHeightDistribution_pdf OpsR (map F) q99 ts (Some dx)).
Proof. exact gen_pdf_nonneg. Qed.
Print Assumptions C03_distributions_py_pdf_nonneg.

(* ---- the SOURCE of phasegen/expm.py (pinned on every run by translate/expm2coq.py into gen/ExpmGen.v): the matrix exponential `Backend.expm`
   that the loops above take as their parameter is the one of the LAST registered backend, SciPy's binary64 expm when none was registered
   (that SciPy's expm approximates exp is trusted, see DESIGN 2.6) ---- *)
From PG Require Import gen.ExpmGen proofs.GenExpmEquiv.
Theorem C03_expm_py_backend_in_force :
  forall (M : Type) (scipy_linalg_expm : M -> M),
    (forall m, Backend_expm M (Backend_default M scipy_linalg_expm) m = scipy_linalg_expm m) /\
    (forall (regs : list (backend M)) m,
       Backend_expm M (fold_left (Backend_register M) regs (Backend_default M scipy_linalg_expm)) m
       = last regs (Backend_default M scipy_linalg_expm) m).
Proof. intros M e. split; [apply gen_default_backend_is_scipy | apply gen_backend_in_force]. Qed.
Print Assumptions C03_expm_py_backend_in_force.

From mathcomp Require Import all_ssreflect all_algebra.
From Coq Require Import Reals.
From PG Require Import proofs.ExpLaws analysis.Rstruct analysis.RSums analysis.MExp analysis.MExpLaws.
Import GRing.Theory.
Local Open Scope ring_scope.

Theorem C03_propagator_is_stochastic_real :
  forall n (S : 'M[R]_n) (t : R), Rle R0 t ->
    (forall i j, i != j -> Rle R0 (S i j)) -> S *m const_mx 1 = (0 : 'M[R]_(n, 1)) ->
    mx_ge0 (mexp (t *: S)) /\ mexp (t *: S) *m const_mx 1 = (const_mx 1 : 'M[R]_(n, 1)).
Proof. exact: real_generator_stochastic. Qed.
Print Assumptions C03_propagator_is_stochastic_real.

Theorem C03_absorption_probability_transfers_real :
  forall m n (P : 'M[R]_(m, n)) (eps : seq (R * 'M[R]_m * 'M[R]_n)) (aL : 'rV[R]_m) (eC : 'cV[R]_n),
    (forall x, x \in eps -> x.1.2 *m P = P *m x.2) ->
    aL *m epoch_prodL (fun n : nat => @mexp n) eps *m (P *m eC)
    = (aL *m P) *m epoch_prodC (fun n : nat => @mexp n) eps *m eC.
Proof. by move=> *; apply: real_lumping_product_cdf. Qed.
Print Assumptions C03_absorption_probability_transfers_real.

(* ------------------------------------------------------------------------------------------------
   The MODEL's cdf function (model/PhaseType.v [cdf], the Gallina transcription of
   PhaseTypeDistribution.cdf / TreeHeightDistribution.cdf: loop over the epochs of a piecewise-constant
   demography, one call of the matrix-exponential backend per epoch traversed, vectorised over the
   times), run over the real numbers (analysis/CdfFacts.v).

   The backend is a parameter [expm] of the model.  Its contract is: on a well-formed n x n list
   matrix it returns a well-formed n x n list matrix denoting the real matrix exponential [mexp] of
   analysis/MExp.v.  The contract is satisfiable: [expm_ideal] (tabulate mexp) meets it
   ([expm_ideal_sound]), so that every statement below is given first WITHOUT any hypothesis on the
   backend (instantiated at expm_ideal), and then for EVERY backend meeting the contract
   (suffix _any_sound_backend).

   Data hypotheses, all stated on the model's lists: [is_generator n S] - S is an n x n list matrix
   with non-negative off-diagonal entries and zero row sums; [is_prob n alpha] - alpha is a
   probability vector; [is_01 n e] - e is a 0/1 vector of size n (the indicator of the
   non-absorbed states); [abs_closed n S e] - no rate from a state with e = 0 to a state with e = 1;
   [epochs_wf _ 0 Ss] - the epoch start times are increasing from 0.

   C03_model_cdf_values_are_probabilities   every value returned by cdf is in [0,1]
                                            ("Not proved" in the header of this file is superseded).
   C03_model_cdf_monotone                   t1 <= t2 -> cdf(t1) <= cdf(t2), any demography.
   C03_model_cdf_denotes_absorption_probability
                                            cdf(t) = 1 - alpha T(t) e where T(t) = [TM n Ss Slast t] is
                                            the ordered product over the epochs traversed up to t of
                                            mexp (duration *: generator): the probability of being
                                            absorbed by time t of the time-inhomogeneous chain.
   C03_model_cdf_pointwise                  the vectorised cdf is the map of the single-time cdf, for
                                            any order of the times and with repeats.
   C03_model_cdf_lumping                    if P intertwines the generators of a fine chain (L) and a
                                            coarse chain (C) in every epoch, the cdf of L with
                                            absorption indicator P e equals the cdf of C started from
                                            alpha P with indicator e - as lists, at all times. *)
From PG Require Import base.Ops base.OpsR model.Matrix model.PhaseType analysis.Denote analysis.CdfFacts.
Delimit Scope Q_scope with QQ.

Theorem C03_model_cdf_values_are_probabilities :
  forall (n : nat) (Ss : seq (Q * seq (seq R))) (Slast : seq (seq R)) (alpha e : seq R) (ts : seq Q),
    List.Forall (fun x : Q * seq (seq R) => is_generator n x.2) Ss -> is_generator n Slast ->
    is_prob n alpha -> is_01 n e ->
    epochs_wf (seq (seq R)) 0%QQ Ss -> List.Forall (fun t => (0 <= t)%QQ) ts ->
    List.Forall (fun x : R => Rle R0 x /\ Rle x R1) (cdf OpsR expm_ideal Ss Slast alpha e ts).
Proof. exact: (cdf_range expm_ideal_sound). Qed.
Print Assumptions C03_model_cdf_values_are_probabilities.

Theorem C03_model_cdf_values_are_probabilities_any_sound_backend :
  forall expm : seq (seq R) -> seq (seq R),
    (forall n A, wf n n A -> wf n n (expm A) /\ mx_of n n (expm A) = mexp (mx_of n n A)) ->
  forall (n : nat) (Ss : seq (Q * seq (seq R))) (Slast : seq (seq R)) (alpha e : seq R) (ts : seq Q),
    List.Forall (fun x : Q * seq (seq R) => is_generator n x.2) Ss -> is_generator n Slast ->
    is_prob n alpha -> is_01 n e ->
    epochs_wf (seq (seq R)) 0%QQ Ss -> List.Forall (fun t => (0 <= t)%QQ) ts ->
    List.Forall (fun x : R => Rle R0 x /\ Rle x R1) (cdf OpsR expm Ss Slast alpha e ts).
Proof. exact: cdf_range. Qed.
Print Assumptions C03_model_cdf_values_are_probabilities_any_sound_backend.

Theorem C03_model_cdf_monotone :
  forall (n : nat) (Ss : seq (Q * seq (seq R))) (Slast : seq (seq R)) (alpha e : seq R) (t1 t2 : Q),
    List.Forall (fun x : Q * seq (seq R) => is_generator n x.2 /\ abs_closed n x.2 e) Ss ->
    is_generator n Slast -> abs_closed n Slast e ->
    is_prob n alpha -> is_01 n e ->
    epochs_wf (seq (seq R)) 0%QQ Ss -> (0 <= t1)%QQ -> (t1 <= t2)%QQ ->
    Rle (List.nth 0 (cdf OpsR expm_ideal Ss Slast alpha e [:: t1]) 0)
        (List.nth 0 (cdf OpsR expm_ideal Ss Slast alpha e [:: t2]) 0).
Proof. exact: (cdf_monotone expm_ideal_sound). Qed.
Print Assumptions C03_model_cdf_monotone.

Theorem C03_model_cdf_monotone_any_sound_backend :
  forall expm : seq (seq R) -> seq (seq R),
    (forall n A, wf n n A -> wf n n (expm A) /\ mx_of n n (expm A) = mexp (mx_of n n A)) ->
  forall (n : nat) (Ss : seq (Q * seq (seq R))) (Slast : seq (seq R)) (alpha e : seq R) (t1 t2 : Q),
    List.Forall (fun x : Q * seq (seq R) => is_generator n x.2 /\ abs_closed n x.2 e) Ss ->
    is_generator n Slast -> abs_closed n Slast e ->
    is_prob n alpha -> is_01 n e ->
    epochs_wf (seq (seq R)) 0%QQ Ss -> (0 <= t1)%QQ -> (t1 <= t2)%QQ ->
    Rle (List.nth 0 (cdf OpsR expm Ss Slast alpha e [:: t1]) 0)
        (List.nth 0 (cdf OpsR expm Ss Slast alpha e [:: t2]) 0).
Proof. exact: cdf_monotone. Qed.
Print Assumptions C03_model_cdf_monotone_any_sound_backend.

Theorem C03_model_cdf_denotes_absorption_probability :
  forall (n : nat) (Ss : seq (Q * seq (seq R))) (Slast : seq (seq R)) (alpha e : seq R) (ts : seq Q),
    all_wf n Ss -> wf n n Slast -> size e = n ->
    epochs_wf (seq (seq R)) 0%QQ Ss -> List.Forall (fun t => (0 <= t)%QQ) ts ->
    cdf OpsR expm_ideal Ss Slast alpha e ts =
    List.map (fun t => 1 - (rv_of n alpha *m TM n Ss Slast t *m cv_of n e) ord0 ord0) ts.
Proof. exact: (cdf_denote expm_ideal_sound). Qed.
Print Assumptions C03_model_cdf_denotes_absorption_probability.

Theorem C03_model_cdf_denotes_absorption_probability_any_sound_backend :
  forall expm : seq (seq R) -> seq (seq R),
    (forall n A, wf n n A -> wf n n (expm A) /\ mx_of n n (expm A) = mexp (mx_of n n A)) ->
  forall (n : nat) (Ss : seq (Q * seq (seq R))) (Slast : seq (seq R)) (alpha e : seq R) (ts : seq Q),
    all_wf n Ss -> wf n n Slast -> size e = n ->
    epochs_wf (seq (seq R)) 0%QQ Ss -> List.Forall (fun t => (0 <= t)%QQ) ts ->
    cdf OpsR expm Ss Slast alpha e ts =
    List.map (fun t => 1 - (rv_of n alpha *m TM n Ss Slast t *m cv_of n e) ord0 ord0) ts.
Proof. exact: cdf_denote. Qed.
Print Assumptions C03_model_cdf_denotes_absorption_probability_any_sound_backend.

Theorem C03_model_cdf_pointwise :
  forall (n : nat) (Ss : seq (Q * seq (seq R))) (Slast : seq (seq R)) (alpha e : seq R) (ts : seq Q),
    all_wf n Ss -> wf n n Slast -> size e = n ->
    epochs_wf (seq (seq R)) 0%QQ Ss -> List.Forall (fun t => (0 <= t)%QQ) ts ->
    cdf OpsR expm_ideal Ss Slast alpha e ts =
    List.map (fun t => List.nth 0 (cdf OpsR expm_ideal Ss Slast alpha e [:: t]) 0) ts.
Proof. exact: (cdf_pointwise expm_ideal_sound). Qed.
Print Assumptions C03_model_cdf_pointwise.

Theorem C03_model_cdf_pointwise_any_sound_backend :
  forall expm : seq (seq R) -> seq (seq R),
    (forall n A, wf n n A -> wf n n (expm A) /\ mx_of n n (expm A) = mexp (mx_of n n A)) ->
  forall (n : nat) (Ss : seq (Q * seq (seq R))) (Slast : seq (seq R)) (alpha e : seq R) (ts : seq Q),
    all_wf n Ss -> wf n n Slast -> size e = n ->
    epochs_wf (seq (seq R)) 0%QQ Ss -> List.Forall (fun t => (0 <= t)%QQ) ts ->
    cdf OpsR expm Ss Slast alpha e ts =
    List.map (fun t => List.nth 0 (cdf OpsR expm Ss Slast alpha e [:: t]) 0) ts.
Proof. exact: cdf_pointwise. Qed.
Print Assumptions C03_model_cdf_pointwise_any_sound_backend.

Theorem C03_model_cdf_lumping :
  forall (m n : nat) (P : seq (seq R)) (SsL : seq (Q * seq (seq R))) (SlastL : seq (seq R))
         (SsC : seq (Q * seq (seq R))) (SlastC : seq (seq R)) (alphaL eC : seq R) (ts : seq Q),
    wf m n P -> wf m m SlastL -> wf n n SlastC ->
    List.Forall2 (fun x y : Q * seq (seq R) =>
                    [/\ x.1 = y.1, wf m m x.2, wf n n y.2 & mmul OpsR x.2 P = mmul OpsR P y.2])
                 SsL SsC ->
    mmul OpsR SlastL P = mmul OpsR P SlastC ->
    size alphaL = m -> size eC = n ->
    cdf OpsR expm_ideal SsL SlastL alphaL (mvec OpsR P eC) ts
    = cdf OpsR expm_ideal SsC SlastC (vmat OpsR alphaL P) eC ts.
Proof. exact: (cdf_lumping expm_ideal_sound). Qed.
Print Assumptions C03_model_cdf_lumping.

Theorem C03_model_cdf_lumping_any_sound_backend :
  forall expm : seq (seq R) -> seq (seq R),
    (forall n A, wf n n A -> wf n n (expm A) /\ mx_of n n (expm A) = mexp (mx_of n n A)) ->
  forall (m n : nat) (P : seq (seq R)) (SsL : seq (Q * seq (seq R))) (SlastL : seq (seq R))
         (SsC : seq (Q * seq (seq R))) (SlastC : seq (seq R)) (alphaL eC : seq R) (ts : seq Q),
    wf m n P -> wf m m SlastL -> wf n n SlastC ->
    List.Forall2 (fun x y : Q * seq (seq R) =>
                    [/\ x.1 = y.1, wf m m x.2, wf n n y.2 & mmul OpsR x.2 P = mmul OpsR P y.2])
                 SsL SsC ->
    mmul OpsR SlastL P = mmul OpsR P SlastC ->
    size alphaL = m -> size eC = n ->
    cdf OpsR expm SsL SlastL alphaL (mvec OpsR P eC) ts
    = cdf OpsR expm SsC SlastC (vmat OpsR alphaL P) eC ts.
Proof. exact: cdf_lumping. Qed.
Print Assumptions C03_model_cdf_lumping_any_sound_backend.

(* ---- the tie to phasegen/distributions.py by translation: TreeHeightDistribution.cdf (gen/LoopsGen.v is regenerated from the
        source on every run; proofs/GenLoopsEquiv.v proves it equal to the model's cdf; analysis/SourceLoops.v transports the
        analytic facts) ---- *)
From PG Require Import gen.NpLoops gen.LoopsGen proofs.GenLoopsEquiv analysis.SourceLoops.

Theorem C03_distributions_py_cdf_is_the_model :
  forall (expm : seq (seq R) -> seq (seq R)) (Ss : seq (Q * seq (seq R))) (Slast : seq (seq R)) (alpha e : seq R) (ts : seq Q),
    TreeHeightDistribution_cdf OpsR expm (length Slast) (all_epochs Ss Slast) alpha e ts = cdf OpsR expm Ss Slast alpha e ts.
Proof. exact: gen_cdf_eq_model_R. Qed.
Print Assumptions C03_distributions_py_cdf_is_the_model.

Theorem C03_distributions_py_cdf_values_are_probabilities :
  forall expm : seq (seq R) -> seq (seq R),
    (forall n A, wf n n A -> wf n n (expm A) /\ mx_of n n (expm A) = mexp (mx_of n n A)) ->
  forall (n : nat) (Ss : seq (Q * seq (seq R))) (Slast : seq (seq R)) (alpha e : seq R) (ts : seq Q),
    List.Forall (fun x : Q * seq (seq R) => is_generator n x.2) Ss -> is_generator n Slast ->
    is_prob n alpha -> is_01 n e ->
    epochs_wf (seq (seq R)) 0%QQ Ss -> List.Forall (fun t => (0 <= t)%QQ) ts ->
    List.Forall (fun x : R => Rle R0 x /\ Rle x R1)
                (TreeHeightDistribution_cdf OpsR expm (length Slast) (all_epochs Ss Slast) alpha e ts).
Proof. exact: source_cdf_values_are_probabilities. Qed.
Print Assumptions C03_distributions_py_cdf_values_are_probabilities.

Theorem C03_distributions_py_cdf_monotone :
  forall expm : seq (seq R) -> seq (seq R),
    (forall n A, wf n n A -> wf n n (expm A) /\ mx_of n n (expm A) = mexp (mx_of n n A)) ->
  forall (n : nat) (Ss : seq (Q * seq (seq R))) (Slast : seq (seq R)) (alpha e : seq R) (t1 t2 : Q),
    List.Forall (fun x : Q * seq (seq R) => is_generator n x.2 /\ abs_closed n x.2 e) Ss ->
    is_generator n Slast -> abs_closed n Slast e ->
    is_prob n alpha -> is_01 n e ->
    epochs_wf (seq (seq R)) 0%QQ Ss -> (0 <= t1)%QQ -> (t1 <= t2)%QQ ->
    Rle (List.nth 0 (TreeHeightDistribution_cdf OpsR expm (length Slast) (all_epochs Ss Slast) alpha e [:: t1]) 0)
        (List.nth 0 (TreeHeightDistribution_cdf OpsR expm (length Slast) (all_epochs Ss Slast) alpha e [:: t2]) 0).
Proof. exact: source_cdf_monotone. Qed.
Print Assumptions C03_distributions_py_cdf_monotone.

Theorem C03_distributions_py_cdf_denotes_absorption_probability :
  forall expm : seq (seq R) -> seq (seq R),
    (forall n A, wf n n A -> wf n n (expm A) /\ mx_of n n (expm A) = mexp (mx_of n n A)) ->
  forall (n : nat) (Ss : seq (Q * seq (seq R))) (Slast : seq (seq R)) (alpha e : seq R) (ts : seq Q),
    all_wf n Ss -> wf n n Slast -> size e = n ->
    epochs_wf (seq (seq R)) 0%QQ Ss -> List.Forall (fun t => (0 <= t)%QQ) ts ->
    TreeHeightDistribution_cdf OpsR expm (length Slast) (all_epochs Ss Slast) alpha e ts =
    List.map (fun t => 1 - (rv_of n alpha *m TM n Ss Slast t *m cv_of n e) ord0 ord0) ts.
Proof. exact: source_cdf_denotes_absorption_probability. Qed.
Print Assumptions C03_distributions_py_cdf_denotes_absorption_probability.

(* ---- the SOURCE of the quantile search (TreeHeightDistribution._update / _cum / quantile, translated on every run by
   translate/search2coq.py into gen/SearchGen.v): `_update` is the loop's `advance`, and - for every backend that computes the real
   exponential - the whole search is the expanding / bisecting search of model/Search.v run on the source's OWN distribution
   function, whatever the float comparisons are ---- *)
From PG Require Import gen.SearchGen proofs.GenSearchEquiv analysis.SourceSearch.
Theorem C03_distributions_py_update_is_advance :
  forall (T : Type) (OP : Ops T) (expm : mat (T:=T) -> mat (T:=T)) (Slast : mat (T:=T))
         (R0 : list (Q * mat (T:=T))) (Tm : mat (T:=T)) (up u : Q),
    TreeHeightDistribution_update OP expm u up Tm (pos_of Slast R0)
    = (u, lQ (advance_rest _ _ (mmul OP) (stepS OP expm) Slast Tm up R0 u),
       pos_of Slast (lrest (advance_rest _ _ (mmul OP) (stepS OP expm) Slast Tm up R0 u))).
Proof. exact @gen_update_spec. Qed.
Print Assumptions C03_distributions_py_update_is_advance.

Theorem C03_distributions_py_quantile_is_the_search_on_its_own_cdf :
  forall (expm : seq (seq R) -> seq (seq R)),
    (forall n A, wf n n A -> wf n n (expm A) /\ mx_of n n (expm A) = mexp (mx_of n n A)) ->
  forall (lt_TQ : R -> Q -> bool) (lt_QT : Q -> R -> bool)
         (n : nat) (Ss : seq (Q * seq (seq R))) (Slast : seq (seq R)) (alpha e : seq R),
    all_wf n Ss -> wf n n Slast -> size e = n -> epochs_wf (seq (seq R)) 0%QQ Ss ->
  forall (q ef prec : Q) (max_iter : nat), (1 <= ef)%QQ ->
    TreeHeightDistribution_quantile OpsR expm lt_TQ lt_QT n alpha e (pos_of Slast Ss).1 (pos_of Slast Ss).2 q ef prec max_iter
    = t_quantile (cdf_at expm Ss Slast alpha e) lt_TQ lt_QT (osub OpsR) q ef prec max_iter.
Proof. exact @source_quantile_is_search_on_cdf. Qed.
Print Assumptions C03_distributions_py_quantile_is_the_search_on_its_own_cdf.

Theorem C03_search_model_is_an_instance :
  forall (F : Q -> Q) fuel q ef prec a b i,
    let ltq := fun x y : Q => if Qlt_le_dec x y then true else false in
    expand F fuel q ef b i = t_expand F ltq fuel q ef b i /\
    bisect F fuel q prec a b i = t_bisect F ltq ltq Qminus fuel q prec a b i.
Proof. move=> F fuel q ef prec a b i ltq; split; [exact: expand_is_instance | exact: bisect_is_instance]. Qed.
Print Assumptions C03_search_model_is_an_instance.

Theorem C03_distributions_py_quantile_within_precision :
  forall (expm : seq (seq R) -> seq (seq R)),
    (forall n A, wf n n A -> wf n n (expm A) /\ mx_of n n (expm A) = mexp (mx_of n n A)) ->
  forall n Ss Slast alpha e q ef prec max_iter b1 i1 a2 b2 i2,
    all_wf n Ss -> wf n n Slast -> size e = n -> epochs_wf (seq (seq R)) 0%QQ Ss -> (1 <= ef)%QQ ->
    let F := cdf_at expm Ss Slast alpha e in
    let ltRQ := fun (x : R) (q : Q) => if Rlt_dec x (Q2R q) then true else false in
    let ltQR := fun (q : Q) (x : R) => if Rlt_dec (Q2R q) x then true else false in
    (forall a b, (0 <= a)%QQ -> (a <= b)%QQ -> Rle (F a) (F b)) ->
    t_expand F ltRQ (max_iter - 0) q ef (inject_Z 1) 0 = (b1, i1) ->
    t_bisect F ltRQ ltQR Rminus (max_iter - i1) q prec (inject_Z 0) b1 i1 = (a2, b2, i2) ->
    (0 <= b1)%QQ -> Rlt (F 0%QQ) (Q2R q) -> Rle (Q2R q) (F b1) -> (i1 <= max_iter)%coq_nat -> (i2 < max_iter)%coq_nat ->
    Rle (Rabs (Rminus (F (TreeHeightDistribution_quantile OpsR expm ltRQ ltQR n alpha e (pos_of Slast Ss).1 (pos_of Slast Ss).2 q ef prec max_iter))
                      (Q2R q))) (Q2R prec).
Proof. exact @source_quantile_within_precision. Qed.
Print Assumptions C03_distributions_py_quantile_within_precision.

(* cdf(0) = 0 when the initial distribution sits on the states marked by e, any demography (translated cdf) *)
From PG Require Import analysis.SourceCdfZero.
Theorem C03_distributions_py_cdf_zero_at_zero :
  forall expm : seq (seq R) -> seq (seq R),
    (forall n A, wf n n A -> wf n n (expm A) /\ mx_of n n (expm A) = mexp (mx_of n n A)) ->
  forall (n : nat) (Ss : seq (Q * seq (seq R))) (Slast : seq (seq R)) (alpha e : seq R),
    List.Forall (fun x : Q * seq (seq R) => wf n n x.2) Ss -> wf n n Slast -> size e = n ->
    epochs_wf (seq (seq R)) 0%QQ Ss ->
    (rv_of n alpha *m cv_of n e) ord0 ord0 = 1 ->
    TreeHeightDistribution_cdf OpsR expm (length Slast) (all_epochs Ss Slast) alpha e [:: 0%QQ] = [:: 0].
Proof. exact: source_cdf_zero_at_zero. Qed.
Print Assumptions C03_distributions_py_cdf_zero_at_zero.

(* the density of the translated source (pinned pdf applied to the translated cdf) is non-negative, any demography, any dx > 0 *)
From PG Require Import gen.MarginalsGen analysis.SourcePdf.
Theorem C03_distributions_py_pdf_of_the_source_cdf_nonneg :
  forall expm : seq (seq R) -> seq (seq R),
    (forall n A, wf n n A -> wf n n (expm A) /\ mx_of n n (expm A) = mexp (mx_of n n A)) ->
  forall (n : nat) (Ss : seq (Q * seq (seq R))) (Slast : seq (seq R)) (alpha e : seq R) (q99 dx : Q) (ts : seq Q),
    List.Forall (fun x : Q * seq (seq R) => is_generator n x.2 /\ abs_closed n x.2 e) Ss ->
    is_generator n Slast -> abs_closed n Slast e -> is_prob n alpha -> is_01 n e ->
    epochs_wf (seq (seq R)) 0%QQ Ss -> (0 < dx)%QQ ->
    List.Forall (fun x : R => Rle R0 x)
      (TreeHeightDistribution_pdf OpsR (TreeHeightDistribution_cdf OpsR expm (length Slast) (all_epochs Ss Slast) alpha e) q99 ts (Some dx)).
Proof. exact: source_pdf_nonneg. Qed.
Print Assumptions C03_distributions_py_pdf_of_the_source_cdf_nonneg.
