(* C03 - Tree-height CDF, density and quantiles describe the true time to the MRCA.

   Proved: (1) quantile (model/Search.v: expanding + bisecting search over any CDF that is monotone on
   t >= 0): when the iteration budget is not exhausted the returned time t satisfies
   |F(t) - q| <= precision, with F(a) <= q <= F(b) for the final bracket; (2) evaluating the CDF
   exactly on an epoch boundary does not depend on the side the boundary is attributed to, cdf(0)
   uses the identity propagator, and the vectorised CDF is pointwise (model/Loop.v); (3) the
   absorption probability of the count chain equals that of every chain lumping onto it, through any
   number of epochs, and propagators of a generator have row sums one (proofs/ExpLaws.v, restated
   in props/C01.v).
   Not proved (needs positivity of exp of a matrix with non-negative off-diagonal entries, i.e. an
   order-theoretic law of the backend): cdf non-decreasing and within [0,1], cdf -> 1; pdf = derivative.
   These are checked on the implementation by the cdf stream. *)
From Coq Require Import QArith Qabs List.
From PG Require Import base.Perm model.Loop proofs.LoopProofs model.Search proofs.SearchProofs.
Import ListNotations.
Open Scope Q_scope.

Section C03quantile.
  Variable F : Q -> Q.
  Hypothesis F_mono : forall a b, 0 <= a -> a <= b -> F a <= F b.
  Theorem C03_quantile_spec : forall q ef prec max_iter res a b i,
    F 0 <= q -> 1 < ef ->
    quantile F q ef prec max_iter = (res, a, b, i) ->
    (i < max_iter)%nat ->
    0 <= a /\ a <= res /\ res <= b /\ F a <= q /\ q <= F b /\ F b - F a <= prec /\
    F a <= F res /\ F res <= F b /\
    F res - q <= prec /\ q - F res <= prec /\ Qabs (F res - q) <= prec.
  Proof. intros; eapply quantile_spec; eassumption. Qed.
End C03quantile.
Print Assumptions C03_quantile_spec.

Section C03loop.
  Variables M V : Type.
  Variable mul : M -> M -> M.
  Variable one : M.
  Variable step : V -> Q -> M.
  Hypothesis mulA : forall a b c, mul a (mul b c) = mul (mul a b) c.
  Hypothesis mul1l : forall a, mul one a = a.
  Hypothesis mul1r : forall a, mul a one = a.
  Hypothesis step_proper : forall v a b, a == b -> step v a = step v b.
  Hypothesis step0 : forall v, step v 0 = one.
  Hypothesis step_add : forall v a b, 0 <= a -> 0 <= b -> mul (step v a) (step v b) = step v (a + b).
  Theorem C03_boundary_convention_irrelevant :
    forall (vlast : V) (epochs : list (Q * V)) (u : Q),
      epochs_wf V 0 epochs -> 0 <= u ->
      eval_at_le M V mul one step epochs vlast u = eval_at M V mul one step epochs vlast u.
  Proof. intros; apply boundary_convention_irrelevant; assumption. Qed.
  Theorem C03_cdf_at_zero_uses_identity :
    forall (vlast : V) (epochs : list (Q * V)), epochs_wf V 0 epochs ->
      eval_at M V mul one step epochs vlast 0 = one.
  Proof. intros; apply eval_at_zero; assumption. Qed.
  Theorem C03_vectorised_cdf_pointwise :
    forall (vlast : V) (epochs : list (Q * V)) (ts : list Q),
      epochs_wf V 0 epochs -> Forall (fun t => 0 <= t) ts ->
      loop_vectorised M V mul one step epochs vlast ts = map (eval_at M V mul one step epochs vlast) ts.
  Proof. intros; apply loop_vectorised_pointwise; assumption. Qed.
End C03loop.
Print Assumptions C03_boundary_convention_irrelevant.
Print Assumptions C03_cdf_at_zero_uses_identity.
Print Assumptions C03_vectorised_cdf_pointwise.

Example C03_quantile_example :
  let '(res, a, b, i) := quantile exF (1 # 2) 2 (1 # 100) 100 in
  (Nat.ltb i 100 = true) /\ Qred a = 31 # 32 /\ Qred b = 1 /\ Qred res = 63 # 64 /\ i = 5%nat /\
  Qle_bool (Qabs (exF res - (1 # 2))) (1 # 100) = true /\
  Qle_bool (Qabs (res - 1)) (1 # 50) = true.
Proof. exact ex_quantile. Qed.
Print Assumptions C03_quantile_example.

(* ------------------------------------------------------------------------------------------------
   With the real matrix exponential (analysis/MExp.v): the propagator of a generator over any
   non-negative time is a stochastic matrix (entries >= 0, rows summing to 1) - so every cdf value
   1 - alpha P(t) e with alpha a probability vector and e a 0/1 vector lies in [0,1] - and the
   absorption probability transfers along any lumping through any sequence of epochs. *)
From mathcomp Require Import all_ssreflect all_algebra.
From Coq Require Import Reals.
From PG Require Import proofs.ExpLaws analysis.Rstruct analysis.RSums analysis.MExp analysis.MExpLaws.
Import GRing.Theory.
Local Open Scope ring_scope.

Theorem C03_propagator_is_stochastic_real :
  forall n (S : 'M[R]_n) (t : R), Rle R0 t ->
    (forall i j, i != j -> Rle R0 (S i j)) -> S *m const_mx 1 = (0 : 'M[R]_(n, 1)) ->
    mx_ge0 (mexp (t *: S)) /\ mexp (t *: S) *m const_mx 1 = (const_mx 1 : 'M[R]_(n, 1)).
Proof. exact: real_generator_stochastic. Qed.
Print Assumptions C03_propagator_is_stochastic_real.

Theorem C03_absorption_probability_transfers_real :
  forall m n (P : 'M[R]_(m, n)) (eps : seq (R * 'M[R]_m * 'M[R]_n)) (aL : 'rV[R]_m) (eC : 'cV[R]_n),
    (forall x, x \in eps -> x.1.2 *m P = P *m x.2) ->
    aL *m epoch_prodL (fun n : nat => @mexp n) eps *m (P *m eC)
    = (aL *m P) *m epoch_prodC (fun n : nat => @mexp n) eps *m eC.
Proof. by move=> *; apply: real_lumping_product_cdf. Qed.
Print Assumptions C03_absorption_probability_transfers_real.
