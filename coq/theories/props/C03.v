(* C03 - Tree-height CDF, density and quantiles describe the true time to the MRCA.

   Proved: (1) quantile (model/Search.v: expanding + bisecting search over any CDF that is monotone on
   t >= 0): when the iteration budget is not exhausted the returned time t satisfies
   |F(t) - q| <= precision, with F(a) <= q <= F(b) for the final bracket; (2) evaluating the CDF
   exactly on an epoch boundary does not depend on the side the boundary is attributed to, cdf(0)
   uses the identity propagator, and the vectorised CDF is pointwise (model/Loop.v); (3) the
   absorption probability of the count chain equals that of every chain lumping onto it, through any
   number of epochs, and propagators of a generator have row sums one (proofs/ExpLaws.v, restated
   in props/C01.v).
   Not proved (needs positivity of exp of a matrix with non-negative off-diagonal entries, i.e. an
   order-theoretic law of the backend): cdf non-decreasing and within [0,1], cdf -> 1; pdf = derivative.
   These are checked on the implementation by the cdf stream. *)
From Coq Require Import QArith Qabs List.
From PG Require Import base.Perm model.Loop proofs.LoopProofs model.Search proofs.SearchProofs.
Import ListNotations.
Open Scope Q_scope.

Section C03quantile.
  Variable F : Q -> Q.
  Hypothesis F_mono : forall a b, 0 <= a -> a <= b -> F a <= F b.
  Theorem C03_quantile_spec : forall q ef prec max_iter res a b i,
    F 0 <= q -> 1 < ef ->
    quantile F q ef prec max_iter = (res, a, b, i) ->
    (i < max_iter)%nat ->
    0 <= a /\ a <= res /\ res <= b /\ F a <= q /\ q <= F b /\ F b - F a <= prec /\
    F a <= F res /\ F res <= F b /\
    F res - q <= prec /\ q - F res <= prec /\ Qabs (F res - q) <= prec.
  Proof. intros; eapply quantile_spec; eassumption. Qed.
End C03quantile.
Print Assumptions C03_quantile_spec.

Section C03loop.
  Variables M V : Type.
  Variable mul : M -> M -> M.
  Variable one : M.
  Variable step : V -> Q -> M.
  Hypothesis mulA : forall a b c, mul a (mul b c) = mul (mul a b) c.
  Hypothesis mul1l : forall a, mul one a = a.
  Hypothesis mul1r : forall a, mul a one = a.
  Hypothesis step_proper : forall v a b, a == b -> step v a = step v b.
  Hypothesis step0 : forall v, step v 0 = one.
  Hypothesis step_add : forall v a b, 0 <= a -> 0 <= b -> mul (step v a) (step v b) = step v (a + b).
  Theorem C03_boundary_convention_irrelevant :
    forall (vlast : V) (epochs : list (Q * V)) (u : Q),
      epochs_wf V 0 epochs -> 0 <= u ->
      eval_at_le M V mul one step epochs vlast u = eval_at M V mul one step epochs vlast u.
  Proof. intros; apply boundary_convention_irrelevant; assumption. Qed.
  Theorem C03_cdf_at_zero_uses_identity :
    forall (vlast : V) (epochs : list (Q * V)), epochs_wf V 0 epochs ->
      eval_at M V mul one step epochs vlast 0 = one.
  Proof. intros; apply eval_at_zero; assumption. Qed.
  Theorem C03_vectorised_cdf_pointwise :
    forall (vlast : V) (epochs : list (Q * V)) (ts : list Q),
      epochs_wf V 0 epochs -> Forall (fun t => 0 <= t) ts ->
      loop_vectorised M V mul one step epochs vlast ts = map (eval_at M V mul one step epochs vlast) ts.
  Proof. intros; apply loop_vectorised_pointwise; assumption. Qed.
End C03loop.
Print Assumptions C03_boundary_convention_irrelevant.
Print Assumptions C03_cdf_at_zero_uses_identity.
Print Assumptions C03_vectorised_cdf_pointwise.

Example C03_quantile_example :
  let '(res, a, b, i) := quantile exF (1 # 2) 2 (1 # 100) 100 in
  (Nat.ltb i 100 = true) /\ Qred a = 31 # 32 /\ Qred b = 1 /\ Qred res = 63 # 64 /\ i = 5%nat /\
  Qle_bool (Qabs (exF res - (1 # 2))) (1 # 100) = true /\
  Qle_bool (Qabs (res - 1)) (1 # 50) = true.
Proof. exact ex_quantile. Qed.
Print Assumptions C03_quantile_example.
