(* C09 - Results obey the time-rescaling law and are accurate at every scale.

   (1) Time scales are homogeneous: Kingman T(cN) = c T(N); Dirac T(cN) = c^2 T(N); Beta
   T(cN) = c^(alpha-1) T(N) for the documented msprime scaling; T(N) = N when scaling is off.
   (2) Model level (bounded reflection, c in {2, 3/5}, n <= 4 over <= 3 demes, three models, both
   spaces, two loci n <= 4): multiplying every time scale by c and dividing every migration and
   recombination rate by c divides every transition rate by c and leaves the state list unchanged.
   (3) For every backend obeying the laws of the matrix exponential: if c S' = S then the first-moment
   functional satisfies m1(S', c t) = c m1(S, t) (moments of order k scale by c^k: the k = 1 case
   is proved, the general case follows the same conjugation by diag(1, c, ..., c^k) and is NOT
   proved here); and the numerical regularisation is exact (any lam).
   The 1e-9 accuracy claim over sizes 1e-3..1e9 concerns the floating-point backend and is decided
   by the scaling stream on the implementation, not by a theorem. *)
From Coq Require Import ZArith QArith Reals List Arith.
From PG Require Import base.Ops base.OpsR model.CoalModels model.StateSpace model.Check
                       model.SpaceChecks proofs.SpaceFacts proofs.TimescaleProofs.
Import ListNotations.
Local Open Scope Q_scope.

Theorem C09_rates_scale_inversely_bounded :
  (forall nd n V m lc c,
     In nd [1; 2; 3]%nat -> In n [2; 3; 4]%nat -> In V (sc_vals nd) ->
     In m [Kingman; Beta (3#2) false; Dirac (1#3) (5#2) false] -> In lc [true; false] ->
     In c [2; 3#5] ->
     rescale_spec (sc_mkP V m lc) c 1 nd n) /\
  (forall n V c, In n [2; 3; 4]%nat -> In V (sc_vals 1) -> In c [2; 3#5] ->
     rescale_spec (sc_mkP V Kingman true) c 2 1 n) /\
  (forall n V c, In n [2; 3; 4]%nat -> In V (sc_vals 2) -> In c [2; 3#5] ->
     rescale_spec (sc_mkP V Kingman true) c 2 2 n).
Proof. exact rate_matrix_time_rescaling_bounded. Qed.
Print Assumptions C09_rates_scale_inversely_bounded.

Local Open Scope R_scope.
Theorem C09_timescale_kingman : forall bs c N, timescale OpsR bs Kingman (c * N) = c * timescale OpsR bs Kingman N.
Proof. exact timescale_kingman. Qed.
Print Assumptions C09_timescale_kingman.

Theorem C09_timescale_dirac : forall bs psi cc c N,
  timescale OpsR bs (Dirac psi cc true) (c * N) = c * c * timescale OpsR bs (Dirac psi cc true) N.
Proof. exact timescale_dirac. Qed.
Print Assumptions C09_timescale_dirac.

Theorem C09_timescale_beta : forall Bv alpha c N, 0 < c -> 0 < N ->
  timescale OpsR (beta_timescale Bv) (Beta alpha true) (c * N)
  = Rpower c (alpha - 1) * timescale OpsR (beta_timescale Bv) (Beta alpha true) N.
Proof. exact timescale_beta. Qed.
Print Assumptions C09_timescale_beta.

Theorem C09_timescale_unscaled : forall bs psi cc a c N,
  timescale OpsR bs (Dirac psi cc false) (c * N) = c * timescale OpsR bs (Dirac psi cc false) N /\
  timescale OpsR bs (Beta a false) (c * N) = c * timescale OpsR bs (Beta a false) N.
Proof. exact timescale_unscaled. Qed.
Print Assumptions C09_timescale_unscaled.

From mathcomp Require Import all_ssreflect all_algebra.
From PG Require Import proofs.ExpLaws.
Set Implicit Arguments. Unset Strict Implicit. Unset Printing Implicit Defensive.
Import GRing.Theory.
Local Open Scope ring_scope.
Section C09.
Variable R : comRingType.
Variable expm : forall n : nat, 'M[R]_n -> 'M[R]_n.
Hypothesis expm0 : forall n, expm (0 : 'M[R]_n) = 1%:M.
Hypothesis expmD : forall n (A B : 'M[R]_n), A *m B = B *m A -> expm (A + B) = expm A *m expm B.
Hypothesis expm_intertwine : forall m n (A : 'M[R]_m) (B : 'M[R]_n) (P : 'M[R]_(m, n)),
    A *m P = P *m B -> expm A *m P = P *m expm B.
Theorem C09_first_moment_time_rescaling_given_ExpLaws :
  forall n (a : 'rV[R]_n) (S S' Rw : 'M[R]_n) (c t : R),
    c *: S' = S -> m1 expm a S' Rw (c * t) = c *: m1 expm a S Rw t.
Proof. by move=> *; apply: m1_time_rescaling. Qed.
Theorem C09_regularisation_exact_given_ExpLaws :
  forall n (a : 'rV[R]_n) (S Rw : 'M[R]_n) (lam t t' : R), t' * lam = t ->
    a *m ursubmx (expm (t *: vl1 S Rw)) *m (const_mx 1 : 'cV_n)
    = lam *: (a *m ursubmx (expm (t' *: block_mx (lam *: S) Rw 0 (lam *: S))) *m (const_mx 1 : 'cV_n)).
Proof. by move=> *; apply: m1_regularisation. Qed.
(* the CDF only sees S t: rescaling time and generator inversely changes nothing *)
Theorem C09_cdf_time_rescaling_given_ExpLaws :
  forall n (S S' : 'M[R]_n) (c t : R), c *: S' = S -> expm ((c * t) *: S') = expm (t *: S).
Proof. by move=> n S S' c t <-; rewrite scalerA mulrC. Qed.
End C09.
Print Assumptions C09_first_moment_time_rescaling_given_ExpLaws.
Print Assumptions C09_regularisation_exact_given_ExpLaws.
Print Assumptions C09_cdf_time_rescaling_given_ExpLaws.

(* ------------------------------------------------------------------------------------------------
   Unconditional over the reals: the laws E0-E2 (and positivity) are theorems about the real matrix
   exponential mexp (analysis/MExp.v: entrywise limit of the exponential series), so the statements
   above hold for the matrix exponential itself, not only "given ExpLaws". *)
From PG Require Import analysis.Rstruct analysis.RSums analysis.MExp analysis.MExpLaws.

Theorem C09_first_moment_time_rescaling_real :
  forall n (a : 'rV[R]_n) (S S' Rw : 'M[R]_n) (c t : R),
    c *: S' = S -> m1 (fun n : nat => @mexp n) a S' Rw (c * t) = c *: m1 (fun n : nat => @mexp n) a S Rw t.
Proof. by move=> *; apply: (m1_time_rescaling (expm := fun n : nat => @mexp n) (@mexp_intertwine)). Qed.
Print Assumptions C09_first_moment_time_rescaling_real.
