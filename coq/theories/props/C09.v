(* C09 - Results obey the time-rescaling law and are accurate at every scale.

   (1) Time scales are homogeneous: Kingman T(cN) = c T(N); Dirac T(cN) = c^2 T(N); Beta
   T(cN) = c^(alpha-1) T(N) for the documented msprime scaling; T(N) = N when scaling is off.
   (2) Model level (bounded reflection, c in {2, 3/5}, n <= 4 over <= 3 demes, three models, both
   spaces, two loci n <= 4): multiplying every time scale by c and dividing every migration and
   recombination rate by c divides every transition rate by c and leaves the state list unchanged.
   (3) For every backend obeying the laws of the matrix exponential: if c S' = S then the first-moment
   functional satisfies m1(S', c t) = c m1(S, t); and the numerical regularisation is exact (any lam).
   Moments of order k scale by c^k and the regularisation is exact at every order k: proved for the
   real matrix exponential at the end of this file (proofs/ExpLaws2.v).
   The 1e-9 accuracy claim over sizes 1e-3..1e9 concerns the floating-point backend and is decided
   by the scaling stream on the implementation, not by a theorem. *)
From Coq Require Import ZArith QArith Reals List Arith.
From PG Require Import base.Ops base.OpsR model.CoalModels model.StateSpace model.Check
                       model.SpaceChecks proofs.SpaceFacts proofs.TimescaleProofs.
Import ListNotations.
Local Open Scope Q_scope.

Theorem C09_rates_scale_inversely_bounded :
  (forall nd n V m lc c,
     In nd [1; 2; 3]%nat -> In n [2; 3; 4]%nat -> In V (sc_vals nd) ->
     In m [Kingman; Beta (3#2) false; Dirac (1#3) (5#2) false] -> In lc [true; false] ->
     In c [2; 3#5] ->
     rescale_spec (sc_mkP V m lc) c 1 nd n) /\
  (forall n V c, In n [2; 3; 4]%nat -> In V (sc_vals 1) -> In c [2; 3#5] ->
     rescale_spec (sc_mkP V Kingman true) c 2 1 n) /\
  (forall n V c, In n [2; 3; 4]%nat -> In V (sc_vals 2) -> In c [2; 3#5] ->
     rescale_spec (sc_mkP V Kingman true) c 2 2 n).
Proof. exact rate_matrix_time_rescaling_bounded. Qed.
Print Assumptions C09_rates_scale_inversely_bounded.

Local Open Scope R_scope.
Theorem C09_timescale_kingman : forall bs c N, timescale OpsR bs Kingman (c * N) = c * timescale OpsR bs Kingman N.
Proof. exact timescale_kingman. Qed.
Print Assumptions C09_timescale_kingman.

Theorem C09_timescale_dirac : forall bs psi cc c N,
  timescale OpsR bs (Dirac psi cc true) (c * N) = c * c * timescale OpsR bs (Dirac psi cc true) N.
Proof. exact timescale_dirac. Qed.
Print Assumptions C09_timescale_dirac.

Theorem C09_timescale_beta : forall Bv alpha c N, 0 < c -> 0 < N ->
  timescale OpsR (beta_timescale Bv) (Beta alpha true) (c * N)
  = Rpower c (alpha - 1) * timescale OpsR (beta_timescale Bv) (Beta alpha true) N.
Proof. exact timescale_beta. Qed.
Print Assumptions C09_timescale_beta.

Theorem C09_timescale_unscaled : forall bs psi cc a c N,
  timescale OpsR bs (Dirac psi cc false) (c * N) = c * timescale OpsR bs (Dirac psi cc false) N /\
  timescale OpsR bs (Beta a false) (c * N) = c * timescale OpsR bs (Beta a false) N.
Proof. exact timescale_unscaled. Qed.
Print Assumptions C09_timescale_unscaled.

From mathcomp Require Import all_ssreflect all_algebra.
From PG Require Import proofs.ExpLaws.
Set Implicit Arguments. Unset Strict Implicit. Unset Printing Implicit Defensive.
Import GRing.Theory.
Local Open Scope ring_scope.
Section C09.
Variable R : comRingType.
Variable expm : forall n : nat, 'M[R]_n -> 'M[R]_n.
Hypothesis expm0 : forall n, expm (0 : 'M[R]_n) = 1%:M.
Hypothesis expmD : forall n (A B : 'M[R]_n), A *m B = B *m A -> expm (A + B) = expm A *m expm B.
Hypothesis expm_intertwine : forall m n (A : 'M[R]_m) (B : 'M[R]_n) (P : 'M[R]_(m, n)),
    A *m P = P *m B -> expm A *m P = P *m expm B.
Theorem C09_first_moment_time_rescaling_given_ExpLaws :
  forall n (a : 'rV[R]_n) (S S' Rw : 'M[R]_n) (c t : R),
    c *: S' = S -> m1 expm a S' Rw (c * t) = c *: m1 expm a S Rw t.
Proof. by move=> *; apply: m1_time_rescaling. Qed.
Theorem C09_regularisation_exact_given_ExpLaws :
  forall n (a : 'rV[R]_n) (S Rw : 'M[R]_n) (lam t t' : R), t' * lam = t ->
    a *m ursubmx (expm (t *: vl1 S Rw)) *m (const_mx 1 : 'cV_n)
    = lam *: (a *m ursubmx (expm (t' *: block_mx (lam *: S) Rw 0 (lam *: S))) *m (const_mx 1 : 'cV_n)).
Proof. by move=> *; apply: m1_regularisation. Qed.
(* the CDF only sees S t: rescaling time and generator inversely changes nothing *)
Theorem C09_cdf_time_rescaling_given_ExpLaws :
  forall n (S S' : 'M[R]_n) (c t : R), c *: S' = S -> expm ((c * t) *: S') = expm (t *: S).
Proof. by move=> n S S' c t <-; rewrite scalerA mulrC. Qed.
End C09.
Print Assumptions C09_first_moment_time_rescaling_given_ExpLaws.
Print Assumptions C09_regularisation_exact_given_ExpLaws.
Print Assumptions C09_cdf_time_rescaling_given_ExpLaws.

(* ------------------------------------------------------------------------------------------------
   Unconditional over the reals: the laws E0-E2 (and positivity) are theorems about the real matrix
   exponential mexp (analysis/MExp.v: entrywise limit of the exponential series), so the statements
   above hold for the matrix exponential itself, not only "given ExpLaws". *)
From PG Require Import analysis.Rstruct analysis.RSums analysis.MExp analysis.MExpLaws.

Theorem C09_first_moment_time_rescaling_real :
  forall n (a : 'rV[R]_n) (S S' Rw : 'M[R]_n) (c t : R),
    c *: S' = S -> m1 (fun n : nat => @mexp n) a S' Rw (c * t) = c *: m1 (fun n : nat => @mexp n) a S Rw t.
Proof. by move=> *; apply: (m1_time_rescaling (expm := fun n : nat => @mexp n) (@mexp_intertwine)). Qed.
Print Assumptions C09_first_moment_time_rescaling_real.

(* ------------------------------------------------------------------------------------------------
   Order k, with the real matrix exponential (proofs/ExpLaws2.v).  [mk rexpm a S Rs k t] is the
   order-k Van Loan functional  a * (top-right block of mexp (t * VanLoan(S; Rs 0, ..., Rs (k-1)))) * 1
   which the model's moment function computes up to the factor k! (props/C01.v,
   C01_model_accumulate_is_van_loan_functional).  The statements hold for EVERY order k, every
   dimension n, every real c, lam (zero included: no invertibility is used).

   C09_time_rescaling_order_k_real     if S = c S' (all rates divided by c, i.e. time scales multiplied
                                       by c) then the k-th moment at time c t is c^k times the k-th
                                       moment of S at time t: moments of order k scale by c^k.
   C09_regularisation_order_k_real     the regularisation used by _accumulate (generator times lam,
                                       time divided by lam, result times lam^k) is exact at order k.
   C09_reward_homogeneity_order_k_real multiplying every reward by c multiplies the k-th moment by c^k. *)
From PG Require Import proofs.ExpLaws2.

Theorem C09_time_rescaling_order_k_real :
  forall n (a : 'rV[R]_n) (S S' : 'M[R]_n) (Rs : nat -> 'M[R]_n) (k : nat) (c t : R),
    c *: S' = S ->
    mk (fun n : nat => @mexp n) a S' Rs k (c * t) = c ^+ k *: mk (fun n : nat => @mexp n) a S Rs k t.
Proof. exact: real_mk_time_rescaling. Qed.
Print Assumptions C09_time_rescaling_order_k_real.

Theorem C09_regularisation_order_k_real :
  forall n (a : 'rV[R]_n) (S : 'M[R]_n) (Rs : nat -> 'M[R]_n) (k : nat) (lam t t' : R),
    t' * lam = t ->
    mk (fun n : nat => @mexp n) a S Rs k t
    = lam ^+ k *: (a *m vltr (k := k) (mexp (t' *: vl (lam *: S) Rs k)) *m const_mx 1).
Proof. exact: real_mk_regularisation. Qed.
Print Assumptions C09_regularisation_order_k_real.

Theorem C09_reward_homogeneity_order_k_real :
  forall n (a : 'rV[R]_n) (S : 'M[R]_n) (Rs : nat -> 'M[R]_n) (c : R) (k : nat) (t : R),
    mk (fun n : nat => @mexp n) a S (fun i => c *: Rs i) k t
    = c ^+ k *: mk (fun n : nat => @mexp n) a S Rs k t.
Proof. exact: real_mk_scale_all. Qed.
Print Assumptions C09_reward_homogeneity_order_k_real.

(* ------------------------------------------------------------------------------------------------
   proofs/SpaceFactsAllRates.v: the time-rescaling law of the STATE SPACE with NO BOUND.  Changing the
   time unit by c means [scaleP c P]: every population time scale multiplied by c, every migration
   rate and the recombination rate divided by c (model, lineage-/block-counting flag unchanged).  The
   theorems are structural proofs over the model of the code's algorithm ([transit] = the transitions
   out of one state, [get_transitions] = the breadth-first construction, [rate_matrix] = the generator
   assembled from the transition dictionaries), over the REAL numbers, for every coalescent model with
   arbitrary real parameters, every number of loci, demes and samples, both state spaces, every search
   depth and every real c (c = 0 included, with x / 0 = 0 as in Coq's reals).  The only hypothesis is
   that the parameter record has a time scale for every deme.

   C09_transit_time_rescaling_unbounded          out of any state, the rescaled model has the same
                                                 targets in the same order, every rate divided by c.
   C09_get_transitions_time_rescaling_unbounded  the breadth-first construction finds the same states
                                                 in the same order (or fails alike), and every
                                                 transition dictionary has its rates divided by c
                                                 ([sct c]).
   C09_rate_matrix_time_rescaling_unbounded      the generator assembled from the rescaled dictionaries
                                                 is the generator divided by c, entry by entry,
                                                 diagonal included.
   ([m <= n]%coq_nat is Coq's [le] on nat; mathcomp, loaded above, rebinds the plain notation.) *)
From PG Require Import proofs.SpaceFactsAllRates.
Module C09_unbounded.
Local Close Scope ring_scope.
Local Open Scope R_scope.

Example C09_scaleP_sct_content :
  (forall (c : R) (P : params (T:=R)),
     scaleP c P = mkParams (p_model P)
                           (map (fun x => x * c) (p_tscale P))
                           (map (map (fun x => x / c)) (p_mig P))
                           (p_rec P / c) (p_lc P)) /\
  (forall (c : R) (trans : list (state * targets (T:=R))),
     sct c trans = map (fun e => (fst e, map (fun tr => (fst tr, snd tr / c)) (snd e))) trans).
Proof. split; reflexivity. Qed.
Print Assumptions C09_scaleP_sct_content.

Theorem C09_transit_time_rescaling_unbounded :
  forall (P : params (T:=R)) (s : state) (c : R),
    (n_demes s <= length (p_tscale P))%coq_nat ->
    transit OpsR (scaleP c P) s = map (fun tr => (fst tr, snd tr / c)) (transit OpsR P s).
Proof. exact transit_time_rescaling. Qed.
Print Assumptions C09_transit_time_rescaling_unbounded.

Theorem C09_get_transitions_time_rescaling_unbounded :
  forall (P : params (T:=R)) (c : R) (fuel nl nd n : nat),
    (nd <= length (p_tscale P))%coq_nat ->
    get_transitions OpsR (scaleP c P) fuel nl nd n
    = option_map (fun st => (fst st, sct c (snd st))) (get_transitions OpsR P fuel nl nd n).
Proof. exact get_transitions_time_rescaling. Qed.
Print Assumptions C09_get_transitions_time_rescaling_unbounded.

Theorem C09_rate_matrix_time_rescaling_unbounded :
  forall (c : R) (states : list state) (trans : list (state * targets (T:=R))),
    rate_matrix OpsR states (sct c trans) = map (map (fun x => x / c)) (rate_matrix OpsR states trans).
Proof. exact rate_matrix_time_rescaling. Qed.
Print Assumptions C09_rate_matrix_time_rescaling_unbounded.
End C09_unbounded.

(* ------------------------------------------------------------------------------------------------
   The rescaling law stated DIRECTLY about the translated source, on ANY piecewise-constant demography
   (analysis/SourceScaling.v; gen/LoopsGen.v is regenerated from phasegen/distributions.py on every run): every change time
   multiplied by a rational c > 0, every rate matrix divided by c (C09_rate_matrix_time_rescaling_unbounded above;
   C09_divided_matrix_meets_hypothesis turns "divided entry by entry" into the hypothesis used here):

   C09_source_cdf_time_rescaling          cdf'(c t) = cdf(t)
   C09_source_accumulate_time_rescaling   acc'_k(c t) = c^k acc_k(t), every order k, reward tuple and list of times *)

From PG Require Import model.Loop analysis.Denote gen.NpLoops gen.LoopsGen analysis.SourceScaling.
Local Notation Q2R := Rdefinitions.Q2R.
Local Notation Q0 := (QArith_base.Qmake BinNums.Z0 BinNums.xH).

Theorem C09_divided_matrix_meets_hypothesis :
  forall (n : nat) (a : R) (S : seq (seq R)), a != 0 ->
    a *: mx_of n n [seq [seq Rdiv x a | x <- row] | row <- S] = mx_of n n S.
Proof. exact: mx_of_divided. Qed.
Print Assumptions C09_divided_matrix_meets_hypothesis.

Theorem C09_source_cdf_time_rescaling :
  forall (c : QArith_base.Q), QArith_base.Qlt Q0 c ->
  forall (expm : seq (seq R) -> seq (seq R)),
    (forall n A, wf n n A -> wf n n (expm A) /\ mx_of n n (expm A) = mexp (mx_of n n A)) ->
  forall (n : nat) (Ss Ss' : seq (QArith_base.Q * seq (seq R))) (Slast Slast' : seq (seq R)),
    scaled c n Ss Ss' -> Q2R c *: mx_of n n Slast' = mx_of n n Slast ->
    List.Forall (fun x : QArith_base.Q * seq (seq R) => wf n n x.2) Ss ->
    List.Forall (fun x : QArith_base.Q * seq (seq R) => wf n n x.2) Ss' ->
    wf n n Slast -> wf n n Slast' ->
    epochs_wf (seq (seq R)) Q0 Ss -> epochs_wf (seq (seq R)) Q0 Ss' ->
  forall (alpha e : seq R) (ts : seq QArith_base.Q),
    size e = n -> List.Forall (fun t => QArith_base.Qle Q0 t) ts ->
    TreeHeightDistribution_cdf OpsR expm (length Slast') (all_epochs Ss' Slast') alpha e [seq QArith_base.Qmult c t | t <- ts]
    = TreeHeightDistribution_cdf OpsR expm (length Slast) (all_epochs Ss Slast) alpha e ts.
Proof. move=> c cpos expm es n Ss Ss' Slast Slast'; exact: source_cdf_time_rescaling. Qed.
Print Assumptions C09_source_cdf_time_rescaling.

Theorem C09_source_accumulate_time_rescaling :
  forall (c : QArith_base.Q), QArith_base.Qlt Q0 c ->
  forall (expm : seq (seq R) -> seq (seq R)),
    (forall n A, wf n n A -> wf n n (expm A) /\ mx_of n n (expm A) = mexp (mx_of n n A)) ->
  forall (n : nat) (Ss Ss' : seq (QArith_base.Q * seq (seq R))) (Slast Slast' : seq (seq R)),
    scaled c n Ss Ss' -> Q2R c *: mx_of n n Slast' = mx_of n n Slast ->
    List.Forall (fun x : QArith_base.Q * seq (seq R) => wf n n x.2) Ss ->
    List.Forall (fun x : QArith_base.Q * seq (seq R) => wf n n x.2) Ss' ->
    wf n n Slast -> wf n n Slast' ->
    epochs_wf (seq (seq R)) Q0 Ss -> epochs_wf (seq (seq R)) Q0 Ss' ->
  forall (regf : seq (seq R) -> R) (k : nat) (Rs : seq (seq R)) (alpha : seq R) (ts : seq QArith_base.Q),
    regf (List.hd (None, Slast) (all_epochs Ss Slast)).2 <> 0 ->
    regf (List.hd (None, Slast') (all_epochs Ss' Slast')).2 <> 0 ->
    (forall i, (i < k)%N -> size (nth [::] Rs i) = n) ->
    List.Forall (fun t => QArith_base.Qle Q0 t) ts ->
    PhaseTypeDistribution_accumulate OpsR expm regf (length Slast') k (all_epochs Ss' Slast') Rs alpha [seq QArith_base.Qmult c t | t <- ts]
    = Matrix.vscale OpsR (Q2R c ^+ k)
        (PhaseTypeDistribution_accumulate OpsR expm regf (length Slast) k (all_epochs Ss Slast) Rs alpha ts).
Proof. move=> c cpos expm es n Ss Ss' Slast Slast'; exact: source_accumulate_time_rescaling. Qed.
Print Assumptions C09_source_accumulate_time_rescaling.
