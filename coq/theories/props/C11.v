(* C11 - Tree statistics satisfy the conservation identities that link them.

   The identities hold state by state for the reward functions of model/Rewards.v, for EVERY
   block-counting state satisfying the shape invariant [bc_inv] (one locus, rows of length n,
   sum_i i*a_i = n), hence - the first moment functional being linear and the symmetrised second
   moment bilinear in the reward vectors - for means and covariances.  The block-counting rates of
   all outcomes of one merger size sum to the lineage-counting rate for every block vector
   (generalised Vandermonde), which is what makes tree height and branch length agree between the
   two representations. *)
From Coq Require Import ZArith Reals List Arith.
From PG Require Import base.Ops base.OpsR model.CoalModels model.StateSpace model.Rewards model.LambdaSpec
                       proofs.RewardProofs proofs.BlockSumProofs.
Import ListNotations.
Open Scope R_scope.

Theorem C11_sfs_sums_to_branch_length :
  forall n s, (2 <= n)%nat -> bc_inv n s ->
    fold_right Rplus 0 (map (fun i => reward_get OpsR n (RUnfoldedSFS i) s) (seq 1 (n - 1)))
    = reward_get OpsR n RTotalBranchLength s.
Proof. exact sfs_sums_to_branch_length. Qed.
Print Assumptions C11_sfs_sums_to_branch_length.

Theorem C11_weighted_sfs_is_n_height :
  forall n s, (2 <= n)%nat -> bc_inv n s ->
    fold_right Rplus 0 (map (fun i => INR i * reward_get OpsR n (RUnfoldedSFS i) s) (seq 1 (n - 1)))
    = INR n * reward_get OpsR n RTreeHeight s.
Proof. exact weighted_sfs_is_n_height. Qed.
Print Assumptions C11_weighted_sfs_is_n_height.

Theorem C11_folded_is_fold :
  forall n i s, (1 <= i)%nat -> (i <= n - i)%nat ->
    reward_get OpsR n (RFoldedSFS i) s
    = if Nat.eqb i (n - i) then reward_get OpsR n (RUnfoldedSFS i) s
      else reward_get OpsR n (RUnfoldedSFS i) s + reward_get OpsR n (RUnfoldedSFS (n - i)) s.
Proof. exact folded_is_fold. Qed.
Print Assumptions C11_folded_is_fold.

Theorem C11_folded_sfs_sums_to_branch_length :
  forall n s, (2 <= n)%nat -> bc_inv n s ->
    fold_right Rplus 0 (map (fun i => reward_get OpsR n (RFoldedSFS i) s) (seq 1 (n / 2)))
    = reward_get OpsR n RTotalBranchLength s.
Proof. exact folded_sfs_sums_to_branch_length. Qed.
Print Assumptions C11_folded_sfs_sums_to_branch_length.

(* tree height / branch length rewards agree between a block-counting state and its
   lineage-counting projection, as does absorption *)
Theorem C11_height_length_lc_bc :
  forall n s, reward_get OpsR n RTreeHeight (project_lc s) = reward_get OpsR n RTreeHeight s
           /\ reward_get OpsR n RTotalBranchLength (project_lc s) = reward_get OpsR n RTotalBranchLength s
           /\ is_absorbing (project_lc s) = is_absorbing s.
Proof. exact height_length_lc_bc. Qed.
Print Assumptions C11_height_length_lc_bc.

(* block-counting merger rates of one reduction sum to the lineage-counting rate: all block
   vectors, all merger sizes, all three models (unbounded) *)
Theorem C11_block_rates_sum_to_lineage_rate :
  forall (m : cmodel (T:=R)) (blocks : list nat) (k : nat),
    wf_blocks blocks -> (2 <= length blocks)%nat -> (2 <= k)%nat ->
    outcome_rate_sum m blocks k = get_rate_bk OpsR m (sum_nat blocks) k.
Proof. exact block_outcomes_sum. Qed.
Print Assumptions C11_block_rates_sum_to_lineage_rate.

(* state-space choice from reward support *)
Theorem C11_support_choice :
  forall rs, choose_lc rs = true <-> Forall (fun r => supports_lc r = true) rs.
Proof. exact support_choice. Qed.
Print Assumptions C11_support_choice.
Theorem C11_bc_unit_forces_block_counting : forall rs, In RBlockCountingUnit rs -> choose_lc rs = false.
Proof. exact bc_unit_forces_bc. Qed.
Print Assumptions C11_bc_unit_forces_block_counting.

(* non-vacuity: a concrete block-counting state of n = 4 (one doubleton and two singletons over two demes) *)
Example C11_bc_inv_satisfiable :
  bc_inv 4 (mkState [[[1; 1; 0; 0]; [1; 0; 0; 0]]]%nat [[[0; 0; 0; 0]; [0; 0; 0; 0]]]%nat).
Proof. unfold bc_inv, n_loci; simpl. repeat split; auto. Qed.
Print Assumptions C11_bc_inv_satisfiable.

(* ------------------------------------------------------------------------------------------------
   "Hence for means and covariances": the second-moment functional is bilinear in the two reward
   matrices, with the real matrix exponential (proofs/ExpLaws2.v).  [m2 rexpm a S R1 R2 t] is the
   ordered second-order Van Loan functional
        a * (top-right block of mexp (t * [[S, R1, 0], [0, S, R2], [0, 0, S]])) * 1
   (the code symmetrises it over the two orders and multiplies by 2!).  The state-by-state identities
   above say that a reward vector is a finite sum of others (e.g. total branch length = sum over i of
   the i-th SFS bin); C11_second_moment_bilinear_real turns such identities, in both arguments at
   once, into the identity between second (cross) moments: the second moment of the total branch
   length is the sum over all pairs (i, j) of the SFS cross moments - any finite index types I, J,
   every dimension n, every generator S, every time t.  The other four are the binary and scalar
   cases, in each argument. *)
(* ---- the tie to phasegen/rewards.py by translation (gen/RewardsGen.v is regenerated from the source on every run) ---- *)
From PG Require Import gen.NpState gen.RewardsGen proofs.GenRewardsEquiv.

Theorem C11_rewards_py_is_the_model :
  forall (n nl : nat) (r : reward) (states : list state),
    reward_ok n r = true -> Forall (fun s => n_loci s = nl) states ->
    map (gen_reward_get OpsR n nl r) states = reward_vector OpsR n r states.
Proof. exact gen_reward_vector_eq_R. Qed.
Print Assumptions C11_rewards_py_is_the_model.

Theorem C11_rewards_py_sfs_sums_to_branch_length :
  forall n s, (2 <= n)%nat -> bc_inv n s ->
    fold_right Rplus 0%R (map (fun i => gen_reward_get OpsR n 1 (RUnfoldedSFS i) s) (seq 1 (n - 1)%nat))
    = gen_reward_get OpsR n 1 RTotalBranchLength s.
Proof. exact source_sfs_sums_to_branch_length. Qed.
Print Assumptions C11_rewards_py_sfs_sums_to_branch_length.

Theorem C11_rewards_py_support_is_the_model :
  forall r, gen_supports_lc r = supports_lc r /\ gen_supports_bc r = supports_bc r.
Proof. exact (fun r => conj (gen_supports_lc_eq r) (gen_supports_bc_eq r)). Qed.
Print Assumptions C11_rewards_py_support_is_the_model.

(* ---- the SOURCE of the two-dimensional spectrum class (SFS2.fold / symmetrize, pinned on every run by translate/spectrum2coq.py into
   gen/SpectrumGen.v): folding adds the (up to) four mirrored entries, counts the middle bin once and leaves zeros outside the folded block;
   it is additive and maps an outer product to the outer product of the folded vectors - so the fold of the covariance matrix of the bins is
   the covariance matrix of the FOLDED bins (the second-order form of "the folded spectrum is the fold of the unfolded one") ---- *)
From PG Require Import gen.NpSfs gen.SpectrumGen proofs.GenSfsEquiv proofs.GenSpectrumEquiv.
Theorem C11_spectrum_py_fold_entry :
  forall N (D : list (list R)) a b, sq N D -> (a < N)%nat -> (b < N)%nat ->
    let w := SFS2_w N in
    mget OpsR (SFS2_fold OpsR N D) a b
    = (ind (Nat.ltb a w) * ind (Nat.ltb b w) * mget OpsR D a b
       + ind (Nat.ltb a (N - w)) * ind (Nat.ltb b w) * mget OpsR D (N - 1 - a) b
       + ind (Nat.ltb a w) * ind (Nat.ltb b (N - w)) * mget OpsR D a (N - 1 - b)
       + ind (Nat.ltb a (N - w)) * ind (Nat.ltb b (N - w)) * mget OpsR D (N - 1 - a) (N - 1 - b))%R.
Proof. exact fold_entry. Qed.
Theorem C11_spectrum_py_fold_of_outer_product_and_sum :
  (forall N (x y : list R) a b, length x = N -> length y = N -> (a < N)%nat -> (b < N)%nat ->
     mget OpsR (SFS2_fold OpsR N (outer OpsR x y)) a b = (fold_vec N x a * fold_vec N y b)%R) /\
  (forall N (A B : list (list R)) a b, sq N A -> sq N B -> (a < N)%nat -> (b < N)%nat ->
     mget OpsR (SFS2_fold OpsR N (Matrix.madd OpsR A B)) a b = (mget OpsR (SFS2_fold OpsR N A) a b + mget OpsR (SFS2_fold OpsR N B) a b)%R).
Proof. split; [exact fold_of_outer_product | exact fold_is_additive]. Qed.
Theorem C11_spectrum_py_fold_shape :
  (forall N (D : list (list R)) a b, sq N D -> (a < N)%nat -> (b < N)%nat -> (SFS2_w N <= a \/ SFS2_w N <= b)%nat ->
     mget OpsR (SFS2_fold OpsR N D) a b = 0%R) /\
  (forall N (D : list (list R)), sq N D -> (forall a b, (a < N)%nat -> (b < N)%nat -> mget OpsR D a b = mget OpsR D b a) ->
     forall a b, (a < N)%nat -> (b < N)%nat -> mget OpsR (SFS2_fold OpsR N D) a b = mget OpsR (SFS2_fold OpsR N D) b a) /\
  (forall N (D : list (list R)) b, sq N D -> (N = 2 * (N - SFS2_w N) + 1)%nat -> (b < N - SFS2_w N)%nat ->
     mget OpsR (SFS2_fold OpsR N D) (N - SFS2_w N) b = (mget OpsR D (N - SFS2_w N) b + mget OpsR D (N - SFS2_w N) (N - 1 - b))%R
     /\ mget OpsR (SFS2_fold OpsR N D) (N - SFS2_w N) (N - SFS2_w N) = mget OpsR D (N - SFS2_w N) (N - SFS2_w N)).
Proof. split; [exact fold_outside_is_zero | split; [exact fold_keeps_symmetry | exact fold_middle_bin]]. Qed.
Theorem C11_spectrum_py_symmetrize_entry :
  forall N (D : list (list R)) a b, sq N D -> (a < N)%nat -> (b < N)%nat ->
    mget OpsR (SFS2_symmetrize OpsR N D) a b = ((mget OpsR D a b + mget OpsR D b a) / 2)%R.
Proof. exact symmetrize_entry. Qed.
Theorem C11_spectrum_py_fold_of_covariance_matrix_is_covariance_of_folded_rewards :
  forall (V : Type) (add : V -> V -> V) (cov : V -> V -> R),
    (forall x y z, cov (add x y) z = (cov x z + cov y z)%R) -> (forall x y z, cov z (add x y) = (cov z x + cov z y)%R) ->
  forall (e : nat -> V) (N a b : nat), (a < N - SFS2_w N)%nat -> (b < N - SFS2_w N)%nat ->
    mget OpsR (SFS2_fold OpsR N (cov_matrix V cov e N)) a b = cov (add (e a) (e (N - 1 - a)%nat)) (add (e b) (e (N - 1 - b)%nat)).
Proof. intros V add cov Hl Hr e N a b. apply fold_of_covariance_matrix_is_covariance_of_folded_rewards; assumption. Qed.
Print Assumptions C11_spectrum_py_fold_of_covariance_matrix_is_covariance_of_folded_rewards.
Print Assumptions C11_spectrum_py_fold_entry.
Print Assumptions C11_spectrum_py_fold_of_outer_product_and_sum.
Print Assumptions C11_spectrum_py_fold_shape.
Print Assumptions C11_spectrum_py_symmetrize_entry.

From mathcomp Require Import all_ssreflect all_algebra.
From PG Require Import proofs.ExpLaws analysis.Rstruct analysis.RSums analysis.MExp analysis.MExpLaws
                       proofs.ExpLaws2.
Import GRing.Theory.
Local Open Scope ring_scope.

Theorem C11_second_moment_bilinear_real :
  forall n (a : 'rV[R]_n) (S : 'M[R]_n) (t : R) (I J : finType) (Ra : I -> 'M[R]_n) (Rb : J -> 'M[R]_n),
    m2 (fun n : nat => @mexp n) a S (\sum_i Ra i) (\sum_j Rb j) t
    = \sum_i \sum_j m2 (fun n : nat => @mexp n) a S (Ra i) (Rb j) t.
Proof. exact: real_m2_bilinear. Qed.
Print Assumptions C11_second_moment_bilinear_real.

Theorem C11_second_moment_additive_l_real :
  forall n (a : 'rV[R]_n) (S R1 R1' R2 : 'M[R]_n) (t : R),
    m2 (fun n : nat => @mexp n) a S (R1 + R1') R2 t
    = m2 (fun n : nat => @mexp n) a S R1 R2 t + m2 (fun n : nat => @mexp n) a S R1' R2 t.
Proof. exact: real_m2_additive_l. Qed.
Print Assumptions C11_second_moment_additive_l_real.

Theorem C11_second_moment_additive_r_real :
  forall n (a : 'rV[R]_n) (S R1 R2 R2' : 'M[R]_n) (t : R),
    m2 (fun n : nat => @mexp n) a S R1 (R2 + R2') t
    = m2 (fun n : nat => @mexp n) a S R1 R2 t + m2 (fun n : nat => @mexp n) a S R1 R2' t.
Proof. exact: real_m2_additive_r. Qed.
Print Assumptions C11_second_moment_additive_r_real.

Theorem C11_second_moment_scale_l_real :
  forall n (a : 'rV[R]_n) (S R1 R2 : 'M[R]_n) (c t : R),
    m2 (fun n : nat => @mexp n) a S (c *: R1) R2 t = c *: m2 (fun n : nat => @mexp n) a S R1 R2 t.
Proof. exact: real_m2_scale_l. Qed.
Print Assumptions C11_second_moment_scale_l_real.

Theorem C11_second_moment_scale_r_real :
  forall n (a : 'rV[R]_n) (S R1 R2 : 'M[R]_n) (c t : R),
    m2 (fun n : nat => @mexp n) a S R1 (c *: R2) t = c *: m2 (fun n : nat => @mexp n) a S R1 R2 t.
Proof. exact: real_m2_scale_r. Qed.
Print Assumptions C11_second_moment_scale_r_real.

(* ------------------------------------------------------------------------------------------------
   The conservation identities stated DIRECTLY about the translated source on ANY piecewise-constant demography
   (analysis/SourceLinear.v, SourceCovariance.v, SourceLumpMoments.v; gen/LoopsGen.v, MomentsGen.v, RewardsGen.v regenerated from
   the source on every run):

   C11_source_sfs_sums_to_branch_length_in_mean       sum_i E[xi_i] = E[total branch length]
   C11_source_sfs_covariances_sum_to_variance         sum_ij cov(xi_i, xi_j) = var(total branch length)
   C11_source_weighted_sfs_is_n_height                sum_i i E[xi_i] = n E[tree height]
   C11_source_same_moments_on_both_representations    moments of every order transfer along a lumping that holds in every epoch
                                                      (lineage counting <-> block counting for rewards both support) *)
From PG Require Import model.Loop analysis.Denote analysis.CdfFacts gen.NpLoops gen.LoopsGen proofs.RewardProofs
                       analysis.SourceLinear analysis.SourceCovariance analysis.SourceLumpMoments.
Local Notation Q0 := (QArith_base.Qmake BinNums.Z0 BinNums.xH).

Theorem C11_source_sfs_sums_to_branch_length_in_mean :
  forall (expm : seq (seq R) -> seq (seq R)),
    (forall n A, wf n n A -> wf n n (expm A) /\ mx_of n n (expm A) = mexp (mx_of n n A)) ->
  forall (regf : seq (seq R) -> R) (n : nat) (Ss : seq (QArith_base.Q * seq (seq R))) (Slast : seq (seq R)) (alpha : seq R)
         (ts : seq QArith_base.Q),
    regf (List.hd (None, Slast) (all_epochs Ss Slast)).2 <> 0 ->
    List.Forall (fun x : QArith_base.Q * seq (seq R) => wf n n x.2) Ss -> wf n n Slast ->
    epochs_wf (seq (seq R)) Q0 Ss -> List.Forall (fun t => QArith_base.Qle Q0 t) ts ->
  forall (nn : nat) (r0 : reward) (sts : seq state),
    size sts = n -> (2 <= nn)%coq_nat -> reward_ok nn r0 = true -> List.Forall (fun s => bc_inv nn s) sts ->
    acc1 expm regf Ss Slast alpha ts [seq gen_reward_get OpsR nn 1 (RProduct [:: r0; RTotalBranchLength]) s | s <- sts]
    = SourceLinear.vsum (size ts)
        [seq acc1 expm regf Ss Slast alpha ts [seq gen_reward_get OpsR nn 1 (RProduct [:: r0; RUnfoldedSFS i]) s | s <- sts]
        | i <- iota 1 (nn - 1)].
Proof. move=> expm es regf n Ss Slast alpha ts; exact: source_expected_sfs_sums_to_branch_length. Qed.
Print Assumptions C11_source_sfs_sums_to_branch_length_in_mean.

Theorem C11_source_sfs_covariances_sum_to_variance :
  forall (expm : seq (seq R) -> seq (seq R)),
    (forall n A, wf n n A -> wf n n (expm A) /\ mx_of n n (expm A) = mexp (mx_of n n A)) ->
  forall (n : nat) (Ss : seq (QArith_base.Q * seq (seq R))) (Slast : seq (seq R)) (alpha : seq R) (lam : R) (t : QArith_base.Q),
    lam <> 0 ->
    List.Forall (fun x : QArith_base.Q * seq (seq R) => wf n n x.2) Ss -> wf n n Slast ->
    epochs_wf (seq (seq R)) Q0 Ss -> QArith_base.Qle Q0 t ->
  forall (self_reward : seq R) (nn : nat) (r0 : reward) (sts : seq state),
    size sts = n -> (2 <= nn)%coq_nat -> reward_ok nn r0 = true -> List.Forall (fun s => bc_inv nn s) sts ->
    let rv x := [seq gen_reward_get OpsR nn 1 x s | s <- sts] in
    \sum_(i <- iota 1 (nn - 1)) \sum_(j <- iota 1 (nn - 1))
       src_cov expm Ss Slast alpha lam t self_reward (rv (RProduct [:: r0; RUnfoldedSFS i])) (rv (RProduct [:: r0; RUnfoldedSFS j]))
    = src_cov expm Ss Slast alpha lam t self_reward (rv (RProduct [:: r0; RTotalBranchLength])) (rv (RProduct [:: r0; RTotalBranchLength])).
Proof. move=> expm es n Ss Slast alpha lam t l0 h1 h2 h5 t0 sr; exact: source_sfs_covariances_sum_to_branch_length_variance. Qed.
Print Assumptions C11_source_sfs_covariances_sum_to_variance.

Theorem C11_source_weighted_sfs_is_n_height :
  forall (expm : seq (seq R) -> seq (seq R)),
    (forall n A, wf n n A -> wf n n (expm A) /\ mx_of n n (expm A) = mexp (mx_of n n A)) ->
  forall (regf : seq (seq R) -> R) (n : nat) (Ss : seq (QArith_base.Q * seq (seq R))) (Slast : seq (seq R)) (alpha : seq R)
         (ts : seq QArith_base.Q),
    regf (List.hd (None, Slast) (all_epochs Ss Slast)).2 <> 0 ->
    List.Forall (fun x : QArith_base.Q * seq (seq R) => wf n n x.2) Ss -> wf n n Slast ->
    epochs_wf (seq (seq R)) Q0 Ss -> List.Forall (fun t => QArith_base.Qle Q0 t) ts ->
  forall (nn : nat) (sts : seq state),
    size sts = n -> (2 <= nn)%coq_nat -> List.Forall (fun s => bc_inv nn s) sts ->
    Matrix.vscale OpsR (INR nn) (acc1 expm regf Ss Slast alpha ts [seq gen_reward_get OpsR nn 1 RTreeHeight s | s <- sts])
    = SourceLinear.vsum (size ts)
        [seq Matrix.vscale OpsR (INR i) (acc1 expm regf Ss Slast alpha ts [seq gen_reward_get OpsR nn 1 (RUnfoldedSFS i) s | s <- sts])
        | i <- iota 1 (nn - 1)].
Proof. move=> expm es regf n Ss Slast alpha ts; exact: source_weighted_sfs_is_n_height. Qed.
Print Assumptions C11_source_weighted_sfs_is_n_height.

Theorem C11_source_same_moments_on_both_representations :
  forall expm : seq (seq R) -> seq (seq R),
    (forall n A, wf n n A -> wf n n (expm A) /\ mx_of n n (expm A) = mexp (mx_of n n A)) ->
  forall (regfL regfC : seq (seq R) -> R) (m n k : nat) (P : seq (seq R))
         (SsL : seq (QArith_base.Q * seq (seq R))) (SlastL : seq (seq R)) (SsC : seq (QArith_base.Q * seq (seq R))) (SlastC : seq (seq R))
         (RsL RsC : seq (seq R)) (alphaL : seq R) (ts : seq QArith_base.Q),
    regfL (List.hd (None, SlastL) (all_epochs SsL SlastL)).2 <> 0 ->
    regfC (List.hd (None, SlastC) (all_epochs SsC SlastC)).2 <> 0 ->
    wf m n P -> wf m m SlastL -> wf n n SlastC ->
    List.Forall2 (lump_rel m n P) SsL SsC ->
    Matrix.mmul OpsR SlastL P = Matrix.mmul OpsR P SlastC ->
    (forall i, (i < k)%N -> Matrix.mmul OpsR (Matrix.diagm OpsR (nth [::] RsL i)) P = Matrix.mmul OpsR P (Matrix.diagm OpsR (nth [::] RsC i))) ->
    Matrix.mvec OpsR P (PhaseType.ones OpsR n) = PhaseType.ones OpsR m ->
    (forall i, (i < k)%N -> size (nth [::] RsL i) = m) -> (forall i, (i < k)%N -> size (nth [::] RsC i) = n) ->
    size alphaL = m ->
    PhaseTypeDistribution_accumulate OpsR expm regfL (length SlastL) k (all_epochs SsL SlastL) RsL alphaL ts
    = PhaseTypeDistribution_accumulate OpsR expm regfC (length SlastC) k (all_epochs SsC SlastC) RsC (Matrix.vmat OpsR alphaL P) ts.
Proof. exact: source_accumulate_lumping. Qed.
Print Assumptions C11_source_same_moments_on_both_representations.
