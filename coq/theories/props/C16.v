(* C16 - Mutation-configuration probabilities form the distribution implied by the tree.

   Algebra of SFSDistribution._get_P / get_mutation_config over an arbitrary field (proofs/
   MutationAlgebra.v): P_total is the resolvent (theta D - S)^-1 theta D; the per-class matrices sum
   to it; the empty configuration has probability alpha (theta D - S)^-1 (-S e) (Laplace transform
   of the total branch length at theta); summing the path probabilities over ALL sequences of l
   mutations gives P_total^l, sequences group by configuration (count vector) into the sum over
   distinct orderings, and the generated mass up to L mutations telescopes to
   1 - alpha P_total^(L+1) e.  Combinatorics (proofs/UnfoldProofs.v): _get_partitions enumerates
   each configuration once; _unfold enumerates exactly the fibre of the fold map, each unfolding once.
   Not proved: convergence of alpha P_total^(L+1) e to 0 (spectral radius < 1), non-negativity of the
   individual probabilities (needs an ordered field and P >= 0): observed by the stream. *)
From Coq Require Import List Arith.
From PG Require Import model.CoalModels model.Mutation proofs.UnfoldProofs.
Import ListNotations.
Theorem C16_unfold_is_fibre : forall n config u, (2 <= n)%nat -> length config = (n / 2)%nat ->
  (In u (unfold_config n config) <-> length u = (n - 1)%nat /\ fold_config n u = config).
Proof. exact unfold_is_fibre. Qed.
Print Assumptions C16_unfold_is_fibre.

Theorem C16_unfold_nodup : forall n config, (2 <= n)%nat -> length config = (n / 2)%nat ->
  NoDup (unfold_config n config).
Proof. exact unfold_nodup. Qed.
Print Assumptions C16_unfold_nodup.

Theorem C16_configurations_enumerated : forall k n v, (1 <= k)%nat ->
  (In v (partitions_sum k n) <-> length v = k /\ sum_nat v = n).
Proof. exact partitions_sum_spec. Qed.
Print Assumptions C16_configurations_enumerated.

Theorem C16_configurations_enumerated_once : forall k n, (1 <= k)%nat -> NoDup (partitions_sum k n).
Proof. exact partitions_sum_nodup. Qed.
Print Assumptions C16_configurations_enumerated_once.

Theorem C16_unfold_example : unfold_config 4 [2;1] = [[0;1;2]; [1;1;1]; [2;1;0]].
Proof. exact unfold_4_21. Qed.
Print Assumptions C16_unfold_example.


(* ---- the mutation-configuration code of phasegen/distributions.py (_get_P, get_mutation_config, get_mutation_configs, _get_configs,
   _unfold) and StateSpace._get_partitions, PINNED in gen/MutationGen.v and re-checked against the source on every run by
   translate/mutation2coq.py; the reading of the pinned text is the model ---- *)
From PG Require Import gen.MutationGen proofs.GenMutationEquiv.
Theorem C16_distributions_py_unfolded_configurations : forall n k v, (2 <= n)%nat ->
  (In v (UnfoldedSFSDistribution_get_configs n k) <-> length v = (n - 1)%nat /\ sum_nat v = k).
Proof. exact gen_unfolded_configs_spec. Qed.
Print Assumptions C16_distributions_py_unfolded_configurations.

Theorem C16_distributions_py_folded_configurations : forall n k v, (2 <= n)%nat ->
  (In v (FoldedSFSDistribution_get_configs n k) <-> length v = (n / 2)%nat /\ sum_nat v = k).
Proof. exact gen_folded_configs_spec. Qed.
Print Assumptions C16_distributions_py_folded_configurations.

Theorem C16_distributions_py_unfold_is_fibre : forall n config u, (2 <= n)%nat -> length config = (n / 2)%nat ->
  (In u (FoldedSFSDistribution_unfold n config) <-> length u = (n - 1)%nat /\ fold_config n u = config).
Proof. exact gen_unfold_is_fibre. Qed.
Print Assumptions C16_distributions_py_unfold_is_fibre.

(* ---- the SOURCE of the iterator helpers of phasegen/utils.py through which the configurations of get_mutation_configs are consumed
   (pinned on every run by translate/utils2coq.py into gen/UtilsGen.v): takewhile_inclusive yields a prefix of the configurations that is
   either everything or ends with the FIRST item failing the predicate (that item included, nothing after it); take_n yields exactly the
   first n items, or fails when there are fewer ---- *)
From PG Require Import gen.UtilsGen proofs.GenUtilsEquiv.
Theorem C16_utils_py_takewhile_inclusive :
  forall (A : Type) (p : A -> bool) (l : list A),
    (takewhile_inclusive p l = l /\ Forall (fun y => p y = true) (removelast l)) \/
    exists pre x rest, takewhile_inclusive p l = pre ++ [x] /\ l = pre ++ x :: rest /\ p x = false /\ Forall (fun y => p y = true) pre.
Proof. exact @gen_takewhile_inclusive_stop. Qed.
Theorem C16_utils_py_take_n :
  forall (A : Type) (n : nat) (l : list A), take_n l n = if Nat.leb n (length l) then Some (firstn n l) else None.
Proof. exact @gen_take_n_spec. Qed.
Theorem C16_utils_py_collect_until_generated_mass :
  forall (A : Type) (thr : QArith_base.Q) (l : list (A * QArith_base.Q)),
    (takewhile_inclusive (below thr) l = l /\ Forall (fun x => QArith_base.Qlt (snd x) thr) (removelast l)) \/
    exists pre x rest, takewhile_inclusive (below thr) l = pre ++ [x] /\ l = pre ++ x :: rest /\ QArith_base.Qle thr (snd x) /\
                       Forall (fun y => QArith_base.Qlt (snd y) thr) pre.
Proof. exact @gen_collect_until_mass. Qed.
Print Assumptions C16_utils_py_collect_until_generated_mass.
Print Assumptions C16_utils_py_takewhile_inclusive.
Print Assumptions C16_utils_py_take_n.

From mathcomp Require Import all_ssreflect all_algebra.
Set Implicit Arguments. Unset Strict Implicit. Unset Printing Implicit Defensive.
Import GRing.Theory.
Local Open Scope ring_scope.
From PG Require Import proofs.MutationAlgebra.

Section C16.
Variables (F : fieldType) (n' m : nat).
Local Notation n := n'.+1.
Variables (S : 'M[F]_n) (r : 'I_m -> 'rV[F]_n) (theta : F) (alpha : 'rV[F]_n).
Hypothesis D_unit : Dmx r \in unitmx.
Hypothesis theta_neq0 : theta != 0.
Hypothesis R_unit : Rmx S r theta \in unitmx.

Theorem C16_Ptotal_is_resolvent : Ptot S r theta = invmx (Rmx S r theta) *m (theta *: Dmx r).
Proof. exact: Ptot_resolvent. Qed.
Theorem C16_class_matrices_sum : \sum_i Pcls S r theta i = Ptot S r theta.
Proof. exact: sum_Pi. Qed.
Theorem C16_empty_configuration_is_laplace_transform :
  alpha *m ptot S r theta = alpha *m invmx (Rmx S r theta) *m (- S *m evec F n).
Proof. exact: empty_config_prob. Qed.
Theorem C16_all_sequences_sum_to_power : forall l,
  \sum_(f : {ffun 'I_l -> 'I_m}) \prod_(j < l) Pcls S r theta (f j) = Ptot S r theta ^+ l.
Proof. by move=> l; apply: sum_paths_ffun. Qed.
Theorem C16_configurations_partition_sequences : forall l,
  \sum_(c : {ffun 'I_m -> 'I_l.+1} | (\sum_i c i)%N == l) config_prob S r theta alpha c
  = alpha *m Ptot S r theta ^+ l *m ptot S r theta.
Proof. by move=> l; apply: sum_config_probs. Qed.
Theorem C16_generated_mass_telescopes : forall L, alpha *m evec F n = 1 ->
  \sum_(l < L.+1) alpha *m Ptot S r theta ^+ l *m ptot S r theta
  = 1 - alpha *m Ptot S r theta ^+ L.+1 *m evec F n.
Proof. by move=> L; apply: mass_telescope1. Qed.
End C16.
Print Assumptions C16_Ptotal_is_resolvent.
Print Assumptions C16_class_matrices_sum.
Print Assumptions C16_empty_configuration_is_laplace_transform.
Print Assumptions C16_all_sequences_sum_to_power.
Print Assumptions C16_configurations_partition_sequences.
Print Assumptions C16_generated_mass_telescopes.

