(* C06 - Two-locus statistics under recombination match the ancestral recombination graph.

   (1) The two-locus lineage-counting chain is the lumping of the labelled ARG (C04, bounded:
   n <= 4 / one deme, n <= 3 / two demes, every number of initially unlinked samples).
   (2) Each locus is marginally the single-locus chain for every recombination rate (bounded
   reflection: n <= 6 over one deme, n <= 4 over two demes, r in {0, 1/3, 7/2, 1000}, both loci).
   (3) At r = 0 with all lineages linked, every state reachable through non-zero rates stays fully
   linked: the two trees coincide.  (4) Per-locus branch lengths / heights sum to the totals and
   CombinedReward's rewriting (TotalBranchLength, Locus l) is the per-locus branch count, for every
   state.  cov -> 0 as r grows is not proved; it is checked on the implementation. *)
From Coq Require Import ZArith QArith Reals List Arith.
From PG Require Import base.Ops base.OpsR model.CoalModels model.StateSpace model.Rewards model.Check
                       model.SpaceChecks proofs.SpaceFacts proofs.RewardProofs.
Import ListNotations.
Local Open Scope Q_scope.

Theorem C06_each_locus_is_single_locus_bounded :
  (forall n V r l, In n [2; 3; 4; 5; 6]%nat -> In V (sc_vals 1) -> In r [0; 1#3; 7#2; 1000] -> In l [0; 1]%nat ->
     marginal_spec V r 1 n l) /\
  (forall n V r l, In n [2; 3; 4]%nat -> In V (sc_vals 2) -> In r [0; 1#3; 7#2; 1000] -> In l [0; 1]%nat ->
     marginal_spec V r 2 n l).
Proof. exact two_locus_marginal_is_single_locus_bounded. Qed.
Print Assumptions C06_each_locus_is_single_locus_bounded.

Theorem C06_r0_trees_coincide_bounded :
  (forall n V, In n [2; 3; 4; 5; 6]%nat -> In V (sc_vals 1) -> r0_spec V 1 n) /\
  (forall n V, In n [2; 3; 4]%nat -> In V (sc_vals 2) -> r0_spec V 2 n).
Proof. exact r0_linked_closed_bounded. Qed.
Print Assumptions C06_r0_trees_coincide_bounded.

Local Open Scope R_scope.
Theorem C06_locus_branch_lengths_sum :
  forall n s,
    fold_right Rplus 0 (map (fun l => reward_get OpsR n (RTBLLocus l) s) (seq 0 (n_loci s)))
    = reward_get OpsR n RTotalBranchLength s.
Proof. exact locus_branch_lengths_sum. Qed.
Print Assumptions C06_locus_branch_lengths_sum.

Theorem C06_locus_heights_sum :
  forall n s,
    fold_right Rplus 0 (map (fun l => reward_get OpsR n (RLocus l) s) (seq 0 (n_loci s)))
    = reward_get OpsR n RTotalTreeHeight s.
Proof. exact locus_heights_sum. Qed.
Print Assumptions C06_locus_heights_sum.

Theorem C06_combined_reward_rewriting_sound :
  forall n l s, reward_get OpsR n (combined_reward [RTotalBranchLength; RLocus l]) s
              = reward_get OpsR n (RTBLLocus l) s.
Proof. exact combined_tbl_locus. Qed.
Print Assumptions C06_combined_reward_rewriting_sound.


(* ------------------------------------------------------------------------------------------------
   proofs/SpaceFactsAllRates.v: (2) and (3) above strengthened, over the REAL numbers.

   EVERY REAL VALUATION OF THE RATES (bounded in sample size / number of demes only).  The model of the
   state-space construction is run once with the population time scales, the migration rates and the
   recombination rate as SYMBOLS (model/LinForm.v); the criteria are decided on the symbolic rates
   (model/SpaceChecksSym.v) and transported by parametricity to every real valuation [rho : rval] of
   the symbols; [realP rho nd Kingman true] is the real parameter record with nd demes (Kingman
   coalescent, lineage counting - the two-locus state space of the code) whose rates are read off rho,
   and [with_rec r rho] is rho with the recombination rate replaced by r.

   C06_two_locus_marginal_is_single_locus_all_rates   (n, demes) in [marginal_groups]; both loci l.
       [marginal_spec_R P nd n l st2 st1]: the breadth-first construction yields the two-locus states
       st2 and the one-locus states st1; projecting a two-locus state (or any target of a transition
       out of it) on locus l gives a one-locus state; and for every two-locus state s and every
       one-locus state c other than the image of s, the total two-locus rate from s into the states
       that project on c IS the one-locus rate from the image of s to c.  Second conjunct: that total
       rate is the same whatever the recombination rate r.  So each locus is marginally the
       single-locus chain, for all population sizes, migration matrices and recombination rates.
   C06_r0_linked_closed_all_rates   (n, demes) in [r0_groups]; every valuation with recombination rate
       0.  [r0_spec_R P nd n st]: for every sample configuration the start state with all samples
       linked is among the states built, and every state reachable from it through transitions of
       non-zero rate is a listed state that is fully linked (no unlinked lineage, both loci carry the
       same lineages): the two trees coincide.

   NO BOUND AT ALL (structural proofs over [transit], the transitions out of one state): every
   parameter record with recombination rate 0 (any coalescent model with real parameters, time scales,
   migration matrix, either state space), every number of loci other than one, every number of demes
   and samples.  [lnk s = lin s] says that all lineages of s are linked (the linked-lineage array is
   the whole lineage array), [unl t l d b] is the number of unlinked lineages of locus l in deme d and
   block b.
   C06_r0_no_unlinking_unbounded    out of a state with all lineages linked, every transition into a
                                    state that has an unlinked lineage has rate 0.
   C06_r0_linked_closed_unbounded   every state reachable from such a state through transitions of
                                    non-zero rate ([nz_reachR]) again has all lineages linked, the
                                    same number of loci and no unlinked lineage anywhere. *)
From PG Require Import model.LinForm model.SpaceChecksSym proofs.SpaceFactsAllRates.
Module C06_all_rates.
Local Close Scope Q_scope.
Local Close Scope R_scope.

Theorem C06_two_locus_marginal_is_single_locus_all_rates :
  forall (n nd : nat), In (n, nd) marginal_groups ->
  exists st2 st1 : list state, forall (rho : rval) (l : nat), In l [0; 1]%nat ->
    marginal_spec_R (realP rho nd Kingman true) nd n l st2 st1 /\
    (forall (r : R) (s c : state), In s st2 -> In c st1 -> c <> proj_locus nd l s ->
       rate_into_g OpsR (proj_locus nd l) (transit OpsR (realP (with_rec r rho) nd Kingman true) s) c
       = rate_into_g OpsR (proj_locus nd l) (transit OpsR (realP rho nd Kingman true) s) c).
Proof. exact two_locus_marginal_is_single_locus_all_rates. Qed.
Print Assumptions C06_two_locus_marginal_is_single_locus_all_rates.

Theorem C06_r0_linked_closed_all_rates :
  forall (n nd : nat), In (n, nd) r0_groups ->
  exists st : list state, forall rho : rval, r_rec rho = 0%R -> r0_spec_R (realP rho nd Kingman true) nd n st.
Proof. exact r0_linked_closed_all_rates. Qed.
Print Assumptions C06_r0_linked_closed_all_rates.

Example C06_all_rates_groups :
  marginal_groups = [(2,1); (3,1); (4,1); (5,1); (6,1); (7,1); (8,1); (2,2); (3,2); (4,2); (5,2); (2,3); (3,3)]%nat /\
  r0_groups = [(2,1); (3,1); (4,1); (5,1); (6,1); (7,1); (8,1); (2,2); (3,2); (4,2); (5,2); (2,3); (3,3)]%nat.
Proof. split; reflexivity. Qed.
Print Assumptions C06_all_rates_groups.

Theorem C06_r0_linked_closed_unbounded :
  forall (P : params (T:=R)) (s t : state),
    p_rec P = 0%R -> n_loci s <> 1%nat -> lnk s = lin s -> nz_reachR P s t ->
    lnk t = lin t /\ n_loci t = n_loci s /\ forall l d b : nat, unl t l d b = 0%nat.
Proof. exact r0_linked_closed_unbounded. Qed.
Print Assumptions C06_r0_linked_closed_unbounded.

Theorem C06_r0_no_unlinking_unbounded :
  forall (P : params (T:=R)) (s t : state) (r : R),
    p_rec P = 0%R -> n_loci s <> 1%nat -> lnk s = lin s ->
    In (t, r) (transit OpsR P s) ->
    (exists l d b : nat, unl t l d b <> 0%nat) -> r = 0%R.
Proof. exact r0_no_unlinking_unbounded. Qed.
Print Assumptions C06_r0_no_unlinking_unbounded.
End C06_all_rates.

(* ---- the tie to phasegen/state_space.py by translation: on two-locus lineage-counting states the translated
        Transition.transit (linked / unlinked migration, the nine coalescence class pairs, recombination) IS the model ---- *)
From PG Require Import gen.NpTrans gen.TransitionGen proofs.GenTransitionEquiv.

Theorem C06_state_space_py_transit_is_the_model_two_loci :
  forall (n nl : nat) (P : params (T:=R)) (s : state),
    nl = n_loci s -> n_loci s = 2%nat -> p_lc P = true -> same_loci s ->
    rows1 (lin s) -> rows1 (lnk s) -> n_blocks s = 1%nat ->
    Transition_transit OpsR n nl P s = transit OpsR P s.
Proof. exact (gen_transit_two_loci OpsR). Qed.
Print Assumptions C06_state_space_py_transit_is_the_model_two_loci.

(* with recombination rate 0 and every lineage linked, the TRANSLATED Transition.transit has no transition of non-zero rate into a state
   with an unlinked lineage (proofs/SourceTwoLoci.v: r0_no_unlinking_unbounded transported along the equivalence above) *)
From PG Require Import proofs.SourceTwoLoci.
Theorem C06_state_space_py_r0_no_unlinking : forall (n nl : nat) (P : params (T:=R)) (s t : state) (r : R),
  nl = n_loci s -> n_loci s = 2%nat -> p_lc P = true -> same_loci s -> rows1 (lin s) -> rows1 (lnk s) -> n_blocks s = 1%nat ->
  p_rec P = 0%R -> lnk s = lin s ->
  In (t, r) (Transition_transit OpsR n nl P s) ->
  (exists l d b : nat, unl t l d b <> 0%nat) -> r = 0%R.
Proof. exact source_r0_no_unlinking. Qed.
Print Assumptions C06_state_space_py_r0_no_unlinking.
