(* C06 - Two-locus statistics under recombination match the ancestral recombination graph.

   (1) The two-locus lineage-counting chain is the lumping of the labelled ARG (C04, bounded:
   n <= 4 / one deme, n <= 3 / two demes, every number of initially unlinked samples).
   (2) Each locus is marginally the single-locus chain for every recombination rate (bounded
   reflection: n <= 6 over one deme, n <= 4 over two demes, r in {0, 1/3, 7/2, 1000}, both loci).
   (3) At r = 0 with all lineages linked, every state reachable through non-zero rates stays fully
   linked: the two trees coincide.  (4) Per-locus branch lengths / heights sum to the totals and
   CombinedReward's rewriting (TotalBranchLength, Locus l) is the per-locus branch count, for every
   state.  cov -> 0 as r grows is not proved; it is checked on the implementation. *)
From Coq Require Import ZArith QArith Reals List Arith.
From PG Require Import base.Ops base.OpsR model.CoalModels model.StateSpace model.Rewards model.Check
                       model.SpaceChecks proofs.SpaceFacts proofs.RewardProofs.
Import ListNotations.
Local Open Scope Q_scope.

Theorem C06_each_locus_is_single_locus_bounded :
  (forall n V r l, In n [2; 3; 4; 5; 6]%nat -> In V (sc_vals 1) -> In r [0; 1#3; 7#2; 1000] -> In l [0; 1]%nat ->
     marginal_spec V r 1 n l) /\
  (forall n V r l, In n [2; 3; 4]%nat -> In V (sc_vals 2) -> In r [0; 1#3; 7#2; 1000] -> In l [0; 1]%nat ->
     marginal_spec V r 2 n l).
Proof. exact two_locus_marginal_is_single_locus_bounded. Qed.
Print Assumptions C06_each_locus_is_single_locus_bounded.

Theorem C06_r0_trees_coincide_bounded :
  (forall n V, In n [2; 3; 4; 5; 6]%nat -> In V (sc_vals 1) -> r0_spec V 1 n) /\
  (forall n V, In n [2; 3; 4]%nat -> In V (sc_vals 2) -> r0_spec V 2 n).
Proof. exact r0_linked_closed_bounded. Qed.
Print Assumptions C06_r0_trees_coincide_bounded.

Local Open Scope R_scope.
Theorem C06_locus_branch_lengths_sum :
  forall n s,
    fold_right Rplus 0 (map (fun l => reward_get OpsR n (RTBLLocus l) s) (seq 0 (n_loci s)))
    = reward_get OpsR n RTotalBranchLength s.
Proof. exact locus_branch_lengths_sum. Qed.
Print Assumptions C06_locus_branch_lengths_sum.

Theorem C06_locus_heights_sum :
  forall n s,
    fold_right Rplus 0 (map (fun l => reward_get OpsR n (RLocus l) s) (seq 0 (n_loci s)))
    = reward_get OpsR n RTotalTreeHeight s.
Proof. exact locus_heights_sum. Qed.
Print Assumptions C06_locus_heights_sum.

Theorem C06_combined_reward_rewriting_sound :
  forall n l s, reward_get OpsR n (combined_reward [RTotalBranchLength; RLocus l]) s
              = reward_get OpsR n (RTBLLocus l) s.
Proof. exact combined_tbl_locus. Qed.
Print Assumptions C06_combined_reward_rewriting_sound.

