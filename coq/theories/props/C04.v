(* C04 - State spaces are the exact lumping of the labelled coalescent.

   SPEC: model/Labelled.v (labelled structured Lambda-coalescent on set partitions with a deme per
   block; two-locus ancestral recombination graph).  MODEL: model/StateSpace.v.
   Bounded theorems are proved by computational reflection over exact rationals; the bound and the
   two generic-looking rate valuations are part of the statements (the property's "algebraically
   generic" quantifier is covered for these valuations, not symbolically: named partial in
   DESIGN.md).  The generator property and "absorbing states only migrate" are unbounded. *)
From Coq Require Import ZArith QArith Reals List Arith Lia.
From PG Require Import base.Ops base.OpsR model.CoalModels model.StateSpace model.LambdaSpec model.Check
                       model.Labelled proofs.LumpingProofs model.SpaceChecks proofs.SpaceFacts.
Import ListNotations.
Local Open Scope nat_scope.

Theorem C04_lumping_single_locus_bounded :
  forall config : list nat,
    1 <= length config <= 3 -> 2 <= sum_nat config <= 5 ->
  forall V, In V valuations -> forall m, In m models -> forall lc : bool,
    lumping_claim (mkP V m lc) 1 (length config) (sum_nat config)
                  (pi1 lc (length config) (sum_nat config)) (levents1 (length config)) (linit config).
Proof. exact lumping_single_locus_bounded. Qed.
Print Assumptions C04_lumping_single_locus_bounded.

Theorem C04_lumping_two_locus_bounded :
  forall (config : list nat) (n_unlinked : nat),
    (length config = 1 /\ 2 <= sum_nat config <= 4) \/ (length config = 2 /\ 2 <= sum_nat config <= 3) ->
    n_unlinked <= sum_nat config ->
  forall V, In V valuations ->
    lumping_claim (mkP V Kingman true) 2 (length config) (sum_nat config)
                  (pi_2 (length config)) (levents2 (length config)) (linit2 config n_unlinked).
Proof. exact lumping_two_locus_bounded. Qed.
Print Assumptions C04_lumping_two_locus_bounded.

Theorem C04_absorbing_only_migrates :
  forall (T : Type) (OP : Ops T) (P : params (T:=T)) (s : state),
    is_absorbing s = true ->
    transit OP P s = dict_union (migrate_linked OP P s) (migrate_unlinked OP P s).
Proof. exact absorbing_only_migrates. Qed.
Print Assumptions C04_absorbing_only_migrates.

Local Open Scope R_scope.
Theorem C04_rate_matrix_row_sums :
  forall states trans row, NoDup states -> In row (rate_matrix OpsR states trans) ->
    fold_right Rplus 0 row = 0.
Proof. exact rate_matrix_row_sums. Qed.
Print Assumptions C04_rate_matrix_row_sums.

Theorem C04_rate_matrix_offdiag_nonneg :
  forall states trans, rates_nonneg_in trans ->
    forall i j s t row x,
      nth_error states i = Some s -> nth_error states j = Some t -> s <> t ->
      nth_error (rate_matrix OpsR states trans) i = Some row -> nth_error row j = Some x ->
      0 <= x.
Proof. exact rate_matrix_offdiag_nonneg. Qed.
Print Assumptions C04_rate_matrix_offdiag_nonneg.

Theorem C04_transit_nonneg :
  forall (P : params (T:=R)) (s : state), valid_params P ->
    forall t r, In (t, r) (transit OpsR P s) -> 0 <= r.
Proof. exact transit_nonneg. Qed.
Print Assumptions C04_transit_nonneg.


Local Close Scope R_scope.
(* non-vacuity: the bounded statements instantiate at a concrete structured configuration *)
Example C04_instance :
  lumping_claim (mkP valuation1 (Beta (3#2)%Q false) false) 1 2 3 (pi1 false 2 3) (levents1 2) (linit [2; 1]).
Proof.
  apply (lumping_single_locus_bounded [2; 1]); simpl; try lia; auto.
Qed.
Print Assumptions C04_instance.

(* ------------------------------------------------------------------------------------------------
   UNBOUNDED lumping for the one-locus lineage-counting state space (proofs/LumpingAllN.v; no
   reflection, no bound on anything).

   C04_lumping_single_locus_LC_unbounded.  Take any parameter record P over the reals (any model -
   Kingman, Beta, Dirac -, any migration rates and time scales), any sample configuration [config]
   (so: any number of demes [length config] and any sample size [sum_nat config]) and any labelled
   state x that the labelled structured coalescent of model/Labelled.v can reach from the initial
   labelled state [linit config].  Then, for EVERY target state t of the code's state space, the rate
   that the code's transition function [transit] assigns to the jump  (projection of x) -> t  equals
   the total rate of all labelled events at x whose outcome projects to t.  That is the (strong)
   lumpability condition of the labelled process with respect to the lineage-counting projection
   [pi1 true], together with the statement that the lumped chain is the one the code builds.

   C04_transit_lc_rate_all_n.  The rate the code assigns between ANY two lineage-counting states
   (count vectors c, c' of any length and any total) is the specification [lumped_rate]:
   c_p * mig p q for a move of one block from p to q, binom(c_d, k) * lam(c_d, k) / tscale d for a
   k-merger in deme d, and 0 otherwise (see lumped_rate_move/_merge/_other).

   C04_subsets_of_size_count.  The model of itertools.combinations used by the code enumerates
   exactly binom(|l|, k) subsets of size k - the multiplicity that turns the per-subset merger rate
   into the lumped rate. *)
From PG Require Import proofs.LumpingAllN.
From PG Require model.PhaseType.

Theorem C04_lumping_single_locus_LC_unbounded :
  forall (P : params (T:=R)) (config : list nat) (x : lstate),
    reach (targets_of (levents1 (length config))) (linit config) x ->
  forall t : state,
    rate_of (transit OpsR P (pi1 true (length config) (sum_nat config) x)) t =
    rsum_over (fun ey => if state_eqb (pi1 true (length config) (sum_nat config) (snd ey)) t
                         then erate OpsR P (fst ey) else 0%R)
              (levents1 (length config) x).
Proof. exact lumping_single_locus_LC_unbounded. Qed.
Print Assumptions C04_lumping_single_locus_LC_unbounded.

Theorem C04_transit_lc_rate_all_n :
  forall (P : params (T:=R)) (c c' : list nat),
    rate_of (transit OpsR P (lc_state c)) (lc_state c') = lumped_rate P c c'.
Proof. exact transit_lc_rate. Qed.
Print Assumptions C04_transit_lc_rate_all_n.

Theorem C04_subsets_of_size_count :
  forall (A : Type) (l : list A) (k : nat),
    Z.of_nat (length (PG.model.PhaseType.subsets_of_size l k)) = binom (length l) k.
Proof. exact @subsets_of_size_count. Qed.
Print Assumptions C04_subsets_of_size_count.

(* ------------------------------------------------------------------------------------------------
   Symbolic rates (model/LinForm.v, proofs/SymbolicLumping.v).  The model of the state-space
   construction is run ONCE with the population time scales, migration rates and the recombination
   rate as SYMBOLS (linear forms over atoms); the lumping criterion is decided on the symbolic rates
   and transported, by parametricity of the model in its operations record, to EVERY real valuation
   of those rates: on the sample-size/deme groups [groups1_sym] (1 deme n<=7, 2 demes n<=6, 3 demes
   n<=5, 4 demes n<=4; Kingman, Beta and Dirac instances of [models]; lineage- AND block-counting)
   and [groups2_sym] (two loci; 1 deme n<=4, 2 demes n<=3, 3 demes n=2; every number of unlinked
   lineages), the chain built by the code's algorithm is the lumping of the labelled process for all
   population sizes, migration matrices and recombination rates at once. *)
From PG Require Import model.LinForm proofs.SymbolicLumping.

Theorem C04_lumping_single_locus_every_rate_valuation :
  forall (config : list nat) (P : params (T:=R)),
    In (sum_nat config, length config) groups1_sym ->
    (exists m, In m models /\ p_model P = cmodel_map Q2R m) ->
    length (p_tscale P) = length config -> length (p_mig P) = length config ->
    (forall row, In row (p_mig P) -> length row = length config) ->
    lumping_claim_R P 1 (length config) (sum_nat config)
                    (pi1 (p_lc P) (length config) (sum_nat config)) (levents1 (length config)) (linit config).
Proof. exact lumping_single_locus_real_params. Qed.
Print Assumptions C04_lumping_single_locus_every_rate_valuation.

Theorem C04_lumping_two_loci_every_rate_valuation :
  forall (config : list nat) (n_unlinked : nat) (P : params (T:=R)),
    In (sum_nat config, length config) groups2_sym -> n_unlinked <= sum_nat config ->
    p_model P = Kingman -> p_lc P = true ->
    length (p_tscale P) = length config -> length (p_mig P) = length config ->
    (forall row, In row (p_mig P) -> length row = length config) ->
    lumping_claim_R P 2 (length config) (sum_nat config)
                    (pi_2 (length config)) (levents2 (length config)) (linit2 config n_unlinked).
Proof. exact lumping_two_locus_real_params. Qed.
Print Assumptions C04_lumping_two_loci_every_rate_valuation.

Example C04_symbolic_groups :
  groups1_sym = [(2,1); (3,1); (4,1); (5,1); (2,2); (3,2); (4,2); (5,2); (2,3); (3,3); (4,3); (5,3);
                 (6,1); (7,1); (6,2); (2,4); (3,4); (4,4)]%nat /\
  groups2_sym = [(2,1); (3,1); (4,1); (2,2); (3,2); (2,3)]%nat.
Proof. split; reflexivity. Qed.
Print Assumptions C04_symbolic_groups.

(* ------------------------------------------------------------------------------------------------
   proofs/LumpingAllN_BC.v: the UNBOUNDED lumping theorem for the BLOCK-COUNTING chain as well (entry
   i of deme d = number of blocks of size i+1): every number of demes, every sample size, Kingman,
   Beta and Dirac with arbitrary real parameters, every real valuation of the rates, at every labelled
   state reachable from the sample configuration and for every target state t.  Together with the
   lineage-counting theorem above: whichever of the two single-locus state spaces the code builds
   ([p_lc P]), its transition rates are the summed rates of the labelled structured coalescent. *)
From PG Require Import proofs.LumpingAllN_BC.

Theorem C04_lumping_single_locus_BC_unbounded :
  forall (P : params (T:=R)) (config : list nat) (x : lstate),
    reach (targets_of (levents1 (length config))) (linit config) x ->
  forall t : state,
    rate_of (transit OpsR P (pi1 false (length config) (sum_nat config) x)) t =
    rsum_over (fun ey => if state_eqb (pi1 false (length config) (sum_nat config) (snd ey)) t
                         then erate OpsR P (fst ey) else 0%R)
              (levents1 (length config) x).
Proof. exact lumping_single_locus_BC_unbounded. Qed.
Print Assumptions C04_lumping_single_locus_BC_unbounded.

Theorem C04_lumping_single_locus_unbounded :
  forall (P : params (T:=R)) (config : list nat) (x : lstate),
    reach (targets_of (levents1 (length config))) (linit config) x ->
  forall t : state,
    rate_of (transit OpsR P (pi1 (p_lc P) (length config) (sum_nat config) x)) t =
    rsum_over (fun ey => if state_eqb (pi1 (p_lc P) (length config) (sum_nat config) (snd ey)) t
                         then erate OpsR P (fst ey) else 0%R)
              (levents1 (length config) x).
Proof. exact lumping_single_locus_unbounded. Qed.
Print Assumptions C04_lumping_single_locus_unbounded.

(* ---- the tie to phasegen/state_space.py by translation (gen/TransitionGen.v is regenerated from the class Transition
        of the source on every run; proofs/GenTransitionEquiv.v proves it equal to the model) ---- *)
From PG Require Import gen.NpTrans gen.TransitionGen proofs.GenTransitionEquiv proofs.SourceLumping.

Theorem C04_state_space_py_transit_is_the_model_single_locus :
  forall (n nl : nat) (P : params (T:=R)) (s : state),
    nl = n_loci s -> n_loci s = 1%nat -> same_loci s ->
    Transition_transit OpsR n nl P s = transit OpsR P s.
Proof. exact (gen_transit_single_locus OpsR). Qed.
Print Assumptions C04_state_space_py_transit_is_the_model_single_locus.

Theorem C04_state_space_py_transit_is_the_model_two_loci :
  forall (n nl : nat) (P : params (T:=R)) (s : state),
    nl = n_loci s -> n_loci s = 2%nat -> p_lc P = true -> same_loci s ->
    rows1 (lin s) -> rows1 (lnk s) -> n_blocks s = 1%nat ->
    Transition_transit OpsR n nl P s = transit OpsR P s.
Proof. exact (gen_transit_two_loci OpsR). Qed.
Print Assumptions C04_state_space_py_transit_is_the_model_two_loci.

(* the unbounded lumping theorem with the TRANSLATED SOURCE in place of the model *)
Theorem C04_state_space_py_lumping_single_locus_unbounded :
  forall (n : nat) (P : params (T:=R)) (config : list nat) (x : lstate),
    reach (targets_of (levents1 (length config))) (linit config) x ->
  forall t : state,
    rate_of (Transition_transit OpsR n 1 P (pi1 (p_lc P) (length config) (sum_nat config) x)) t =
    rsum_over (fun ey => if state_eqb (pi1 (p_lc P) (length config) (sum_nat config) (snd ey)) t
                         then erate OpsR P (fst ey) else 0%R)
              (levents1 (length config) x).
Proof. exact source_lumping_single_locus_unbounded. Qed.
Print Assumptions C04_state_space_py_lumping_single_locus_unbounded.

(* ---- the SOURCE of the initial distribution (LineageConfig._get_initial_states, LocusConfig._get_initial_states, StateSpace.alpha;
   translated on every run by translate/configs2coq.py into gen/ConfigsGen.v) is the model's alpha_vec, a probability vector carried
   by the states that match the sample configuration and the initial linkage ---- *)
From PG Require Import gen.NpState gen.NpConfigs gen.ConfigsGen proofs.GenConfigsEquiv.
Theorem C04_lineage_py_initial_states_is_the_model : forall (cfg : list nat) (s : state),
  LineageConfig_get_initial_states cfg s = b2n (matches_config cfg s).
Proof. exact gen_lineage_initial_states_eq. Qed.
Theorem C04_locus_py_initial_states_is_the_model : forall (nl u n : nat) (s : state),
  n_loci s = nl -> length (lnk s) = length (lin s) ->
  LocusConfig_get_initial_states (Z.of_nat nl) (Z.of_nat u) n s = b2n (matches_linkage (n - u) s).
Proof. exact gen_locus_initial_states_eq. Qed.
Theorem C04_state_space_py_alpha_is_the_model : forall (cfg : list nat) (nl u : nat) (states : list state),
  (forall s, In s states -> n_loci s = nl /\ length (lnk s) = length (lin s)) ->
  StateSpace_alpha OpsR cfg (Z.of_nat nl) (Z.of_nat u) (sum_nat cfg) states = alpha_vec OpsR cfg u states.
Proof. exact gen_alpha_eq_R. Qed.
Theorem C04_state_space_py_alpha_sums_to_one : forall (cfg : list nat) (nl u : nat) (states : list state),
  (forall s, In s states -> n_loci s = nl /\ length (lnk s) = length (lin s)) ->
  (exists s, In s states /\ matches_config cfg s = true /\ matches_linkage (sum_nat cfg - u) s = true) ->
  fold_right Rplus 0%R (StateSpace_alpha OpsR cfg (Z.of_nat nl) (Z.of_nat u) (sum_nat cfg) states) = 1%R.
Proof. exact source_alpha_sums_to_one. Qed.
Theorem C04_state_space_py_alpha_support : forall (cfg : list nat) (nl u : nat) (states : list state) i,
  (forall s, In s states -> n_loci s = nl /\ length (lnk s) = length (lin s)) ->
  (i < length states)%nat ->
  (matches_config cfg (nth i states (mkState [] [])) && matches_linkage (sum_nat cfg - u) (nth i states (mkState [] [])))%bool = false ->
  nth i (StateSpace_alpha OpsR cfg (Z.of_nat nl) (Z.of_nat u) (sum_nat cfg) states) 0%R = 0%R.
Proof. exact source_alpha_support. Qed.
Print Assumptions C04_lineage_py_initial_states_is_the_model.
Print Assumptions C04_locus_py_initial_states_is_the_model.
Print Assumptions C04_state_space_py_alpha_is_the_model.
Print Assumptions C04_state_space_py_alpha_sums_to_one.
Print Assumptions C04_state_space_py_alpha_support.

(* ---- the enumeration of the state space and the assembly of the rate matrix (StateSpace.get_transitions, _graph_to_matrix, e,
   _get_initial of both spaces), PINNED in gen/StateSpaceGen.v and re-checked against the source on every run by
   translate/statespace2coq.py: the assembled matrix is a proper generator (rows sum to zero, off-diagonal entries non-negative), the
   enumeration is the breadth-first search from the initial state ---- *)
From PG Require Import proofs.SpaceFacts gen.StateSpaceGen proofs.GenStateSpaceEquiv.
Theorem C04_state_space_py_rate_matrix_rows_sum_to_zero :
  forall states trans row, NoDup states -> In row (StateSpace_graph_to_matrix OpsR states trans) -> fold_right Rplus 0%R row = 0%R.
Proof. exact gen_graph_to_matrix_row_sums. Qed.
Print Assumptions C04_state_space_py_rate_matrix_rows_sum_to_zero.

Theorem C04_state_space_py_rate_matrix_offdiag_nonneg :
  forall states trans, rates_nonneg_in trans ->
    forall i j s t row x,
      nth_error states i = Some s -> nth_error states j = Some t -> s <> t ->
      nth_error (StateSpace_graph_to_matrix OpsR states trans) i = Some row -> nth_error row j = Some x -> (0 <= x)%R.
Proof. exact gen_graph_to_matrix_offdiag_nonneg. Qed.
Print Assumptions C04_state_space_py_rate_matrix_offdiag_nonneg.

Theorem C04_state_space_py_enumeration_is_bfs_from_the_initial_state :
  forall (T : Type) (OP : Ops T) (P : params (T:=T)) fuel nl nd n,
    StateSpace_get_transitions OP P fuel nl nd n
    = bfs OP P fuel [if p_lc P then LineageCountingStateSpace_get_initial nl nd n else BlockCountingStateSpace_get_initial nl nd n] [] [].
Proof. exact @gen_get_transitions_is_bfs. Qed.
Print Assumptions C04_state_space_py_enumeration_is_bfs_from_the_initial_state.
