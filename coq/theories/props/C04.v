(* C04 - State spaces are the exact lumping of the labelled coalescent.

   SPEC: model/Labelled.v (labelled structured Lambda-coalescent on set partitions with a deme per
   block; two-locus ancestral recombination graph).  MODEL: model/StateSpace.v.
   Bounded theorems are proved by computational reflection over exact rationals; the bound and the
   two generic-looking rate valuations are part of the statements (the property's "algebraically
   generic" quantifier is covered for these valuations, not symbolically: named partial in
   DESIGN.md).  The generator property and "absorbing states only migrate" are unbounded. *)
From Coq Require Import ZArith QArith Reals List Arith Lia.
From PG Require Import base.Ops base.OpsR model.CoalModels model.StateSpace model.LambdaSpec model.Check
                       model.Labelled proofs.LumpingProofs model.SpaceChecks proofs.SpaceFacts.
Import ListNotations.
Local Open Scope nat_scope.

Theorem C04_lumping_single_locus_bounded :
  forall config : list nat,
    1 <= length config <= 3 -> 2 <= sum_nat config <= 5 ->
  forall V, In V valuations -> forall m, In m models -> forall lc : bool,
    lumping_claim (mkP V m lc) 1 (length config) (sum_nat config)
                  (pi1 lc (length config) (sum_nat config)) (levents1 (length config)) (linit config).
Proof. exact lumping_single_locus_bounded. Qed.
Print Assumptions C04_lumping_single_locus_bounded.

Theorem C04_lumping_two_locus_bounded :
  forall (config : list nat) (n_unlinked : nat),
    (length config = 1 /\ 2 <= sum_nat config <= 4) \/ (length config = 2 /\ 2 <= sum_nat config <= 3) ->
    n_unlinked <= sum_nat config ->
  forall V, In V valuations ->
    lumping_claim (mkP V Kingman true) 2 (length config) (sum_nat config)
                  (pi_2 (length config)) (levents2 (length config)) (linit2 config n_unlinked).
Proof. exact lumping_two_locus_bounded. Qed.
Print Assumptions C04_lumping_two_locus_bounded.

Theorem C04_absorbing_only_migrates :
  forall (T : Type) (OP : Ops T) (P : params (T:=T)) (s : state),
    is_absorbing s = true ->
    transit OP P s = dict_union (migrate_linked OP P s) (migrate_unlinked OP P s).
Proof. exact absorbing_only_migrates. Qed.
Print Assumptions C04_absorbing_only_migrates.

Local Open Scope R_scope.
Theorem C04_rate_matrix_row_sums :
  forall states trans row, NoDup states -> In row (rate_matrix OpsR states trans) ->
    fold_right Rplus 0 row = 0.
Proof. exact rate_matrix_row_sums. Qed.
Print Assumptions C04_rate_matrix_row_sums.

Theorem C04_rate_matrix_offdiag_nonneg :
  forall states trans, rates_nonneg_in trans ->
    forall i j s t row x,
      nth_error states i = Some s -> nth_error states j = Some t -> s <> t ->
      nth_error (rate_matrix OpsR states trans) i = Some row -> nth_error row j = Some x ->
      0 <= x.
Proof. exact rate_matrix_offdiag_nonneg. Qed.
Print Assumptions C04_rate_matrix_offdiag_nonneg.

Theorem C04_transit_nonneg :
  forall (P : params (T:=R)) (s : state), valid_params P ->
    forall t r, In (t, r) (transit OpsR P s) -> 0 <= r.
Proof. exact transit_nonneg. Qed.
Print Assumptions C04_transit_nonneg.


Local Close Scope R_scope.
(* non-vacuity: the bounded statements instantiate at a concrete structured configuration *)
Example C04_instance :
  lumping_claim (mkP valuation1 (Beta (3#2)%Q false) false) 1 2 3 (pi1 false 2 3) (levents1 2) (linit [2; 1]).
Proof.
  apply (lumping_single_locus_bounded [2; 1]); simpl; try lia; auto.
Qed.
Print Assumptions C04_instance.
