(* C19 - Inference returns the best run, within bounds, reproducibly.

   Model: model/Inference.v (selection, seeding, merging, bounds logic).  The optimiser
   (scipy L-BFGS-B) is an oracle opt : start point -> (x, fun, success); what is assumed about it is
   stated in each theorem (result within bounds; fun = loss at x).  Recovery of the generating
   parameters and determinism of L-BFGS-B are runtime behaviour of SciPy, observed by the stream. *)
From Coq Require Import QArith List Bool.
From PG Require Import model.Inference proofs.InferenceProofs.
Import ListNotations.
Open Scope Q_scope.

Theorem C19_run_selects_the_best_run : forall opt inf n us, (1 <= n)%nat ->
  exists x0, In x0 (start_points inf n us) /\
    i_params (run opt inf n us) = Some (r_x (opt x0)) /\
    i_loss (run opt inf n us) = Some (r_fun (opt x0)) /\
    In (r_fun (opt x0)) (i_loss_runs (run opt inf n us)) /\
    (forall l, In l (i_loss_runs (run opt inf n us)) -> r_fun (opt x0) <= l) /\
    i_loss_runs (run opt inf n us) = map (fun x => r_fun (opt x)) (start_points inf n us) /\
    length (i_loss_runs (run opt inf n us)) = length (start_points inf n us) /\
    length (i_loss_runs (run opt inf n us)) = n.
Proof. exact run_spec. Qed.
Print Assumptions C19_run_selects_the_best_run.

Theorem C19_run_reproducible : forall opt inf n us us',
  firstn (n * length (i_bounds inf)) us = firstn (n * length (i_bounds inf)) us' ->
  run opt inf n us = run opt inf n us'.
Proof. exact run_reproducible. Qed.
Print Assumptions C19_run_reproducible.

Theorem C19_sampled_start_points_within_bounds : forall bounds us,
  (length bounds <= length us)%nat ->
  Forall (fun u => 0 <= u /\ u < 1) us ->
  Forall (fun b => fst b <= snd b) bounds ->
  within bounds (fst (sample bounds us)) = true.
Proof. exact sample_within. Qed.
Print Assumptions C19_sampled_start_points_within_bounds.

Theorem C19_add_run_keeps_lower : forall self other s' lo,
  add_run self other = Some s' -> i_loss other = Some lo ->
  i_loss s' = Some (match i_loss self with
                    | None => lo
                    | Some ls => if Qlt_le_dec lo ls then lo else ls
                    end) /\
  i_params s' = (match i_loss self with
                 | None => i_params other
                 | Some ls => if Qlt_le_dec lo ls then i_params other else i_params self
                 end) /\
  i_loss_runs s' = i_loss_runs self ++ i_loss_runs other /\
  i_bounds s' = i_bounds self /\ i_x0 s' = i_x0 self /\ i_bootstraps s' = i_bootstraps self.
Proof. exact add_run_keeps_lower. Qed.
Print Assumptions C19_add_run_keeps_lower.

Theorem C19_add_runs_keeps_minimum : forall others self s',
  add_runs self others = Some s' ->
  (i_loss self <> None \/ others <> []) ->
  exists l, i_loss s' = Some l /\
            In (Some l) (i_loss self :: map i_loss others) /\
            (forall l', In (Some l') (i_loss self :: map i_loss others) -> l <= l').
Proof. exact add_runs_loss. Qed.
Print Assumptions C19_add_runs_keeps_minimum.

Theorem C19_add_runs_concatenates_losses : forall others self s',
  add_runs self others = Some s' ->
  i_loss_runs s' = i_loss_runs self ++ concat (map i_loss_runs others) /\
  i_bounds s' = i_bounds self /\ i_x0 s' = i_x0 self /\ i_bootstraps s' = i_bootstraps self.
Proof. exact add_runs_loss_runs. Qed.
Print Assumptions C19_add_runs_concatenates_losses.

Theorem C19_add_bootstrap_one_row : forall self other s',
  add_bootstrap self other = Some s' ->
  length (i_bootstraps s') = S (length (i_bootstraps self)) /\
  i_loss s' = i_loss self /\ i_params s' = i_params self /\
  i_loss_runs s' = i_loss_runs self /\
  exists p, i_params other = Some p /\ i_bootstraps s' = i_bootstraps self ++ [p].
Proof. exact add_bootstrap_one_row. Qed.
Print Assumptions C19_add_bootstrap_one_row.

Theorem C19_create_run_uses_x0 : forall self x0 r,
  create_run self x0 = Some r ->
  i_x0 r = Some x0 /\ within (i_bounds self) x0 = true /\ i_bounds r = i_bounds self /\
  (forall n us, hd [] (start_points r n us) = x0) /\
  (forall n us, exists rest, start_points r n us = x0 :: rest /\ length rest = (n - 1)%nat).
Proof. exact create_run_uses_x0. Qed.
Print Assumptions C19_create_run_uses_x0.

Theorem C19_create_run_rejects_out_of_bounds : forall self x0,
  within (i_bounds self) x0 = false -> create_run self x0 = None.
Proof. exact create_run_rejects_out_of_bounds. Qed.
Print Assumptions C19_create_run_rejects_out_of_bounds.

Section C19oracle.
  Variable opt : list Q -> oresult.
  Variable loss : list Q -> Q.
  Hypothesis opt_fun : forall x, r_fun (opt x) == loss (r_x (opt x)).
  Theorem C19_reported_loss_is_loss_at_reported_params : forall inf n us, (1 <= n)%nat ->
    exists p l, i_params (run opt inf n us) = Some p /\ i_loss (run opt inf n us) = Some l /\
                l == loss p /\ In l (i_loss_runs (run opt inf n us)) /\
                (forall l', In l' (i_loss_runs (run opt inf n us)) -> l <= l').
  Proof. intros; apply run_loss_at_params; assumption. Qed.
  Theorem C19_reported_params_within_bounds : forall inf n us, (1 <= n)%nat ->
    (forall x, within (i_bounds inf) (r_x (opt x)) = true) ->
    exists p, i_params (run opt inf n us) = Some p /\ within (i_bounds (run opt inf n us)) p = true.
  Proof. intros; apply run_within_bounds; assumption. Qed.
End C19oracle.
Print Assumptions C19_reported_loss_is_loss_at_reported_params.
Print Assumptions C19_reported_params_within_bounds.
Theorem C19_example_run :
  let r := run ex_opt ex_inf 3 ex_us in
  length (start_points ex_inf 3 ex_us) = 3%nat /\
  map Qred (i_loss_runs r) = [1#4; 5#4; 5#2] /\
  option_map Qred (i_loss r) = Some (1#4) /\
  option_map (map Qred) (i_params r) = Some [0; 1#2] /\
  (match i_params r with Some p => within (i_bounds r) p | None => false end) = true.
Proof. exact ex_run. Qed.
Print Assumptions C19_example_run.


(* ---- the SOURCE of the result bookkeeping (Inference._run from `results` on, add_run(s), add_bootstrap(s); translated on every run by
   translate/inference2coq.py into gen/InferenceGen.v) is the model the theorems above are about; in addition the reported distribution
   is always the one built from the reported parameters, and these are those of the stored result ---- *)
From PG Require Import gen.NpInference gen.InferenceGen proofs.GenInferenceEquiv.
Theorem C19_inference_py_run_is_the_model : forall (opt : list Q -> oresult) s n us r rs,
  map opt (start_points (to_model s) n us) = r :: rs ->
  run opt (to_model s) n us = to_model (Inference_run_tail s (r, rs)).
Proof. exact gen_run_is_model_run. Qed.
Theorem C19_inference_py_add_run_is_the_model : forall s o, omap to_model (Inference_add_run s o) = add_run (to_model s) (to_model o).
Proof. exact gen_add_run_eq. Qed.
Theorem C19_inference_py_add_runs_is_the_model : forall os s, omap to_model (Inference_add_runs s os) = add_runs (to_model s) (map to_model os).
Proof. exact gen_add_runs_eq. Qed.
Theorem C19_inference_py_add_bootstrap_is_the_model : forall s d,
  omap to_model (Inference_add_bootstrap s (BInference d)) = add_bootstrap (to_model s) (to_model d).
Proof. exact gen_add_bootstrap_eq. Qed.
Theorem C19_inference_py_reported_distribution_is_built_from_reported_parameters :
  (forall s rs, Reported (Inference_run_tail s rs)) /\
  (forall os s s', Reported s -> Forall Reported os -> Inference_add_runs s os = Some s' -> Reported s') /\
  (forall s d s', Reported s -> Inference_add_bootstrap s d = Some s' -> Reported s').
Proof. split; [exact source_run_reported | split; [exact source_add_runs_reported | exact source_add_bootstrap_reported]]. Qed.
Theorem C19_inference_py_add_run_fails_exactly_when_not_run : forall s o, Inference_add_run s o = None <-> s_loss o = None.
Proof. exact source_add_run_fails_iff. Qed.
Print Assumptions C19_inference_py_run_is_the_model.
Print Assumptions C19_inference_py_add_run_is_the_model.
Print Assumptions C19_inference_py_add_runs_is_the_model.
Print Assumptions C19_inference_py_add_bootstrap_is_the_model.
Print Assumptions C19_inference_py_reported_distribution_is_built_from_reported_parameters.
Print Assumptions C19_inference_py_add_run_fails_exactly_when_not_run.

(* ---- the SOURCE of utils.parallelize (pinned on every run by translate/utils2coq.py into gen/UtilsGen.v): the runs (and the bootstraps) come
   back IN THE ORDER of their start values / bootstrap objects, in parallel or not, with or without a progress bar - the reading the
   bookkeeping above assumes of `results = parallelize(...)` ---- *)
From PG Require Import gen.UtilsGen proofs.GenUtilsEquiv.
Theorem C19_utils_py_runs_come_back_in_order :
  forall (A B : Type) (func : A -> B) (data : list A) (par pbar par' pbar' : bool),
    parallelize func data par pbar = map func data /\ parallelize func data par pbar = parallelize func data par' pbar'.
Proof. intros. split; [apply gen_parallelize_is_ordered_map | apply gen_parallelize_flags_irrelevant]. Qed.
Print Assumptions C19_utils_py_runs_come_back_in_order.

(* ---- the SOURCE of the loss classes (phasegen/norms.py, pinned on every run by translate/norms2coq.py into gen/NormsGen.v): for L1Norm,
   L2Norm and LInfNorm (one-dimensional operands of equal length) the loss is non-negative, exactly zero at a perfect fit and strictly
   positive anywhere else, and symmetric: a run that reaches the observation exactly has the minimum possible loss and is kept by every
   merge; no other modelled vector reaches loss zero ---- *)
From Coq Require Import Reals.
From PG Require Import gen.NormsGen proofs.GenNormsEquiv.
Theorem C19_norms_py_loss_zero_exactly_at_perfect_fit :
  forall (p : ord) (a b : list R),
    (0 <= LNorm_compute p a b)%R /\ LNorm_compute p a a = 0%R /\
    (length a = length b -> (LNorm_compute p a b = 0%R <-> a = b)) /\
    (length a = length b -> a <> b -> (0 < LNorm_compute p a b)%R) /\
    LNorm_compute p a b = LNorm_compute p b a.
Proof.
  intros p a b. split; [apply compute_nonneg | split; [apply compute_perfect_fit | split; [| split; [apply compute_positive_off_fit | apply compute_symmetric]]]].
  intros HL. split; [apply compute_zero_only_at_perfect_fit; exact HL | intros ->; apply compute_perfect_fit].
Qed.
Print Assumptions C19_norms_py_loss_zero_exactly_at_perfect_fit.
