(* C07 - Vectorised evaluation is pointwise and independent of argument order.

   cdf, pdf, _accumulate, sfs.accumulate and get_epochs all have the shape
       out = loop(sort(ts)) [ argsort(argsort(ts)) ]
   (model: base/Perm.v [vectorised]; the sorted loop: model/Loop.v [run_loop]). *)
From Coq Require Import QArith List Sorted.
From PG Require Import base.Perm proofs.PermProofs model.Loop proofs.LoopProofs.
Import ListNotations.

(* Scattering back through the inverse of the sorting permutation returns, at position i, the
   value for the i-th input - for every list, any order, with repeats, for ANY comparison
   function (so also for keys that are not totally ordered). *)
Theorem C07_scatter_inverse :
  forall (K A : Type) (leb : K -> K -> bool) (F : K -> A) (d : A) (ts : list K),
    vectorised leb d (map F) ts = map F ts.
Proof. exact scatter_inverse. Qed.
Print Assumptions C07_scatter_inverse.

(* Any loop that is pointwise on sorted input yields a pointwise wrapper. *)
Theorem C07_vectorised_pointwise :
  forall (K A : Type) (leb : K -> K -> bool) (F : K -> A) (d : A) (loop : list K -> list A),
    (forall a b, leb a b = true \/ leb b a = true) ->
    (forall a b c, leb a b = true -> leb b c = true -> leb a c = true) ->
    (forall l, StronglySorted (fun a b => leb a b = true) l -> loop l = map F l) ->
    forall ts, vectorised leb d loop ts = map F ts.
Proof. exact vectorised_pointwise. Qed.
Print Assumptions C07_vectorised_pointwise.

(* The i-th returned value is the value obtained by evaluating the i-th time alone. *)
Theorem C07_ith_value_is_value_alone :
  forall (K A : Type) (leb : K -> K -> bool) (F : K -> A) (d : A) (dk : K) (ts : list K) (i : nat),
    (i < length ts)%nat ->
    nth i (vectorised leb d (map F) ts) d = nth 0 (vectorised leb d (map F) [nth i ts dk]) d.
Proof. exact vectorised_singleton. Qed.
Print Assumptions C07_ith_value_is_value_alone.

(* The epoch-aware propagation loop (cdf / _accumulate), for every monoid of matrices and every
   family of per-epoch propagators obeying the semigroup laws of the matrix exponential. *)
Section Loop.
  Variables M V : Type.
  Variable mul : M -> M -> M.
  Variable one : M.
  Variable step : V -> Q -> M.
  Hypothesis mulA : forall a b c, mul a (mul b c) = mul (mul a b) c.
  Hypothesis mul1l : forall a, mul one a = a.
  Hypothesis mul1r : forall a, mul a one = a.
  Hypothesis step_proper : forall v a b, a == b -> step v a = step v b.
  Hypothesis step0 : forall v, step v 0 = one.
  Hypothesis step_add : forall v a b, 0 <= a -> 0 <= b -> mul (step v a) (step v b) = step v (a + b).

  Theorem C07_loop_vectorised_pointwise :
    forall (vlast : V) (epochs : list (Q * V)) (ts : list Q),
      epochs_wf V 0 epochs -> Forall (fun t => 0 <= t) ts ->
      loop_vectorised M V mul one step epochs vlast ts = map (eval_at M V mul one step epochs vlast) ts.
  Proof. intros; apply loop_vectorised_pointwise; assumption. Qed.

  Theorem C07_loop_ith_value_is_value_alone :
    forall (vlast : V) (epochs : list (Q * V)) (ts : list Q) (i : nat),
      epochs_wf V 0 epochs -> Forall (fun t => 0 <= t) ts -> (i < length ts)%nat ->
      nth i (loop_vectorised M V mul one step epochs vlast ts) one
      = nth 0 (loop_vectorised M V mul one step epochs vlast [nth i ts 0]) one.
  Proof. intros; apply loop_vectorised_singleton; assumption. Qed.
End Loop.
Print Assumptions C07_loop_vectorised_pointwise.
Print Assumptions C07_loop_ith_value_is_value_alone.

(* What the code did before the repair ("x[argsort t]") violates the property: witness. *)
Local Close Scope Q_scope.
Example C07_argsort_scatter_refuted :
  vectorised_buggy Nat.leb 0 (map (fun x => x)) [4; 1; 2] <> [4; 1; 2].
Proof. exact vectorised_buggy_refuted. Qed.
Print Assumptions C07_argsort_scatter_refuted.

(* non-vacuity: a concrete unsorted list with repeats, evaluated *)
Example C07_concrete :
  vectorised Nat.leb 0 (map (fun x => 10 * x)) [4; 1; 2; 1] = [40; 10; 20; 10].
Proof. vm_compute. reflexivity. Qed.
Print Assumptions C07_concrete.

(* ---- the tie to phasegen/distributions.py by translation: PhaseTypeDistribution._accumulate (gen/LoopsGen.v is regenerated from
        the source on every run; proofs/GenLoopsEquiv.v proves it equal to the model's accumulate_raw; analysis/SourceLoops.v
        transports the analytic facts) ---- *)
(* ---- the SOURCE of Demography.get_epochs / get_epoch (phasegen/demography.py, pinned on every run by translate/demography2coq.py into
   gen/DemographyGen.v): for every list of times >= 0 (any order, repeats) the i-th epoch returned is the epoch that contains the i-th
   time - the value for that time alone -, whenever the epochs tile [0, oo) ---- *)
From PG Require Import gen.NpConfigs gen.NpDemography gen.DemographyGen proofs.GenDemographyEquiv.
Theorem C07_demography_py_get_epochs_pointwise : forall e it ts,
  tiles 0 (e :: it) -> Forall (fun t => (0 <= t)%Q) ts ->
  Demography_get_epochs (e :: it) ts = map (fun t => first_in t (e :: it)) ts.
Proof. exact gen_get_epochs_pointwise. Qed.
Theorem C07_demography_py_get_epoch_contains_its_time : forall e it t,
  tiles 0 (e :: it) -> (0 <= t)%Q -> in_ep t (Demography_get_epoch (e :: it) t) = true.
Proof. exact gen_get_epoch_contains. Qed.
Print Assumptions C07_demography_py_get_epochs_pointwise.
Print Assumptions C07_demography_py_get_epoch_contains_its_time.

From Coq Require Import QArith Reals.
From mathcomp Require Import all_ssreflect all_algebra.
From PG Require Import analysis.Rstruct analysis.RSums analysis.MExp analysis.MExpLaws.
From PG Require Import base.Ops base.OpsR model.CoalModels model.Matrix model.Loop model.PhaseType proofs.ExpLaws
                       analysis.Denote analysis.CdfFacts analysis.DenotePhaseType
                       gen.NpLoops gen.LoopsGen proofs.GenLoopsEquiv analysis.SourceLoops.
Delimit Scope Q_scope with QQ.
Delimit Scope nat_scope with N.

Theorem C07_distributions_py_accumulate_is_the_model :
  forall (expm : seq (seq R) -> seq (seq R)) (regf : seq (seq R) -> R) (k : nat)
         (Ss : seq (Q * seq (seq R))) (Slast : seq (seq R)) (Rs : seq (seq R)) (alpha : seq R) (ts : seq Q),
    PhaseTypeDistribution_accumulate OpsR expm regf (length Slast) k (all_epochs Ss Slast) Rs alpha ts
    = accumulate_raw OpsR expm k Ss Slast Rs alpha (regf (snd (List.hd (None, Slast) (all_epochs Ss Slast)))) ts.
Proof. exact: gen_accumulate_eq_model_R. Qed.
Print Assumptions C07_distributions_py_accumulate_is_the_model.

(* pointwise in the end times (any order, repeats); the right-hand side does not mention the regularisation factor *)
Theorem C07_distributions_py_accumulate_pointwise :
  forall expm : seq (seq R) -> seq (seq R),
    (forall n A, wf n n A -> wf n n (expm A) /\ mx_of n n (expm A) = mexp (mx_of n n A)) ->
  forall (regf : seq (seq R) -> R) (n k : nat) (Ss : seq (Q * seq (seq R))) (Slast : seq (seq R)) (Rs : seq (seq R))
         (alpha : seq R) (ts : seq Q),
    regf (List.hd (None, Slast) (all_epochs Ss Slast)).2 <> 0%R ->
    List.Forall (fun x : Q * seq (seq R) => wf n n x.2) Ss -> wf n n Slast ->
    (forall i, (i < k)%N -> size (nth [::] Rs i) = n) ->
    epochs_wf (seq (seq R)) 0%QQ Ss -> List.Forall (fun t => (0 <= t)%QQ) ts ->
    PhaseTypeDistribution_accumulate OpsR expm regf (length Slast) k (all_epochs Ss Slast) Rs alpha ts =
    List.map (fun t => mk_val alpha
       (evalM (vlsz n k) (denCk n k Rs Ss) (vl (mx_of n n Slast) (rwd n Rs) k) t)) ts.
Proof. exact: source_accumulate_pointwise. Qed.
Print Assumptions C07_distributions_py_accumulate_pointwise.
