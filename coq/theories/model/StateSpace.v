(* Model of phasegen/state_space.py: State, Transition.{transit, migrate_linked, migrate_unlinked,
   coalesce, recombine, add_target}, StateSpace.{get_transitions, _graph_to_matrix, alpha},
   LineageCountingStateSpace / BlockCountingStateSpace._get_initial, LineageConfig / LocusConfig
   ._get_initial_states.  Written once over an operations record.

   A state is (lineages, linked), both indexed [locus][deme][block] (block axis of length 1 for the
   lineage-counting space, n for the block-counting space).

   Definitions only. *)
From Coq Require Import ZArith List Arith Bool.
From PG Require Import base.Ops model.CoalModels.
Import ListNotations.

Definition arr3 := list (list (list nat)).
Record state := mkState { lin : arr3; lnk : arr3 }.

Fixpoint list_eqb {A} (eqb : A -> A -> bool) (l1 l2 : list A) : bool :=
  match l1, l2 with
  | [], [] => true
  | x :: l1', y :: l2' => eqb x y && list_eqb eqb l1' l2'
  | _, _ => false
  end.
Definition arr3_eqb : arr3 -> arr3 -> bool := list_eqb (list_eqb (list_eqb Nat.eqb)).
Definition state_eqb (s t : state) : bool := arr3_eqb (lin s) (lin t) && arr3_eqb (lnk s) (lnk t).

Definition get3 (a : arr3) (l d b : nat) : nat := nth b (nth d (nth l a []) []) 0.
Definition upd3 (a : arr3) (l d b : nat) (f : nat -> nat) : arr3 :=
  upd a l (fun row => upd row d (fun bl => upd bl b f)).
Definition sum3_locus (a : arr3) (l : nat) : nat :=      (* lineages.sum(axis=(1,2))[l] *)
  sum_nat (map sum_nat (nth l a [])).
Definition n_loci (s : state) : nat := length (lin s).
Definition n_demes (s : state) : nat := length (nth 0 (lin s) []).
Definition n_blocks (s : state) : nat := length (nth 0 (nth 0 (lin s) []) []).
Definition unl (s : state) (l d b : nat) : nat := get3 (lin s) l d b - get3 (lnk s) l d b.

(* State.is_absorbing: every locus has exactly one lineage left *)
Definition is_absorbing (s : state) : bool :=
  forallb (fun l => Nat.eqb (sum3_locus (lin s) l) 1) (seq 0 (n_loci s)).

Section Space.
  Context {T : Type} (OP : Ops T).
  Notation "a +o b" := (oadd OP a b) (at level 50, left associativity).
  Notation "a *o b" := (omul OP a b) (at level 40, left associativity).

  (* what the state space reads from its configuration and current epoch *)
  Record params := mkParams {
    p_model : cmodel (T:=T);
    p_tscale : list T;            (* model._get_timescale(pop_size[deme]) per deme axis *)
    p_mig : list (list T);        (* migration_rates[(pop_names[d1], pop_names[d2])] *)
    p_rec : T;                    (* locus_config.recombination_rate *)
    p_lc : bool                   (* lineage-counting (true) or block-counting (false) space *)
  }.

  Definition targets := list (state * T).   (* a Python dict in insertion order *)

  (* Transition.add_target: sum the rate when the target is already present *)
  Fixpoint add_target (tg : targets) (t : state) (r : T) : targets :=
    match tg with
    | [] => [(t, r)]
    | (t', r') :: tg' => if state_eqb t' t then (t', r' +o r) :: tg' else (t', r') :: add_target tg' t r
    end.

  (* dict union "a | b" / "a |= b": values of b override those of a *)
  Fixpoint dict_set (tg : targets) (t : state) (r : T) : targets :=
    match tg with
    | [] => [(t, r)]
    | (t', r') :: tg' => if state_eqb t' t then (t', r) :: tg' else (t', r') :: dict_set tg' t r
    end.
  Definition dict_union (a b : targets) : targets :=
    fold_left (fun acc tr => dict_set acc (fst tr) (snd tr)) b a.

  (* pairs (d1, d2), d1 <> d2, in itertools.product order *)
  Definition deme_pairs (nd : nat) : list (nat * nat) :=
    flat_map (fun d1 => flat_map (fun d2 => if Nat.eqb d1 d2 then [] else [(d1, d2)]) (seq 0 nd)) (seq 0 nd).

  Definition mig_rate (P : params) (d1 d2 : nat) : T := nth d2 (nth d1 (p_mig P) []) (o0 OP).

  (* Transition.migrate_unlinked *)
  Definition migrate_unlinked (P : params) (s : state) : targets :=
    fold_left (fun acc l =>
      fold_left (fun acc dd =>
        let '(d1, d2) := dd in
        fold_left (fun acc b =>
          if andb (Nat.ltb 0 (get3 (lin s) l d1 b)) (Nat.ltb 0 (unl s l d1 b)) then
            let t := mkState (upd3 (upd3 (lin s) l d1 b pred) l d2 b S) (lnk s) in
            add_target acc t (mig_rate P d1 d2 *o oofN OP (unl s l d1 b))
          else acc) (seq 0 (n_blocks s)) acc) (deme_pairs (n_demes s)) acc) (seq 0 (n_loci s)) [].

  Definition all_loci (s : state) (f : nat -> bool) : bool := forallb f (seq 0 (n_loci s)).
  Definition map_loci (s : state) (a : arr3) (f : arr3 -> nat -> arr3) : arr3 :=
    fold_left f (seq 0 (n_loci s)) a.

  (* Transition.migrate_linked *)
  Definition migrate_linked (P : params) (s : state) : targets :=
    if Nat.eqb (n_loci s) 1 then [] else
    fold_left (fun acc dd =>
      let '(d1, d2) := dd in
      fold_left (fun acc b =>
        if andb (all_loci s (fun l => negb (Nat.eqb (get3 (lin s) l d1 b) 0)))
                (all_loci s (fun l => Nat.ltb 0 (get3 (lnk s) l d1 b))) then
          let mv a := map_loci s a (fun a l => upd3 (upd3 a l d1 b pred) l d2 b S) in
          add_target acc (mkState (mv (lin s)) (mv (lnk s)))
                     (mig_rate P d1 d2 *o oofN OP (get3 (lnk s) 0 d1 b))
        else acc) (seq 0 (n_blocks s)) acc) (deme_pairs (n_demes s)) [].

  Definition tscale_of (P : params) (d : nat) : T := nth d (p_tscale P) (o1 OP).

  (* Transition.coalesce, one locus *)
  Definition coalesce1 (P : params) (s : state) : targets :=
    fold_left (fun acc d =>
      fold_left (fun acc br =>
        let t := mkState (upd (lin s) 0 (fun row => upd row d (fun _ => fst br))) (lnk s) in
        add_target acc t (odiv OP (snd br) (tscale_of P d)))
        (coalesce OP (p_model P) (nth d (nth 0 (lin s) []) [])) acc) (seq 0 (n_demes s)) [].

  (* Transition.coalesce, two loci (lineage counting, Kingman).  Classes in the order of the
     Python dict: 0 = linked, 1 = unlinked1, 2 = unlinked2. *)
  Definition class_count (s : state) (c d : nat) : nat :=
    match c with
    | 0 => get3 (lnk s) 0 d 0
    | 1 => unl s 0 d 0
    | _ => unl s 1 d 0
    end.

  Definition coalesce2 (P : params) (s : state) : targets :=
    fold_left (fun acc d =>
      let ts := tscale_of P d in
      fold_left (fun acc cc =>
        let '(c1, c2) := cc in
        let n1 := class_count s c1 d in
        let n2 := class_count s c2 d in
        if Nat.eqb c1 c2 then
          if Nat.ltb n1 2 then acc else
          let rate := odiv OP (get_rate_bk OP (p_model P) n1 2) ts in
          match c1 with
          | 1 => add_target acc (mkState (upd3 (lin s) 0 d 0 pred) (lnk s)) rate
          | 2 => add_target acc (mkState (upd3 (lin s) 1 d 0 pred) (lnk s)) rate
          | _ =>
              if all_loci s (fun l => Nat.ltb 0 (get3 (lnk s) l d 0)) then
                let dec a := map_loci s a (fun a l => upd3 a l d 0 pred) in
                add_target acc (mkState (dec (lin s)) (dec (lnk s))) rate
              else acc
          end
        else if Nat.ltb c1 c2 then
          if orb (Nat.ltb n1 1) (Nat.ltb n2 1) then acc else
          let rate := odiv OP (oofN OP (n1 * n2)) ts in
          if Nat.eqb c1 0 then
            (* mixed coalescence of linked and unlinked lineages *)
            let l := if Nat.eqb c2 1 then 0 else 1 in
            if Nat.ltb 1 (get3 (lin s) l d 0)
            then add_target acc (mkState (upd3 (lin s) l d 0 pred) (lnk s)) rate
            else acc
          else
            (* locus coalescence of unlinked lineages of the two loci *)
            if all_loci s (fun l => Nat.ltb 0 (unl s l d 0))
            then add_target acc (mkState (lin s) (map_loci s (lnk s) (fun a l => upd3 a l d 0 S))) rate
            else acc
        else acc)
        (flat_map (fun c1 => map (fun c2 => (c1, c2)) [0; 1; 2]) [0; 1; 2]) acc)
      (seq 0 (n_demes s)) [].

  Definition coalesce_tr (P : params) (s : state) : targets :=
    if Nat.eqb (n_loci s) 1 then coalesce1 P s else coalesce2 P s.

  (* Transition.recombine *)
  Definition recombine (P : params) (s : state) : targets :=
    if Nat.eqb (n_loci s) 1 then [] else
    fold_left (fun acc d =>
      if all_loci s (fun l => Nat.ltb 0 (get3 (lnk s) l d 0)) then
        add_target acc (mkState (lin s) (map_loci s (lnk s) (fun a l => upd3 a l d 0 pred)))
                   (p_rec P *o oofN OP (get3 (lnk s) 0 d 0))
      else acc) (seq 0 (n_demes s)) [].

  (* Transition.transit *)
  Definition transit (P : params) (s : state) : targets :=
    let tg := dict_union (migrate_linked P s) (migrate_unlinked P s) in
    if is_absorbing s then tg
    else dict_union (dict_union tg (coalesce_tr P s)) (recombine P s).

  (* ---------- breadth-first construction (StateSpace.get_transitions) ---------- *)
  Definition mem_state (s : state) (l : list state) : bool := existsb (state_eqb s) l.

  (* one level: process [sources] in order, skipping visited ones; returns
     (visited', transitions', new targets in insertion order without duplicates) *)
  Fixpoint bfs_level (P : params) (sources : list state)
           (visited : list state) (trans : list (state * targets)) (new : list state)
    : list state * list (state * targets) * list state :=
    match sources with
    | [] => (visited, trans, new)
    | s :: rest =>
        if mem_state s visited then bfs_level P rest visited trans new
        else
          let tg := transit P s in
          let new' := fold_left (fun acc t => if mem_state t acc then acc else acc ++ [t]) (map fst tg) new in
          bfs_level P rest (visited ++ [s]) (trans ++ [(s, tg)]) new'
    end.

  Fixpoint bfs (P : params) (fuel : nat) (sources : list state)
           (visited : list state) (trans : list (state * targets))
    : option (list state * list (state * targets)) :=
    match fuel with
    | O => None                       (* out of fuel: an error value, excluded by the theorems *)
    | S fuel' =>
        let '(visited', trans', new) := bfs_level P sources visited trans [] in
        match new with
        | [] => Some (visited', trans')
        | _ => bfs P fuel' new visited' trans'
        end
    end.

  (* _get_initial: all n lineages in deme 0, block 0 of every locus; nothing linked *)
  Definition zeros3 (nl nd nb : nat) : arr3 := repeat (repeat (repeat 0 nb) nd) nl.
  Definition initial_state (nl nd nb n : nat) : state :=
    mkState (fold_left (fun a l => upd3 a l 0 0 (fun _ => n)) (seq 0 nl) (zeros3 nl nd nb))
            (zeros3 nl nd nb).

  Definition get_transitions (P : params) (fuel nl nd n : nat) :=
    let nb := if p_lc P then 1 else n in
    bfs P fuel [initial_state nl nd nb n] [] [].

  (* rate from state s to state t according to the transition dictionary *)
  Definition lookup_rate (trans : list (state * targets)) (s t : state) : T :=
    match find (fun e => state_eqb (fst e) s) trans with
    | None => o0 OP
    | Some (_, tg) =>
        match find (fun e => state_eqb (fst e) t) tg with
        | None => o0 OP
        | Some (_, r) => r
        end
    end.

  (* _graph_to_matrix: off-diagonal entries from the dictionary, diagonal = -(row sum) *)
  Definition rate_matrix (states : list state) (trans : list (state * targets)) : list (list T) :=
    map (fun s =>
      let row := map (fun t => if state_eqb s t then o0 OP else lookup_rate trans s t) states in
      let tot := osum OP row in
      map (fun tr => if state_eqb s (fst tr) then oopp OP tot else snd tr) (combine states row)) states.

  (* StateSpace.alpha = normalised product of
       LineageConfig._get_initial_states: lineages[:, :, 0] == config for every locus
       LocusConfig._get_initial_states:   1 for one locus; else linked.sum over demes and blocks == n_linked for every locus *)
  Definition matches_config (config : list nat) (s : state) : bool :=
    all_loci s (fun l => list_eqb Nat.eqb (map (fun row => nth 0 row 0) (nth l (lin s) [])) config).
  Definition matches_linkage (n_linked : nat) (s : state) : bool :=
    if Nat.eqb (n_loci s) 1 then true
    else all_loci s (fun l => Nat.eqb (sum3_locus (lnk s) l) n_linked).
  Definition alpha_vec (config : list nat) (n_unlinked : nat) (states : list state) : list T :=
    let n := sum_nat config in
    let ind := map (fun s => andb (matches_config config s) (matches_linkage (n - n_unlinked) s)) states in
    let cnt := length (filter (fun b => b) ind) in
    map (fun b : bool => if b then odiv OP (o1 OP) (oofN OP cnt) else o0 OP) ind.
End Space.

Arguments mkParams {T}.
Arguments p_model {T}.
Arguments p_tscale {T}.
Arguments p_mig {T}.
Arguments p_rec {T}.
Arguments p_lc {T}.
