(* Model of serialisation (C18): Coalescent.__getstate__ / to_json / from_json, Inference
   __getstate__/__setstate__, SFS2.to_json/from_json.

   An object is its configuration plus lazily created caches (state spaces with their rate-matrix
   caches, cached statistics).  The codec (jsonpickle with keys=True and the registered numpy
   handlers; dill for callables) is a section variable with the round-trip contract.  Statistics
   are a pure function of the configuration (that is C17's theorem), so a decoded object returns the
   same statistics whether or not they had been computed before saving. *)
From Coq Require Import List.
Import ListNotations.

Section Serial.
  Variables Config Caches Json : Type.
  Variable empty_caches : Caches.
  Variable drop : Caches -> Caches.            (* StateSpace.drop_cache on every existing state space *)
  Variable enc : Config * Caches -> Json.      (* jsonpickle.encode *)
  Variable dec : Json -> option (Config * Caches).
  Hypothesis codec_roundtrip : forall v, dec (enc v) = Some v.

  Record obj := mkObj { o_config : Config; o_caches : Caches }.

  (* to_json: deep copy, drop the caches of the COPY, encode; the original is returned unchanged *)
  Definition to_json (o : obj) : obj * Json := (o, enc (o_config o, drop (o_caches o))).
  Definition from_json (j : Json) : option obj :=
    match dec j with Some (c, k) => Some (mkObj c k) | None => None end.

  Variable Stat Value : Type.
  Variable stat : Config -> Stat -> Value.     (* every statistic is a function of the configuration (C17) *)
  Definition query (o : obj) (s : Stat) : Value := stat (o_config o) s.

  Fixpoint cycles (n : nat) (o : obj) : option obj :=
    match n with
    | O => Some o
    | S n' => match from_json (snd (to_json o)) with Some o' => cycles n' o' | None => None end
    end.
End Serial.
