(* The executable matrix exponential of the binary64 instance of the model: scaling, Taylor polynomial
   of degree 20 in Horner form, repeated squaring.  It stands in for the pluggable backend
   (scipy.linalg.expm) in the numeric correspondence streams; the two are compared within the
   tolerance the properties state, never bit for bit. *)
From Coq Require Import ZArith List Arith PrimFloat.
From PG Require Import base.Ops model.Matrix.
Import ListNotations.
Open Scope float_scope.

Definition fabs (x : float) : float := PrimFloat.abs x.
Definition fmax (a b : float) : float := if PrimFloat.ltb a b then b else a.
Definition norm_inf (A : mat (T:=float)) : float :=
  fold_left (fun acc row => fmax acc (fold_left (fun s x => s + fabs x) row 0)) A 0.

(* number of halvings needed to bring x below 1/2 (at most [fuel]) *)
Fixpoint halvings (fuel : nat) (x : float) : nat :=
  match fuel with
  | O => O
  | S fuel' => if PrimFloat.leb x 0.5 then O else S (halvings fuel' (x / 2))
  end.

Fixpoint pow2f (s : nat) : float := match s with O => 1 | S s' => 2 * pow2f s' end.

(* I + B (I + B/2 (I + B/3 ( ... (I + B/deg)))) *)
Fixpoint taylor_horner (n : nat) (B : mat (T:=float)) (j : nat) (deg : nat) : mat (T:=float) :=
  match deg with
  | O => mid OpsF n
  | S deg' =>
      madd OpsF (mid OpsF n)
           (mscale OpsF (1 / float_of_Z (Z.of_nat j)) (mmul OpsF B (taylor_horner n B (S j) deg')))
  end.

Definition expmF (A : mat (T:=float)) : mat (T:=float) :=
  let n := length A in
  let s := halvings 1100 (norm_inf A) in
  let B := mscale OpsF (1 / pow2f s) A in
  mpow_sq OpsF (taylor_horner n B 1 20) s.
