(* Model of phasegen/demography.py: the epoch generator Demography.epochs with
   DiscreteRateChanges (and its subclasses PopSizeChange(s), MigrationRateChange(s),
   SymmetricMigrationRateChanges, which only normalise their arguments), PopulationSplit,
   DiscretizedRateChange(s) (and the exponential subclasses, which only build trajectories),
   _prepare_events (stable sort by start time), _broadcast, _apply, get_epochs.

   Populations are indices into the sorted list Demography.pop_names; times and values are exact
   rationals; an infinite end time is [None].  Definitions only. *)
From Coq Require Import ZArith QArith Qround Qminmax List Arith Bool.
From PG Require Import base.Perm.
Import ListNotations.
Open Scope Q_scope.

Definition time_inf := option Q.          (* None = +infinity *)

Inductive key : Type :=
| KSize (p : nat)
| KMig (p q : nat).

Definition key_eqb (a b : key) : bool :=
  match a, b with
  | KSize p, KSize p' => Nat.eqb p p'
  | KMig p q, KMig p' q' => Nat.eqb p p' && Nat.eqb q q'
  | _, _ => false
  end.

(* one discretised trajectory *)
Record dtraj := mkTraj {
  d_key : key;
  d_start : Q;
  d_end : time_inf;
  d_step : Q;
  d_traj : Q -> Q
}.

Inductive event : Type :=
| EDiscrete (changes : list (Q * list (key * Q)))      (* times ascending and distinct; the dict updates per time *)
| ESplit (time : Q) (derived : list nat) (ancestral : nat) (multiplier : Q)
| EDiscretized (trajs : list dtraj).                    (* DiscretizedRateChange(s): members in dict order *)

Definition event_start (e : event) : Q :=
  match e with
  | EDiscrete changes => match changes with [] => 0 | (t, _) :: _ => t end
  | ESplit t _ _ _ => t
  | EDiscretized trajs => fold_right (fun d acc => Qmin (d_start d) acc)
                                     (match trajs with [] => 0 | d :: _ => d_start d end) trajs
  end.

Record epoch := mkEpoch {
  e_start : Q;
  e_end : time_inf;
  e_sizes : list Q;               (* per population *)
  e_mig : list (list Q)           (* [p][q] *)
}.

Definition lt_inf (a : Q) (b : time_inf) : bool :=       (* a < b *)
  match b with None => true | Some b' => negb (Qle_bool b' a) end.
Definition le_inf (a : Q) (b : time_inf) : bool :=       (* a <= b *)
  match b with None => true | Some b' => Qle_bool a b' end.
Definition min_inf (a : time_inf) (b : Q) : time_inf :=
  match a with None => Some b | Some a' => Some (if Qle_bool a' b then a' else b) end.

Fixpoint set_nth {A} (l : list A) (i : nat) (v : A) : list A :=
  match l, i with
  | [], _ => []
  | _ :: l', O => v :: l'
  | x :: l', S i' => x :: set_nth l' i' v
  end.

Definition set_key (ep : epoch) (k : key) (v : Q) : epoch :=
  match k with
  | KSize p => mkEpoch (e_start ep) (e_end ep) (set_nth (e_sizes ep) p v) (e_mig ep)
  | KMig p q => mkEpoch (e_start ep) (e_end ep) (e_sizes ep)
                        (set_nth (e_mig ep) p (set_nth (nth p (e_mig ep) []) q v))
  end.
Definition get_key (ep : epoch) (k : key) : Q :=
  match k with
  | KSize p => nth p (e_sizes ep) 0
  | KMig p q => nth q (nth p (e_mig ep) []) 0
  end.
Definition set_end (ep : epoch) (t : time_inf) : epoch :=
  mkEpoch (e_start ep) t (e_sizes ep) (e_mig ep).

(* DiscreteDemographicEvent._broadcast: first time in (start, end] that is > 0 *)
Definition broadcast_times (times : list Q) (ep : epoch) : epoch :=
  match find (fun t => negb (Qle_bool t (e_start ep)) && le_inf t (e_end ep) && negb (Qle_bool t 0)) times with
  | Some t => set_end ep (Some t)
  | None => ep
  end.

(* ceil((x + 1e-10) / step) as the code computes the next grid index *)
Definition fudge : Q := 1 # 10000000000.
Definition next_grid (d : dtraj) (start : Q) : Q :=
  let n_steps := Qceiling ((start - d_start d + fudge) / d_step d) in
  d_start d + inject_Z n_steps * d_step d.

(* DiscretizedRateChange._broadcast (repaired: never lengthens the epoch) *)
Definition broadcast_traj (d : dtraj) (ep : epoch) : epoch :=
  let no_overlap :=
      match e_end ep with
      | Some en => negb (Qle_bool (d_start d) en)           (* epoch.end_time < self.start_time *)
      | None => false
      end
      || negb (le_inf (e_start ep) (d_end d)) in              (* epoch.start_time > self.end_time *)
  if no_overlap then ep
  else
    let cand := if negb (Qle_bool (d_start d) (e_start ep)) then d_start d else next_grid d (e_start ep) in
    set_end ep (min_inf (e_end ep) cand).

Definition broadcast (e : event) (ep : epoch) : epoch :=
  match e with
  | EDiscrete changes => broadcast_times (map fst changes) ep
  | ESplit t _ _ _ => broadcast_times [t] ep
  | EDiscretized trajs => fold_left (fun ep d => broadcast_traj d ep) trajs ep
  end.

(* DiscreteRateChanges._apply: all changes with start <= t < end, in ascending time *)
Definition apply_changes (changes : list (Q * list (key * Q))) (ep : epoch) : epoch :=
  fold_left (fun ep tc =>
    if Qle_bool (e_start ep) (fst tc) && lt_inf (fst tc) (e_end ep)
    then fold_left (fun ep kv => set_key ep (fst kv) (snd kv)) (snd tc) ep
    else ep) changes ep.

(* PopulationSplit._apply (as coded; see the known finding on its direction) *)
Definition apply_split (t : Q) (derived : list nat) (ancestral : nat) (mult : Q) (ep : epoch) : epoch :=
  if Qle_bool (e_start ep) t && lt_inf t (e_end ep) then
    let ep1 := fold_left (fun ep p => set_key ep (KMig ancestral p) (nth p (e_sizes ep) 0 * mult)) derived ep in
    fold_left (fun ep p =>
      fold_left (fun ep q => set_key ep (KMig p q) 0) (seq 0 (length (e_sizes ep))) ep) derived ep1
  else ep.

(* DiscretizedRateChange._apply (repaired: an epoch ending exactly at the window end is inside) *)
Definition end_le (a b : time_inf) : bool :=
  match a, b with
  | _, None => true
  | None, Some _ => false
  | Some a', Some b' => Qle_bool a' b'
  end.
Definition apply_traj (d : dtraj) (ep : epoch) : epoch :=
  if Qle_bool (d_start d) (e_start ep) && end_le (e_end ep) (d_end d) then
    match e_end ep with
    | Some en => set_key ep (d_key d) ((d_traj d (e_start ep) + d_traj d en) / 2)
    | None => ep          (* trajectory at infinity: not reachable, the grid always yields a finite end *)
    end
  else ep.

Definition apply_event (e : event) (ep : epoch) : epoch :=
  match e with
  | EDiscrete changes => apply_changes changes ep
  | ESplit t derived anc mult => apply_split t derived anc mult ep
  | EDiscretized trajs => fold_left (fun ep d => apply_traj d ep) trajs ep
  end.

(* Demography._prepare_events: sorted(events, key=start_time), stable *)
Definition prepare_events (events : list event) : list event :=
  map snd (isort Qle_bool (map (fun e => (event_start e, e)) events)).

(* one step of the generator Demography.epochs *)
Definition next_epoch (events : list event) (prev : epoch) : epoch :=
  let ep := mkEpoch (match e_end prev with Some t => t | None => e_start prev end) None
                    (e_sizes prev) (e_mig prev) in
  let ep := fold_left (fun ep e => broadcast e ep) events ep in
  fold_left (fun ep e => apply_event e ep) events ep.

Definition epoch0 (npops : nat) : epoch :=
  mkEpoch 0 (Some 0) (repeat 1 npops) (repeat (repeat 0 npops) npops).

(* the first [fuel] epochs (all of them if the generator stops earlier) *)
Fixpoint epochs_from (events : list event) (fuel : nat) (prev : epoch) : list epoch :=
  match fuel with
  | O => []
  | S fuel' =>
      let ep := next_epoch events prev in
      ep :: match e_end ep with
            | None => []
            | Some _ => epochs_from events fuel' ep
            end
  end.

Definition epochs (npops : nat) (events : list event) (fuel : nat) : list epoch :=
  epochs_from (prepare_events events) fuel (epoch0 npops).

(* Demography.get_epoch(t): the epoch with start <= t < end *)
Definition in_epoch (t : Q) (ep : epoch) : bool := Qle_bool (e_start ep) t && lt_inf t (e_end ep).
Definition get_epoch (eps : list epoch) (t : Q) : option epoch := find (in_epoch t) eps.

(* ---------- SPEC: the value in force at time t ---------- *)
(* all (time, event position, key, value) changes of the discrete events, in application order *)
Definition discrete_changes (events : list event) : list (Q * (key * Q)) :=
  flat_map (fun e => match e with
                     | EDiscrete changes => flat_map (fun tc => map (fun kv => (fst tc, kv)) (snd tc)) changes
                     | _ => []
                     end) events.

Definition default_value (k : key) : Q := match k with KSize _ => 1 | KMig _ _ => 0 end.

(* "the most recent change at or before t; later-applied wins ties": among the changes of key k with
   time <= t pick the one with the largest time, the last one in application order among equals *)
Definition rate_at (events : list event) (k : key) (t : Q) : Q :=
  let cands := filter (fun c => key_eqb (fst (snd c)) k && Qle_bool (fst c) t) (discrete_changes (prepare_events events)) in
  match fold_left (fun best c =>
          match best with
          | None => Some c
          | Some b => if Qle_bool (fst b) (fst c) then Some c else Some b
          end) cands None with
  | None => default_value k
  | Some c => snd (snd c)
  end.

(* piecewise-linear interpolation through (t, v) points, constant outside (np.interp) *)
Fixpoint interp (pts : list (Q * Q)) (t : Q) : Q :=
  match pts with
  | [] => 0
  | [(t0, v0)] => v0
  | (t0, v0) :: (((t1, v1) :: _) as rest) =>
      if Qle_bool t t0 then v0
      else if Qle_bool t t1 then v0 + (v1 - v0) * ((t - t0) / (t1 - t0))
      else interp rest t
  end.
