(* Model of phasegen/coalescent_models.py, written once over an operations record.

   CoalescentModel.get_rate, _get_rate, _get_rate_block_counting, coalesce and
   _get_timescale for StandardCoalescent, BetaCoalescent and DiracCoalescent.

   Modelled, not verified: scipy.special.beta is replaced by its product form
   (Gamma recurrences; exact for every real alpha), scipy.stats.binom.pmf by
   C(n,k) p^k (1-p)^(n-k), and the Beta time scale (which contains real powers)
   is an input of the model ([tscale]); see Timescale.v for its defining formula. *)
From Coq Require Import ZArith List Arith.
From PG Require Import base.Ops.
Import ListNotations.

(* binomial coefficient, Pascal's rule; comb(N, k, exact=True) *)
Fixpoint binom (n k : nat) : Z :=
  match k with
  | O => 1%Z
  | S k' => match n with
            | O => 0%Z
            | S n' => (binom n' k' + binom n' k)%Z
            end
  end.

Fixpoint fact_Z (n : nat) : Z :=
  match n with O => 1%Z | S n' => (Z.of_nat n * fact_Z n')%Z end.

Section Models.
  Context {T : Type} (OP : Ops T).
  Notation "a +o b" := (oadd OP a b) (at level 50, left associativity).
  Notation "a *o b" := (omul OP a b) (at level 40, left associativity).
  Notation ofN := (oofN OP).
  Notation ofZ := (oofZ OP).

  Inductive cmodel : Type :=
  | Kingman
  | Beta (alpha : T) (scale_time : bool)
  | Dirac (psi c : T) (scale_time : bool).

  (* ---------- rates for a merger of k out of b lineages ---------- *)

  (* StandardCoalescent._get_rate *)
  Definition kingman_rate (b k : nat) : T :=
    if Nat.eqb k 2 then odiv OP (ofN (b * (b - 1))) (ofN 2) else o0 OP.

  (* prod_{j = lo}^{lo + len - 1} f j *)
  Fixpoint prod_range (f : nat -> T) (lo len : nat) : T :=
    match len with
    | O => o1 OP
    | S len' => f lo *o prod_range f (S lo) len'
    end.

  (* BetaCoalescent._get_base_rate:
       B(k - alpha, b - k + alpha) / B(alpha, 2 - alpha)
     = prod_{j=2}^{k-1} (j - alpha) * prod_{j=0}^{b-k-1} (alpha + j) / (b-1)!      (2 <= k <= b) *)
  Definition beta_base (alpha : T) (b k : nat) : T :=
    odiv OP (prod_range (fun j => osub OP (ofN j) alpha) 2 (k - 2)
            *o prod_range (fun j => alpha +o ofN j) 0 (b - k))
         (ofZ (fact_Z (b - 1))).

  (* binom.pmf(k, n, p) *)
  Definition binom_pmf (p : T) (n k : nat) : T :=
    if Nat.ltb n k then o0 OP
    else ofZ (binom n k) *o opow OP p k *o opow OP (osub OP (o1 OP) p) (n - k).

  (* CoalescentModel._get_rate (b lineages, k of them merge) *)
  Definition get_rate_bk (m : cmodel) (b k : nat) : T :=
    match m with
    | Kingman => kingman_rate b k
    | Beta alpha _ =>
        if orb (Nat.ltb k 1) (Nat.ltb b k) then o0 OP
        else ofZ (binom b k) *o beta_base alpha b k
    | Dirac psi c _ => kingman_rate b k +o binom_pmf psi b k *o c
    end.

  (* CoalescentModel.get_rate(s1, s2): from s1 to s2 lineages *)
  Definition get_rate (m : cmodel) (s1 s2 : nat) : T :=
    if Nat.ltb s1 s2 then o0 OP else get_rate_bk m s1 (s1 + 1 - s2).

  (* StandardCoalescent._get_rate_block_counting *)
  Definition kingman_rate_bc (b k : list nat) : T :=
    match b, k with
    | [b0], [k0] => kingman_rate b0 k0
    | [b0; b1], [1; 1] => ofN (b0 * b1)
    | _, _ => o0 OP
    end.

  Definition sum_nat (l : list nat) : nat := fold_right Nat.add 0 l.

  (* CoalescentModel._get_rate_block_counting(n, b, k): n lineages currently present,
     classes with b_i lineages of which k_i merge *)
  Definition get_rate_bc (m : cmodel) (n : nat) (b k : list nat) : T :=
    match m with
    | Kingman => kingman_rate_bc b k
    | Beta alpha _ =>
        ofZ (fold_right Z.mul 1%Z (map (fun bk => binom (fst bk) (snd bk)) (combine b k)))
        *o beta_base alpha n (sum_nat k)
    | Dirac psi c _ =>
        let p := oprod OP (map (fun bk => binom_pmf psi (fst bk) (snd bk)) (combine b k)) in
        let p := if Nat.ltb (sum_nat b) n then p *o binom_pmf psi (n - sum_nat b) 0 else p in
        kingman_rate_bc b k +o p *o c
    end.

  (* ---------- coalesce(n, blocks): outcomes and rates ---------- *)

  Fixpoint upd {A} (l : list A) (i : nat) (f : A -> A) : list A :=
    match l, i with
    | [], _ => []
    | x :: l', O => f x :: l'
    | x :: l', S i' => x :: upd l' i' f
    end.

  (* StandardCoalescent.coalesce on a block vector of length > 1: pairs (i, j) of
     itertools.product(range(n), repeat=2) in that order, keeping i == j and i > j *)
  Definition kingman_coalesce_bc (blocks : list nat) : list (list nat * T) :=
    let nb := length blocks in
    flat_map (fun i =>
      flat_map (fun j =>
        if Nat.eqb i j then
          if Nat.ltb 1 (nth i blocks 0) then
            [(upd (upd blocks i (fun x => x - 2)) (2 * (i + 1) - 1) S,
              kingman_rate_bc [nth i blocks 0] [2])]
          else []
        else if Nat.ltb j i then
          if andb (Nat.ltb 0 (nth i blocks 0)) (Nat.ltb 0 (nth j blocks 0)) then
            [(upd (upd (upd blocks i pred) j pred) (i + j + 1) S,
              kingman_rate_bc [nth i blocks 0; nth j blocks 0] [1; 1])]
          else []
        else []) (seq 0 nb)) (seq 0 nb).

  (* itertools.product(range(b_0 + 1), ..., range(b_{m-1} + 1)), first index slowest *)
  Fixpoint all_combs (blocks : list nat) : list (list nat) :=
    match blocks with
    | [] => [[]]
    | b :: rest =>
        flat_map (fun c => map (fun tl => c :: tl) (all_combs rest)) (seq 0 (S b))
    end.

  Definition dot_idx (comb : list nat) : nat :=
    sum_nat (map (fun ci => fst ci * S (snd ci)) (combine comb (seq 0 (length comb)))).

  Definition filter_pos (vals sel : list nat) : list nat :=
    map fst (filter (fun vs => Nat.ltb 0 (snd vs)) (combine vals sel)).

  (* MultipleMergerCoalescent.coalesce on a block vector of length > 1 *)
  Definition mm_coalesce_bc (m : cmodel) (blocks : list nat) : list (list nat * T) :=
    flat_map (fun comb =>
      if Nat.ltb 1 (sum_nat comb) then
        let new := map (fun bc => fst bc - snd bc) (combine blocks comb) in
        let new := upd new (dot_idx comb - 1) S in
        [(new, get_rate_bc m (sum_nat blocks) (filter_pos blocks comb) (filter_pos comb comb))]
      else []) (all_combs blocks).

  (* CoalescentModel.coalesce(n, blocks) *)
  Definition coalesce (m : cmodel) (blocks : list nat) : list (list nat * T) :=
    match blocks with
    | [b0] =>
        match m with
        | Kingman => if Nat.ltb 1 b0 then [([b0 - 1], get_rate_bk m b0 2)] else []
        | _ => map (fun k => ([b0 - k], get_rate_bk m b0 (k + 1))) (seq 1 (b0 - 1))
        end
    | _ =>
        match m with
        | Kingman => kingman_coalesce_bc blocks
        | _ => mm_coalesce_bc m blocks
        end
    end.

  (* ---------- time scales ---------- *)

  (* _get_timescale(N).  [beta_scale N alpha] stands for
     m^alpha N^(alpha-1) / alpha / B(2-alpha, alpha), m = 1 + 1/(2^(alpha-1) (alpha-1)),
     which is not expressible with field operations; it is a parameter here. *)
  Definition timescale (beta_scale : T -> T -> T) (m : cmodel) (N : T) : T :=
    match m with
    | Kingman => N
    | Beta alpha true => beta_scale N alpha
    | Beta _ false => N
    | Dirac _ _ true => N *o N
    | Dirac _ _ false => N
    end.
End Models.

Arguments Kingman {T}.
Arguments Beta {T}.
Arguments Dirac {T}.
