(* Linear forms over the demographic rate symbols, as a fourth instance of the operations record.

   The count chains (StateSpace.v) and the labelled process (Labelled.v) are written once over
   [Ops T].  Every rate they compute is (a rational scalar) x (one atom), the atoms being
   1/tscale[d], mig[p][q] and rec; rates are only ever added or compared.  Running the model over
   LINEAR FORMS in these atoms therefore computes the rates for ALL valuations of the demographic
   rates at once; the coalescent-model parameters alpha / psi / c stay numeric rationals.

   PART 1  atoms, linear forms in normal form, the instance [OpsLF], real semantics [eval]
   PART 2  the lumping criterion / claim / group checker of Labelled.v, generic over [Ops T]
           (Labelled.v has them specialised to Q)
   PART 3  the symbolic parameters, the real parameters of a valuation, and the REAL-VALUED
           lumping statement [lumping_claim_R] proved in proofs/SymbolicLumping.v

   Definitions only. *)
From Coq Require Import ZArith QArith Qreals Reals List Arith Bool PArith FSets.FMapPositive MSets.MSetPositive.
From PG Require Import base.Ops base.OpsR model.CoalModels model.StateSpace model.Check model.Labelled.
Import ListNotations.
Close Scope Q_scope.
Close Scope R_scope.

(* ====================================================================================== *)
(* PART 1 - linear forms                                                                   *)
(* ====================================================================================== *)

Inductive atom : Type :=
| AOne                      (* the constant 1 *)
| AInvTs (d : nat)          (* 1 / tscale[d] *)
| ATs (d : nat)             (* tscale[d] *)
| AMig (p q : nat)          (* mig[p][q] *)
| ARec.                     (* rec *)

Definition atom_code (a : atom) : nat * nat * nat :=
  match a with
  | AOne => (0, 0, 0)
  | AInvTs d => (1, d, 0)
  | ATs d => (2, d, 0)
  | AMig p q => (3, p, q)
  | ARec => (4, 0, 0)
  end.

Definition atom_cmp (a b : atom) : comparison :=
  let '(x1, y1, z1) := atom_code a in
  let '(x2, y2, z2) := atom_code b in
  match Nat.compare x1 x2 with
  | Eq => match Nat.compare y1 y2 with Eq => Nat.compare z1 z2 | c => c end
  | c => c
  end.

Definition atom_eqb (a b : atom) : bool := match atom_cmp a b with Eq => true | _ => false end.

(* [bad] is a poison flag: set by a product of two non-constant forms and by an inverse outside
   the two supported shapes; every operation propagates it.  [terms] is kept in normal form:
   strictly increasing atoms, non-zero reduced coefficients. *)
Record lf : Type := mkLF { bad : bool; terms : list (atom * Q) }.

Definition qz (c : Q) : bool := Qeq_bool c 0%Q.

Fixpoint ins (a : atom) (c : Q) (l : list (atom * Q)) : list (atom * Q) :=
  match l with
  | [] => [(a, c)]
  | (b, d) :: l' =>
      match atom_cmp a b with
      | Lt => (a, c) :: l
      | Eq => let s := Qred (c + d)%Q in if qz s then l' else (b, s) :: l'
      | Gt => (b, d) :: ins a c l'
      end
  end.

Definition add_term (a : atom) (c : Q) (l : list (atom * Q)) : list (atom * Q) :=
  if qz c then l else ins a c l.

Definition merge (l1 l2 : list (atom * Q)) : list (atom * Q) :=
  fold_right (fun t acc => add_term (fst t) (snd t) acc) l2 l1.

Definition scale (c : Q) (l : list (atom * Q)) : list (atom * Q) :=
  if qz c then [] else map (fun t => (fst t, Qred (c * snd t)%Q)) l.

Definition poison : lf := mkLF true [].
Definition lf_const (c : Q) : lf := mkLF false (if qz c then [] else [(AOne, Qred c)]).
Definition lf_atom (a : atom) : lf := mkLF false [(a, 1%Q)].

Definition as_const (l : list (atom * Q)) : option Q :=
  match l with
  | [] => Some 0%Q
  | [(AOne, c)] => Some c
  | _ => None
  end.

Definition lf_add (x y : lf) : lf := mkLF (bad x || bad y) (merge (terms x) (terms y)).
Definition lf_opp (x : lf) : lf := mkLF (bad x) (map (fun t => (fst t, Qopp (snd t))) (terms x)).

(* a product is linear only if one factor is a constant *)
Definition lf_mul (x y : lf) : lf :=
  match as_const (terms x) with
  | Some c => mkLF (bad x || bad y) (scale c (terms y))
  | None =>
      match as_const (terms y) with
      | Some c => mkLF (bad x || bad y) (scale c (terms x))
      | None => poison
      end
  end.

(* inverses: of a non-zero constant, and of exactly 1 * tscale[d] *)
Definition lf_inv (x : lf) : lf :=
  match terms x with
  | [(AOne, c)] => if qz c then poison else mkLF (bad x) [(AOne, Qred (/ c)%Q)]
  | [(ATs d, c)] => if Qeq_bool c 1%Q then mkLF (bad x) [(AInvTs d, 1%Q)] else poison
  | _ => poison
  end.

Definition OpsLF : Ops lf := {|
  o0 := mkLF false [];
  o1 := lf_atom AOne;
  oadd := lf_add;
  omul := lf_mul;
  oopp := lf_opp;
  oinv := lf_inv;
  oofZ := fun z => lf_const (inject_Z z)
|}.

(* equality of linear forms = equality of their (normal-form) term lists; poisoned forms are
   equal to nothing *)
Fixpoint terms_eqb (l1 l2 : list (atom * Q)) : bool :=
  match l1, l2 with
  | [], [] => true
  | (a, c) :: l1', (b, d) :: l2' => atom_eqb a b && Qeq_bool c d && terms_eqb l1' l2'
  | _, _ => false
  end.
Definition lf_ok (x : lf) : bool := negb (bad x).
Definition lf_eqb (x y : lf) : bool := lf_ok x && lf_ok y && terms_eqb (terms x) (terms y).

(* ---------- real semantics ---------- *)
(* a valuation of the demographic rates: ANY reals (a zero time scale is allowed: Coq's [/ 0] is
   a real number and the model over the reals computes with it all the same) *)
Record rval : Type := mkRval { r_ts : nat -> R; r_mig : nat -> nat -> R; r_rec : R }.

Definition aval (rho : rval) (a : atom) : R :=
  match a with
  | AOne => 1%R
  | AInvTs d => (/ r_ts rho d)%R
  | ATs d => r_ts rho d
  | AMig p q => r_mig rho p q
  | ARec => r_rec rho
  end.

Definition eval_terms (rho : rval) (l : list (atom * Q)) : R :=
  fold_right (fun t acc => (Q2R (snd t) * aval rho (fst t) + acc)%R) 0%R l.

Definition eval (rho : rval) (x : lf) : R := eval_terms rho (terms x).

(* ====================================================================================== *)
(* PART 2 - the lumping criterion, claim and group checker of Labelled.v, over any [Ops T]  *)
(* ====================================================================================== *)

(* the labelled events compared at x: all of them, or the migrations only where the count chain
   calls pi x absorbing (as in Labelled.lump_ok) *)
Definition events_at {X : Type} (pi : X -> state) (ev : X -> list (event * X)) (x : X)
  : list (event * X) :=
  if is_absorbing (pi x) then filter (fun ey => is_mig (fst ey)) (ev x) else ev x.

(* (projection of the target, event) for every compared event: independent of the rates *)
Definition proj_events {X : Type} (pi : X -> state) (ev : X -> list (event * X)) (x : X)
  : list (state * event) :=
  map (fun ey => (pi (snd ey), fst ey)) (events_at pi ev x).

Section GenericLump.
  Context {T : Type} (OP : Ops T).
  Variable eqT : T -> T -> bool.     (* equality test on rates *)
  Variable okT : T -> bool.          (* "not poisoned" *)

  Definition rate_in_g (tg : targets (T:=T)) (c : state) : T :=
    match find (fun e => state_eqb (fst e) c) tg with Some (_, r) => r | None => o0 OP end.

  Definition lumped_g (lab : list (state * T)) (c : state) : T :=
    fold_right (fun cr acc => if state_eqb (fst cr) c then oadd OP (snd cr) acc else acc) (o0 OP) lab.

  Definition lab_g (P : params (T:=T)) (pe : list (state * event)) : list (state * T) :=
    map (fun ce => (fst ce, erate OP P (snd ce))) pe.

  (* Labelled.lump_ok with [OpsQ], [Qeq_bool] replaced by [OP], [eqT]; additionally every rate of
     the count chain and of the labelled events must pass [okT] *)
  Definition lump_ok_g {X : Type} (P : params (T:=T)) (pi : X -> state) (ev : X -> list (event * X))
             (x : X) : bool :=
    let c := pi x in
    let cnt := transit OP P c in
    let lab := lab_g P (proj_events pi ev x) in
    nodup_states (map fst cnt) &&
    forallb (fun e => okT (snd e)) cnt &&
    forallb (fun e => okT (snd e)) lab &&
    forallb (fun c' => state_eqb c' c || eqT (lumped_g lab c') (rate_in_g cnt c'))
            (map fst cnt ++ map fst lab).

  (* Labelled.lumping_claim *)
  Definition lumping_claim_g {X : Type} (P : params (T:=T)) (nl nd n : nat)
             (pi : X -> state) (ev : X -> list (event * X)) (x0 : X) : Prop :=
    exists states trans,
      get_transitions OP P lump_fuel nl nd n = Some (states, trans) /\
      NoDup states /\
      (forall x, reach (targets_of ev) x0 x -> In (pi x) states /\ lump_ok_g P pi ev x = true) /\
      (forall c, In c states -> exists x, reach (targets_of ev) x0 x /\ pi x = c).

  (* Labelled.check_group *)
  Definition check_group_g {X : Type} (enc : X -> positive) (eqb : X -> X -> bool)
             (ev : X -> list (event * X)) (pi_of : params (T:=T) -> X -> state)
             (nl nd n : nat) (base : X) (inits : list (X * list X)) (Ps : list (params (T:=T))) : bool :=
    match reachable_list enc (targets_of ev) search_fuel base with
    | None => false
    | Some L =>
        let M := index enc L in
        closed_b enc eqb (targets_of ev) M L &&
        forallb (fun ip => memM enc eqb M (fst ip) && path_ok eqb (targets_of ev) (fst ip) (snd ip)
                           && eqb (last (snd ip) (fst ip)) base) inits &&
        forallb (fun P =>
          match get_transitions OP P lump_fuel nl nd n with
          | None => false
          | Some (states, _) =>
              let pi := pi_of P in
              nodup_states states &&
              forallb (fun x => mem_state (pi x) states && lump_ok_g P pi ev x) L &&
              forallb (fun c => existsb (fun x => state_eqb (pi x) c) L) states
          end) Ps
    end.
End GenericLump.

(* ====================================================================================== *)
(* PART 3 - symbolic parameters, real parameters, the real-valued statement                *)
(* ====================================================================================== *)

Definition cmodel_map {A B : Type} (f : A -> B) (m : cmodel (T:=A)) : cmodel (T:=B) :=
  match m with
  | Kingman => Kingman
  | Beta a s => Beta (f a) s
  | Dirac p c s => Dirac (f p) (f c) s
  end.

(* parameters of a model over [nd] demes, the rates given by functions of the deme indices *)
Definition mk_params {T : Type} (m : cmodel (T:=T)) (ts : nat -> T) (mg : nat -> nat -> T) (rc : T)
           (nd : nat) (lc : bool) : params (T:=T) :=
  mkParams m (map ts (seq 0 nd)) (map (fun p => map (mg p) (seq 0 nd)) (seq 0 nd)) rc lc.

(* SYMBOLIC: tscale[d] = ATs d, mig[p][q] = AMig p q, rec = ARec; the numeric parameters of the
   coalescent model (a [cmodel] over Q, e.g. one of Labelled.models) are injected as constants *)
Definition symP (nd : nat) (m : cmodel (T:=Q)) (lc : bool) : params (T:=lf) :=
  mk_params (cmodel_map lf_const m) (fun d => lf_atom (ATs d)) (fun p q => lf_atom (AMig p q))
            (lf_atom ARec) nd lc.

(* REAL: the same model under the valuation rho *)
Definition realP (rho : rval) (nd : nat) (m : cmodel (T:=Q)) (lc : bool) : params (T:=R) :=
  mk_params (cmodel_map Q2R m) (r_ts rho) (r_mig rho) (r_rec rho) nd lc.

(* the valuation read off real parameters *)
Definition rho_of (P : params (T:=R)) : rval :=
  mkRval (fun d => nth d (p_tscale P) 1%R) (fun p q => nth q (nth p (p_mig P) []) 0%R) (p_rec P).

(* ---------- the lumping criterion over the reals (a proposition) ---------- *)
Definition rate_in_R (tg : targets (T:=R)) (c : state) : R :=
  match find (fun e => state_eqb (fst e) c) tg with Some (_, r) => r | None => 0%R end.

Definition lumped_R (lab : list (state * R)) (c : state) : R :=
  fold_right (fun cr acc => if state_eqb (fst cr) c then (snd cr + acc)%R else acc) 0%R lab.

(* At x with c = pi x: the count chain over the reals lists no target twice, and for EVERY count
   state c' <> c the real labelled rates into pi^-1(c') sum to the count chain's real rate c -> c'
   (0 when c' is not a target). *)
Definition lump_ok_R {X : Type} (P : params (T:=R)) (pi : X -> state) (ev : X -> list (event * X))
           (x : X) : Prop :=
  let c := pi x in
  let cnt := transit OpsR P c in
  let lab := map (fun ey => (pi (snd ey), erate OpsR P (fst ey))) (events_at pi ev x) in
  NoDup (map fst cnt) /\
  forall c', c' <> c -> lumped_R lab c' = rate_in_R cnt c'.

Definition lumping_claim_R {X : Type} (P : params (T:=R)) (nl nd n : nat)
           (pi : X -> state) (ev : X -> list (event * X)) (x0 : X) : Prop :=
  exists states trans,
    get_transitions OpsR P lump_fuel nl nd n = Some (states, trans) /\
    NoDup states /\
    (forall x, reach (targets_of ev) x0 x -> In (pi x) states /\ lump_ok_R P pi ev x) /\
    (forall c, In c states -> exists x, reach (targets_of ev) x0 x /\ pi x = c).

(* ---------- the symbolic group checks ---------- *)
Definition sym_params (nd : nat) (ms : list (cmodel (T:=Q))) (lcs : list bool) : list (params (T:=lf)) :=
  flat_map (fun m => map (symP nd m) lcs) ms.

Definition check_group1_sym (n nd : nat) : bool :=
  check_group_g OpsLF lf_eqb lf_ok enc1 lstate_eqb (levents1 nd) (fun P => pi1 (p_lc P) nd n) 1 nd n
                (linit (base_config n nd))
                (map (fun c => (linit c, path1 (linit c))) (compositions n nd))
                (sym_params nd models [true; false]).

Definition check_group2_sym (n nd : nat) : bool :=
  check_group_g OpsLF lf_eqb lf_ok enc2 lstate2_eqb (levents2 nd) (fun _ => pi_2 nd) 2 nd n
                (linit2 (base_config n nd) 0)
                (flat_map (fun c => map (fun u => (linit2 c u, path2 n (linit2 c u))) (seq 0 (S n)))
                          (compositions n nd))
                [symP nd Kingman true].
