(* Computable checkers behind the bounded structural theorems on the state spaces
   (proofs/SpaceFacts.v): invariance under renaming/reordering of demes, the single-locus
   marginals of the two-locus chain, consistency across sample sizes (removing one sample),
   and time rescaling.  All checks run on the exact-rational instance OpsQ of the model.

   Definitions only. *)
From Coq Require Import ZArith QArith List Arith Bool.
From PG Require Import base.Ops model.CoalModels model.StateSpace model.Rewards model.Matrix.
Import ListNotations.
Local Open Scope nat_scope.

Definition sc_fuel : nat := 64.          (* BFS levels granted to StateSpace.get_transitions *)

(* ====================================================================================== *)
(* domains                                                                                *)
(* ====================================================================================== *)

(* all vectors of length k of naturals summing to n *)
Fixpoint compositions_of (n k : nat) : list (list nat) :=
  match k with
  | O => if Nat.eqb n 0 then [[]] else []
  | S k' => flat_map (fun a => map (cons a) (compositions_of (n - a) k')) (seq 0 (S n))
  end.

Fixpoint insert_everywhere {A} (x : A) (l : list A) : list (list A) :=
  match l with
  | [] => [[x]]
  | y :: l' => (x :: l) :: map (cons y) (insert_everywhere x l')
  end.
Fixpoint perms_of {A} (l : list A) : list (list A) :=
  match l with
  | [] => [[]]
  | x :: l' => flat_map (insert_everywhere x) (perms_of l')
  end.
(* all nd! orderings of the deme indices 0 .. nd-1 *)
Definition deme_perms (nd : nat) : list (list nat) := perms_of (seq 0 nd).

(* parameter valuations: per-deme time scales, migration matrix, recombination rate *)
Record sc_val := mkScVal { sv_tscale : list Q; sv_mig : list (list Q); sv_rec : Q }.

Definition sc_vals1 : list sc_val :=
  [ mkScVal [7#3] [[0]] (23#7);
    mkScVal [5#11] [[0]] (3#13) ]%Q.
Definition sc_vals2 : list sc_val :=
  [ mkScVal [7#3; 11#5] [[0; 13#7]; [17#11; 0]] (23#7);
    mkScVal [5#2; 3#7] [[0; 2#9]; [19#4; 0]] (3#13) ]%Q.
Definition sc_vals3 : list sc_val :=
  [ mkScVal [7#3; 11#5; 13#2] [[0; 17#11; 19#3]; [23#7; 0; 29#13]; [31#2; 37#17; 0]] (23#7);
    mkScVal [5#2; 3#7; 41#9] [[0; 2#9; 43#5]; [19#4; 0; 47#3]; [53#10; 59#7; 0]] (3#13) ]%Q.
Definition sc_vals (nd : nat) : list sc_val :=
  match nd with
  | 1 => sc_vals1
  | 2 => sc_vals2
  | 3 => sc_vals3
  | _ => []
  end.

Definition sc_models : list (cmodel (T:=Q)) :=
  [Kingman; Beta (3#2)%Q false; Dirac (1#3)%Q (5#2)%Q false].

Definition sc_mkP (V : sc_val) (m : cmodel (T:=Q)) (lc : bool) : params (T:=Q) :=
  mkParams m (sv_tscale V) (sv_mig V) (sv_rec V) lc.

(* ====================================================================================== *)
(* small helpers                                                                          *)
(* ====================================================================================== *)

Definition subset_st (a b : list state) : bool := forallb (fun s => mem_state s b) a.

Definition qsum (l : list Q) : Q := fold_right (fun a b => Qred (a + b)) 0%Q l.

(* rate of a transition dictionary into state c, 0 if absent (as StateSpace.lookup_rate) *)
Definition rate_of (tg : targets (T:=Q)) (c : state) : Q :=
  match find (fun e => state_eqb (fst e) c) tg with
  | Some (_, r) => r
  | None => 0%Q
  end.

(* total rate of a transition dictionary into the states that [pi] maps onto c *)
Definition rate_into (pi : state -> state) (tg : targets (T:=Q)) (c : state) : Q :=
  qsum (map snd (filter (fun e => state_eqb (pi (fst e)) c) tg)).

Definition mat_eqb (A B : list (list Q)) : bool := list_eqb (list_eqb Qeq_bool) A B.

(* ====================================================================================== *)
(* B. renaming / reordering demes                                                         *)
(* ====================================================================================== *)

(* new axis position i holds what was at old position sigma[i] *)
Definition gatherd {A} (d : A) (sigma : list nat) (l : list A) : list A :=
  map (fun i => nth i l d) sigma.

Definition perm_arr3 (sigma : list nat) (a : arr3) : arr3 := map (gatherd [] sigma) a.
Definition perm_state (sigma : list nat) (s : state) : state :=
  mkState (perm_arr3 sigma (lin s)) (perm_arr3 sigma (lnk s)).
Definition perm_params (sigma : list nat) (P : params (T:=Q)) : params (T:=Q) :=
  mkParams (p_model P)
           (gatherd 1%Q sigma (p_tscale P))
           (map (fun i => gatherd 0%Q sigma (nth i (p_mig P) [])) sigma)
           (p_rec P) (p_lc P).
Definition perm_config (sigma : list nat) (config : list nat) : list nat := gatherd 0%nat sigma config.

(* position on the new deme axis of old deme d *)
Fixpoint pos_of (d : nat) (sigma : list nat) : nat :=
  match sigma with
  | [] => 0
  | x :: r => if Nat.eqb x d then 0 else S (pos_of d r)
  end.

(* the initial vector alpha as a table over the state list, and its entry for state s *)
Definition alpha_tab (config : list nat) (n_unlinked : nat) (states : list state) : list (state * Q) :=
  combine states (alpha_vec OpsQ config n_unlinked states).
Definition alpha_at (config : list nat) (n_unlinked : nat) (states : list state) (s : state) : Q :=
  rate_of (alpha_tab config n_unlinked states) s.

(* the transition dictionary of state s; lookup_rate trans s t = rate_of (row_of trans s) t *)
Definition row_of (trans : list (state * targets (T:=Q))) (s : state) : targets (T:=Q) :=
  match find (fun e => state_eqb (fst e) s) trans with
  | None => []
  | Some (_, tg) => tg
  end.

Definition perm_rewards : list reward := [RTreeHeight; RTotalBranchLength; RUnit].

Definition perm_check (P : params (T:=Q)) (nl nd n : nat) (sigma : list nat) : bool :=
  match get_transitions OpsQ P sc_fuel nl nd n,
        get_transitions OpsQ (perm_params sigma P) sc_fuel nl nd n with
  | Some (states, trans), Some (states', trans') =>
      subset_st (map (perm_state sigma) states) states'
      && subset_st states' (map (perm_state sigma) states)
      && forallb (fun s =>
           let tg := row_of trans s in
           let tg' := row_of trans' (perm_state sigma s) in
           forallb (fun t => Qeq_bool (rate_of tg' (perm_state sigma t)) (rate_of tg t)) states) states
      && forallb (fun config => forallb (fun nu =>
           let tab := alpha_tab config nu states in
           let tab' := alpha_tab (perm_config sigma config) nu states' in
           forallb (fun s => Qeq_bool (rate_of tab' (perm_state sigma s)) (rate_of tab s)) states)
           (seq 0 (S n))) (compositions_of n nd)
      && forallb (fun s => forallb (fun r =>
           Qeq_bool (reward_get OpsQ n r (perm_state sigma s)) (reward_get OpsQ n r s)) perm_rewards) states
      && forallb (fun s => forallb (fun d =>
           Qeq_bool (reward_get OpsQ n (RDeme (pos_of d sigma)) (perm_state sigma s))
                    (reward_get OpsQ n (RDeme d) s)) (seq 0 nd)) states
  | _, _ => false
  end.

(* one locus: n in ns over nd demes, all valuations, models, both spaces, all permutations *)
Definition perm_check_all1 (nd : nat) (ns : list nat) : bool :=
  forallb (fun n => forallb (fun V => forallb (fun m => forallb (fun lc => forallb (fun sigma =>
    perm_check (sc_mkP V m lc) 1 nd n sigma)
    (deme_perms nd)) [true; false]) sc_models) (sc_vals nd)) ns.

(* two loci: Kingman, lineage counting *)
Definition perm_check_all2 (nd : nat) (ns : list nat) : bool :=
  forallb (fun n => forallb (fun V => forallb (fun sigma =>
    perm_check (sc_mkP V Kingman true) 2 nd n sigma)
    (deme_perms nd)) (sc_vals nd)) ns.

(* ====================================================================================== *)
(* C. the single-locus marginals of the two-locus chain                                   *)
(* ====================================================================================== *)

(* what locus l sees: a one-locus lineage-counting state *)
Definition proj_locus (nd l : nat) (s : state) : state :=
  mkState [nth l (lin s) []] (zeros3 1 nd 1).

Definition sc_recs : list Q := [0; 1#3; 7#2; 1000]%Q.

Definition params2 (V : sc_val) (r : Q) : params (T:=Q) :=
  mkParams Kingman (sv_tscale V) (sv_mig V) r true.

Definition marginal_check (V : sc_val) (r : Q) (nd n l : nat) : bool :=
  let P := params2 V r in
  match get_transitions OpsQ P sc_fuel 2 nd n, get_transitions OpsQ P sc_fuel 1 nd n with
  | Some (st2, _), Some (st1, _) =>
      forallb (fun s =>
        let tg := transit OpsQ P s in
        let ps := proj_locus nd l s in
        mem_state ps st1
        && forallb (fun e => mem_state (proj_locus nd l (fst e)) st1) tg
        && forallb (fun c => state_eqb c ps
                             || Qeq_bool (rate_into (proj_locus nd l) tg c)
                                         (rate_of (transit OpsQ P ps) c)) st1) st2
  | _, _ => false
  end.

Definition marginal_check_all (nd : nat) (ns : list nat) : bool :=
  forallb (fun n => forallb (fun V => forallb (fun r => forallb (fun l =>
    marginal_check V r nd n l) [0; 1]) sc_recs) (sc_vals nd)) ns.

(* lin[0] = lin[1] = lnk[0] = lnk[1] *)
Definition fully_linked (s : state) : bool :=
  arr3_eqb (lnk s) (lin s)
  && list_eqb (list_eqb Nat.eqb) (nth 0 (lin s) []) (nth 1 (lin s) []).

(* support of alpha_vec config 0: the sample configuration with every lineage linked *)
Definition linked_start (config : list nat) (s : state) : bool :=
  matches_config config s && matches_linkage (sum_nat config) s.

Definition r0_check (V : sc_val) (nd n : nat) : bool :=
  let P := params2 V 0%Q in
  match get_transitions OpsQ P sc_fuel 2 nd n with
  | Some (st, _) =>
      forallb (fun config =>
        existsb (linked_start config) st
        && forallb (fun s => negb (linked_start config s) || fully_linked s) st) (compositions_of n nd)
      && forallb (fun s => negb (fully_linked s)
            || forallb (fun e => mem_state (fst e) st
                                 && (Qeq_bool (snd e) 0 || fully_linked (fst e))) (transit OpsQ P s)) st
  | None => false
  end.

Definition r0_check_all (nd : nat) (ns : list nat) : bool :=
  forallb (fun n => forallb (fun V => r0_check V nd n) (sc_vals nd)) ns.

(* ====================================================================================== *)
(* D. consistency across sample sizes (one deme, block counting)                          *)
(* ====================================================================================== *)

Definition ss_models : list (cmodel (T:=Q)) :=
  [Kingman; Beta (3#2)%Q false; Beta (5#4)%Q false;
   Dirac (1#3)%Q (5#2)%Q false; Dirac (3#4)%Q (1#2)%Q false].

Definition ss_params (m : cmodel (T:=Q)) : params (T:=Q) :=
  mkParams m [7#3]%Q [[0%Q]] 0%Q false.

Definition bc_vec (s : state) : list nat := nth 0 (nth 0 (lin s) []) [].
Definition bc_state (n : nat) (a : list nat) : state := mkState [[a]] (zeros3 1 1 n).

(* removing one uniformly chosen sample out of n: a block of size i+1 (a_{i+1} of them) is hit
   with probability (i+1) a_{i+1} / n and becomes a block of size i; outcomes as states of n-1 *)
Definition remove_one (n : nat) (s : state) : list (state * Q) :=
  let a := bc_vec s in
  flat_map (fun i =>
    let ai := nth i a 0 in
    if Nat.ltb 0 ai then
      let a1 := upd a i pred in
      let a2 := match i with O => a1 | S i' => upd a1 i' S end in
      [(bc_state (n - 1) (firstn (n - 1) a2), (Z.of_nat (S i * ai) # Pos.of_nat n)%Q)]
    else []) (seq 0 n).

Definition phi (n : nat) (s t : state) : Q := rate_into (fun x => x) (remove_one n s) t.

Definition phi_mat (n : nat) (states_n states_m : list state) : list (list Q) :=
  map (fun s => map (fun t => phi n s t) states_m) states_n.

(* (Phi f)(s) = sum_t Phi(s,t) f(t) *)
Definition phi_apply (n : nat) (states_m : list state) (f : state -> Q) (s : state) : Q :=
  qsum (map (fun t => Qmult (phi n s t) (f t)) states_m).

Definition sfs_reward (n j : nat) (s : state) : Q := reward_get OpsQ n (RUnfoldedSFS j) s.

Definition proj_check (m : cmodel (T:=Q)) (n : nat) : bool :=
  let P := ss_params m in
  match get_transitions OpsQ P sc_fuel 1 1 n, get_transitions OpsQ P sc_fuel 1 1 (n - 1) with
  | Some (sn, tn), Some (sm, tm) =>
      let Kn := rate_matrix OpsQ sn tn in
      let Km := rate_matrix OpsQ sm tm in
      let Phi := phi_mat n sn sm in
      (* Phi is a probability kernel from the states of n to the states of n-1 *)
      forallb (fun s => forallb (fun e => mem_state (fst e) sm && Qle_bool 0 (snd e)) (remove_one n s)
                        && Qeq_bool (qsum (map snd (remove_one n s))) 1) sn
      (* intertwining *)
      && mat_eqb (mmul OpsQ Kn Phi) (mmul OpsQ Phi Km)
      (* initial state to initial state *)
      && Qeq_bool (phi n (initial_state 1 1 n n) (initial_state 1 1 (n - 1) (n - 1))) 1
      (* site-frequency rewards: hypergeometric down-projection *)
      && forallb (fun j => forallb (fun s =>
           Qeq_bool (phi_apply n sm (sfs_reward (n - 1) j) s)
                    ((Z.of_nat (n - j) # Pos.of_nat n) * sfs_reward n j s
                     + (Z.of_nat (j + 1) # Pos.of_nat n) * sfs_reward n (j + 1) s)) sn) (seq 1 (n - 2))
      (* tree height and total branch length can only shrink *)
      && forallb (fun r => forallb (fun s =>
           Qle_bool (phi_apply n sm (reward_get OpsQ (n - 1) r) s) (reward_get OpsQ n r s)) sn)
           [RTreeHeight; RTotalBranchLength]
  | _, _ => false
  end.

Definition proj_check_all (ns : list nat) : bool :=
  forallb (fun n => forallb (fun m => proj_check m n) ss_models) ns.

(* for reporting a failure of the intertwining: (s, t', (K_n Phi)(s,t'), (Phi K_{n-1})(s,t')) *)
Definition proj_mismatches (m : cmodel (T:=Q)) (n : nat) : list (state * state * Q * Q) :=
  let P := ss_params m in
  match get_transitions OpsQ P sc_fuel 1 1 n, get_transitions OpsQ P sc_fuel 1 1 (n - 1) with
  | Some (sn, tn), Some (sm, tm) =>
      let A := mmul OpsQ (rate_matrix OpsQ sn tn) (phi_mat n sn sm) in
      let B := mmul OpsQ (phi_mat n sn sm) (rate_matrix OpsQ sm tm) in
      flat_map (fun sab =>
        let '(s, (ra, rb)) := sab in
        flat_map (fun tab =>
          let '(t, (a, b)) := tab in
          if Qeq_bool a b then [] else [(s, t, a, b)]) (combine sm (combine ra rb)))
        (combine sn (combine A B))
  | _, _ => []
  end.

(* ====================================================================================== *)
(* E. time rescaling                                                                      *)
(* ====================================================================================== *)

Definition scale_params (c : Q) (P : params (T:=Q)) : params (T:=Q) :=
  mkParams (p_model P)
           (map (fun x => Qred (x * c)) (p_tscale P))
           (map (map (fun x => Qred (x / c))) (p_mig P))
           (Qred (p_rec P / c)) (p_lc P).

Definition sc_scales : list Q := [2; 3#5]%Q.

Definition targets_scaled (c : Q) (tg tg' : targets (T:=Q)) : bool :=
  list_eqb (fun e e' => state_eqb (fst e) (fst e') && Qeq_bool (snd e') (snd e / c)) tg tg'.

Definition rescale_check (P : params (T:=Q)) (c : Q) (nl nd n : nat) : bool :=
  match get_transitions OpsQ P sc_fuel nl nd n,
        get_transitions OpsQ (scale_params c P) sc_fuel nl nd n with
  | Some (states, _), Some (states', _) =>
      list_eqb state_eqb states states'
      && forallb (fun s => targets_scaled c (transit OpsQ P s) (transit OpsQ (scale_params c P) s)) states
  | _, _ => false
  end.

Definition rescale_check_all1 (nd : nat) (ns : list nat) : bool :=
  forallb (fun n => forallb (fun V => forallb (fun m => forallb (fun lc => forallb (fun c =>
    rescale_check (sc_mkP V m lc) c 1 nd n)
    sc_scales) [true; false]) sc_models) (sc_vals nd)) ns.

Definition rescale_check_all2 (nd : nat) (ns : list nat) : bool :=
  forallb (fun n => forallb (fun V => forallb (fun c =>
    rescale_check (sc_mkP V Kingman true) c 2 nd n) sc_scales) (sc_vals nd)) ns.
