(* Model of the two searches on the CDF (phasegen/distributions.py):
     TreeHeightDistribution.quantile            (expanding + bisecting search)
     TreeHeightDistribution._get_absorption_time (doubling search for the default horizon, with the
                                                  repaired warning condition)
   over an abstract CDF F on exact rationals.  Definitions only. *)
From Coq Require Import QArith List Bool.
Import ListNotations.
Open Scope Q_scope.

Section Search.
  Variable F : Q -> Q.

  (* while F(b) < q and i < max_iter: b *= expansion_factor *)
  Fixpoint expand (fuel : nat) (q ef : Q) (b : Q) (i : nat) : Q * nat :=
    match fuel with
    | O => (b, i)
    | S fuel' => if Qlt_le_dec (F b) q then expand fuel' q ef (b * ef) (S i) else (b, i)
    end.

  (* while F(b) - F(a) > precision and i < max_iter: bisect *)
  Fixpoint bisect (fuel : nat) (q prec : Q) (a b : Q) (i : nat) : Q * Q * nat :=
    match fuel with
    | O => (a, b, i)
    | S fuel' =>
        if Qlt_le_dec prec (F b - F a) then
          let m := (a + b) / 2 in
          if Qlt_le_dec (F m) q then bisect fuel' q prec m b (S i) else bisect fuel' q prec a m (S i)
        else (a, b, i)
    end.

  (* quantile(q, expansion_factor, precision, max_iter): returns (result, a, b, iterations) *)
  Definition quantile (q ef prec : Q) (max_iter : nat) : Q * Q * Q * nat :=
    let '(b, i) := expand max_iter q ef 1 0 in
    let '(a', b', i') := bisect (max_iter - i) q prec 0 b i in
    ((a' + b') / 2, a', b', i').

  (* _get_absorption_time: t0, then double while p < p_abs and i < max_iter; warn iff not p >= p_abs *)
  Fixpoint horizon_loop (fuel : nat) (p_abs : Q) (t : Q) : Q :=
    match fuel with
    | O => t
    | S fuel' => if Qlt_le_dec (F t) p_abs then horizon_loop fuel' p_abs (t * 2) else t
    end.
  Definition horizon (t0 p_abs : Q) (max_iter : nat) : Q * bool :=
    let t := if Qlt_le_dec (F t0) p_abs then horizon_loop max_iter p_abs (t0 * 2) else t0 in
    (t, if Qlt_le_dec (F t) p_abs then true else false).      (* (time used, warning logged) *)
End Search.
