(* Executable comparison helpers used by the generated cases files of the correspondence check
   (exact rationals; [tol] = 0 gives exact equality). *)
From Coq Require Import ZArith QArith Qabs Qminmax List Arith Bool.
From PG Require Import base.Ops model.CoalModels model.StateSpace model.Rewards.
Import ListNotations.

Definition Qclose (tol a b : Q) : bool :=
  Qle_bool (Qabs (a - b)) (tol * Qmax (Qabs a) (Qabs b)).

Fixpoint indexed {A} (i : nat) (l : list A) : list (nat * A) :=
  match l with [] => [] | x :: l' => (i, x) :: indexed (S i) l' end.

(* positions at which two vectors differ *)
Definition vec_mismatch (tol : Q) (a b : list Q) : list nat :=
  if negb (Nat.eqb (length a) (length b)) then [length a; length b; 999%nat] else
  map fst (filter (fun ix => negb (Qclose tol (fst (snd ix)) (snd (snd ix)))) (indexed 0 (combine a b))).

Definition mat_mismatch (tol : Q) (a b : list (list Q)) : list (nat * nat) :=
  flat_map (fun irow => map (fun j => (fst irow, j)) (vec_mismatch tol (fst (snd irow)) (snd (snd irow))))
           (indexed 0 (combine a b)).

Fixpoint nodup_states (l : list state) : bool :=
  match l with [] => true | s :: l' => negb (mem_state s l') && nodup_states l' end.

Definition subset_states (a b : list state) : bool := forallb (fun s => mem_state s b) a.

Record space_report := mkReport {
  rep_fuel_ok : bool;
  rep_nodup : bool;             (* implementation lists no state twice *)
  rep_sub_impl_model : bool;    (* every implementation state is a model state *)
  rep_sub_model_impl : bool;    (* every model state is an implementation state *)
  rep_S : list (nat * nat);     (* entries of S that differ *)
  rep_alpha : list nat;
  rep_absorbing : list nat;
  rep_n_model_states : nat
}.

Definition check_space (P : params (T:=Q)) (fuel nl nd n : nat) (config : list nat) (n_unlinked : nat)
           (tol : Q) (py_states : list state) (py_S : list (list Q)) (py_alpha : list Q)
           (py_abs : list bool) : space_report :=
  match get_transitions OpsQ P fuel nl nd n with
  | None => mkReport false false false false [] [] [] 0
  | Some (states, trans) =>
      mkReport true (nodup_states py_states)
               (subset_states py_states states) (subset_states states py_states)
               (mat_mismatch tol (rate_matrix OpsQ py_states trans) py_S)
               (vec_mismatch tol (alpha_vec OpsQ config n_unlinked py_states) py_alpha)
               (map fst (filter (fun ib => negb (Bool.eqb (is_absorbing (fst (snd ib))) (snd (snd ib))))
                                (indexed 0 (combine py_states py_abs))))
               (length states)
  end.

Definition show_report (r : space_report) :=
  (rep_fuel_ok r, rep_nodup r, rep_sub_impl_model r, rep_sub_model_impl r,
   (rep_S r, rep_alpha r, rep_absorbing r, rep_n_model_states r)).
