(* Symbolic counterparts of the checkers of model/SpaceChecks.v: the state-space model is run ONCE
   over the linear forms of model/LinForm.v (time scales, migration rates and the recombination
   rate are symbols), and the criteria on rates are decided by [lf_eqb] / by inspecting the atoms
   of a linear form.  proofs/SpaceFactsAllRates.v transports the outcome to every real valuation.

   Definitions only. *)
From Coq Require Import ZArith QArith Qreals Reals List Arith Bool.
From PG Require Import base.Ops base.OpsR model.CoalModels model.StateSpace model.Rewards model.Check
     model.SpaceChecks model.LinForm.
Import ListNotations.
Close Scope Q_scope.
Close Scope R_scope.

Definition sym_fuel : nat := 64.          (* BFS levels granted to StateSpace.get_transitions *)

(* ====================================================================================== *)
(* generic over the operations record                                                     *)
(* ====================================================================================== *)
Section Generic.
  Context {T : Type} (OP : Ops T).

  (* SpaceChecks.perm_params for any instance: new deme axis position i holds old deme sigma[i] *)
  Definition perm_params_g (sigma : list nat) (P : params (T:=T)) : params (T:=T) :=
    mkParams (p_model P)
             (gatherd (o1 OP) sigma (p_tscale P))
             (map (fun i => gatherd (o0 OP) sigma (nth i (p_mig P) [])) sigma)
             (p_rec P) (p_lc P).

  (* SpaceChecks.row_of / rate_into for any instance ([rate_of] is LinForm.rate_in_g) *)
  Definition row_of_g (trans : list (state * targets (T:=T))) (s : state) : targets (T:=T) :=
    match find (fun e => state_eqb (fst e) s) trans with
    | None => []
    | Some (_, tg) => tg
    end.

  Definition rate_into_g (pi : state -> state) (tg : targets (T:=T)) (c : state) : T :=
    osum OP (map snd (filter (fun e => state_eqb (pi (fst e)) c) tg)).

  (* the recombination rate replaced *)
  Definition set_rec (r : T) (P : params (T:=T)) : params (T:=T) :=
    mkParams (p_model P) (p_tscale P) (p_mig P) r (p_lc P).
End Generic.

(* ====================================================================================== *)
(* B. renaming / reordering demes                                                         *)
(* ====================================================================================== *)

(* SpaceChecks.perm_check on symbolic parameters PS; the permuted system has the permuted atoms *)
Definition perm_check_sym (PS : params (T:=lf)) (nl nd n : nat) (sigma : list nat) : bool :=
  match get_transitions OpsLF PS sym_fuel nl nd n,
        get_transitions OpsLF (perm_params_g OpsLF sigma PS) sym_fuel nl nd n with
  | Some (states, trans), Some (states', trans') =>
      subset_st (map (perm_state sigma) states) states'
      && subset_st states' (map (perm_state sigma) states)
      && forallb (fun s =>
           let tg := row_of_g trans s in
           let tg' := row_of_g trans' (perm_state sigma s) in
           forallb (fun t => lf_eqb (rate_in_g OpsLF tg' (perm_state sigma t)) (rate_in_g OpsLF tg t)) states) states
      && forallb (fun config => forallb (fun nu =>
           let tab := alpha_tab config nu states in
           let tab' := alpha_tab (perm_config sigma config) nu states' in
           forallb (fun s => Qeq_bool (rate_of tab' (perm_state sigma s)) (rate_of tab s)) states)
           (seq 0 (S n))) (compositions_of n nd)
      && forallb (fun s => forallb (fun r =>
           Qeq_bool (reward_get OpsQ n r (perm_state sigma s)) (reward_get OpsQ n r s)) perm_rewards) states
      && forallb (fun s => forallb (fun d =>
           Qeq_bool (reward_get OpsQ n (RDeme (pos_of d sigma)) (perm_state sigma s))
                    (reward_get OpsQ n (RDeme d) s)) (seq 0 nd)) states
  | _, _ => false
  end.

(* coalescent models with numeric parameters (as SpaceChecks.sc_models, plus Beta(7/4)) *)
Definition sym_models : list (cmodel (T:=Q)) :=
  [Kingman; Beta (3#2)%Q false; Beta (7#4)%Q false; Dirac (1#3)%Q (5#2)%Q false].

(* one locus: group (n, nd), all models, both spaces, all permutations *)
Definition perm_check_sym1 (g : nat * nat) : bool :=
  let '(n, nd) := g in
  forallb (fun m => forallb (fun lc => forallb (fun sigma =>
    perm_check_sym (symP nd m lc) 1 nd n sigma) (deme_perms nd)) [true; false]) sym_models.

(* two loci: Kingman, lineage counting *)
Definition perm_check_sym2 (g : nat * nat) : bool :=
  let '(n, nd) := g in
  forallb (fun sigma => perm_check_sym (symP nd Kingman true) 2 nd n sigma) (deme_perms nd).

(* ====================================================================================== *)
(* C. the single-locus marginals of the two-locus chain                                   *)
(* ====================================================================================== *)

(* no term in the recombination rate *)
Definition no_rec (x : lf) : bool := forallb (fun t => negb (atom_eqb (fst t) ARec)) (terms x).

(* SpaceChecks.marginal_check with a SYMBOLIC recombination rate, both loci: the two-locus rates
   into the fibre of a one-locus state c, summed as linear forms, are the one-locus rate as a
   linear form, and that form has no term in ARec *)
Definition marginal_check_sym (g : nat * nat) : bool :=
  let '(n, nd) := g in
  let P := symP nd Kingman true in
  match get_transitions OpsLF P sym_fuel 2 nd n, get_transitions OpsLF P sym_fuel 1 nd n with
  | Some (st2, _), Some (st1, _) =>
      forallb (fun s =>
        let tg := transit OpsLF P s in
        forallb (fun l =>
          let ps := proj_locus nd l s in
          let tg1 := transit OpsLF P ps in
          mem_state ps st1
          && forallb (fun e => mem_state (proj_locus nd l (fst e)) st1) tg
          && forallb (fun c => state_eqb c ps
                               || (lf_eqb (rate_into_g OpsLF (proj_locus nd l) tg c) (rate_in_g OpsLF tg1 c)
                                   && no_rec (rate_into_g OpsLF (proj_locus nd l) tg c))) st1) [0; 1]) st2
  | _, _ => false
  end.

(* ====================================================================================== *)
(* C'. recombination rate 0                                                               *)
(* ====================================================================================== *)

(* a genuine linear form that is a multiple of the recombination rate *)
Definition only_rec (x : lf) : bool := lf_ok x && forallb (fun t => atom_eqb (fst t) ARec) (terms x).

(* SpaceChecks.r0_check with the recombination rate a symbol: every transition out of a fully
   linked state stays among the states and either keeps full linkage or has a rate that is a
   multiple of ARec *)
Definition r0_check_sym (g : nat * nat) : bool :=
  let '(n, nd) := g in
  let P := symP nd Kingman true in
  match get_transitions OpsLF P sym_fuel 2 nd n with
  | Some (st, _) =>
      forallb (fun config =>
        existsb (linked_start config) st
        && forallb (fun s => negb (linked_start config s) || fully_linked s) st) (compositions_of n nd)
      && forallb (fun s => negb (fully_linked s)
            || forallb (fun e => mem_state (fst e) st
                                 && (only_rec (snd e) || fully_linked (fst e))) (transit OpsLF P s)) st
  | None => false
  end.

(* ====================================================================================== *)
(* the checked domains: (n, number of demes)                                              *)
(* ====================================================================================== *)
(* one locus: SpaceFacts.v has 2 and 3 demes with 2 <= n <= 4 *)
Definition perm_groups1 : list (nat * nat) :=
  [(2,2); (3,2); (4,2); (5,2); (6,2); (2,3); (3,3); (4,3); (2,4)].
(* two loci: SpaceFacts.v has 2 demes with 2 <= n <= 3 *)
Definition perm_groups2 : list (nat * nat) := [(2,2); (3,2); (4,2); (2,3)].
(* SpaceFacts.v has 1 deme 2 <= n <= 6, 2 demes 2 <= n <= 4 *)
Definition marginal_groups : list (nat * nat) :=
  [(2,1); (3,1); (4,1); (5,1); (6,1); (7,1); (8,1); (2,2); (3,2); (4,2); (5,2); (2,3); (3,3)].
Definition r0_groups : list (nat * nat) :=
  [(2,1); (3,1); (4,1); (5,1); (6,1); (7,1); (8,1); (2,2); (3,2); (4,2); (5,2); (2,3); (3,3)].
