(* Model of the guards of PhaseGen (C20): every constructor / entry-point check as a function from a
   request to ok | ValueError | NotImplementedError, written guard by guard as in the code, next to the
   SPEC predicate [in_domain] read off the documentation.  Definitions only.

   Routes by which sizes and rates reach the state space (after the repair the state space validates
   what it reads, so every route ends in the same guard). *)
From Coq Require Import ZArith QArith List Bool.
Import ListNotations.
Open Scope Q_scope.

Inductive verdict := Ok | ValueErr | NotImpl.

Inductive size_route :=
| SScalar | SFlatDict | SNestedDict | SPopSizeChange | SPopSizeChanges | SDiscreteRateChanges
| SEpochToStateSpace | STrajectoryValue | SExponentialInitialSize.
Inductive mig_route :=
| MFlatDict | MNestedDict | MMigrationRateChange | MMigrationRateChanges | MSymmetric | MDiscreteRateChanges
| MEpochToStateSpace | MTrajectoryValue.

Inductive request :=
| RLocusConfig (n n_unlinked : Z) (rec : Q)
| RRecombinationKeyword (rec : Q)             (* Coalescent(loci=LocusConfig(2), recombination_rate=rec) *)
| RSfsTwoLoci (loci : Z)                      (* sfs/fsfs statistic *)
| RMultipleMergerLoci (multiple_merger : bool) (loci : Z)
| RConstructTimes (start_time : Q) (end_time : option Q)
| RCdfTime (t : Q)
| RAccumulateTime (t : Q)
| RMomentEndTime (t : Q)
| RPopSize (route : size_route) (v : Q)
| RMigrationRate (route : mig_route) (v : Q)
| RBetaAlpha (alpha : Q)
| RDiracPsi (psi : Q)
| RRewardCount (k n_rewards : nat)
| RMutationConfig (len expected : nat) (theta : Q) (n_epochs : nat)
| RQuantile (q : Q).

Definition lt0 (x : Q) : bool := negb (Qle_bool 0 x).     (* x < 0 *)
Definition le0 (x : Q) : bool := Qle_bool x 0.            (* x <= 0 *)

(* the guards, in the order the code evaluates them *)
Definition outcome (r : request) : verdict :=
  match r with
  | RLocusConfig n u rec =>
      if (n <? 1)%Z then ValueErr                 (* LocusConfig.__init__ *)
      else if (2 <? n)%Z then NotImpl
      else if (u <? 0)%Z then ValueErr
      else if lt0 rec then ValueErr else Ok
  | RRecombinationKeyword rec => if lt0 rec then ValueErr else Ok      (* Transition.recombine *)
  | RSfsTwoLoci loci => if (1 <? loci)%Z then NotImpl else Ok          (* BlockCountingStateSpace.__init__ *)
  | RMultipleMergerLoci mm loci => if mm && (1 <? loci)%Z then NotImpl else Ok   (* Transition.coalesce *)
  | RConstructTimes st en =>                                           (* TreeHeightDistribution.__init__ *)
      if lt0 st then ValueErr
      else match en with
           | None => Ok
           | Some e => if lt0 e then ValueErr else if negb (Qle_bool st e) then ValueErr else Ok
           end
  | RCdfTime t => if lt0 t then ValueErr else Ok                       (* cdf *)
  | RAccumulateTime t => if lt0 t then ValueErr else Ok                (* _accumulate *)
  | RMomentEndTime t => if lt0 t then ValueErr else Ok                 (* moment -> _accumulate *)
  | RPopSize _ v => if le0 v then ValueErr else Ok                     (* DiscreteRateChanges.__init__ / Transition.coalesce *)
  | RMigrationRate _ v => if lt0 v then ValueErr else Ok               (* DiscreteRateChanges.__init__ / Transition.migrate_* *)
  | RBetaAlpha a => if lt0 (a - 1) || lt0 (2 - a) then ValueErr else Ok       (* alpha < 1 or alpha > 2 *)
  | RDiracPsi psi => if le0 psi || le0 (1 - psi) then ValueErr else Ok        (* not 0 < psi < 1 *)
  | RRewardCount k nr => if Nat.eqb k nr then Ok else ValueErr         (* accumulate *)
  | RMutationConfig len expected theta ne =>                           (* get_mutation_config *)
      if Nat.ltb 1 ne then NotImpl
      else if lt0 theta then ValueErr
      else if Nat.eqb len expected then Ok else ValueErr
  | RQuantile q => if lt0 q || lt0 (1 - q) then ValueErr else Ok
  end.

(* the documented domain *)
Definition in_domain (r : request) : Prop :=
  match r with
  | RLocusConfig n u rec => (1 <= n <= 2)%Z /\ (0 <= u)%Z /\ 0 <= rec
  | RRecombinationKeyword rec => 0 <= rec
  | RSfsTwoLoci loci => (loci <= 1)%Z
  | RMultipleMergerLoci mm loci => mm = false \/ (loci <= 1)%Z
  | RConstructTimes st en => 0 <= st /\ match en with None => True | Some e => 0 <= e /\ st <= e end
  | RCdfTime t | RAccumulateTime t | RMomentEndTime t => 0 <= t
  | RPopSize _ v => 0 < v
  | RMigrationRate _ v => 0 <= v
  | RBetaAlpha a => 1 <= a /\ a <= 2
  | RDiracPsi psi => 0 < psi /\ psi < 1
  | RRewardCount k nr => k = nr
  | RMutationConfig len expected theta ne => (ne <= 1)%nat /\ 0 <= theta /\ len = expected
  | RQuantile q => 0 <= q /\ q <= 1
  end.
