(* Model of the epoch-aware propagation loops of phasegen/distributions.py:

     PhaseTypeDistribution._accumulate   (l.848-872)   step v dt = expm(V_v * dt / lamb)
     TreeHeightDistribution.cdf          (l.1048-1069)  step v dt = expm(S_v * dt)
     TreeHeightDistribution._update      (l.1081-1113)  (quantile, t_max)

   written over an abstract monoid of matrices [M] and an abstract family of generators [V]
   (one per epoch).  The demography is the list of epochs (end time, generator), end times strictly
   increasing, followed by the last, infinite epoch.  Times are exact rationals.

   Definitions only; proofs live in proofs/LoopProofs.v. *)
From Coq Require Import QArith List.
From PG Require Import base.Perm.
Import ListNotations.

Section Loop.
  Variable M V : Type.
  Variable mul : M -> M -> M.
  Variable one : M.
  Variable step : V -> Q -> M.

  (* loop state: accumulated matrix, previous time, remaining finite epochs, generator of the last epoch *)
  Record lstate := mkL { lQ : M; lprev : Q; lrest : list (Q * V) }.

  (* "while u > epoch.end_time: Q @= step(epoch, end - u_prev); u_prev = end; next epoch"
     followed by "Q @= step(epoch, u - u_prev); u_prev = u" *)
  Fixpoint advance_rest (vlast : V) (Qm : M) (up : Q) (rest : list (Q * V)) (u : Q) : lstate :=
    match rest with
    | [] => mkL (mul Qm (step vlast (u - up))) u []
    | (en, v) :: rest' =>
        if Qlt_le_dec en u          (* u > end_time *)
        then advance_rest vlast (mul Qm (step v (en - up))) en rest' u
        else mkL (mul Qm (step v (u - up))) u rest
    end.

  Definition advance (vlast : V) (s : lstate) (u : Q) : lstate :=
    advance_rest vlast (lQ s) (lprev s) (lrest s) u.

  Definition init (epochs : list (Q * V)) : lstate := mkL one 0 epochs.

  (* the sorted loop: one accumulated matrix per (sorted) time *)
  Fixpoint run_loop (vlast : V) (s : lstate) (ts : list Q) : list M :=
    match ts with
    | [] => []
    | u :: ts' => let s' := advance vlast s u in lQ s' :: run_loop vlast s' ts'
    end.

  (* evaluating one time from scratch *)
  Definition eval_at (epochs : list (Q * V)) (vlast : V) (u : Q) : M :=
    lQ (advance vlast (init epochs) u).

  Definition Qleb (a b : Q) : bool := Qle_bool a b.

  (* the vectorised entry point: sort, run the loop, scatter back (repaired code) *)
  Definition loop_vectorised (epochs : list (Q * V)) (vlast : V) (ts : list Q) : list M :=
    vectorised Qleb one (run_loop vlast (init epochs)) ts.

  (* variant of [advance_rest] that leaves an epoch as soon as u >= end_time (the other
     admissible convention at an epoch boundary) *)
  Fixpoint advance_rest_le (vlast : V) (Qm : M) (up : Q) (rest : list (Q * V)) (u : Q) : lstate :=
    match rest with
    | [] => mkL (mul Qm (step vlast (u - up))) u []
    | (en, v) :: rest' =>
        if Qlt_le_dec u en          (* u < end_time *)
        then mkL (mul Qm (step v (u - up))) u rest
        else advance_rest_le vlast (mul Qm (step v (en - up))) en rest' u
    end.

  Definition eval_at_le (epochs : list (Q * V)) (vlast : V) (u : Q) : M :=
    lQ (advance_rest_le vlast one 0 epochs u).

  (* well-formed epoch list: end times strictly increasing and positive *)
  Fixpoint epochs_wf (lo : Q) (epochs : list (Q * V)) : Prop :=
    match epochs with
    | [] => True
    | (en, _) :: rest => lo < en /\ epochs_wf en rest
    end.

  (* insert a redundant change point c (same generator on both sides) *)
  Fixpoint split_epoch (c : Q) (vlast : V) (epochs : list (Q * V)) : list (Q * V) :=
    match epochs with
    | [] => [(c, vlast)]
    | (en, v) :: rest =>
        if Qlt_le_dec c en then (c, v) :: (en, v) :: rest
        else (en, v) :: split_epoch c vlast rest
    end.
End Loop.

Arguments mkL {M V}.
Arguments lQ {M V}.
Arguments lprev {M V}.
Arguments lrest {M V}.
