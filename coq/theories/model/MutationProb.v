(* Model of SFSDistribution._get_P and get_mutation_config (C16), written once over an operations
   record: matrix inverse by Gauss-Jordan elimination (np.linalg.inv; no pivoting is needed, the
   matrix I - diag(1/r)/theta S is strictly diagonally dominant for a sub-generator S), the per-class
   matrices, and the sum over the distinct orderings of the mutations (utils.multiset_permutations).
   Definitions only. *)
From Coq Require Import ZArith QArith List Arith Bool.
From PG Require Import base.Ops model.CoalModels model.StateSpace model.Rewards model.Matrix model.PhaseType.
Import ListNotations.

Section MutationProb.
  Context {T : Type} (OP : Ops T).
  Notation "a *o b" := (omul OP a b) (at level 40, left associativity).

  (* Gauss-Jordan on the augmented matrix [A | I], pivot = diagonal entry *)
  Definition row_sub (r p : list T) (f : T) : list T :=
    map (fun xy => osub OP (fst xy) (f *o snd xy)) (combine r p).
  Fixpoint gj (fuel : nat) (k : nat) (M : list (list T)) : list (list T) :=
    match fuel with
    | O => M
    | S fuel' =>
        let prow := nth k M [] in
        let piv := nth k prow (o1 OP) in
        let prow' := map (fun x => odiv OP x piv) prow in
        let M' := map (fun ir => if Nat.eqb (fst ir) k then prow'
                                 else row_sub (snd ir) prow' (nth k (snd ir) (o0 OP)))
                      (combine (seq 0 (length M)) M) in
        gj fuel' (S k) M'
    end.
  Definition minv (A : mat (T:=T)) : mat (T:=T) :=
    let n := length A in
    let aug := map (fun ri => fst ri ++ snd ri) (combine A (mid OP n)) in
    map (skipn n) (gj n 0 aug).

  Definition select {A} (mask : list bool) (l : list A) : list A :=
    map snd (filter (fun bx => fst bx) (combine mask l)).

  (* all distinct orderings of a list of class indices *)
  Fixpoint dedup (l : list (list nat)) : list (list nat) :=
    match l with
    | [] => []
    | x :: l' => if existsb (fun y => list_eqb Nat.eqb x y) l' then dedup l' else x :: dedup l'
    end.
  Definition orderings (config : list nat) : list (list nat) :=
    dedup (permutations (flat_map (fun ic => repeat (fst ic) (snd ic)) (combine (seq 0 (length config)) config))).

  (* get_mutation_config(config, theta) given the generator S on all states (in the order of [states]),
     the per-class reward vectors R_i (i = 0 .. nbins-1) and alpha *)
  Definition mutation_prob (Sm : mat (T:=T)) (Rs : list (vec (T:=T))) (alpha : vec (T:=T))
             (transient : list bool) (theta : T) (config : list nat) : T :=
    let St := map (select transient) (select transient Sm) in
    let Rt := map (select transient) Rs in
    let at_ := select transient alpha in
    let k := length St in
    let rtot := fold_left (vadd OP) Rt (vzero OP k) in
    let A := map (fun ir => map (fun jx => osub OP (if Nat.eqb (fst ir) (fst jx) then o1 OP else o0 OP)
                                            (odiv OP (snd jx) (nth (fst ir) rtot (o1 OP) *o theta)))
                                (combine (seq 0 k) (snd ir))) (combine (seq 0 k) St) in
    let Ptot := minv A in
    let ptot := mvec OP (madd OP (mid OP k) (mscale OP (oopp OP (o1 OP)) Ptot)) (ones OP k) in
    let Pc i := map (fun row => map (fun jx => snd jx *o odiv OP (nth (fst jx) (nth i Rt []) (o0 OP)) (nth (fst jx) rtot (o1 OP)))
                                   (combine (seq 0 k) row)) Ptot in
    let Qm := fold_left (fun acc ord => madd OP acc (fold_left (fun U i => mmul OP U (Pc i)) ord (mid OP k)))
                        (orderings config) (mzero OP k k) in
    dot OP (vmat OP at_ Qm) ptot.
End MutationProb.
