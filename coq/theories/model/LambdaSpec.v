(* SPEC for C14: Lambda-coalescent rates as integrals against the model's Lambda measure.

   The rate at which one given set of k out of b lineages merges is
       lambda_{b,k} = int_0^1 x^(k-2) (1-x)^(b-k) Lambda(dx).
   Expanding (1-x)^(b-k) by the binomial theorem and using only linearity of the integral,
       lambda_{b,k} = sum_{j=0}^{b-k} (-1)^j C(b-k, j) mu_{k-2+j},   mu_i = int x^i Lambda(dx).
   The moment sequences are:  Kingman  Lambda = delta_0:            mu_0 = 1, mu_i = 0 (i>0)
                              Beta(2-alpha, alpha):                 mu_i = prod_{l<i} (2-alpha+l)/(2+l)
                              Dirac    Lambda = delta_0 + c psi^2 delta_psi:  mu_i = [i=0] + c psi^(2+i) *)
From Coq Require Import ZArith Reals List Arith.
From PG Require Import base.Ops base.OpsR model.CoalModels.
Import ListNotations.
Open Scope R_scope.

Definition ind (b : bool) : R := if b then 1 else 0.

Fixpoint rprod (f : nat -> R) (n : nat) : R :=   (* prod_{l<n} f l *)
  match n with O => 1 | S n' => rprod f n' * f n' end.

Fixpoint rsum (f : nat -> R) (n : nat) : R :=    (* sum_{j<n} f j *)
  match n with O => 0 | S n' => rsum f n' + f n' end.

Definition mu (m : cmodel (T:=R)) (i : nat) : R :=
  match m with
  | Kingman => ind (Nat.eqb i 0)
  | Beta a _ => rprod (fun l => (2 - a + INR l) / (2 + INR l)) i
  | Dirac psi c _ => ind (Nat.eqb i 0) + c * psi ^ (2 + i)
  end.

Definition lambda_integral (m : cmodel (T:=R)) (b k : nat) : R :=
  rsum (fun j => (-1) ^ j * IZR (binom (b - k) j) * mu m (k - 2 + j)) (S (b - k)).

(* the per-set rate the code uses (its rate divided by the number of ways C(b,k)) *)
Definition lam (m : cmodel (T:=R)) (b k : nat) : R :=
  match m with
  | Kingman => ind (Nat.eqb k 2)
  | Beta a _ => beta_base OpsR a b k
  | Dirac psi c _ => ind (Nat.eqb k 2) + c * psi ^ k * (1 - psi) ^ (b - k)
  end.

Definition valid_model (m : cmodel (T:=R)) : Prop :=
  match m with
  | Kingman => True
  | Beta a _ => 1 < a < 2
  | Dirac psi c _ => 0 < psi < 1 /\ 0 <= c
  end.

(* total rate of the block-counting outcomes of [coalesce] that reduce the number of lineages by k-1 *)
Definition outcome_rate_sum (m : cmodel (T:=R)) (blocks : list nat) (k : nat) : R :=
  fold_right Rplus 0
    (map snd (filter (fun o => Nat.eqb (sum_nat (fst o) + k) (sum_nat blocks + 1))
                     (coalesce OpsR m blocks))).
