(* Dense matrices as lists of rows over an operations record (np.ndarray arithmetic as used by
   phasegen/distributions.py).  Definitions only. *)
From Coq Require Import ZArith List Arith.
From PG Require Import base.Ops.
Import ListNotations.

Section Matrix.
  Context {T : Type} (OP : Ops T).
  Definition vec := list T.
  Definition mat := list (list T).

  Definition vzero (n : nat) : vec := repeat (o0 OP) n.
  Definition mzero (n m : nat) : mat := repeat (vzero m) n.
  Definition unit_vec (n i : nat) : vec := map (fun j => if Nat.eqb i j then o1 OP else o0 OP) (seq 0 n).
  Definition mid (n : nat) : mat := map (unit_vec n) (seq 0 n).
  Definition diagm (d : vec) : mat :=
    map (fun ix => map (fun j => if Nat.eqb (fst ix) j then snd ix else o0 OP) (seq 0 (length d)))
        (combine (seq 0 (length d)) d).

  Definition vadd (a b : vec) : vec := map (fun xy => oadd OP (fst xy) (snd xy)) (combine a b).
  Definition vscale (c : T) (a : vec) : vec := map (omul OP c) a.
  Definition dot (a b : vec) : T := fold_left (fun acc xy => oadd OP acc (omul OP (fst xy) (snd xy))) (combine a b) (o0 OP).
  Definition madd (A B : mat) : mat := map (fun rs => vadd (fst rs) (snd rs)) (combine A B).
  Definition mscale (c : T) (A : mat) : mat := map (vscale c) A.

  Fixpoint transpose_aux (m : nat) (A : mat) : mat :=
    match m with
    | O => []
    | S m' => transpose_aux m' A ++ [map (fun row => nth m' row (o0 OP)) A]
    end.
  Definition transpose (A : mat) : mat := transpose_aux (length (hd [] A)) A.

  Definition mmul (A B : mat) : mat :=
    let Bt := transpose B in map (fun row => map (fun col => dot row col) Bt) A.
  Definition mvec (A : mat) (v : vec) : vec := map (fun row => dot row v) A.     (* A @ v *)
  Definition vmat (v : vec) (A : mat) : vec := mvec (transpose A) v.             (* v @ A *)

  (* np.block of a (k+1) x (k+1) grid of n x n blocks *)
  Definition block_grid (blocks : list (list mat)) : mat :=
    flat_map (fun brow =>
      match brow with
      | [] => []
      | b0 :: _ => map (fun i => flat_map (fun b => nth i b []) brow) (seq 0 (length b0))
      end) blocks.

  (* A[r0:r0+nr, c0:c0+nc] *)
  Definition sub_block (A : mat) (r0 nr c0 nc : nat) : mat :=
    map (fun row => firstn nc (skipn c0 row)) (firstn nr (skipn r0 A)).

  Fixpoint mpow_sq (A : mat) (s : nat) : mat :=      (* A^(2^s) by repeated squaring *)
    match s with O => A | S s' => let B := mpow_sq A s' in mmul B B end.
End Matrix.
