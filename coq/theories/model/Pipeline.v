(* End-to-end model: configuration -> epochs (Demography.v) -> per-epoch generators (StateSpace.v)
   -> reward vectors (Rewards.v) -> statistics (PhaseType.v).  This mirrors Coalescent /
   PhaseTypeDistribution wiring: the state list and the reward vectors come from the first epoch,
   the generator is rebuilt for every epoch (StateSpace.update_epoch). Definitions only. *)
From Coq Require Import ZArith QArith List Arith Bool.
From PG Require Import base.Ops model.CoalModels model.StateSpace model.Rewards model.Demography
                       model.Matrix model.PhaseType.
Import ListNotations.

Section Pipeline.
  Context {T : Type} (OP : Ops T).
  Variable expm : mat (T:=T) -> mat (T:=T).

  Record config := mkConfig {
    c_model : cmodel (T:=T);
    c_beta_scale : T -> T -> T;      (* Beta time scale (contains real powers): supplied *)
    c_loci : nat;
    c_sample : list nat;              (* lineages per deme, in lineage_config order *)
    c_perm : list nat;                (* deme axis -> index of the population in the demography *)
    c_unlinked : nat;
    c_rec : T;
    c_lc : bool;                      (* lineage-counting or block-counting state space *)
    c_fuel : nat
  }.

  Definition params_of_epoch (c : config) (ep : epoch) : params (T:=T) :=
    let size d := oofQ OP (nth (nth d (c_perm c) 0%nat) (e_sizes ep) 1%Q) in
    let nd := length (c_sample c) in
    mkParams (c_model c)
             (map (fun d => timescale OP (c_beta_scale c) (c_model c) (size d)) (seq 0 nd))
             (map (fun d1 => map (fun d2 =>
                    oofQ OP (nth (nth d2 (c_perm c) 0%nat) (nth (nth d1 (c_perm c) 0%nat) (e_mig ep) []) 0%Q))
                    (seq 0 nd)) (seq 0 nd))
             (c_rec c) (c_lc c).

  Definition space_of (c : config) (ep : epoch) :=
    get_transitions OP (params_of_epoch c ep) (c_fuel c) (c_loci c) (length (c_sample c)) (sum_nat (c_sample c)).

  (* states (from the first epoch) and the generator of every epoch in that state order *)
  Definition generators (c : config) (eps : list epoch)
    : option (list state * list (Q * mat (T:=T)) * mat (T:=T)) :=
    match eps with
    | [] => None
    | ep0 :: _ =>
        match space_of c ep0 with
        | None => None
        | Some (states, _) =>
            let gen ep := match space_of c ep with
                          | Some (_, trans) => rate_matrix OP states trans
                          | None => []
                          end in
            let finite := filter (fun ep => match e_end ep with Some _ => true | None => false end) eps in
            let lastS := match find (fun ep => match e_end ep with None => true | _ => false end) eps with
                         | Some ep => gen ep
                         | None => gen (last eps ep0)       (* truncated epoch list: continue with the last one *)
                         end in
            Some (states,
                  map (fun ep => (match e_end ep with Some t => t | None => 0%Q end, gen ep)) finite,
                  lastS)
        end
    end.

  Inductive query : Type :=
  | QMoment (k : nat) (rs : list reward) (center permute : bool) (start_time end_time : Q)
  | QAccumulate (k : nat) (rs : list reward) (center permute : bool) (ts : list Q)
  | QCdf (ts : list Q).

  Definition answer_g (c : config) (g : option (list state * list (Q * mat (T:=T)) * mat (T:=T)))
             (lam : T) (q : query) : list T :=
    match g with
    | None => []
    | Some (states, Ss, Slast) =>
        let n := sum_nat (c_sample c) in
        let alpha := alpha_vec OP (c_sample c) (c_unlinked c) states in
        let rv r := reward_vector OP n r states in
        match q with
        | QMoment k rs center permute st en =>
            [moment OP expm k Ss Slast (map rv rs) alpha lam center permute st en]
        | QAccumulate k rs center permute ts =>
            accumulate OP expm k Ss Slast (map rv rs) alpha lam center permute ts
        | QCdf ts => cdf OP expm Ss Slast alpha (rv RTreeHeight) ts
        end
    end.

  Definition answer (c : config) (eps : list epoch) (lam : T) (q : query) : list T :=
    answer_g c (generators c eps) lam q.

  (* several queries against one configuration: the generators are built once *)
  Definition answers (c : config) (eps : list epoch) (lam : T) (qs : list query) : list (list T) :=
    let g := generators c eps in map (answer_g c g lam) qs.
End Pipeline.

Arguments mkConfig {T}.
Arguments c_model {T}. Arguments c_beta_scale {T}. Arguments c_loci {T}. Arguments c_sample {T}.
Arguments c_perm {T}. Arguments c_unlinked {T}. Arguments c_rec {T}. Arguments c_lc {T}. Arguments c_fuel {T}.
