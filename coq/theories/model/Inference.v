(* Model of the bookkeeping of phasegen/inference.py (C19): _run (selection of the best run),
   _sample (seeded start points), create_run (explicit start values, bounds check), add_run(s),
   add_bootstrap(s), create_bootstrap.  The optimiser (scipy L-BFGS-B) is an oracle returning
   (x, fun, success); the random generator is a stream of numbers u in [0,1).  Definitions only. *)
From Coq Require Import QArith List Bool.
Import ListNotations.
Open Scope Q_scope.

Record oresult := mkRes { r_x : list Q; r_fun : Q; r_success : bool }.

(* Python's min(results, key=lambda r: r.fun): the FIRST minimal element *)
Fixpoint argmin_first (best : oresult) (rs : list oresult) : oresult :=
  match rs with
  | [] => best
  | r :: rest => if Qlt_le_dec (r_fun r) (r_fun best) then argmin_first r rest else argmin_first best rest
  end.

Record inference := mkInf {
  i_bounds : list (Q * Q);
  i_x0 : option (list Q);                 (* _x0 *)
  i_params : option (list Q);             (* params_inferred *)
  i_loss : option Q;                      (* loss_inferred *)
  i_loss_runs : list Q;
  i_bootstraps : list (list Q)
}.

Definition within (bounds : list (Q * Q)) (x : list Q) : bool :=
  (Nat.eqb (length bounds) (length x)) &&
  forallb (fun bx => Qle_bool (fst (fst bx)) (snd bx) && Qle_bool (snd bx) (snd (fst bx))) (combine bounds x).

(* _sample: rng.uniform(lo, hi) for every parameter, consuming one number of the stream each *)
Fixpoint sample (bounds : list (Q * Q)) (us : list Q) : list Q * list Q :=
  match bounds, us with
  | (lo, hi) :: rest, u :: us' => let '(xs, us'') := sample rest us' in (lo + u * (hi - lo) :: xs, us'')
  | _, _ => ([], us)
  end.

(* start points of _run: x0 (given or sampled) followed by n_runs - 1 samples *)
Fixpoint samples (bounds : list (Q * Q)) (n : nat) (us : list Q) : list (list Q) * list Q :=
  match n with
  | O => ([], us)
  | S n' => let '(x, us1) := sample bounds us in let '(xs, us2) := samples bounds n' us1 in (x :: xs, us2)
  end.

Definition start_points (inf : inference) (n_runs : nat) (us : list Q) : list (list Q) :=
  match i_x0 inf with
  | Some x0 => x0 :: fst (samples (i_bounds inf) (n_runs - 1) us)
  | None => fst (samples (i_bounds inf) n_runs us)
  end.

(* _run with the optimiser as an oracle from start point to result *)
Definition run (opt : list Q -> oresult) (inf : inference) (n_runs : nat) (us : list Q) : inference :=
  match map opt (start_points inf n_runs us) with
  | [] => inf
  | r :: rs =>
      let best := argmin_first r rs in
      mkInf (i_bounds inf) (i_x0 inf) (Some (r_x best)) (Some (r_fun best)) (map r_fun (r :: rs)) (i_bootstraps inf)
  end.

(* add_run: concatenate the losses, keep the strictly lower loss; error if the other has not run *)
Definition add_run (self other : inference) : option inference :=
  match i_loss other with
  | None => None                                              (* RuntimeError *)
  | Some lo =>
      let take := match i_loss self with None => true | Some ls => if Qlt_le_dec lo ls then true else false end in
      Some (mkInf (i_bounds self) (i_x0 self)
                  (if take then i_params other else i_params self)
                  (if take then Some lo else i_loss self)
                  (i_loss_runs self ++ i_loss_runs other) (i_bootstraps self))
  end.

Fixpoint add_runs (self : inference) (others : list inference) : option inference :=
  match others with
  | [] => Some self
  | o :: rest => match add_run self o with Some s' => add_runs s' rest | None => None end
  end.

(* add_bootstrap: exactly one row; an Inference object must have run *)
Definition add_bootstrap_params (self : inference) (p : list Q) : inference :=
  mkInf (i_bounds self) (i_x0 self) (i_params self) (i_loss self) (i_loss_runs self) (i_bootstraps self ++ [p]).
Definition add_bootstrap (self other : inference) : option inference :=
  match i_loss other, i_params other with
  | Some _, Some p => Some (add_bootstrap_params self p)
  | _, _ => None
  end.

(* create_run(x0): the copy starts from x0; values outside the bounds are rejected (repaired code:
   the parent's cached start values are dropped) *)
Definition create_run (self : inference) (x0 : list Q) : option inference :=
  if within (i_bounds self) x0
  then Some (mkInf (i_bounds self) (Some x0) (i_params self) (i_loss self) (i_loss_runs self) (i_bootstraps self))
  else None.
