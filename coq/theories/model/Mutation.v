(* Model of the combinatorial part of the mutation-configuration machinery (C16):
     StateSpace._get_partitions        (all vectors of length k summing to n)
     FoldedSFSDistribution._unfold     (all unfolded configurations of a folded one)
     the fold map on configurations.   Definitions only. *)
From Coq Require Import List Arith Bool.
From PG Require Import model.CoalModels.
Import ListNotations.

(* _get_partitions(n, k): vectors of length k with non-negative entries summing to n
   (vector + [i] for i in range(n+1) for vector in partitions(n-i, k-1)) *)
Fixpoint partitions_sum (k : nat) (n : nat) : list (list nat) :=
  match k with
  | O => [[]]
  | S k' =>
      match k' with
      | O => [[n]]
      | _ => flat_map (fun i => map (fun v => v ++ [i]) (partitions_sum k' (n - i))) (seq 0 (S n))
      end
  end.

(* the fold map: unfolded configuration (length n-1, entry i-1 = mutations of frequency i)
   -> folded configuration (length n/2): bin i collects frequencies i and n-i *)
Definition fold_config (n : nat) (u : list nat) : list nat :=
  map (fun i => if Nat.eqb i (n - i) then nth (i - 1) u 0 else nth (i - 1) u 0 + nth (n - i - 1) u 0)
      (seq 1 (n / 2)).

(* itertools.product of ranges *)
Fixpoint product_ranges (rs : list (list nat)) : list (list nat) :=
  match rs with
  | [] => [[]]
  | r :: rest => flat_map (fun x => map (cons x) (product_ranges rest)) r
  end.

(* FoldedSFSDistribution._unfold(config) for n lineages *)
Definition unfold_config (n : nat) (config : list nat) : list (list nat) :=
  let odd := Nat.odd n in
  let lower_counts :=
      if odd then map (fun c => seq 0 (S c)) config
      else map (fun c => seq 0 (S c)) (removelast config) ++ [[last config 0]] in
  let i_center := if odd then length config else length config - 1 in
  map (fun lower =>
         let higher := rev (firstn i_center (map (fun cl => fst cl - snd cl) (combine config lower))) in
         lower ++ higher)
      (product_ranges lower_counts).
