(* Model of phasegen/rewards.py: every public reward class as a function of a state,
   CombinedReward's rewriting, and the state-space choice Reward.support. Definitions only. *)
From Coq Require Import ZArith List Arith Bool.
From PG Require Import base.Ops model.CoalModels model.StateSpace.
Import ListNotations.

Inductive reward : Type :=
| RTreeHeight
| RTotalTreeHeight
| RTotalBranchLength
| RUnfoldedSFS (i : nat)
| RFoldedSFS (i : nat)
| RLineage (n : nat)
| RDeme (d : nat)                (* index of the population on the state's deme axis *)
| RLocus (l : nat)
| RUnit
| RBlockCountingUnit
| RTBLLocus (l : nat)            (* TotalBranchLengthLocusReward *)
| RProduct (rs : list reward)
| RSum (rs : list reward).

Definition total_lineages (s : state) : nat :=
  sum_nat (map (fun l => sum3_locus (lin s) l) (seq 0 (n_loci s))).

(* lineages.sum(axis=(loci, blocks))[deme] *)
Definition deme_lineages (s : state) (d : nat) : nat :=
  sum_nat (map (fun l => sum_nat (nth d (nth l (lin s) []) [])) (seq 0 (n_loci s))).

(* lineages[:, :, b].sum over loci and demes *)
Definition block_lineages (s : state) (b : nat) : nat :=
  sum_nat (map (fun l => sum_nat (map (fun row => nth b row 0) (nth l (lin s) []))) (seq 0 (n_loci s))).

Section Rewards.
  Context {T : Type} (OP : Ops T).

  Definition ofb (b : bool) : T := if b then o1 OP else o0 OP.

  (* reward value of state s; n = lineage_config.n *)
  Fixpoint reward_get (n : nat) (r : reward) (s : state) : T :=
    match r with
    | RTreeHeight => ofb (existsb (fun l => Nat.ltb 1 (sum3_locus (lin s) l)) (seq 0 (n_loci s)))
    | RTotalTreeHeight =>
        oofN OP (length (filter (fun l => Nat.ltb 1 (sum3_locus (lin s) l)) (seq 0 (n_loci s))))
    | RTotalBranchLength =>
        oofN OP (sum_nat (map (fun l => let t := sum3_locus (lin s) l in if Nat.ltb 1 t then t else 0)
                              (seq 0 (n_loci s))))
    | RUnfoldedSFS i => oofN OP (block_lineages s (i - 1))
    | RFoldedSFS i =>
        if Nat.eqb i (n - i) then oofN OP (block_lineages s (i - 1))
        else oofN OP (block_lineages s (i - 1) + block_lineages s (n - i - 1))
    | RLineage m => ofb (Nat.eqb (total_lineages s) m)
    | RDeme d => odiv OP (oofN OP (deme_lineages s d)) (oofN OP (total_lineages s))
    | RLocus l => ofb (Nat.ltb 1 (sum3_locus (lin s) l))
    | RUnit => o1 OP
    | RBlockCountingUnit => o1 OP
    | RTBLLocus l => let t := sum3_locus (lin s) l in oofN OP (if Nat.ltb t 2 then 0 else t)
    | RProduct rs => oprod OP (map (fun r' => reward_get n r' s) rs)
    | RSum rs => osum OP (map (fun r' => reward_get n r' s) rs)
    end.

  Definition reward_vector (n : nat) (r : reward) (states : list state) : list T :=
    map (reward_get n r) states.
End Rewards.

(* ---- CombinedReward([...]): (TotalBranchLengthReward, LocusReward) -> TotalBranchLengthLocusReward ---- *)
Definition is_tbl (r : reward) : bool := match r with RTotalBranchLength => true | _ => false end.
(* isinstance(r, LocusReward): TotalBranchLengthLocusReward is a subclass of LocusReward *)
Definition is_locus (r : reward) : bool := match r with RLocus _ | RTBLLocus _ => true | _ => false end.
Definition locus_of (r : reward) : nat := match r with RLocus l | RTBLLocus l => l | _ => 0 end.

Fixpoint remove_first (p : reward -> bool) (l : list reward) : list reward :=
  match l with
  | [] => []
  | x :: l' => if p x then l' else x :: remove_first p l'
  end.

Fixpoint combine_loop (fuel : nat) (rs : list reward) : list reward :=
  match fuel with
  | O => rs
  | S fuel' =>
      match find is_tbl rs, find is_locus rs with
      | Some _, Some r2 =>
          combine_loop fuel' (remove_first is_locus (remove_first is_tbl rs) ++ [RTBLLocus (locus_of r2)])
      | _, _ => rs
      end
  end.

Definition combined_reward (rs : list reward) : reward := RProduct (combine_loop (length rs) rs).

(* ---- Reward.supports / Reward.support ---- *)
Fixpoint supports_lc (r : reward) : bool :=
  match r with
  | RUnfoldedSFS _ | RFoldedSFS _ | RBlockCountingUnit => false
  | RProduct rs | RSum rs => forallb supports_lc rs
  | _ => true
  end.
Fixpoint supports_bc (r : reward) : bool :=
  match r with
  | RLineage _ | RLocus _ | RTBLLocus _ => false
  | RProduct rs | RSum rs => forallb supports_bc rs
  | _ => true
  end.
(* Coalescent._get_dist: lineage counting iff every reward supports it *)
Definition choose_lc (rs : list reward) : bool := forallb supports_lc rs.
