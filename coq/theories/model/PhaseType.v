(* Model of the phase-type machinery of phasegen/distributions.py, written once over an operations
   record and a matrix-exponential backend [expm] (phasegen.expm.Backend):

     PhaseTypeDistribution._get_van_loan_matrix, _accumulate, accumulate (centering by
     inclusion-exclusion, averaging over reward permutations), moment (start/end time),
     TreeHeightDistribution.cdf, SFSDistribution.cov assembly.

   The epoch-aware loop itself is model/Loop.v; here it is instantiated with matrices.
   Definitions only. *)
From Coq Require Import ZArith QArith List Arith Bool.
From PG Require Import base.Ops base.Perm model.CoalModels model.Matrix model.Loop.
Import ListNotations.

Fixpoint subsets_of_size {A} (l : list A) (k : nat) : list (list A) :=   (* itertools.combinations *)
  match k, l with
  | O, _ => [[]]
  | S _, [] => []
  | S k', x :: l' => map (cons x) (subsets_of_size l' k') ++ subsets_of_size l' k
  end.

Fixpoint inserts {A} (x : A) (l : list A) : list (list A) :=
  match l with
  | [] => [[x]]
  | y :: l' => (x :: l) :: map (cons y) (inserts x l')
  end.
Fixpoint permutations {A} (l : list A) : list (list A) :=               (* itertools.permutations, as a set *)
  match l with
  | [] => [[]]
  | x :: l' => flat_map (inserts x) (permutations l')
  end.

Section PhaseType.
  Context {T : Type} (OP : Ops T).
  Variable expm : mat (T:=T) -> mat (T:=T).
  Notation "a *o b" := (omul OP a b) (at level 40, left associativity).
  Notation "a +o b" := (oadd OP a b) (at level 50, left associativity).

  (* np.block([[S if i == j else R[i] if i == j - 1 else O ...]]) *)
  Definition vanloan (Sg : mat) (Rs : list vec) (k : nat) : mat :=
    let n := length Sg in
    block_grid
      (map (fun i => map (fun j => if Nat.eqb i j then Sg
                                   else if Nat.eqb (i + 1) j then diagm OP (nth i Rs [])
                                   else mzero OP n n) (seq 0 (k + 1))) (seq 0 (k + 1))).

  Definition ones (n : nat) : vec := repeat (o1 OP) n.

  (* factorial(k) * lamb**k * alpha @ Q[:n, -n:] @ e *)
  Definition acc_out (k n : nat) (lam : T) (alpha : vec) (Qm : mat) : T :=
    oofZ OP (fact_Z k) *o opow OP lam k *o dot OP alpha (mvec OP (sub_block Qm 0 n (k * n) n) (ones n)).

  (* expm(V * dt / lamb) *)
  Definition vl_step (lam : T) (V : mat) (dt : Q) : mat :=
    expm (mscale OP (odiv OP (oofQ OP dt) lam) V).

  (* _accumulate(k, end_times, rewards): generators per epoch (end time, S), S of the last epoch,
     reward vectors (computed once), alpha, regularisation factor lam *)
  Definition accumulate_raw (k : nat) (Ss : list (Q * mat)) (Slast : mat) (Rs : list vec)
             (alpha : vec) (lam : T) (ts : list Q) : list T :=
    let n := length Slast in
    map (acc_out k n lam alpha)
        (loop_vectorised mat mat (mmul OP) (mid OP ((k + 1) * n)) (vl_step lam)
                         (map (fun eS => (fst eS, vanloan (mscale OP lam (snd eS)) Rs k)) Ss)
                         (vanloan (mscale OP lam Slast) Rs k) ts).

  Definition vsum (n : nat) (l : list vec) : vec := fold_left (vadd OP) l (vzero OP n).
  Definition vmul (a b : vec) : vec := map (fun xy => fst xy *o snd xy) (combine a b).
  Definition vprod (n : nat) (l : list vec) : vec := fold_left vmul l (ones n).

  (* accumulate(..., center=False): average over reward permutations when permute *)
  Definition accumulate_uncentered (k : nat) (Ss : list (Q * mat)) (Slast : mat) (Rs : list vec)
             (alpha : vec) (lam : T) (permute : bool) (ts : list Q) : list T :=
    let nt := length ts in
    match k with
    | O => ones nt
    | _ =>
        if permute then
          let ps := permutations Rs in
          vscale OP (oinv OP (oofN OP (length ps)))
                 (vsum nt (map (fun rs => accumulate_raw k Ss Slast rs alpha lam ts) ps))
        else accumulate_raw k Ss Slast Rs alpha lam ts
    end.

  (* accumulate(k, end_times, rewards, center, permute) *)
  Definition accumulate (k : nat) (Ss : list (Q * mat)) (Slast : mat) (Rs : list vec)
             (alpha : vec) (lam : T) (center permute : bool) (ts : list Q) : list T :=
    let nt := length ts in
    if center && Nat.ltb 1 k then
      let means := map (fun r => accumulate_uncentered 1 Ss Slast [r] alpha lam true ts) Rs in
      let idx := seq 0 k in
      vsum nt
        (flat_map (fun i =>
           map (fun indices =>
                  let mu_i := accumulate_uncentered i Ss Slast (map (fun j => nth j Rs []) indices) alpha lam permute ts in
                  let rest := filter (fun j => negb (existsb (Nat.eqb j) indices)) idx in
                  let mu1 := vprod nt (map (fun j => nth j means []) rest) in
                  let sign := if Nat.even (k - i) then o1 OP else oopp OP (o1 OP) in
                  vscale OP sign (vmul mu_i mu1))
               (subsets_of_size idx i)) (seq 0 (k + 1)))
    else accumulate_uncentered k Ss Slast Rs alpha lam permute ts.

  (* moment(k, rewards, start_time, end_time, center, permute) *)
  Definition moment (k : nat) (Ss : list (Q * mat)) (Slast : mat) (Rs : list vec) (alpha : vec) (lam : T)
             (center permute : bool) (start_time end_time : Q) : T :=
    if Qlt_le_dec 0 start_time then
      match accumulate k Ss Slast Rs alpha lam center permute [start_time; end_time] with
      | [m_start; m_end] => osub OP m_end m_start
      | _ => o0 OP
      end
    else nth 0 (accumulate k Ss Slast Rs alpha lam center permute [end_time]) (o0 OP).

  (* TreeHeightDistribution.cdf: 1 - alpha @ T @ e, e = tree-height reward (1 on non-absorbing states) *)
  Definition cdf (Ss : list (Q * mat)) (Slast : mat) (alpha e : vec) (ts : list Q) : list T :=
    let n := length Slast in
    map (fun Tm => osub OP (o1 OP) (dot OP alpha (mvec OP Tm e)))
        (loop_vectorised mat mat (mmul OP) (mid OP n)
                         (fun Sg dt => expm (mscale OP (oofQ OP dt) Sg)) Ss Slast ts).
End PhaseType.
