(* The LABELLED ancestral process of which the count chains of StateSpace.v claim to be the
   lumping (projection), the projections, and the per-state lumping criterion.

   PART 1 is the specification (ground truth, independent of phasegen's code):
     - one locus: structured Lambda-coalescent on set partitions of the samples,
     - two loci:  the ancestral recombination graph (Kingman),
     - the projections onto lineage counts / block counts,
     - the criterion "the count chain's outgoing rates at pi(x) are the lumped labelled rates at x".
   PART 2 is reflection machinery (breadth-first search, indexed membership, group checker); it is
   NOT part of the specification: proofs/LumpingProofs.v proves it sound w.r.t. PART 1.

   Definitions only. *)
From Coq Require Import ZArith QArith List Arith Bool PArith FSets.FMapPositive MSets.MSetPositive.
From PG Require Import base.Ops model.CoalModels model.StateSpace model.Check.
Import ListNotations.
Close Scope Q_scope.

(* ====================================================================================== *)
(* PART 1 - specification                                                                  *)
(* ====================================================================================== *)

(* ---------- small list combinatorics ---------- *)
Fixpoint insert_by {A} (leb : A -> A -> bool) (a : A) (l : list A) : list A :=
  match l with
  | [] => [a]
  | b :: l' => if leb a b then a :: l else b :: insert_by leb a l'
  end.
Definition isort {A} (leb : A -> A -> bool) (l : list A) : list A :=
  fold_right (insert_by leb) [] l.

(* lexicographic order on lists of sample ids, [] smallest *)
Fixpoint lex_leb (a b : list nat) : bool :=
  match a, b with
  | [], _ => true
  | _ :: _, [] => false
  | x :: a', y :: b' => if Nat.ltb x y then true else if Nat.ltb y x then false else lex_leb a' b'
  end.

(* union of disjoint sorted id sets, sorted *)
Definition union_ids (bs : list (list nat)) : list nat := isort Nat.leb (concat bs).

(* every element together with the remaining ones *)
Fixpoint picks {A} (l : list A) : list (A * list A) :=
  match l with
  | [] => []
  | x :: l' => (x, l') :: map (fun yr => (fst yr, x :: snd yr)) (picks l')
  end.

(* every unordered pair together with the remaining elements *)
Fixpoint pairs {A} (l : list A) : list (A * A * list A) :=
  match l with
  | [] => []
  | x :: l' => map (fun yr => (x, fst yr, snd yr)) (picks l')
               ++ map (fun abr => (fst (fst abr), snd (fst abr), x :: snd abr)) (pairs l')
  end.

(* every (subset, complement) of a list *)
Fixpoint splits {A} (l : list A) : list (list A * list A) :=
  match l with
  | [] => [([], [])]
  | x :: l' => flat_map (fun kr => [(x :: fst kr, snd kr); (fst kr, x :: snd kr)]) (splits l')
  end.

(* sample i (numbered 0.. in deme order) lives in deme [nth i (sample_demes config)] *)
Definition sample_demes (config : list nat) : list nat :=
  concat (map (fun dc => repeat (fst dc) (snd dc)) (combine (seq 0 (length config)) config)).

Definition count_if {A} (f : A -> bool) (l : list A) : nat := length (filter f l).
Definition nonempty (l : list nat) : bool := match l with [] => false | _ => true end.

(* ---------- events and their rates ---------- *)
Inductive event : Type :=
| EMig (p q : nat)          (* one lineage moves from deme p to deme q *)
| EMerge (d b k : nat)      (* one particular set of k out of the b lineages of deme d merges *)
| ERec.                     (* one particular lineage recombines *)

Definition is_mig (e : event) : bool := match e with EMig _ _ => true | _ => false end.

Section Rates.
  Context {T : Type} (OP : Ops T).
  Notation "a +o b" := (oadd OP a b) (at level 50, left associativity).
  Notation "a *o b" := (omul OP a b) (at level 40, left associativity).

  (* rate at which ONE PARTICULAR set of k out of b lineages merges (Lambda-coalescent
     lambda_{b,k}); [get_rate_bk] of CoalModels.v is C(b,k) times this *)
  Definition lam (m : cmodel (T:=T)) (b k : nat) : T :=
    let pair := if Nat.eqb k 2 then o1 OP else o0 OP in
    match m with
    | Kingman => pair
    | Beta alpha _ => beta_base OP alpha b k
    | Dirac psi c _ => pair +o c *o opow OP psi k *o opow OP (osub OP (o1 OP) psi) (b - k)
    end.

  Definition erate (P : params (T:=T)) (e : event) : T :=
    match e with
    | EMig p q => mig_rate OP P p q
    | EMerge d b k => odiv OP (lam (p_model P) b k) (tscale_of OP P d)
    | ERec => p_rec P
    end.
End Rates.

(* ---------- one locus: blocks of sample ids, each in a deme ---------- *)
Definition lblock := (list nat * nat)%type.             (* (sorted sample ids, deme) *)
Definition lstate := list lblock.                       (* sorted by block *)

Definition canon1 : list lblock -> lstate := isort (fun a b => lex_leb (fst a) (fst b)).

Definition linit (config : list nat) : lstate :=
  map (fun id => ([fst id], snd id)) (combine (seq 0 (sum_nat config)) (sample_demes config)).

Definition levents1 (nd : nat) (x : lstate) : list (event * lstate) :=
  (* (i) every block of deme p moves to every other deme q *)
  flat_map (fun br =>
    let '((b, p), rest) := br in
    flat_map (fun q => if Nat.eqb p q then [] else [(EMig p q, canon1 ((b, q) :: rest))]) (seq 0 nd))
    (picks x)
  ++
  (* (ii) every set K of k >= 2 blocks of deme d merges into its union *)
  flat_map (fun d =>
    let '(ins, outs) := partition (fun bd => Nat.eqb (snd bd) d) x in
    flat_map (fun kr =>
      let '(K, R) := kr in
      if Nat.leb 2 (length K)
      then [(EMerge d (length ins) (length K), canon1 ((union_ids (map fst K), d) :: R ++ outs))]
      else []) (splits ins)) (seq 0 nd).

(* lineage-counting projection: number of blocks per deme *)
Definition pi_LC (nd : nat) (x : lstate) : state :=
  mkState [map (fun d => [count_if (fun bd => Nat.eqb (snd bd) d) x]) (seq 0 nd)]
          (zeros3 1 nd 1).

(* block-counting projection: entry i of deme d = number of blocks of size i+1 in deme d *)
Definition pi_BC (nd n : nat) (x : lstate) : state :=
  mkState [map (fun d => map (fun i =>
             count_if (fun bd => Nat.eqb (snd bd) d && Nat.eqb (length (fst bd)) (S i)) x) (seq 0 n))
             (seq 0 nd)]
          (zeros3 1 nd n).

Definition pi1 (lc : bool) (nd n : nat) : lstate -> state := if lc then pi_LC nd else pi_BC nd n.

(* ---------- two loci: the ancestral recombination graph ---------- *)
Definition lineage := (list nat * list nat * nat)%type.  (* (ids at locus 0, ids at locus 1, deme) *)
Definition lstate2 := list lineage.                      (* sorted by (locus-0 ids, locus-1 ids) *)

Definition lineage_leb (a b : lineage) : bool :=
  let '(A1, B1, _) := a in let '(A2, B2, _) := b in
  if list_eqb Nat.eqb A1 A2 then lex_leb B1 B2 else lex_leb A1 A2.
Definition canon2 : list lineage -> lstate2 := isort lineage_leb.

(* the first n - n_unlinked samples are linked, each of the others is two half-lineages *)
Definition linit2 (config : list nat) (n_unlinked : nat) : lstate2 :=
  let n := sum_nat config in
  canon2 (flat_map (fun id =>
            let '(i, d) := id in
            if Nat.ltb i (n - n_unlinked) then [([i], [i], d)] else [([i], [], d); ([], [i], d)])
          (combine (seq 0 n) (sample_demes config))).

Definition levents2 (nd : nat) (x : lstate2) : list (event * lstate2) :=
  (* (i) every lineage migrates *)
  flat_map (fun lr =>
    let '((A, B, p), rest) := lr in
    flat_map (fun q => if Nat.eqb p q then [] else [(EMig p q, canon2 ((A, B, q) :: rest))]) (seq 0 nd))
    (picks x)
  ++
  (* (ii) every unordered pair of lineages of the same deme coalesces *)
  flat_map (fun pr =>
    let '((A1, B1, d1), (A2, B2, d2), rest) := pr in
    if Nat.eqb d1 d2
    then [(EMerge d1 (count_if (fun l => Nat.eqb (snd l) d1) x) 2,
           canon2 ((union_ids [A1; A2], union_ids [B1; B2], d1) :: rest))]
    else []) (pairs x)
  ++
  (* (iii) every lineage with material at both loci recombines *)
  flat_map (fun lr =>
    let '((A, B, d), rest) := lr in
    if nonempty A && nonempty B then [(ERec, canon2 ((A, [], d) :: ([], B, d) :: rest))] else [])
    (picks x).

(* lin[l][d][0] = lineages of deme d with material at locus l; lnk[l][d][0] = those with both *)
Definition pi_2 (nd : nat) (x : lstate2) : state :=
  let cnt f := map (fun d => [count_if (fun l : lineage => Nat.eqb (snd l) d && f l) x]) (seq 0 nd) in
  let both := cnt (fun l => nonempty (fst (fst l)) && nonempty (snd (fst l))) in
  mkState [cnt (fun l => nonempty (fst (fst l))); cnt (fun l => nonempty (snd (fst l)))] [both; both].

(* ---------- reachability in the labelled process (through all events, rate 0 included) ---------- *)
Inductive reach {X : Type} (step : X -> list X) (x0 : X) : X -> Prop :=
| reach_refl : reach step x0 x0
| reach_step : forall x y, reach step x0 x -> In y (step x) -> reach step x0 y.

Definition targets_of {X : Type} (ev : X -> list (event * X)) (x : X) : list X := map snd (ev x).

(* ---------- the lumping criterion at one labelled state ---------- *)
Definition rate_in (tg : targets (T:=Q)) (c : state) : Q :=    (* as StateSpace.lookup_rate *)
  match find (fun e => state_eqb (fst e) c) tg with Some (_, r) => r | None => 0%Q end.

Definition lumped (lab : list (state * Q)) (c : state) : Q :=
  fold_right (fun cr acc => if state_eqb (fst cr) c then oadd OpsQ (snd cr) acc else acc) 0%Q lab.

(* At x with c = pi x: for every count state c' <> c, the labelled rates into pi^-1(c') sum to the
   count chain's rate c -> c'.  Where the count chain calls c absorbing, it is compared with the
   labelled MIGRATION events only ("absorbing states only migrate").  The count chain's target
   dictionary has no repeated key. *)
Definition lump_ok {X : Type} (P : params (T:=Q)) (pi : X -> state) (ev : X -> list (event * X))
           (x : X) : bool :=
  let c := pi x in
  let cnt := transit OpsQ P c in
  let evs := if is_absorbing c then filter (fun ey => is_mig (fst ey)) (ev x) else ev x in
  let lab := map (fun ey => (pi (snd ey), erate OpsQ P (fst ey))) evs in
  nodup_states (map fst cnt) &&
  forallb (fun c' => state_eqb c' c || Qeq_bool (lumped lab c') (rate_in cnt c'))
          (map fst cnt ++ map fst lab).

Definition lump_fuel : nat := 64.   (* BFS levels granted to StateSpace.get_transitions *)

(* The statement proved for every configuration of the bounded domain: the BFS of StateSpace.v
   terminates, lists no state twice, lists exactly the projections of the labelled states reachable
   from x0, and the criterion holds at every reachable labelled state. *)
Definition lumping_claim {X : Type} (P : params (T:=Q)) (nl nd n : nat)
           (pi : X -> state) (ev : X -> list (event * X)) (x0 : X) : Prop :=
  exists states trans,
    get_transitions OpsQ P lump_fuel nl nd n = Some (states, trans) /\
    NoDup states /\
    (forall x, reach (targets_of ev) x0 x -> In (pi x) states /\ lump_ok P pi ev x = true) /\
    (forall c, In c states -> exists x, reach (targets_of ev) x0 x /\ pi x = c).

(* ---------- the domain and the valuations of the bounded theorems ---------- *)
(* all compositions of n into nd parts, zeros allowed *)
Fixpoint compositions (n nd : nat) : list (list nat) :=
  match nd with
  | O => if Nat.eqb n 0 then [[]] else []
  | S nd' => flat_map (fun k => map (cons k) (compositions (n - k) nd')) (seq 0 (S n))
  end.

Record valuation := mkVal { v_tscale : list Q; v_mig : list (list Q); v_rec : Q }.

Definition valuation1 : valuation :=
  mkVal [3#2; 5#7; 11#3]%Q
        [[0; 9#5; 16#5]; [5#6; 0; 19#6]; [8#7; 15#7; 0]]%Q     (* (2+3p+7q)/(5+p) *)
        (13#4)%Q.
Definition valuation2 : valuation :=
  mkVal [7#5; 2#9; 13#6]%Q
        [[0; 5#9; 7#11]; [8#7; 0; 12#11]; [13#7; 15#9; 0]]%Q   (* (3+5p+2q)/(7+2q) *)
        (17#5)%Q.
Definition valuations : list valuation := [valuation1; valuation2].

Definition models : list (cmodel (T:=Q)) :=
  [Kingman; Beta (3#2)%Q false; Beta (7#4)%Q false; Dirac (1#3)%Q (5#2)%Q false].

Definition mkP (V : valuation) (m : cmodel (T:=Q)) (lc : bool) : params (T:=Q) :=
  mkParams m (v_tscale V) (v_mig V) (v_rec V) lc.

(* ====================================================================================== *)
(* PART 2 - reflection machinery (proved sound in proofs/LumpingProofs.v)                  *)
(* ====================================================================================== *)

(* a positive number per state, used only to index sets and maps (injectivity is not needed
   for soundness: a collision makes a check fail, never succeed) *)
Definition enc_digits (l : list nat) : positive :=
  fold_left (fun p d => Pos.add (Pos.mul p 16) (Pos.of_succ_nat d)) l 1%positive.
Definition enc1 (x : lstate) : positive :=
  enc_digits (flat_map (fun bd => map S (fst bd) ++ [0; snd bd]) x).
Definition enc2 (x : lstate2) : positive :=
  enc_digits (flat_map (fun l => map S (fst (fst l)) ++ [0] ++ map S (snd (fst l)) ++ [0; snd l]) x).

Definition lblock_eqb (a b : lblock) : bool := list_eqb Nat.eqb (fst a) (fst b) && Nat.eqb (snd a) (snd b).
Definition lstate_eqb : lstate -> lstate -> bool := list_eqb lblock_eqb.
Definition lineage_eqb (a b : lineage) : bool :=
  list_eqb Nat.eqb (fst (fst a)) (fst (fst b)) && list_eqb Nat.eqb (snd (fst a)) (snd (fst b))
  && Nat.eqb (snd a) (snd b).
Definition lstate2_eqb : lstate2 -> lstate2 -> bool := list_eqb lineage_eqb.

Section Search.
  Context {X : Type} (enc : X -> positive) (eqb : X -> X -> bool) (step : X -> list X).

  Fixpoint add_new (cands : list X) (seen : PositiveSet.t) (new : list X) : PositiveSet.t * list X :=
    match cands with
    | [] => (seen, new)
    | y :: cs =>
        if PositiveSet.mem (enc y) seen then add_new cs seen new
        else add_new cs (PositiveSet.add (enc y) seen) (y :: new)
    end.

  Fixpoint search (fuel : nat) (frontier : list X) (seen : PositiveSet.t) (acc : list X)
    : option (list X) :=
    match fuel with
    | O => None
    | S fuel' =>
        match frontier with
        | [] => Some acc
        | _ => let '(seen', new) := add_new (flat_map step frontier) seen [] in
               search fuel' new seen' (new ++ acc)
        end
    end.

  Definition reachable_list (fuel : nat) (x0 : X) : option (list X) :=
    search fuel [x0] (PositiveSet.add (enc x0) PositiveSet.empty) [x0].

  Definition index (L : list X) : PositiveMap.t X :=
    fold_left (fun M x => PositiveMap.add (enc x) x M) L (PositiveMap.empty X).
  Definition memM (M : PositiveMap.t X) (y : X) : bool :=
    match PositiveMap.find (enc y) M with Some x => eqb x y | None => false end.

  Definition closed_b (M : PositiveMap.t X) (L : list X) : bool :=
    forallb (fun x => forallb (memM M) (step x)) L.

  (* x0 -> p1 -> p2 -> ... each a step or a repetition *)
  Fixpoint path_ok (x : X) (p : list X) : bool :=
    match p with
    | [] => true
    | y :: p' => (eqb x y || existsb (eqb y) (step x)) && path_ok y p'
    end.
End Search.

Definition search_fuel : nat := 64.   (* levels granted to the labelled search *)

(* One group = all configurations with the same labelled state space.  [base] is the state the
   search starts from, [inits] the initial labelled states of the group's configurations, each with
   a path leading to [base]. *)
Definition check_group {X : Type} (enc : X -> positive) (eqb : X -> X -> bool)
           (ev : X -> list (event * X)) (pi_of : params (T:=Q) -> X -> state)
           (nl nd n : nat) (base : X) (inits : list (X * list X)) (Ps : list (params (T:=Q))) : bool :=
  match reachable_list enc (targets_of ev) search_fuel base with
  | None => false
  | Some L =>
      let M := index enc L in
      closed_b enc eqb (targets_of ev) M L &&
      forallb (fun ip => memM enc eqb M (fst ip) && path_ok eqb (targets_of ev) (fst ip) (snd ip)
                         && eqb (last (snd ip) (fst ip)) base) inits &&
      forallb (fun P =>
        match get_transitions OpsQ P lump_fuel nl nd n with
        | None => false
        | Some (states, _) =>
            let pi := pi_of P in
            nodup_states states &&
            forallb (fun x => mem_state (pi x) states && lump_ok P pi ev x) L &&
            forallb (fun c => existsb (fun x => state_eqb (pi x) c) L) states
        end) Ps
  end.

(* paths from an initial state to the group's base state (all samples in deme 0, all linked) *)
Fixpoint prefixes_moved {A} (f : A -> A) (done todo : list A) : list (list A) :=
  match todo with
  | [] => []
  | a :: todo' => (done ++ f a :: todo') :: prefixes_moved f (done ++ [f a]) todo'
  end.

Definition path1 (x : lstate) : list lstate :=
  prefixes_moved (fun bd : lblock => (fst bd, 0)) [] x.

(* re-link sample i: replace ({i},{}) and ({},{i}) by ({i},{i}) *)
Definition relink (i : nat) (x : lstate2) : lstate2 :=
  match find (fun l : lineage => list_eqb Nat.eqb (fst (fst l)) [i]) x with
  | Some (_, [], d) =>
      canon2 (([i], [i], d) :: filter (fun l : lineage =>
                negb (list_eqb Nat.eqb (fst (fst l)) [i] && negb (nonempty (snd (fst l))))
                && negb (list_eqb Nat.eqb (snd (fst l)) [i] && negb (nonempty (fst (fst l))))) x)
  | _ => x
  end.
Fixpoint relink_path (ids : list nat) (x : lstate2) : list lstate2 :=
  match ids with
  | [] => []
  | i :: ids' => let y := relink i x in y :: relink_path ids' y
  end.
Definition path2 (n : nat) (x : lstate2) : list lstate2 :=
  let p := relink_path (seq 0 n) x in
  p ++ prefixes_moved (fun l : lineage => (fst l, 0)) [] (last p x).

Definition all_params (lcs : list bool) : list (params (T:=Q)) :=
  flat_map (fun V => flat_map (fun m => map (mkP V m) lcs) models) valuations.

Definition base_config (n nd : nat) : list nat := n :: repeat 0 (nd - 1).

Definition check_group1 (n nd : nat) : bool :=
  check_group enc1 lstate_eqb (levents1 nd) (fun P => pi1 (p_lc P) nd n) 1 nd n
              (linit (base_config n nd))
              (map (fun c => (linit c, path1 (linit c))) (compositions n nd))
              (all_params [true; false]).

Definition check_group2 (n nd : nat) : bool :=
  check_group enc2 lstate2_eqb (levents2 nd) (fun _ => pi_2 nd) 2 nd n
              (linit2 (base_config n nd) 0)
              (flat_map (fun c => map (fun u => (linit2 c u, path2 n (linit2 c u))) (seq 0 (S n)))
                        (compositions n nd))
              (map (fun V => mkP V Kingman true) valuations).
