(* Model of the mutable part of PhaseGen that query histories share (C17):

     StateSpace.{epoch, S (cached_property), _cache, cache}, update_epoch, drop_S, drop_cache,
     _get_rate_matrix; functools.cache memo tables keyed by argument equality; the shared state
     spaces of Inference.get_coal.

   Epochs, transition dictionaries and matrices are abstract; [eqk] is the key equality used both by
   update_epoch ("self.epoch != epoch") and by the dictionary lookup ("self.epoch in self._cache"),
   i.e. Epoch.__eq__ together with Epoch.__hash__.  Definitions only. *)
From Coq Require Import List Bool.
Import ListNotations.

Section Cache.
  Variables Epoch Tr Mx : Type.
  Variable eqk : Epoch -> Epoch -> bool.
  Variable trans_of : Epoch -> Tr.          (* StateSpace.get_transitions under the epoch's rates *)
  Variable mat_of : Tr -> Mx.               (* StateSpace._graph_to_matrix *)

  Record sspace := mkSS {
    ss_epoch : Epoch;
    ss_S : option Mx;                      (* the cached_property S, if present *)
    ss_cache : list (Epoch * Tr);          (* _cache *)
    ss_flag : bool                         (* cache *)
  }.

  Definition lookup (e : Epoch) (c : list (Epoch * Tr)) : option Tr :=
    match find (fun kv => eqk (fst kv) e) c with Some kv => Some (snd kv) | None => None end.

  (* update_epoch: drop S iff the epoch compares unequal *)
  Definition update_epoch (s : sspace) (e : Epoch) : sspace :=
    mkSS e (if eqk (ss_epoch s) e then ss_S s else None) (ss_cache s) (ss_flag s).

  (* reading the property S (computing it through _get_rate_matrix when absent) *)
  Definition get_S (s : sspace) : sspace * Mx :=
    match ss_S s with
    | Some m => (s, m)
    | None =>
        let '(tr, c') :=
          if ss_flag s then
            match lookup (ss_epoch s) (ss_cache s) with
            | Some tr => (tr, ss_cache s)
            | None => (trans_of (ss_epoch s), ss_cache s ++ [(ss_epoch s, trans_of (ss_epoch s))])
            end
          else (trans_of (ss_epoch s), ss_cache s) in
        let m := mat_of tr in
        (mkSS (ss_epoch s) (Some m) c' (ss_flag s), m)
    end.

  Definition drop_S (s : sspace) : sspace := mkSS (ss_epoch s) None (ss_cache s) (ss_flag s).
  Definition drop_cache (s : sspace) : sspace := mkSS (ss_epoch s) None [] (ss_flag s).
  Definition set_flag (s : sspace) (b : bool) : sspace := mkSS (ss_epoch s) (ss_S s) (ss_cache s) b.

  (* a statistic walks through a sequence of epochs: update_epoch, then read S, for each of them
     (the loops of _accumulate / cdf / _update); it returns a function of the matrices it read *)
  Fixpoint walk (s : sspace) (eps : list Epoch) : sspace * list Mx :=
    match eps with
    | [] => (s, [])
    | e :: rest =>
        let '(s1, m) := get_S (update_epoch s e) in
        let '(s2, ms) := walk s1 rest in
        (s2, m :: ms)
    end.

  Inductive op : Type :=
  | OQuery (eps : list Epoch)        (* any public statistic *)
  | OUpdate (e : Epoch)
  | ODropS
  | ODropCache
  | OSetFlag (b : bool).

  Definition step (s : sspace) (o : op) : sspace * list Mx :=
    match o with
    | OQuery eps => walk s eps
    | OUpdate e => (update_epoch s e, [])
    | ODropS => (drop_S s, [])
    | ODropCache => (drop_cache s, [])
    | OSetFlag b => (set_flag s b, [])
    end.

  Fixpoint run (s : sspace) (ops : list op) : sspace * list (list Mx) :=
    match ops with
    | [] => (s, [])
    | o :: rest =>
        let '(s1, out) := step s o in
        let '(s2, outs) := run s1 rest in
        (s2, out :: outs)
    end.

  (* what a fresh object returns for the same operation *)
  Definition pure (o : op) : list Mx :=
    match o with
    | OQuery eps => map (fun e => mat_of (trans_of e)) eps
    | _ => []
    end.

  Definition fresh (e : Epoch) (flag : bool) : sspace := mkSS e None [] flag.

  (* the invariant that makes caching transparent *)
  Definition Inv (s : sspace) : Prop :=
    (forall m, ss_S s = Some m -> m = mat_of (trans_of (ss_epoch s))) /\
    (forall e tr, In (e, tr) (ss_cache s) -> tr = trans_of e).
End Cache.

(* functools.cache: memo table keyed by argument equality *)
Section Memo.
  Variables A B : Type.
  Variable eqa : A -> A -> bool.
  Variable f : A -> B.

  Definition memo := list (A * B).
  Definition memo_call (m : memo) (a : A) : memo * B :=
    match find (fun kv => eqa (fst kv) a) m with
    | Some kv => (m, snd kv)
    | None => (m ++ [(a, f a)], f a)
    end.
  Fixpoint memo_run (m : memo) (args : list A) : memo * list B :=
    match args with
    | [] => (m, [])
    | a :: rest => let '(m1, b) := memo_call m a in let '(m2, bs) := memo_run m1 rest in (m2, b :: bs)
    end.
  Definition memo_inv (m : memo) : Prop := forall a b, In (a, b) m -> b = f a.
End Memo.
