(* Equivalence of the GENERATED translation of the moment assembly of phasegen/distributions.py
   (gen/MomentsGen.v, regenerated from PhaseTypeDistribution.accumulate and PhaseTypeDistribution.moment by
   /verif/translate/moments2coq.py on every run of the checks that depend on them) with the hand-written model:
   [accumulate_uncentered], [accumulate] and [moment] of model/PhaseType.v - the functions that the centring
   (inclusion-exclusion), symmetry, window and additivity theorems of proofs/PhaseTypeProofs.v are about.

   Part 1 (any element type): itertools.permutations (it_permutations of gen/NpMoments.v, itertools' own order, by
   position) is a rearrangement of the insertion-based [permutations] of the model; the nested `for` loops that append
   to `components` build the flat_map of the model.
   Part 2 (over the reals, any backend [expm]): with `self._accumulate` instantiated by the model's [accumulate_raw] and
   k rewards (k = len(rewards) is the guard of the source that raises otherwise),

     gen_accumulate_nc_eq    the non-centring part          = accumulate_uncentered
     gen_accumulate_eq       PhaseTypeDistribution.accumulate = accumulate        (every k, center, permute, list of times)
     gen_moment_eq           PhaseTypeDistribution.moment     = moment            (explicit and default start / end time)

   The reals are used for: the sum over all orderings does not depend on the order in which they are listed; x / n = /n * x;
   (-1)^(k-i) * a * b = sign * (a * b). *)
From Coq Require Import ZArith QArith Reals List Arith Bool Lia Lra Permutation.
From PG Require Import base.Ops base.OpsR base.Perm model.CoalModels model.Matrix model.Loop model.PhaseType.
From PG Require Import proofs.PhaseTypeProofs gen.NpMoments gen.MomentsGen.
Import ListNotations.

(* ====================================================================================== *)
(* Part 1: itertools.permutations                                                          *)
(* ====================================================================================== *)
Section ItPerms.
  Variable A : Type.

  Lemma selects_length : forall (l : list A) p, In p (selects l) -> S (length (snd p)) = length l.
  Proof.
    induction l as [|x l IH]; intros p Hp; [destruct Hp|].
    cbn [selects] in Hp. destruct Hp as [<-|Hp]; [reflexivity|].
    apply in_map_iff in Hp. destruct Hp as [q [<- Hq]]. cbn [snd length]. f_equal. apply IH. exact Hq.
  Qed.

  Lemma Permutation_flat_map_in : forall (B C : Type) (F G : B -> list C) (L : list B),
      (forall p, In p L -> Permutation (F p) (G p)) -> Permutation (flat_map F L) (flat_map G L).
  Proof.
    intros B C F G L. induction L as [|a L IH]; intros H; cbn [flat_map]; [constructor|].
    apply Permutation_app; [apply H; left; reflexivity | apply IH; intros p Hp; apply H; right; exact Hp].
  Qed.

  Lemma flat_map_app_split : forall (B C : Type) (F G : B -> list C) (L : list B),
      Permutation (flat_map (fun p => F p ++ G p) L) (flat_map F L ++ flat_map G L).
  Proof.
    intros B C F G L. induction L as [|a L IH]; cbn [flat_map]; [constructor|].
    rewrite IH. rewrite <- !app_assoc. apply Permutation_app_head.
    rewrite !app_assoc. apply Permutation_app_tail. apply Permutation_app_comm.
  Qed.

  Lemma map_flat_map : forall (B C D : Type) (h : C -> D) (F : B -> list C) (L : list B),
      map h (flat_map F L) = flat_map (fun p => map h (F p)) L.
  Proof. intros. induction L as [|a L IH]; cbn [flat_map map]; [reflexivity|]. rewrite map_app, IH. reflexivity. Qed.

  Lemma flat_map_flat_map : forall (B C D : Type) (h : C -> list D) (F : B -> list C) (L : list B),
      flat_map h (flat_map F L) = flat_map (fun p => flat_map h (F p)) L.
  Proof. intros. induction L as [|a L IH]; cbn [flat_map]; [reflexivity|]. rewrite flat_map_app, IH. reflexivity. Qed.

  Lemma flat_map_ext_in' : forall (B C : Type) (F G : B -> list C) (L : list B),
      (forall p, In p L -> F p = G p) -> flat_map F L = flat_map G L.
  Proof.
    intros B C F G L. induction L as [|a L IH]; intros H; cbn [flat_map]; [reflexivity|].
    rewrite (H a (or_introl eq_refl)), IH; [reflexivity|]. intros p Hp. apply H. right. exact Hp.
  Qed.

  (* one more element in front: the orderings of x :: l are the orderings of l with x inserted at every place *)
  Lemma it_perms_cons : forall f (l : list A) x,
      length l = f ->
      Permutation (it_perms_fuel (S f) (x :: l)) (flat_map (inserts x) (it_perms_fuel f l)).
  Proof.
    induction f as [|f IH]; intros l x Hl.
    - destruct l; [|discriminate]. cbn. apply Permutation_refl.
    - destruct l as [|y l]; [discriminate|].
      set (L := selects (y :: l)).
      assert (HL : forall p, In p L -> length (snd p) = f).
      { intros p Hp. apply selects_length in Hp. cbn [length] in Hp, Hl. lia. }
      (* left-hand side *)
      assert (E1 : it_perms_fuel (S (S f)) (x :: y :: l)
                   = map (cons x) (it_perms_fuel (S f) (y :: l))
                     ++ flat_map (fun p => map (cons (fst p)) (it_perms_fuel (S f) (x :: snd p))) L).
      { change (it_perms_fuel (S (S f)) (x :: y :: l))
          with (flat_map (fun p => map (cons (fst p)) (it_perms_fuel (S f) (snd p))) (selects (x :: y :: l))).
        change (selects (x :: y :: l)) with ((x, y :: l) :: map (fun p => (fst p, x :: snd p)) L).
        cbn [flat_map fst snd]. f_equal. rewrite flat_map_map'. reflexivity. }
      assert (E2 : it_perms_fuel (S f) (y :: l) = flat_map (fun p => map (cons (fst p)) (it_perms_fuel f (snd p))) L).
      { reflexivity. }
      rewrite E1. rewrite E2 at 2. rewrite flat_map_flat_map.
      (* right-hand side, per element of L *)
      eapply Permutation_trans.
      2:{ apply Permutation_sym. apply Permutation_flat_map_in. intros p _. apply flat_inserts_cons. }
      eapply Permutation_trans. 2:{ apply Permutation_sym. apply flat_map_app_split. }
      apply Permutation_app.
      + rewrite E2. rewrite map_flat_map. apply Permutation_flat_map_in. intros p _. rewrite map_map. apply Permutation_refl.
      + apply Permutation_flat_map_in. intros p Hp. apply Permutation_map. apply IH. apply HL. exact Hp.
  Qed.

  Theorem it_permutations_perm : forall l : list A, Permutation (it_permutations l) (permutations l).
  Proof.
    induction l as [|x l IH]; [apply Permutation_refl|].
    unfold it_permutations. cbn [length].
    eapply Permutation_trans; [apply it_perms_cons; reflexivity|].
    cbn [permutations]. apply Permutation_flat_map. exact IH.
  Qed.
End ItPerms.

(* the nested loops `for i ..: for c in ..: acc += [f i c]` *)
Lemma fold_append_inner : forall (B C : Type) (g : B -> C) (L : list B) (acc : list C),
    fold_left (fun a c => a ++ [g c]) L acc = acc ++ map g L.
Proof.
  intros B C g L. induction L as [|c L IH]; intros acc; cbn [fold_left map]; [now rewrite app_nil_r|].
  rewrite IH. rewrite <- app_assoc. reflexivity.
Qed.

Lemma fold_append_outer : forall (I B C : Type) (F : I -> list B) (g : I -> B -> C) (Is : list I) (acc : list C),
    fold_left (fun a i => fold_left (fun a' c => a' ++ [g i c]) (F i) a) Is acc
    = acc ++ flat_map (fun i => map (g i) (F i)) Is.
Proof.
  intros I B C F g Is. induction Is as [|i Is IH]; intros acc; cbn [fold_left flat_map]; [now rewrite app_nil_r|].
  rewrite IH, fold_append_inner, <- app_assoc. reflexivity.
Qed.

Lemma subsets_of_size_length : forall (A : Type) (l : list A) k s, In s (subsets_of_size l k) -> length s = k.
Proof.
  intros A l. induction l as [|x l IH]; intros k s Hs.
  - destruct k; cbn in Hs; [destruct Hs as [<-|[]]; reflexivity | destruct Hs].
  - destruct k; cbn [subsets_of_size] in Hs; [destruct Hs as [<-|[]]; reflexivity|].
    apply in_app_or in Hs. destruct Hs as [Hs|Hs].
    + apply in_map_iff in Hs. destruct Hs as [s' [<- Hs']]. cbn [length]. f_equal. apply IH. exact Hs'.
    + apply IH. exact Hs.
Qed.

Lemma subsets_of_size_incl : forall (A : Type) (l : list A) k s x, In s (subsets_of_size l k) -> In x s -> In x l.
Proof.
  intros A l. induction l as [|y l IH]; intros k s x Hs Hx.
  - destruct k; cbn in Hs; [destruct Hs as [<-|[]]; destruct Hx | destruct Hs].
  - destruct k; cbn [subsets_of_size] in Hs; [destruct Hs as [<-|[]]; destruct Hx|].
    apply in_app_or in Hs. destruct Hs as [Hs|Hs].
    + apply in_map_iff in Hs. destruct Hs as [s' [<- Hs']]. destruct Hx as [<-|Hx]; [left; reflexivity|].
      right. eapply IH; eassumption.
    + right. eapply IH; eassumption.
Qed.

Lemma map_nth_seq : forall (B C : Type) (f : B -> C) (l : list B) d,
    map (fun i => f (nth i l d)) (seq 0 (length l)) = map f l.
Proof.
  intros B C f l d. induction l as [|x l IH]; [reflexivity|].
  cbn [length seq map nth]. f_equal. rewrite <- seq_shift, map_map. exact IH.
Qed.

(* ====================================================================================== *)
(* Part 2: over the reals                                                                  *)
(* ====================================================================================== *)
Local Open Scope R_scope.

Lemma vdivn_vscale : forall (v : vec (T:=R)) n, vdivn OpsR v n = vscale OpsR (oinv OpsR (oofN OpsR n)) v.
Proof. intros. unfold vdivn, vscale. apply map_ext. intros x. unfold odiv. cbn. apply Rmult_comm. Qed.

Lemma pow_neg1_sign : forall n, opow OpsR (oopp OpsR (o1 OpsR)) n = if Nat.even n then o1 OpsR else oopp OpsR (o1 OpsR).
Proof.
  assert (H : forall n, opow OpsR (oopp OpsR (o1 OpsR)) n = (if Nat.even n then 1 else - 1)
                        /\ opow OpsR (oopp OpsR (o1 OpsR)) (S n) = (if Nat.even (S n) then 1 else - 1)).
  { induction n as [|n [IH1 IH2]].
    - split; cbn; lra.
    - split; [exact IH2|]. change (opow OpsR (oopp OpsR (o1 OpsR)) (S (S n))) with (- 1 * opow OpsR (oopp OpsR (o1 OpsR)) (S n)).
      rewrite IH2. change (Nat.even (S (S n))) with (Nat.even n). rewrite Nat.even_succ, <- Nat.negb_even.
      destruct (Nat.even n); cbn; lra. }
  intros n. apply H.
Qed.

Lemma vmul_vscale_l : forall c (a b : vec (T:=R)), vmul OpsR (vscale OpsR c a) b = vscale OpsR c (vmul OpsR a b).
Proof.
  intros c. induction a as [|x a IH]; intros [|y b]; try reflexivity.
  change (((c * x) * y) :: vmul OpsR (vscale OpsR c a) b = (c * (x * y)) :: vscale OpsR c (vmul OpsR a b)).
  rewrite IH. f_equal. ring.
Qed.

Section Equiv.
  Variable expm : mat (T:=R) -> mat (T:=R).
  Variables (Ss : list (Q * mat (T:=R))) (Slast : mat (T:=R)) (alpha : vec (T:=R)) (lam : R).
  Variable self_reward : vec (T:=R).
  Variables self_start_time self_t_max : Q.

  (* self._accumulate(k, tuple(end_times), rewards) is the model's accumulate_raw *)
  Definition raw_model (k : nat) (ts : list Q) (rs : list (vec (T:=R))) : list R :=
    accumulate_raw OpsR expm k Ss Slast rs alpha lam ts.

  Notation gen_nc := (PhaseTypeDistribution_accumulate_nc OpsR raw_model self_reward).
  Notation gen_acc := (PhaseTypeDistribution_accumulate OpsR raw_model self_reward).
  Notation gen_moment := (PhaseTypeDistribution_moment OpsR raw_model self_reward self_start_time self_t_max).

  Theorem gen_accumulate_nc_eq : forall k Rs p ts,
      gen_nc k ts (Some Rs) p = accumulate_uncentered OpsR expm k Ss Slast Rs alpha lam p ts.
  Proof.
    intros k Rs p ts. unfold PhaseTypeDistribution_accumulate_nc, accumulate_uncentered.
    destruct k as [|k]; [reflexivity|]. cbn [Nat.eqb].
    destruct p; [|reflexivity].
    rewrite vdivn_vscale.
    rewrite (Permutation_length (it_permutations_perm _ Rs)).
    f_equal. apply vsum_perm. apply Permutation_map. apply it_permutations_perm.
  Qed.

  Theorem gen_accumulate_eq : forall k Rs c p ts,
      length Rs = k ->
      gen_acc k ts (Some Rs) c p = accumulate OpsR expm k Ss Slast Rs alpha lam c p ts.
  Proof.
    intros k Rs c p ts HR. unfold PhaseTypeDistribution_accumulate, accumulate.
    destruct k as [|k].
    - cbn [Nat.eqb]. rewrite andb_false_r. reflexivity.
    - cbn [Nat.eqb].
      destruct (c && (1 <? S k))%bool eqn:Hc.
      + (* centring *)
        rewrite fold_append_outer. cbn [app].
        assert (Hmeans : map (fun i_4 : nat => gen_nc 1 ts (Some [nth i_4 Rs self_reward]) true) (seq 0 (S k))
                         = map (fun r : vec => accumulate_uncentered OpsR expm 1 Ss Slast [r] alpha lam true ts) Rs).
        { rewrite <- HR.
          rewrite <- (map_nth_seq _ _ (fun r : vec => accumulate_uncentered OpsR expm 1 Ss Slast [r] alpha lam true ts) Rs self_reward).
          apply map_ext. intros i. apply gen_accumulate_nc_eq. }
        rewrite Hmeans. f_equal.
        apply flat_map_ext_in'. intros i _. apply map_ext_in. intros indices Hin.
        rewrite gen_accumulate_nc_eq.
        rewrite pow_neg1_sign. rewrite vmul_vscale_l.
        f_equal. f_equal. f_equal.
        apply map_ext_in. intros j Hj. apply nth_indep.
        rewrite HR. pose proof (subsets_of_size_incl _ _ _ _ _ Hin Hj) as Hj'. apply in_seq in Hj'. lia.
      + (* not centring: the tail of the source is the non-centring part *)
        exact (gen_accumulate_nc_eq (S k) Rs p ts).
  Qed.

  (* moment: explicit window *)
  Theorem gen_moment_eq : forall k Rs c p st en,
      length Rs = k ->
      gen_moment k (Some Rs) (Some st) (Some en) c p = moment OpsR expm k Ss Slast Rs alpha lam c p st en.
  Proof.
    intros k Rs c p st en HR. unfold PhaseTypeDistribution_moment, moment.
    rewrite !gen_accumulate_eq by exact HR.
    destruct (Qlt_le_dec 0 st); [|reflexivity].
    destruct (accumulate OpsR expm k Ss Slast Rs alpha lam c p [st; en]) as [|a [|b [|c' l]]]; reflexivity.
  Qed.

  (* moment: default start and end time are those of the tree-height distribution *)
  Theorem gen_moment_defaults : forall k Rs c p,
      length Rs = k ->
      gen_moment k (Some Rs) None None c p
      = moment OpsR expm k Ss Slast Rs alpha lam c p self_start_time self_t_max.
  Proof.
    intros k Rs c p HR. unfold PhaseTypeDistribution_moment, moment.
    rewrite !gen_accumulate_eq by exact HR.
    destruct (Qlt_le_dec 0 self_start_time); [|reflexivity].
    destruct (accumulate OpsR expm k Ss Slast Rs alpha lam c p [self_start_time; self_t_max]) as [|a [|b [|c' l]]]; reflexivity.
  Qed.

  (* default rewards: k copies of the distribution's own reward *)
  Theorem gen_accumulate_default_rewards : forall k c p ts,
      gen_acc k ts None c p = gen_acc k ts (Some (repeat self_reward k)) c p.
  Proof. reflexivity. Qed.

  (* ---- what the SOURCE computes, read off the theorems of proofs/PhaseTypeProofs.v through the equivalences ---- *)
  Notation Um := (U expm Ss Slast alpha lam).

  Theorem source_variance_formula : forall r p t,
      nth 0 (gen_acc 2 [t] (Some [r; r]) true p) 0 = Um 2 [r; r] p t - (Um 1 [r] true t) ^ 2.
  Proof. intros. rewrite gen_accumulate_eq by reflexivity. apply accumulate_variance. Qed.

  Theorem source_covariance_formula : forall r0 r1 p t,
      nth 0 (gen_acc 2 [t] (Some [r0; r1]) true p) 0 = Um 2 [r0; r1] p t - Um 1 [r0] true t * Um 1 [r1] true t.
  Proof. intros. rewrite gen_accumulate_eq by reflexivity. apply accumulate_center_k2. Qed.

  Theorem source_third_central_formula : forall r0 r1 r2 p t,
      nth 0 (gen_acc 3 [t] (Some [r0; r1; r2]) true p) 0
      = Um 3 [r0; r1; r2] p t
        - Um 1 [r0] true t * Um 2 [r1; r2] p t
        - Um 1 [r1] true t * Um 2 [r0; r2] p t
        - Um 1 [r2] true t * Um 2 [r0; r1] p t
        + 2 * Um 1 [r0] true t * Um 1 [r1] true t * Um 1 [r2] true t.
  Proof. intros. rewrite gen_accumulate_eq by reflexivity. apply accumulate_center_k3. Qed.

  Theorem source_covariance_symmetric : forall r0 r1 t,
      nth 0 (gen_acc 2 [t] (Some [r0; r1]) true true) 0 = nth 0 (gen_acc 2 [t] (Some [r1; r0]) true true) 0.
  Proof. intros. rewrite !gen_accumulate_eq by reflexivity. apply accumulate_center_k2_symmetric. Qed.

  (* raw cross moments (permute = True) do not depend on the order of the rewards, for every order k and every list of times *)
  Theorem source_raw_cross_moment_symmetric : forall k Rs Rs' ts,
      Permutation Rs Rs' ->
      gen_acc k ts (Some Rs) false true = gen_acc k ts (Some Rs') false true.
  Proof.
    intros k Rs Rs' ts HP.
    destruct (Nat.eq_dec (length Rs) k) as [HR|HR].
    - rewrite !gen_accumulate_eq; [|rewrite <- (Permutation_length HP); exact HR|exact HR].
      rewrite !accumulate_not_centered. apply accumulate_uncentered_perm. exact HP.
    - (* k <> len(rewards) is rejected by the source; the generated function is still symmetric *)
      unfold PhaseTypeDistribution_accumulate. cbn [andb].
      destruct (Nat.eqb k 0); [reflexivity|].
      rewrite !vdivn_vscale.
      pose proof (Permutation_trans (Permutation_trans (it_permutations_perm _ Rs) (permutations_perm _ _ _ HP))
                                    (Permutation_sym (it_permutations_perm _ Rs'))) as HPP.
      rewrite (Permutation_length HPP). f_equal. apply vsum_perm. apply Permutation_map. exact HPP.
  Qed.

  Theorem source_moment_window : forall k Rs c p st en,
      length Rs = k -> (0 < st)%Q ->
      gen_moment k (Some Rs) (Some st) (Some en) c p
      = nth 1 (gen_acc k [st; en] (Some Rs) c p) 0 - nth 0 (gen_acc k [st; en] (Some Rs) c p) 0.
  Proof.
    intros k Rs c p st en HR Hst. rewrite gen_moment_eq by exact HR. rewrite gen_accumulate_eq by exact HR.
    apply moment_window. exact Hst.
  Qed.

  Theorem source_moment_is_accumulate_at_end : forall k Rs c p st en,
      length Rs = k -> (st <= 0)%Q ->
      gen_moment k (Some Rs) (Some st) (Some en) c p = nth 0 (gen_acc k [en] (Some Rs) c p) 0.
  Proof.
    intros k Rs c p st en HR Hst. rewrite gen_moment_eq by exact HR. rewrite gen_accumulate_eq by exact HR.
    apply moment_is_accumulate_at_end. exact Hst.
  Qed.
End Equiv.

Print Assumptions it_permutations_perm.
Print Assumptions gen_accumulate_nc_eq.
Print Assumptions gen_accumulate_eq.
Print Assumptions gen_moment_eq.
Print Assumptions gen_moment_defaults.
Print Assumptions source_variance_formula.
Print Assumptions source_third_central_formula.
Print Assumptions source_raw_cross_moment_symmetric.
Print Assumptions source_moment_window.
