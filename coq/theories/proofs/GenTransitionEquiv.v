(* Equivalence of the GENERATED translation of the class Transition of phasegen/state_space.py
   (gen/TransitionGen.v, regenerated from the Python source by /verif/translate/transition2coq.py on every run of the
   checks that depend on the transition structure) with the hand-written model model/StateSpace.v - the functions that
   every lumping / generator / permutation theorem of the development is about.

   Shape hypotheses (all hold for every state the construction produces; none restricts rates or parameters):
     - single locus, any space: none at all for migration and coalescence;
     - functions that touch several loci at once (linked migration, two-locus coalescence, recombination):
       [same_loci s]  lnk has as many loci as lin,
       [rows1 a]      every block vector has at most one entry (lineage-counting states: the source itself only
                      supports two loci on the lineage-counting space) and [n_blocks s = 1];
     - locus_config_n = n_loci s (the configuration value the source reads is the number of rows of the state);
     - for `recombine` and two-locus `coalesce`: p_lc P = true and a Kingman model, i.e. the source does not raise
       NotImplementedError (the generated *_not_implemented conditions are false). *)
From Coq Require Import String.
From Coq Require Import ZArith List Arith Bool Lia.
From PG Require Import base.Ops model.CoalModels model.StateSpace proofs.SpaceFacts proofs.LumpingAllN gen.NpTrans gen.TransitionGen.

Import ListNotations.
Local Open Scope list_scope.
Local Open Scope nat_scope.

(* ---------------- generic list lemmas ---------------- *)
Lemma fold_left_ext {A B} (f g : A -> B -> A) : (forall a x, f a x = g a x) -> forall l a, fold_left f l a = fold_left g l a.
Proof. intros H l. induction l as [|x l IH]; intros a; [reflexivity|]. cbn. rewrite H. apply IH. Qed.

Lemma fold_left_ext_in {A B} (f g : A -> B -> A) : forall l, (forall a x, In x l -> f a x = g a x) ->
  forall a, fold_left f l a = fold_left g l a.
Proof.
  induction l as [|x l IH]; intros H a; [reflexivity|]. cbn. rewrite (H a x (or_introl eq_refl)).
  apply IH. intros a' y Hy. apply H. right. exact Hy.
Qed.

Lemma fold_left_inv {A B} (Inv : A -> Prop) (f : A -> B -> A) :
  (forall a x, Inv a -> Inv (f a x)) -> forall l a, Inv a -> Inv (fold_left f l a).
Proof. intros H l. induction l as [|x l IH]; intros a Ha; [exact Ha|]. cbn. apply IH. apply H. exact Ha. Qed.

Lemma forallb_ext {A} (f g : A -> bool) (l : list A) : (forall x, f x = g x) -> forallb f l = forallb g l.
Proof. intros H. induction l as [|x l IH]; [reflexivity|]. cbn. rewrite H, IH. reflexivity. Qed.

Lemma filter_flat_map {A B} (p : B -> bool) (f : A -> list B) : forall l,
  filter p (flat_map f l) = flat_map (fun x => filter p (f x)) l.
Proof.
  induction l as [|x l IH]; [reflexivity|]. cbn [flat_map]. rewrite filter_app, IH. reflexivity.
Qed.

Lemma pairs_filter_gen : forall l1 l2 : list nat,
  filter (fun x_ : nat * nat => negb (Nat.eqb (fst x_) (snd x_))) (list_prod l1 l2)
  = flat_map (fun d1 => flat_map (fun d2 => if Nat.eqb d1 d2 then [] else [(d1, d2)]) l2) l1.
Proof.
  induction l1 as [|d1 l1 IH]; intros l2; [reflexivity|].
  cbn [list_prod flat_map]. rewrite filter_app, IH. f_equal.
  clear. induction l2 as [|d2 l2 IH]; [reflexivity|]. cbn [map filter fst snd flat_map].
  destruct (Nat.eqb d1 d2); cbn [negb app]; rewrite IH; reflexivity.
Qed.

Lemma deme_pairs_filter nd :
  filter (fun x_ : nat * nat => negb (Nat.eqb (fst x_) (snd x_))) (list_prod (seq 0 nd) (seq 0 nd)) = deme_pairs nd.
Proof. apply pairs_filter_gen. Qed.

(* updating every position in turn = map *)
Lemma fold_upd_all_gen {A} (g : A -> A) : forall (a pre : list A),
  fold_left (fun acc l => upd acc l g) (seq (length pre) (length a)) (pre ++ a) = pre ++ map g a.
Proof.
  induction a as [|x a IH]; intros pre; [reflexivity|].
  cbn [length seq fold_left map].
  assert (E : upd (pre ++ x :: a) (length pre) g = (pre ++ [g x]) ++ a).
  { clear. induction pre as [|y pre IHp]; [reflexivity|]. cbn. rewrite IHp. reflexivity. }
  rewrite E. replace (S (length pre)) with (length (pre ++ [g x])) by (rewrite app_length; cbn; lia).
  rewrite IH, <- app_assoc. reflexivity.
Qed.

Lemma fold_upd_all {A} (g : A -> A) (a : list A) :
  fold_left (fun acc l => upd acc l g) (seq 0 (length a)) a = map g a.
Proof. exact (fold_upd_all_gen g a []). Qed.

Lemma upd_ext_at {A} (f g : A -> A) (d0 : A) : forall (m : list A) d, f (nth d m d0) = g (nth d m d0) -> upd m d f = upd m d g.
Proof.
  induction m as [|x m IH]; intros d H; [reflexivity|]. destruct d as [|d]; cbn in *.
  - rewrite H. reflexivity.
  - rewrite (IH d H). reflexivity.
Qed.

Lemma upd_upd_same {A} (f g : A -> A) : forall (m : list A) d, upd (upd m d f) d g = upd m d (fun x => g (f x)).
Proof. induction m as [|x m IH]; intros [|d]; cbn; try reflexivity. rewrite IH. reflexivity. Qed.

Lemma map_row1 (f : nat -> nat) (r : list nat) : length r <= 1 -> map f r = upd r 0 f.
Proof. destruct r as [|x [|y r]]; cbn; intros H; try reflexivity; lia. Qed.

Ltac closed_nat a := lazymatch a with O => idtac | S ?x => closed_nat x end.
Ltac eval_closed :=
  repeat match goal with
  | |- context [str_in ?a ?b] => let v := eval vm_compute in (str_in a b) in change (str_in a b) with v
  | |- context [String.eqb ?a ?b] => let v := eval vm_compute in (String.eqb a b) in change (String.eqb a b) with v
  | |- context [String.ltb ?a ?b] => let v := eval vm_compute in (String.ltb a b) in change (String.ltb a b) with v
  | |- context [Nat.eqb ?a ?b] => closed_nat a; closed_nat b; let v := eval vm_compute in (Nat.eqb a b) in change (Nat.eqb a b) with v
  | |- context [Nat.ltb ?a ?b] => closed_nat a; closed_nat b; let v := eval vm_compute in (Nat.ltb a b) in change (Nat.ltb a b) with v
  end.

Lemma NoDup_app_snoc {A} (l : list A) x : NoDup l -> ~ In x l -> NoDup (l ++ [x]).
Proof.
  intros H Hn. induction H as [|y l Hy H IH]; cbn; [constructor; [intros []|constructor]|].
  constructor.
  - rewrite in_app_iff. intros [H1 | [H1 | []]]; [exact (Hy H1)|]. subst. apply Hn. left. reflexivity.
  - apply IH. intros H1. apply Hn. right. exact H1.
Qed.

(* ---------------- shape predicates ---------------- *)
Definition same_loci (s : state) : Prop := length (lnk s) = length (lin s).
Definition rows1 (a : arr3) : Prop := forall l d, length (nth d (nth l a []) []) <= 1.

Section Equiv.
  Context {T : Type} (OP : Ops T).
  Variables (n nl : nat) (P : params (T:=T)) (s : state).

  (* ---- migration of unlinked lineages: no hypothesis ---- *)
  Theorem gen_migrate_unlinked_eq : Transition_migrate_unlinked OP n nl P s = migrate_unlinked OP P s.
  Proof.
    unfold Transition_migrate_unlinked, migrate_unlinked. cbv zeta. rewrite deme_pairs_filter.
    apply fold_left_ext. intros acc l. apply fold_left_ext. intros acc2 [d1 d2]. apply fold_left_ext. intros acc3 b.
    reflexivity.
  Qed.

  (* map_loci with a per-locus update of one row = map *)
  Lemma map_loci_rows (a : arr3) (g : list (list nat) -> list (list nat)) :
    length a = n_loci s -> map_loci s a (fun a0 l => upd a0 l g) = map g a.
  Proof. intros H. unfold map_loci. rewrite <- H. apply fold_upd_all. Qed.

  (* ---- migration of linked lineages ---- *)
  Theorem gen_migrate_linked_eq : same_loci s -> Transition_migrate_linked OP n nl P s = migrate_linked OP P s.
  Proof.
    intros Hs. unfold Transition_migrate_linked, migrate_linked. cbv zeta.
    destruct (Nat.eqb (n_loci s) 1); [reflexivity|]. rewrite deme_pairs_filter.
    apply fold_left_ext. intros acc [d1 d2]. apply fold_left_ext. intros acc2 b.
    unfold all_loci, vlin, vlnk.
    match goal with |- (if ?c then _ else _) = (if ?c' then _ else _) => change c' with c; destruct c; [|reflexivity] end.
    f_equal.
    unfold st_set_lin, st_set_lnk, upd3o, upd_opt. cbn [lin lnk].
    assert (E : forall a : arr3, length a = n_loci s ->
              map_loci s a (fun a0 l => upd3 (upd3 a0 l d1 b pred) l d2 b S)
              = map (fun m => upd m d2 (fun r => upd r b S)) (map (fun m => upd m d1 (fun r => upd r b pred)) a)).
    { intros a Ha. rewrite map_map. rewrite <- (map_loci_rows a _ Ha). unfold map_loci.
      apply fold_left_ext. intros a0 l. unfold upd3. rewrite upd_upd_same. reflexivity. }
    rewrite (E (lin s) eq_refl), (E (lnk s) Hs). reflexivity.
  Qed.

  Theorem gen_migrate_eq : same_loci s ->
    Transition_migrate OP n nl P s = dict_union (migrate_linked OP P s) (migrate_unlinked OP P s).
  Proof. intros Hs. unfold Transition_migrate. rewrite gen_migrate_linked_eq by exact Hs. rewrite gen_migrate_unlinked_eq. reflexivity. Qed.

  (* ---- coalescence, one locus: no hypothesis besides n_loci s = 1 ---- *)
  Theorem gen_coalesce1_eq : n_loci s = 1 -> Transition_coalesce OP n nl P s = coalesce_tr OP P s.
  Proof.
    intros H1. unfold Transition_coalesce, coalesce_tr, coalesce1. cbv zeta. rewrite H1. cbn [Nat.eqb].
    apply fold_left_ext. intros acc d. unfold row_lin. apply fold_left_ext. intros acc2 [blk r]. reflexivity.
  Qed.

  (* ---- recombination ---- *)
  Lemma forallb_one (f : nat -> bool) : forallb f (seq 0 1) = f 0.
  Proof. cbn. apply andb_true_r. Qed.

  Lemma In_nth_arr (a : arr3) m : In m a -> exists l, nth l a [] = m.
  Proof. intros H. destruct (In_nth a m [] H) as [l [_ E]]. exists l. exact E. Qed.

  (* [:, d] -= 1 / += 1 on arrays whose block vectors have one entry = the model's update of block 0 of every locus *)
  Lemma upd3o_all_rows1 (a : arr3) d (f : nat -> nat) :
    rows1 a -> length a = n_loci s ->
    upd3o a None (Some d) None f = map_loci s a (fun a0 l => upd3 a0 l d 0 f).
  Proof.
    intros Hr Ha. unfold upd3o, upd_opt.
    transitivity (map (fun m : list (list nat) => upd m d (fun r => upd r 0 f)) a).
    - apply map_ext_in. intros m Hm. destruct (In_nth_arr a m Hm) as [l <-].
      apply upd_ext_at with (d0 := []). specialize (Hr l d).
      destruct (nth d (nth l a []) []) as [|x [|y r]]; cbn in *; try reflexivity; lia.
    - symmetry. apply (map_loci_rows a _ Ha).
  Qed.

  Lemma upd3o_all_block0 (a : arr3) d (f : nat -> nat) :
    length a = n_loci s ->
    upd3o a None (Some d) (Some 0) f = map_loci s a (fun a0 l => upd3 a0 l d 0 f).
  Proof. intros Ha. unfold upd3o, upd_opt. symmetry. apply (map_loci_rows a _ Ha). Qed.

  Theorem gen_recombine_eq : nl = n_loci s -> p_lc P = true -> same_loci s -> rows1 (lnk s) -> n_blocks s = 1 ->
    Transition_recombine OP n nl P s = recombine OP P s.
  Proof.
    intros -> Hlc Hs Hr Hb. unfold Transition_recombine, recombine. cbv zeta. rewrite Hlc.
    destruct (Nat.eqb (n_loci s) 1); [reflexivity|].
    apply fold_left_ext. intros acc d. rewrite Hb. unfold all_loci, vlnk.
    rewrite (forallb_ext _ _ (seq 0 (n_loci s)) (fun l => forallb_one (fun b => Nat.ltb 0 (get3 (lnk s) l d b)))).
    match goal with |- (if ?c then _ else _) = (if ?c' then _ else _) => change c' with c; destruct c; [|reflexivity] end.
    unfold st_set_lnk. cbn [lin lnk]. rewrite (upd3o_all_rows1 (lnk s) d pred Hr Hs). reflexivity.
  Qed.
  (* ---- coalescence, two loci (lineage counting) ---- *)
  Lemma fold_left_map {A B C} (f : A -> B -> A) (h : C -> B) : forall l a,
    fold_left f (map h l) a = fold_left (fun a x => f a (h x)) l a.
  Proof. induction l as [|x l IH]; intros a; [reflexivity|]. cbn. apply IH. Qed.

  Lemma existsb_one (f : nat -> bool) : existsb f (seq 0 1) = f 0.
  Proof. cbn. apply orb_false_r. Qed.

  Theorem gen_coalesce2_eq : n_loci s = 2 -> same_loci s -> rows1 (lin s) -> rows1 (lnk s) -> n_blocks s = 1 ->
    Transition_coalesce OP n nl P s = coalesce_tr OP P s.
  Proof.
    intros H2 Hs Hr1 Hr2 Hb. unfold Transition_coalesce, coalesce_tr, coalesce2. cbv zeta. rewrite H2. cbn [Nat.eqb].
    apply fold_left_ext. intros acc d. rewrite Hb.
    match goal with |- fold_left ?f (list_prod ?bins ?bins) _ = _ =>
      change (list_prod bins bins) with
        (map (fun cc : nat * nat => (nth (fst cc) bins (EmptyString, fun _ _ => 0), nth (snd cc) bins (EmptyString, fun _ _ => 0)))
             (flat_map (fun c1 => map (fun c2 => (c1, c2)) [0; 1; 2]) [0; 1; 2]))
    end.
    rewrite fold_left_map. apply fold_left_ext_in. intros acc2 [c1 c2] Hin.
    cbn [flat_map map app In] in Hin.
    assert (Er : forall a l f, rows1 a -> upd3o a (Some l) (Some d) None f = upd3 a l d 0 f).
    { intros a l f Hr. unfold upd3o, upd_opt, upd3. apply upd_ext_at with (d0 := []). apply upd_ext_at with (d0 := []).
      apply map_row1. apply Hr. }
    assert (Ea : forall l : nat, forallb (fun b => Nat.ltb 0 (get3 (lnk s) l d b)) (seq 0 1) = Nat.ltb 0 (get3 (lnk s) l d 0))
      by (intros; apply forallb_one).
    repeat (destruct Hin as [Hin | Hin];
            [ injection Hin as <- <-; cbn [fst snd nth]; eval_closed; cbv beta iota;
              unfold class_count, all_loci, vlin, vlnk, vunl, unl, st_set_lin, st_set_lnk; cbv beta iota; cbn [lin lnk];
              rewrite ?existsb_one, ?H2, ?(Er _ _ _ Hr1), ?(upd3o_all_rows1 _ d _ Hr1 eq_refl), ?(upd3o_all_rows1 _ d _ Hr2 Hs),
                      ?(upd3o_all_block0 _ d _ Hs);
              try rewrite (forallb_ext _ _ (seq 0 2) Ea);
              try reflexivity | ]).
    all: try contradiction.
  Qed.
  (* ---- transit ---- *)
  Lemma add_target_keys : forall (tg : targets (T:=T)) t r,
    map fst (add_target OP tg t r) = map fst tg \/ (~ In t (map fst tg) /\ map fst (add_target OP tg t r) = map fst tg ++ [t]).
  Proof.
    induction tg as [|[t' r'] tg IH]; intros t r; cbn [add_target map fst].
    - right. split; [intros []|reflexivity].
    - destruct (state_eqb t' t) eqn:E; cbn [map fst].
      + left. reflexivity.
      + destruct (IH t r) as [H | [Hn H]]; [left; rewrite H; reflexivity|].
        right. split; [|rewrite H; reflexivity].
        intros [H1 | H1]; [|exact (Hn H1)]. subst. rewrite state_eqb_refl in E. discriminate.
  Qed.

  Lemma add_target_NoDup (tg : targets (T:=T)) t r : NoDup (map fst tg) -> NoDup (map fst (add_target OP tg t r)).
  Proof.
    intros H. destruct (add_target_keys tg t r) as [E | [Hn E]]; rewrite E; [exact H|].
    apply NoDup_app_snoc; assumption.
  Qed.

  Lemma dict_set_keys : forall (tg : targets (T:=T)) t r,
    map fst (dict_set tg t r) = map fst tg \/ (~ In t (map fst tg) /\ map fst (dict_set tg t r) = map fst tg ++ [t]).
  Proof.
    induction tg as [|[t' r'] tg IH]; intros t r; cbn [dict_set map fst].
    - right. split; [intros []|reflexivity].
    - destruct (state_eqb t' t) eqn:E; cbn [map fst].
      + left. reflexivity.
      + destruct (IH t r) as [H | [Hn H]]; [left; rewrite H; reflexivity|].
        right. split; [|rewrite H; reflexivity].
        intros [H1 | H1]; [|exact (Hn H1)]. subst. rewrite state_eqb_refl in E. discriminate.
  Qed.

  Lemma dict_union_NoDup (a b : targets (T:=T)) : NoDup (map fst a) -> NoDup (map fst (dict_union a b)).
  Proof.
    unfold dict_union. apply (fold_left_inv (fun acc : targets (T:=T) => NoDup (map fst acc))). intros acc [t r] H. cbn [fst snd].
    destruct (dict_set_keys acc t r) as [E | [Hn E]]; rewrite E; [exact H|]. apply NoDup_app_snoc; assumption.
  Qed.

  Lemma migrate_linked_NoDup : NoDup (map fst (migrate_linked OP P s)).
  Proof.
    unfold migrate_linked. destruct (Nat.eqb (n_loci s) 1); [constructor|].
    apply (fold_left_inv (fun acc : targets (T:=T) => NoDup (map fst acc))); [|constructor]. intros acc [d1 d2] H.
    apply (fold_left_inv (fun acc : targets (T:=T) => NoDup (map fst acc))); [|exact H].
    intros acc2 b H2. destruct (andb _ _); [apply add_target_NoDup; exact H2 | exact H2].
  Qed.

  Theorem gen_transit_eq :
    same_loci s ->
    Transition_coalesce OP n nl P s = coalesce_tr OP P s ->
    Transition_recombine OP n nl P s = recombine OP P s ->
    Transition_transit OP n nl P s = transit OP P s.
  Proof.
    intros Hs Hc Hr. unfold Transition_transit, transit. cbv zeta. rewrite Hc, Hr, (gen_migrate_eq Hs).
    rewrite (dict_union_fresh (dict_union (migrate_linked OP P s) (migrate_unlinked OP P s)) []).
    - reflexivity.
    - cbn [map app]. apply dict_union_NoDup. apply migrate_linked_NoDup.
  Qed.

  (* single locus: recombination is the empty dictionary on both sides *)
  Theorem gen_recombine1_eq : nl = n_loci s -> n_loci s = 1 -> Transition_recombine OP n nl P s = recombine OP P s.
  Proof. intros -> H1. unfold Transition_recombine, recombine. cbv zeta. rewrite H1. reflexivity. Qed.

  (* ---- the two packaged statements ---- *)
  Theorem gen_transit_single_locus : nl = n_loci s -> n_loci s = 1 -> same_loci s ->
    Transition_transit OP n nl P s = transit OP P s.
  Proof.
    intros Hnl H1 Hs. apply gen_transit_eq; [exact Hs | apply gen_coalesce1_eq; exact H1 | apply gen_recombine1_eq; assumption].
  Qed.

  Theorem gen_transit_two_loci : nl = n_loci s -> n_loci s = 2 -> p_lc P = true -> same_loci s ->
    rows1 (lin s) -> rows1 (lnk s) -> n_blocks s = 1 ->
    Transition_transit OP n nl P s = transit OP P s.
  Proof.
    intros Hnl H2 Hlc Hs Hr1 Hr2 Hb. apply gen_transit_eq; [exact Hs | apply gen_coalesce2_eq; assumption | apply gen_recombine_eq; assumption].
  Qed.
End Equiv.
