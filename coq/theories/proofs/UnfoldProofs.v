(* Combinatorics of mutation configurations (C16):
     - partitions_sum k n enumerates, without repetition, exactly the vectors of
       length k summing to n;
     - unfold_config n config enumerates, without repetition, exactly the fibre of
       the fold map over config (for n >= 2, length config = n / 2). *)
From Coq Require Import List Arith Bool Lia Permutation.
From PG Require Import model.CoalModels model.Mutation.
Import ListNotations.

(* ------------------------------------------------------------------ *)
(* generic list lemmas                                                  *)
(* ------------------------------------------------------------------ *)

Lemma sum_nat_app l1 l2 : sum_nat (l1 ++ l2) = sum_nat l1 + sum_nat l2.
Proof.
  unfold sum_nat. induction l1 as [|a l1 IH]; simpl; [reflexivity | rewrite IH; lia].
Qed.

Lemma sum_nat_single i : sum_nat [i] = i.
Proof. unfold sum_nat; simpl; lia. Qed.

Lemma NoDup_map_inj_in {A B} (f : A -> B) l :
  (forall x y, In x l -> In y l -> f x = f y -> x = y) -> NoDup l -> NoDup (map f l).
Proof.
  intros Hinj Hnd. induction Hnd as [|a l Hni Hnd IH]; simpl; constructor.
  - intros Hin. apply in_map_iff in Hin. destruct Hin as [y [Hy Hiny]].
    assert (y = a) by (apply Hinj; [right; exact Hiny | left; reflexivity | exact Hy]).
    subst. exact (Hni Hiny).
  - apply IH. intros x y Hx Hy. apply Hinj; right; assumption.
Qed.

Lemma NoDup_app_intro {A} (l1 l2 : list A) :
  NoDup l1 -> NoDup l2 -> (forall x, In x l1 -> In x l2 -> False) -> NoDup (l1 ++ l2).
Proof.
  intros H1 H2 Hd. induction H1 as [|a l Hni Hnd IH]; simpl; auto.
  constructor.
  - intros Hin. apply in_app_or in Hin. destruct Hin as [Hin|Hin]; [exact (Hni Hin)|].
    apply (Hd a); [left; reflexivity | exact Hin].
  - apply IH. intros x Hx. apply Hd. right; exact Hx.
Qed.

Lemma NoDup_flat_map_intro {A B} (f : A -> list B) l :
  NoDup l -> (forall x, In x l -> NoDup (f x)) ->
  (forall x y z, In x l -> In y l -> In z (f x) -> In z (f y) -> x = y) ->
  NoDup (flat_map f l).
Proof.
  intros Hnd. induction Hnd as [|a l Hni Hnd IH]; intros Hf Hd; simpl; [constructor|].
  apply NoDup_app_intro.
  - apply Hf; left; reflexivity.
  - apply IH.
    + intros; apply Hf; right; assumption.
    + intros x y z Hx Hy; apply Hd; right; assumption.
  - intros z Hz1 Hz2. apply in_flat_map in Hz2. destruct Hz2 as [y [Hy Hzy]].
    assert (a = y)
      by (apply (Hd a y z); [left; reflexivity | right; exact Hy | exact Hz1 | exact Hzy]).
    subst. exact (Hni Hy).
Qed.

Lemma app_eq_len {A} : forall (a a' b b' : list A),
  length a = length a' -> a ++ b = a' ++ b' -> a = a' /\ b = b'.
Proof.
  induction a as [|x a IH]; destruct a' as [|y a']; simpl; intros b b' Hl He;
    try discriminate; [split; auto|].
  injection He as Hx He. injection Hl as Hl.
  destruct (IH _ _ _ Hl He). subst. split; reflexivity.
Qed.

Lemma Forall2_len {A B} {R : A -> B -> Prop} {l l'} : Forall2 R l l' -> length l = length l'.
Proof. induction 1; simpl; auto. Qed.

Lemma firstn_exact {A} : forall (a b : list A) k, length a = k -> firstn k (a ++ b) = a.
Proof.
  intros a b k <-. rewrite <- (Nat.add_0_r (length a)), firstn_app_2. simpl.
  apply app_nil_r.
Qed.

Lemma combine_app_eq {A B} : forall (a c : list A) (b d : list B),
  length a = length b -> combine (a ++ c) (b ++ d) = combine a b ++ combine c d.
Proof.
  induction a as [|x a IH]; destruct b as [|y b]; simpl; intros d Hl; try discriminate; auto.
  injection Hl as Hl. rewrite IH; auto.
Qed.

Lemma map_seq_ext (f : nat -> nat) : forall (l : list nat) s m,
  length l = m -> (forall i, i < m -> f (s + i) = nth i l 0) -> map f (seq s m) = l.
Proof.
  induction l as [|a l IH]; intros s m Hl Hf; simpl in Hl; subst m; simpl; [reflexivity|].
  f_equal.
  - assert (H0 := Hf 0 (Nat.lt_0_succ _)). rewrite Nat.add_0_r in H0. exact H0.
  - apply IH; [reflexivity|]. intros i Hi.
    replace (S s + i) with (s + S i) by lia. rewrite Hf; [reflexivity | lia].
Qed.

(* ------------------------------------------------------------------ *)
(* 1. partitions_sum                                                    *)
(* ------------------------------------------------------------------ *)

Lemma partitions_sum_SS k n :
  partitions_sum (S (S k)) n =
  flat_map (fun i => map (fun v => v ++ [i]) (partitions_sum (S k) (n - i))) (seq 0 (S n)).
Proof. reflexivity. Qed.

Lemma partitions_sum_spec_S k : forall n v,
  In v (partitions_sum (S k) n) <-> length v = S k /\ sum_nat v = n.
Proof.
  induction k as [|k IH]; intros n v.
  - simpl. split.
    + intros [H|[]]. subst. split; [reflexivity | apply sum_nat_single].
    + intros [Hl Hs]. destruct v as [|a [|b v]]; simpl in Hl; try discriminate.
      left. rewrite sum_nat_single in Hs. subst; reflexivity.
  - rewrite partitions_sum_SS, in_flat_map. split.
    + intros [i [Hi Hv]]. apply in_map_iff in Hv. destruct Hv as [w [Hw Hin]]. subst v.
      apply IH in Hin. destruct Hin as [Hl Hs]. apply in_seq in Hi.
      rewrite app_length, sum_nat_app, sum_nat_single. simpl. lia.
    + intros [Hl Hs].
      destruct (@exists_last _ v) as [w [i Hv]]; [intro; subst; discriminate|].
      subst v. rewrite app_length in Hl. rewrite sum_nat_app, sum_nat_single in Hs.
      simpl in Hl. exists i. split; [apply in_seq; lia|].
      apply in_map_iff. exists w. split; [reflexivity|]. apply IH. split; lia.
Qed.

Theorem partitions_sum_spec : forall k n v, (1 <= k)%nat ->
  (In v (partitions_sum k n) <-> length v = k /\ sum_nat v = n).
Proof.
  intros [|k] n v Hk; [lia|]. apply partitions_sum_spec_S.
Qed.

Lemma partitions_sum_nodup_S k : forall n, NoDup (partitions_sum (S k) n).
Proof.
  induction k as [|k IH]; intros n.
  - simpl. constructor; [intros [] | constructor].
  - rewrite partitions_sum_SS. apply NoDup_flat_map_intro.
    + apply seq_NoDup.
    + intros i _. apply NoDup_map_inj_in; [|apply IH].
      intros x y _ _ E. apply app_inv_tail in E. exact E.
    + intros i j z _ _ Hi Hj. apply in_map_iff in Hi, Hj.
      destruct Hi as [a [Ha _]], Hj as [b [Hb _]]. subst z.
      apply app_inj_tail in Hb. destruct Hb; auto.
Qed.

Theorem partitions_sum_nodup : forall k n, (1 <= k)%nat -> NoDup (partitions_sum k n).
Proof.
  intros [|k] n Hk; [lia|]. apply partitions_sum_nodup_S.
Qed.

(* ------------------------------------------------------------------ *)
(* 2. product_ranges                                                    *)
(* ------------------------------------------------------------------ *)

Lemma in_product_ranges rs : forall l,
  In l (product_ranges rs) <-> Forall2 (fun x r => In x r) l rs.
Proof.
  induction rs as [|r rs IH]; intros l; simpl.
  - split.
    + intros [H|[]]; subst; constructor.
    + intros H; inversion H; left; reflexivity.
  - rewrite in_flat_map. split.
    + intros [x [Hx Hl]]. apply in_map_iff in Hl. destruct Hl as [t [Ht Hin]]. subst.
      constructor; auto. apply IH; auto.
    + intros H. inversion H as [|x y l0 l0' Hxy Hrest]; subst.
      exists x. split; auto. apply in_map_iff. exists l0. split; auto. apply IH; auto.
Qed.

Lemma NoDup_product_ranges rs : Forall (@NoDup nat) rs -> NoDup (product_ranges rs).
Proof.
  induction 1 as [|r rs Hr Hrs IH]; simpl.
  - constructor; [intros [] | constructor].
  - apply NoDup_flat_map_intro; auto.
    + intros x _. apply NoDup_map_inj_in; auto. intros a b _ _ E; inversion E; reflexivity.
    + intros x y z _ _ Hx Hy. apply in_map_iff in Hx, Hy.
      destruct Hx as [a [Ha _]], Hy as [b [Hb _]]. subst. inversion Hb; reflexivity.
Qed.

Definition ranges (c : list nat) : list (list nat) := map (fun c => seq 0 (S c)) c.
Definition subp (cl : nat * nat) : nat := fst cl - snd cl.
Definition addp (cl : nat * nat) : nat := fst cl + snd cl.

Lemma ranges_le c : forall l,
  Forall2 (fun x r => In x r) l (ranges c) <-> Forall2 le l c.
Proof.
  unfold ranges.
  induction c as [|a c IH]; intros l; cbn [map]; split; intros H;
    inversion H as [|x y l0 l0' Hxy Hrest]; subst; constructor.
  - change (In x (seq 0 (S a))) in Hxy. apply in_seq in Hxy. lia.
  - apply IH; auto.
  - apply in_seq. lia.
  - apply IH; auto.
Qed.

Lemma ranges_NoDup c : Forall (@NoDup nat) (ranges c).
Proof.
  unfold ranges. apply Forall_forall. intros r Hr. apply in_map_iff in Hr.
  destruct Hr as [x [<- _]]. apply seq_NoDup.
Qed.

(* lower <= config pointwise: the complement recombines to config *)
Lemma le_recombine : forall l c, Forall2 le l c ->
  length (map subp (combine c l)) = length c /\
  map addp (combine l (map subp (combine c l))) = c.
Proof.
  induction 1 as [|x y l c Hxy H IH]; simpl; [split; reflexivity|].
  destruct IH as [IH1 IH2]. split; [f_equal; exact IH1|].
  f_equal; [unfold addp, subp; simpl; lia | exact IH2].
Qed.

Lemma add_decompose : forall l h, length l = length h ->
  Forall2 le l (map addp (combine l h)) /\
  map subp (combine (map addp (combine l h)) l) = h.
Proof.
  induction l as [|a l IH]; destruct h as [|b h]; simpl; intros Hl; try discriminate.
  - split; [constructor | reflexivity].
  - injection Hl as Hl. destruct (IH _ Hl) as [IH1 IH2]. split.
    + constructor; [unfold addp; simpl; lia | exact IH1].
    + f_equal; [unfold addp, subp; simpl; lia | exact IH2].
Qed.

Lemma addp_length l h : length l = length h -> length (map addp (combine l h)) = length l.
Proof. intros H. rewrite map_length, combine_length. lia. Qed.

Lemma nth_addp : forall l h i, length l = length h ->
  nth i (map addp (combine l h)) 0 = nth i l 0 + nth i h 0.
Proof.
  induction l as [|a l IH]; destruct h as [|b h]; simpl; intros i Hl; try discriminate.
  - destruct i; reflexivity.
  - destruct i; [reflexivity|]. apply IH. lia.
Qed.

(* ------------------------------------------------------------------ *)
(* 3. the fold map on mirrored vectors                                  *)
(* ------------------------------------------------------------------ *)

Lemma fold_config_odd n l h :
  n = 2 * length l + 1 -> length h = length l ->
  fold_config n (l ++ rev h) = map addp (combine l h).
Proof.
  intros Hn Hh. unfold fold_config.
  assert (Hdiv : n / 2 = length l).
  { symmetry. apply (Nat.div_unique n 2 (length l) 1); lia. }
  rewrite Hdiv. apply map_seq_ext.
  - apply addp_length; auto.
  - intros i Hi. rewrite nth_addp by auto.
    destruct (Nat.eqb_spec (1 + i) (n - (1 + i))) as [E|E]; [lia|].
    replace (1 + i - 1) with i by lia.
    replace (n - (1 + i) - 1) with (length l + (length l - 1 - i)) by lia.
    rewrite app_nth1 by lia. rewrite app_nth2_plus. rewrite rev_nth by lia.
    rewrite Hh. replace (length l - S (length l - 1 - i)) with i by lia. reflexivity.
Qed.

Lemma fold_config_even n l x h :
  n = 2 * (length l + 1) -> length h = length l ->
  fold_config n (l ++ [x] ++ rev h) = map addp (combine l h) ++ [x].
Proof.
  intros Hn Hh. unfold fold_config.
  assert (Hdiv : n / 2 = length l + 1).
  { symmetry. apply (Nat.div_unique n 2 (length l + 1) 0); lia. }
  rewrite Hdiv.
  assert (Hal := addp_length l h (eq_sym Hh)).
  apply map_seq_ext.
  - rewrite app_length, Hal. reflexivity.
  - intros i Hi.
    destruct (Nat.eq_dec i (length l)) as [Ei|Ei].
    + subst i. destruct (Nat.eqb_spec (1 + length l) (n - (1 + length l))) as [E|E]; [|lia].
      replace (1 + length l - 1) with (length l + 0) by lia.
      rewrite app_nth2_plus. transitivity x; [reflexivity|]. symmetry.
      rewrite <- Hal.
      rewrite <- (Nat.add_0_r (length (map addp (combine l h)))).
      rewrite app_nth2_plus. reflexivity.
    + destruct (Nat.eqb_spec (1 + i) (n - (1 + i))) as [E|E]; [lia|].
      rewrite (app_nth1 (map addp (combine l h))) by lia.
      rewrite nth_addp by auto.
      replace (1 + i - 1) with i by lia.
      replace (n - (1 + i) - 1) with (length (l ++ [x]) + (length l - 1 - i))
        by (rewrite app_length; simpl; lia).
      rewrite app_nth1 by lia. rewrite (app_assoc l [x] (rev h)).
      rewrite app_nth2_plus. rewrite rev_nth by lia.
      rewrite Hh. replace (length l - S (length l - 1 - i)) with i by lia. reflexivity.
Qed.

(* ------------------------------------------------------------------ *)
(* 4. unfold_config: shape in each parity                               *)
(* ------------------------------------------------------------------ *)

Definition unfold_of_lower (ic : nat) (config lower : list nat) : list nat :=
  lower ++ rev (firstn ic (map subp (combine config lower))).

Lemma unfold_config_odd n config : Nat.odd n = true ->
  unfold_config n config =
  map (unfold_of_lower (length config) config) (product_ranges (ranges config)).
Proof. intros H. unfold unfold_config. rewrite H. reflexivity. Qed.

Lemma unfold_config_even n c x : Nat.odd n = false ->
  unfold_config n (c ++ [x]) =
  map (unfold_of_lower (length c) (c ++ [x])) (product_ranges (ranges c ++ [[x]])).
Proof.
  intros H. unfold unfold_config. rewrite H, removelast_last, last_last, app_length.
  simpl length. replace (length c + 1 - 1) with (length c) by lia. reflexivity.
Qed.

Lemma unfold_of_lower_odd config l : Forall2 le l config ->
  unfold_of_lower (length config) config l = l ++ rev (map subp (combine config l)).
Proof.
  intros H. unfold unfold_of_lower. destruct (le_recombine _ _ H) as [Hlen _].
  rewrite firstn_all2 by lia. reflexivity.
Qed.

Lemma in_product_even c x l :
  In l (product_ranges (ranges c ++ [[x]])) <->
  exists l1, l = l1 ++ [x] /\ Forall2 le l1 c.
Proof.
  rewrite in_product_ranges. split.
  - intros H. apply Forall2_app_inv_r in H. destruct H as [l1 [l2 [H1 [H2 E]]]].
    inversion H2 as [|y r l0 l0' Hy Hrest]; subst. inversion Hrest; subst.
    destruct Hy as [Hy|[]]. subst y. exists l1. split; [reflexivity|].
    apply ranges_le; exact H1.
  - intros [l1 [E H]]. subst l. apply Forall2_app; [apply ranges_le; exact H|].
    constructor; [left; reflexivity | constructor].
Qed.

Lemma unfold_of_lower_even c x l1 : Forall2 le l1 c ->
  unfold_of_lower (length c) (c ++ [x]) (l1 ++ [x]) =
  l1 ++ [x] ++ rev (map subp (combine c l1)).
Proof.
  intros H. unfold unfold_of_lower. destruct (le_recombine _ _ H) as [Hlen _].
  rewrite combine_app_eq by (symmetry; eapply Forall2_len; eauto).
  rewrite map_app, firstn_exact by exact Hlen. rewrite <- app_assoc. reflexivity.
Qed.

Lemma parity_split n : n = 2 * (n / 2) + Nat.b2n (Nat.odd n).
Proof. rewrite <- Nat.div2_div. apply Nat.div2_odd. Qed.

(* ------------------------------------------------------------------ *)
(* 5. main theorems                                                     *)
(* ------------------------------------------------------------------ *)

Theorem unfold_is_fibre : forall n config u, (2 <= n)%nat -> length config = (n / 2)%nat ->
  (In u (unfold_config n config) <-> length u = (n - 1)%nat /\ fold_config n u = config).
Proof.
  intros n config u Hn Hlen. pose proof (parity_split n) as Hpar.
  destruct (Nat.odd n) eqn:Hodd; cbn [Nat.b2n] in Hpar.
  - (* odd n = 2m+1 *)
    rewrite unfold_config_odd by exact Hodd. rewrite in_map_iff. split.
    + intros [l [Hu Hl]]. apply in_product_ranges, ranges_le in Hl.
      rewrite unfold_of_lower_odd in Hu by exact Hl. subst u.
      destruct (le_recombine _ _ Hl) as [Hlen' Hre].
      pose proof (Forall2_len Hl) as Hll.
      split.
      * rewrite app_length, rev_length. lia.
      * rewrite fold_config_odd by lia. exact Hre.
    + intros [Hlu Hf].
      pose (l := firstn (n / 2) u). pose (r := skipn (n / 2) u).
      assert (Hll : length l = n / 2) by (apply firstn_length_le; lia).
      assert (Hlr : length r = n / 2) by (unfold r; rewrite skipn_length; lia).
      assert (Eu : u = l ++ rev (rev r))
        by (rewrite rev_involutive; symmetry; apply firstn_skipn).
      assert (Hlh : length (rev r) = length l) by (rewrite rev_length; lia).
      rewrite Eu in Hf. rewrite fold_config_odd in Hf by lia.
      destruct (add_decompose l (rev r) (eq_sym Hlh)) as [Hle Hsub].
      rewrite Hf in Hle, Hsub.
      exists l. split.
      * rewrite unfold_of_lower_odd by exact Hle. rewrite Hsub. symmetry; exact Eu.
      * apply in_product_ranges, ranges_le. exact Hle.
  - (* even n = 2m, m >= 1 *)
    destruct (@exists_last _ config) as [c [x Hc]].
    { intro; subst config; cbn [length] in Hlen; lia. }
    subst config. rewrite app_length in Hlen. cbn [length] in Hlen.
    rewrite unfold_config_even by exact Hodd. rewrite in_map_iff. split.
    + intros [l [Hu Hl]]. apply in_product_even in Hl. destruct Hl as [l1 [El Hl]].
      subst l. rewrite unfold_of_lower_even in Hu by exact Hl. subst u.
      destruct (le_recombine _ _ Hl) as [Hlen' Hre].
      pose proof (Forall2_len Hl) as Hll.
      split.
      * rewrite !app_length, rev_length. simpl. lia.
      * rewrite fold_config_even by lia. rewrite Hre. reflexivity.
    + intros [Hlu Hf].
      pose (l := firstn (length c) u). pose (r := skipn (length c) u).
      assert (Hll : length l = length c) by (apply firstn_length_le; lia).
      assert (Hlr : length r = length c + 1) by (unfold r; rewrite skipn_length; lia).
      destruct r as [|y r'] eqn:Er; [simpl in Hlr; lia|]. simpl in Hlr.
      assert (Eu : u = l ++ [y] ++ rev (rev r')).
      { rewrite rev_involutive. simpl. rewrite <- Er. symmetry; apply firstn_skipn. }
      assert (Hlh : length (rev r') = length l) by (rewrite rev_length; lia).
      rewrite Eu in Hf. rewrite fold_config_even in Hf by lia.
      apply app_inj_tail in Hf. destruct Hf as [Hf Hy]. subst y.
      destruct (add_decompose l (rev r') (eq_sym Hlh)) as [Hle Hsub].
      rewrite Hf in Hle, Hsub.
      exists (l ++ [x]). split.
      * rewrite unfold_of_lower_even by exact Hle. rewrite Hsub.
        symmetry; exact Eu.
      * apply in_product_even. exists l. split; [reflexivity | exact Hle].
Qed.

Theorem unfold_nodup : forall n config, (2 <= n)%nat -> length config = (n / 2)%nat ->
  NoDup (unfold_config n config).
Proof.
  intros n config Hn Hlen. pose proof (parity_split n) as Hpar.
  destruct (Nat.odd n) eqn:Hodd; cbn [Nat.b2n] in Hpar.
  - rewrite unfold_config_odd by exact Hodd.
    apply NoDup_map_inj_in; [|apply NoDup_product_ranges, ranges_NoDup].
    intros l l' Hl Hl' E.
    apply in_product_ranges, ranges_le in Hl. apply in_product_ranges, ranges_le in Hl'.
    unfold unfold_of_lower in E. apply app_eq_len in E; [tauto|].
    rewrite (Forall2_len Hl), (Forall2_len Hl'). reflexivity.
  - destruct (@exists_last _ config) as [c [x Hc]].
    { intro; subst config; cbn [length] in Hlen; lia. }
    subst config. rewrite unfold_config_even by exact Hodd.
    apply NoDup_map_inj_in.
    + intros l l' Hl Hl' E.
      apply in_product_even in Hl. apply in_product_even in Hl'.
      destruct Hl as [l1 [-> H1]], Hl' as [l1' [-> H1']].
      unfold unfold_of_lower in E. apply app_eq_len in E; [tauto|].
      rewrite !app_length, (Forall2_len H1), (Forall2_len H1'). reflexivity.
    + apply NoDup_product_ranges. apply Forall_app. split; [apply ranges_NoDup|].
      constructor; [|constructor]. constructor; [intros [] | constructor].
Qed.

(* fibre sizes: a consequence worth recording *)
Corollary unfold_fibre_unique : forall n config l1 l2, (2 <= n)%nat ->
  length config = (n / 2)%nat ->
  (forall u, In u l1 <-> length u = (n - 1)%nat /\ fold_config n u = config) ->
  NoDup l1 -> l2 = unfold_config n config -> Permutation l1 l2.
Proof.
  intros n config l1 l2 Hn Hlen Hspec Hnd ->.
  apply NoDup_Permutation; [exact Hnd | apply unfold_nodup; assumption|].
  intros u. rewrite Hspec. symmetry. apply unfold_is_fibre; assumption.
Qed.

(* ------------------------------------------------------------------ *)
(* 6. examples                                                          *)
(* ------------------------------------------------------------------ *)

Example unfold_4_21 : unfold_config 4 [2;1] = [[0;1;2]; [1;1;1]; [2;1;0]].
Proof. vm_compute. reflexivity. Qed.

Example unfold_5_11 :
  unfold_config 5 [1;1] = [[0;0;1;1]; [0;1;0;1]; [1;0;1;0]; [1;1;0;0]].
Proof. vm_compute. reflexivity. Qed.

Example unfold_2_3 : unfold_config 2 [3] = [[3]].
Proof. vm_compute. reflexivity. Qed.

Example unfold_3_2 : unfold_config 3 [2] = [[0;2]; [1;1]; [2;0]].
Proof. vm_compute. reflexivity. Qed.

Example partitions_3_2 :
  partitions_sum 3 2 = [[2;0;0]; [1;1;0]; [0;2;0]; [1;0;1]; [0;1;1]; [0;0;2]].
Proof. vm_compute. reflexivity. Qed.

Print Assumptions partitions_sum_spec.
Print Assumptions partitions_sum_nodup.
Print Assumptions unfold_is_fibre.
Print Assumptions unfold_nodup.
Print Assumptions unfold_fibre_unique.
Print Assumptions unfold_4_21.
Print Assumptions unfold_5_11.
