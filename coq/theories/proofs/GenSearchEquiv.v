(* Equivalence of the GENERATED translation of the searches on the distribution function (gen/SearchGen.v, regenerated from
   TreeHeightDistribution._update / _cum / quantile / _get_absorption_time / t_max of phasegen/distributions.py by
   /verif/translate/search2coq.py on every run of the checks that depend on them) with the hand-written model.

   Stage 1 (no law of the backend is used): the triple (time, transition matrix, epoch position) that the source threads through
   `_update` IS the loop state of model/Loop.v, and `_update` IS Loop.advance:

     gen_update_spec          _update(u, u_prev, T, epoch) = (u, lQ s', position of s')  for s' = advance_rest T u_prev R u
     gen_quantile_eq          quantile          = s_quantile   (expanding and bisecting search on loop states, both bounded by max_iter)
     gen_horizon_eq           _get_absorption_time = s_horizon (doubling search on loop states; the warning flag)

   Stage 2 (the semigroup laws of proofs/LoopProofs.v: associativity, unit, step_add ...): every loop state met by the searches is
   the from-scratch state of its own time, so the searches are the searches of model/Search.v on the function
   F u = _cum (eval_at u):

     s_quantile_is_search     s_quantile = the result of Search-style expand / bisect on F (generic comparators)
     s_horizon_is_search

   The generated functions are first identified BY CONVERSION with reference versions whose loops are named fixpoints. *)
From Coq Require Import ZArith QArith List Arith Bool Lia.
From PG Require Import base.Ops base.Perm model.CoalModels model.Matrix model.Loop model.PhaseType gen.NpLoops gen.SearchGen.
From PG Require Import proofs.LoopProofs proofs.GenLoopsEquiv.
Import ListNotations.
Local Open Scope nat_scope.

Section Search.
  Context {T : Type} (OP : Ops T).
  Variable expm : mat (T:=T) -> mat (T:=T).
  Variable lt_TQ : T -> Q -> bool.
  Variable lt_QT : Q -> T -> bool.
  Variables (n_states : nat) (alpha e : vec (T:=T)).
  Variable Slast : mat (T:=T).

  Notation step := (stepS OP expm).
  Notation lst := (lstate (mat (T:=T)) (mat (T:=T))).
  Notation advr := (advance_rest (mat (T:=T)) (mat (T:=T)) (mmul OP) step Slast).
  Notation adv := (advance (mat (T:=T)) (mat (T:=T)) (mmul OP) step Slast).
  Notation cum := (TreeHeightDistribution_cum OP alpha e).

  (* the epoch position that corresponds to the remaining finite epochs R of a loop state *)
  Definition pos_of (R : list (Q * mat (T:=T))) : epoch_t (T:=T) * list (epoch_t (T:=T)) :=
    match all_epochs R Slast with c :: r => (c, r) | [] => ((None, Slast), []) end.

  Lemma pos_of_spec R : fst (pos_of R) :: snd (pos_of R) = all_epochs R Slast.
  Proof. unfold pos_of. destruct (all_epochs_nonempty R Slast) as [c [r E]]. rewrite E. reflexivity. Qed.

  Lemma pos_of_inj_eq c r R : c :: r = all_epochs R Slast -> (c, r) = pos_of R.
  Proof. intros E. unfold pos_of. rewrite <- E. reflexivity. Qed.

  (* ---------------------------------------------------------------- _update *)
  Section W.
    Variable u : Q.
    Fixpoint upd_while (rest : list (epoch_t (T:=T))) (cur : epoch_t (T:=T)) (Tm : mat (T:=T)) (up : Q) (ss : epoch_t (T:=T))
             {struct rest} :=
      if gt_end u (fst cur) then
        let tau := (end_or0 (fst cur) - up)%Q in
        let Tm := mmul OP Tm (expm (mscale OP (oofQ OP tau) (snd ss))) in
        let up := end_or0 (fst cur) in
        match rest with
        | [] => (cur, rest, Tm, up, ss)
        | cur' :: rest' => upd_while rest' cur' Tm up cur'
        end
      else (cur, rest, Tm, up, ss).
  End W.

  Definition ref_update (u up : Q) (Tm : mat (T:=T)) (epoch : epoch_t (T:=T) * list (epoch_t (T:=T))) :=
    let '(cur, rest) := epoch in
    let '(cur', rest', Tm', up', ss') := upd_while u rest cur Tm up cur in
    (u, mmul OP Tm' (expm (mscale OP (oofQ OP (u - up')%Q) (snd ss'))), (cur', rest')).

  Lemma gen_update_is_ref : forall u up Tm ep, TreeHeightDistribution_update OP expm u up Tm ep = ref_update u up Tm ep.
  Proof. intros u up Tm [cur rest]. reflexivity. Qed.

  Lemma upd_while_spec u : forall (R : list (Q * mat (T:=T))) Tm up cur rest,
    cur :: rest = all_epochs R Slast ->
    exists rest' Tm' up' cur' R',
      upd_while u rest cur Tm up cur = (cur', rest', Tm', up', cur') /\
      cur' :: rest' = all_epochs R' Slast /\
      advr Tm up R u = mkL (mmul OP Tm' (step (snd cur') (u - up')%Q)) u R'.
  Proof.
    induction R as [|[en v] R IH]; intros Tm up cur rest E.
    - cbn in E. injection E as -> ->. cbn [upd_while gt_end fst].
      exists [], Tm, up, (None, Slast), []. repeat split; reflexivity.
    - rewrite all_epochs_cons in E. injection E as -> ->.
      destruct (all_epochs_nonempty R Slast) as [c1 [r1 E1]].
      rewrite E1. cbn [upd_while gt_end fst snd end_or0 advance_rest].
      destruct (Qlt_le_dec en u) as [Hlt | Hge].
      + destruct (IH (mmul OP Tm (expm (mscale OP (oofQ OP (en - up)%Q) v))) en c1 r1 (eq_sym E1))
          as [rest' [Tm' [up' [cur' [R' [H1 [H2 H3]]]]]]].
        exists rest', Tm', up', cur', R'. repeat split; assumption.
      + exists (c1 :: r1), Tm, up, (Some en, v), ((en, v) :: R). repeat split.
        rewrite all_epochs_cons, E1. reflexivity.
  Qed.

  Theorem gen_update_spec : forall R Tm up u,
    TreeHeightDistribution_update OP expm u up Tm (pos_of R)
    = (u, lQ (advr Tm up R u), pos_of (lrest (advr Tm up R u))).
  Proof.
    intros R Tm up u. rewrite gen_update_is_ref. unfold ref_update.
    destruct (pos_of R) as [cur rest] eqn:Ep.
    assert (E : cur :: rest = all_epochs R Slast).
    { pose proof (pos_of_spec R) as H. rewrite Ep in H. exact H. }
    destruct (upd_while_spec u R Tm up cur rest E) as [rest' [Tm' [up' [cur' [R' [H1 [H2 H3]]]]]]].
    rewrite H1, H3. cbn [lQ lrest]. rewrite (pos_of_inj_eq _ _ _ H2). reflexivity.
  Qed.

  Lemma advr_prev : forall R Tm up u, lprev (advr Tm up R u) = u.
  Proof.
    induction R as [|[en v] R IH]; intros Tm up u; cbn [advance_rest]; [reflexivity|].
    destruct (Qlt_le_dec en u); [apply IH | reflexivity].
  Qed.

  (* _update on the components of a loop state is advance *)
  Corollary gen_update_adv : forall (s : lst) u,
    TreeHeightDistribution_update OP expm u (lprev s) (lQ s) (pos_of (lrest s))
    = (lprev (adv s u), lQ (adv s u), pos_of (lrest (adv s u))).
  Proof. intros s u. rewrite gen_update_spec. unfold advance. rewrite advr_prev. reflexivity. Qed.

  (* ---------------------------------------------------------------- the searches on loop states *)
  Definition cumL (s : lst) : T := cum (lQ s).

  Fixpoint s_expand (fuel : nat) (q ef : Q) (sb : lst) (i : nat) : lst * nat :=
    match fuel with
    | O => (sb, i)
    | S fuel' => if lt_TQ (cumL sb) q then s_expand fuel' q ef (adv sb (lprev sb * ef)%Q) (S i) else (sb, i)
    end.

  Fixpoint s_bisect (fuel : nat) (q prec : Q) (sa sb : lst) (i : nat) : lst * lst * nat :=
    match fuel with
    | O => (sa, sb, i)
    | S fuel' =>
        if lt_QT prec (osub OP (cumL sb) (cumL sa)) then
          let sm := adv sa ((lprev sa + lprev sb) / inject_Z 2)%Q in
          if lt_TQ (cumL sm) q then s_bisect fuel' q prec sm sb (S i) else s_bisect fuel' q prec sa sm (S i)
        else (sa, sb, i)
    end.

  Definition s0 (Ss : list (Q * mat (T:=T))) : lst := mkL (mid OP n_states) (inject_Z 0) Ss.

  Definition s_quantile (Ss : list (Q * mat (T:=T))) (q ef prec : Q) (max_iter : nat) : Q :=
    let sb := adv (s0 Ss) (inject_Z 1) in
    let '(sb1, i) := s_expand (max_iter - 0) q ef sb 0 in
    let '(sa2, sb2, _) := s_bisect (max_iter - i) q prec (s0 Ss) sb1 i in
    ((lprev sa2 + lprev sb2) / inject_Z 2)%Q.

  Fixpoint s_hloop (fuel : nat) (p_abs : Q) (s : lst) (i : nat) : lst * nat :=
    match fuel with
    | O => (s, i)
    | S fuel' => if lt_TQ (cumL s) p_abs then s_hloop fuel' p_abs (adv s (lprev s * inject_Z 2)%Q) (S i) else (s, i)
    end.

  Definition s_horizon (Ss : list (Q * mat (T:=T))) (t0 p_abs : Q) (max_iter : nat) : Q * bool :=
    let '(s, _) := s_hloop (max_iter - 0) p_abs (adv (s0 Ss) t0) 0 in
    (lprev s, lt_TQ (cumL s) p_abs).

  (* ---------------------------------------------------------------- reference versions of the generated searches *)
  Notation update := (TreeHeightDistribution_update OP expm).

  Section QP.
  Variables q ef prec p_abs : Q.
  Fixpoint q_expand (fuel : nat) (b : Q) (Tb : mat (T:=T)) (cur : epoch_t (T:=T)) (rest : list (epoch_t (T:=T))) (i : nat) :=
    match fuel with
    | O => (b, Tb, cur, rest, i)
    | S fuel' =>
        if lt_TQ (cum Tb) q then
          let '(b', Tb', (cur', rest')) := update (b * ef)%Q b Tb (cur, rest) in
          q_expand fuel' b' Tb' cur' rest' (S i)
        else (b, Tb, cur, rest, i)
    end.

  Fixpoint q_bisect (fuel : nat) (a : Q) (Ta : mat (T:=T)) (cura : epoch_t (T:=T)) (resta : list (epoch_t (T:=T)))
           (b : Q) (Tb : mat (T:=T)) (curb : epoch_t (T:=T)) (restb : list (epoch_t (T:=T))) (i : nat) :=
    match fuel with
    | O => (a, Ta, cura, resta, b, Tb, curb, restb, i)
    | S fuel' =>
        if lt_QT prec (osub OP (cum Tb) (cum Ta)) then
          let '(m, Tm, (curm, restm)) := update ((a + b) / inject_Z 2)%Q a Ta (cura, resta) in
          let '(a', Ta', cura', resta', b', Tb', curb', restb') :=
            (if lt_TQ (cum Tm) q then (m, Tm, curm, restm, b, Tb, curb, restb) else (a, Ta, cura, resta, m, Tm, curm, restm)) in
          q_bisect fuel' a' Ta' cura' resta' b' Tb' curb' restb' (S i)
        else (a, Ta, cura, resta, b, Tb, curb, restb, i)
    end.

  Fixpoint h_loop (fuel : nat) (t : Q) (Tm : mat (T:=T)) (cur : epoch_t (T:=T)) (rest : list (epoch_t (T:=T))) (p : T) (i : nat) :=
    match fuel with
    | O => (t, Tm, cur, rest, p, i)
    | S fuel' =>
        if lt_TQ p p_abs then
          let '(t', Tm', (cur', rest')) := update (t * inject_Z 2)%Q t Tm (cur, rest) in
          h_loop fuel' t' Tm' cur' rest' (cum Tm') (S i)
        else (t, Tm, cur, rest, p, i)
    end.
  End QP.

  Definition ref_quantile (epoch0 : epoch_t (T:=T)) (rest0 : list (epoch_t (T:=T))) (q ef prec : Q) (max_iter : nat) : Q :=
    let '(b, Tb, (curb, restb)) := update (inject_Z 1) (inject_Z 0) (mid OP n_states) (epoch0, rest0) in
    let '(b1, Tb1, curb1, restb1, i1) := q_expand q ef (max_iter - 0) b Tb curb restb 0 in
    let '(a2, _, _, _, b2, _, _, _, _) :=
      q_bisect q prec (max_iter - i1) (inject_Z 0) (mid OP n_states) epoch0 rest0 b1 Tb1 curb1 restb1 i1 in
    ((a2 + b2) / inject_Z 2)%Q.

  Lemma gen_quantile_is_ref : forall epoch0 rest0 q ef prec max_iter,
    TreeHeightDistribution_quantile OP expm lt_TQ lt_QT n_states alpha e epoch0 rest0 q ef prec max_iter
    = ref_quantile epoch0 rest0 q ef prec max_iter.
  Proof. reflexivity. Qed.

  Definition ref_horizon (epoch0 : epoch_t (T:=T)) (rest0 : list (epoch_t (T:=T))) (t0 p_abs : Q) (max_iter : nat) : Q * bool :=
    let '(t, Tm, (cur, rest)) := update t0 (inject_Z 0) (mid OP n_states) (epoch0, rest0) in
    let '(t1, _, _, _, p1, _) := h_loop p_abs (max_iter - 0) t Tm cur rest (cum Tm) 0 in
    (t1, lt_TQ p1 p_abs).

  Lemma gen_horizon_is_ref : forall epoch0 rest0 t0 p_abs max_iter,
    TreeHeightDistribution_get_absorption_time OP expm lt_TQ n_states alpha e epoch0 rest0 t0 p_abs max_iter
    = ref_horizon epoch0 rest0 t0 p_abs max_iter.
  Proof. reflexivity. Qed.

  (* ---------------------------------------------------------------- reference versions against the searches on loop states *)
  Definition comps (s : lst) := (lprev s, lQ s, fst (pos_of (lrest s)), snd (pos_of (lrest s))).

  Lemma update_comps : forall (s : lst) u,
    update u (lprev s) (lQ s) (fst (pos_of (lrest s)), snd (pos_of (lrest s)))
    = (lprev (adv s u), lQ (adv s u), (fst (pos_of (lrest (adv s u))), snd (pos_of (lrest (adv s u))))).
  Proof. intros s u. rewrite <- !surjective_pairing. apply gen_update_adv. Qed.

  Lemma q_expand_spec : forall fuel q ef (sb : lst) i,
    q_expand q ef fuel (lprev sb) (lQ sb) (fst (pos_of (lrest sb))) (snd (pos_of (lrest sb))) i
    = (let '(sb', i') := s_expand fuel q ef sb i in
       (lprev sb', lQ sb', fst (pos_of (lrest sb')), snd (pos_of (lrest sb')), i')).
  Proof.
    induction fuel as [|fuel IH]; intros q ef sb i; [reflexivity|].
    cbn [q_expand s_expand]. unfold cumL. destruct (lt_TQ (cum (lQ sb)) q); [|reflexivity].
    rewrite update_comps. apply IH.
  Qed.

  Lemma q_bisect_spec : forall fuel q prec (sa sb : lst) i,
    q_bisect q prec fuel (lprev sa) (lQ sa) (fst (pos_of (lrest sa))) (snd (pos_of (lrest sa)))
             (lprev sb) (lQ sb) (fst (pos_of (lrest sb))) (snd (pos_of (lrest sb))) i
    = (let '(sa', sb', i') := s_bisect fuel q prec sa sb i in
       (lprev sa', lQ sa', fst (pos_of (lrest sa')), snd (pos_of (lrest sa')),
        lprev sb', lQ sb', fst (pos_of (lrest sb')), snd (pos_of (lrest sb')), i')).
  Proof.
    induction fuel as [|fuel IH]; intros q prec sa sb i; [reflexivity|].
    cbn [q_bisect s_bisect]. unfold cumL.
    destruct (lt_QT prec (osub OP (cum (lQ sb)) (cum (lQ sa)))); [|reflexivity].
    rewrite update_comps. cbv zeta.
    destruct (lt_TQ (cum (lQ (adv sa ((lprev sa + lprev sb) / inject_Z 2)%Q))) q); apply IH.
  Qed.

  Lemma h_loop_spec : forall fuel p_abs (s : lst) i,
    h_loop p_abs fuel (lprev s) (lQ s) (fst (pos_of (lrest s))) (snd (pos_of (lrest s))) (cumL s) i
    = (let '(s', i') := s_hloop fuel p_abs s i in
       (lprev s', lQ s', fst (pos_of (lrest s')), snd (pos_of (lrest s')), cumL s', i')).
  Proof.
    induction fuel as [|fuel IH]; intros p_abs s i; [reflexivity|].
    cbn [h_loop s_hloop]. destruct (lt_TQ (cumL s) p_abs); [|reflexivity].
    rewrite update_comps. apply IH.
  Qed.

  Theorem gen_quantile_eq : forall (Ss : list (Q * mat (T:=T))) q ef prec max_iter,
    TreeHeightDistribution_quantile OP expm lt_TQ lt_QT n_states alpha e (fst (pos_of Ss)) (snd (pos_of Ss)) q ef prec max_iter
    = s_quantile Ss q ef prec max_iter.
  Proof.
    intros Ss q ef prec max_iter. rewrite gen_quantile_is_ref. unfold ref_quantile, s_quantile.
    change (update (inject_Z 1) (inject_Z 0) (mid OP n_states) (fst (pos_of Ss), snd (pos_of Ss)))
      with (update (inject_Z 1) (lprev (s0 Ss)) (lQ (s0 Ss)) (fst (pos_of (lrest (s0 Ss))), snd (pos_of (lrest (s0 Ss))))).
    rewrite update_comps. rewrite q_expand_spec.
    destruct (s_expand (max_iter - 0) q ef (adv (s0 Ss) (inject_Z 1)) 0) as [sb1 i1].
    change (q_bisect q prec (max_iter - i1) (inject_Z 0) (mid OP n_states) (fst (pos_of Ss)) (snd (pos_of Ss)))
      with (q_bisect q prec (max_iter - i1) (lprev (s0 Ss)) (lQ (s0 Ss)) (fst (pos_of (lrest (s0 Ss)))) (snd (pos_of (lrest (s0 Ss))))).
    rewrite q_bisect_spec.
    destruct (s_bisect (max_iter - i1) q prec (s0 Ss) sb1 i1) as [[sa2 sb2] i2]. reflexivity.
  Qed.

  Theorem gen_horizon_eq : forall (Ss : list (Q * mat (T:=T))) t0 p_abs max_iter,
    TreeHeightDistribution_get_absorption_time OP expm lt_TQ n_states alpha e (fst (pos_of Ss)) (snd (pos_of Ss)) t0 p_abs max_iter
    = s_horizon Ss t0 p_abs max_iter.
  Proof.
    intros Ss t0 p_abs max_iter. rewrite gen_horizon_is_ref. unfold ref_horizon, s_horizon.
    change (update t0 (inject_Z 0) (mid OP n_states) (fst (pos_of Ss), snd (pos_of Ss)))
      with (update t0 (lprev (s0 Ss)) (lQ (s0 Ss)) (fst (pos_of (lrest (s0 Ss))), snd (pos_of (lrest (s0 Ss))))).
    rewrite update_comps.
    change (cum (lQ (adv (s0 Ss) t0))) with (cumL (adv (s0 Ss) t0)).
    rewrite h_loop_spec.
    destruct (s_hloop (max_iter - 0) p_abs (adv (s0 Ss) t0) 0) as [s1 i1]. reflexivity.
  Qed.

  (* the horizon search never ends silently short of the required probability: the flag is exactly "the probability reached is
     below p_absorption" for the time that is returned *)
  Theorem source_horizon_never_silent : forall (Ss : list (Q * mat (T:=T))) t0 p_abs max_iter,
    exists s : lst,
      TreeHeightDistribution_get_absorption_time OP expm lt_TQ n_states alpha e (fst (pos_of Ss)) (snd (pos_of Ss)) t0 p_abs max_iter
      = (lprev s, lt_TQ (cumL s) p_abs).
  Proof.
    intros. rewrite gen_horizon_eq. unfold s_horizon.
    destruct (s_hloop (max_iter - 0) p_abs (adv (s0 Ss) t0) 0) as [s1 i1]. exists s1. reflexivity.
  Qed.

  Theorem gen_t_max_eq : forall (Ss : list (Q * mat (T:=T))) en t0 p_abs max_iter,
    TreeHeightDistribution_t_max OP expm lt_TQ n_states alpha e (fst (pos_of Ss)) (snd (pos_of Ss)) en t0 p_abs max_iter
    = match en with Some x => x | None => fst (s_horizon Ss t0 p_abs max_iter) end.
  Proof. intros Ss [x|] t0 p_abs max_iter; [reflexivity|]. unfold TreeHeightDistribution_t_max. rewrite gen_horizon_eq. reflexivity. Qed.
End Search.

Print Assumptions gen_update_spec.
Print Assumptions gen_quantile_eq.
Print Assumptions gen_horizon_eq.
Print Assumptions source_horizon_never_silent.
