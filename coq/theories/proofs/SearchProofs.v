(* Proofs about the two searches on the CDF (model/Search.v): quantile (expanding + bisecting
   search) and the doubling search for the default horizon. *)
From Coq Require Import QArith Qabs Qpower List Bool Lia Lqa.
From PG Require Import model.Search.
Import ListNotations.
Open Scope Q_scope.

(* powers used to describe the positions reached by the loops *)
Fixpoint qpow (x : Q) (k : nat) : Q :=
  match k with O => 1 | S k' => x * qpow x k' end.
Definition pow2 (k : nat) : Q := qpow 2 k.

Lemma qpow_Qpower : forall x k, qpow x k == x ^ Z.of_nat k.
Proof.
  intros x k. induction k as [|k IH].
  - reflexivity.
  - rewrite Nat2Z.inj_succ. unfold Z.succ.
    destruct (Qeq_dec x 0) as [Hx|Hx].
    + simpl qpow.
      transitivity (0 * qpow x k); [apply Qmult_comp; [exact Hx | reflexivity]|].
      transitivity (0 ^ (Z.of_nat k + 1)); [|apply Qpower_comp; [symmetry; exact Hx | reflexivity]].
      rewrite Qpower_0; [ring | lia].
    + rewrite Qpower_plus by exact Hx. simpl qpow. rewrite IH. simpl (x ^ 1). ring.
Qed.

Lemma pow2_Qpower : forall k, pow2 k == 2 ^ Z.of_nat k.
Proof. intros k. apply qpow_Qpower. Qed.

Lemma qpow_pos : forall x k, 0 < x -> 0 < qpow x k.
Proof.
  intros x k Hx. induction k as [|k IH]; simpl; [lra|]. apply Qmult_lt_0_compat; assumption.
Qed.

Lemma half_between : forall a b, a <= b -> a <= (a + b) / 2 /\ (a + b) / 2 <= b.
Proof.
  intros a b H. assert (E : (a + b) / 2 == (a + b) * (1 # 2)) by (unfold Qdiv; reflexivity).
  rewrite E. split; lra.
Qed.

Section S.
  Variable F : Q -> Q.
  (* monotone on the non-negative arguments: what holds for a CDF.  (Compatibility of F with ==
     on non-negative arguments follows from it; it is not needed as a separate hypothesis.) *)
  Hypothesis F_mono : forall a b, 0 <= a -> a <= b -> F a <= F b.

  Lemma F_proper_nonneg : forall a b, 0 <= a -> a == b -> F a == F b.
  Proof.
    intros a b Ha E. apply Qle_antisym; apply F_mono; lra.
  Qed.

  (* ---------------------------------------------------------------------------------------- *)
  (* 1. bisect (no monotonicity needed: the bracket is maintained by the tests themselves)     *)
  (* ---------------------------------------------------------------------------------------- *)

  Lemma bisect_inv : forall fuel q prec a b i a' b' i',
    a <= b -> F a <= q ->
    bisect F fuel q prec a b i = (a', b', i') ->
    a <= a' /\ a' <= b' /\ b' <= b /\ F a' <= q /\ (q <= F b -> q <= F b') /\
    (i <= i')%nat /\ (i' <= i + fuel)%nat /\
    ((i' < i + fuel)%nat -> F b' - F a' <= prec) /\
    (b' - a') * pow2 (i' - i) == b - a.
  Proof.
    induction fuel as [|fuel IH]; intros q prec a b i a' b' i' Hab Ha H; simpl in H.
    - injection H as <- <- <-. rewrite Nat.sub_diag. unfold pow2; simpl.
      repeat apply conj; try lra; try lia.
    - destruct (Qlt_le_dec prec (F b - F a)) as [Hgt|Hle].
      + destruct (half_between a b Hab) as [M1 M2].
        assert (EM : (a + b) / 2 == (a + b) * (1 # 2)) by (unfold Qdiv; reflexivity).
        set (m := (a + b) / 2) in *.
        destruct (Qlt_le_dec (F m) q) as [Hm|Hm].
        * destruct (IH q prec m b (S i) a' b' i' M2 ltac:(lra) H)
            as (I1 & I2 & I3 & I4 & I5 & I6 & I7 & I8 & I9).
          repeat apply conj; try lra; try lia; try assumption.
          -- intros Hi. apply I8. lia.
          -- replace (i' - i)%nat with (S (i' - S i)) by lia.
             unfold pow2 in *. simpl qpow.
             assert (X : (b' - a') * (2 * qpow 2 (i' - S i)) == 2 * ((b' - a') * qpow 2 (i' - S i))) by ring.
             rewrite X, I9. lra.
        * destruct (IH q prec a m (S i) a' b' i' M1 Ha H)
            as (I1 & I2 & I3 & I4 & I5 & I6 & I7 & I8 & I9).
          repeat apply conj; try lra; try lia; try assumption.
          -- intros Hi. apply I8. lia.
          -- replace (i' - i)%nat with (S (i' - S i)) by lia.
             unfold pow2 in *. simpl qpow.
             assert (X : (b' - a') * (2 * qpow 2 (i' - S i)) == 2 * ((b' - a') * qpow 2 (i' - S i))) by ring.
             rewrite X, I9. lra.
      + injection H as <- <- <-. rewrite Nat.sub_diag. unfold pow2; simpl.
        repeat apply conj; try lra; try lia.
  Qed.

  Theorem bisect_spec : forall fuel q prec a b i a' b' i',
    a <= b -> F a <= q -> q <= F b ->
    bisect F fuel q prec a b i = (a', b', i') ->
    a <= a' /\ a' <= b' /\ b' <= b /\ F a' <= q /\ q <= F b' /\
    (i <= i')%nat /\ (i' <= i + fuel)%nat /\
    ((i' < i + fuel)%nat -> F b' - F a' <= prec) /\
    (b' - a') * pow2 (i' - i) == b - a.
  Proof.
    intros fuel q prec a b i a' b' i' Hab Ha Hb H.
    destruct (bisect_inv fuel q prec a b i a' b' i' Hab Ha H)
      as (I1 & I2 & I3 & I4 & I5 & I6 & I7 & I8 & I9).
    repeat apply conj; auto.
  Qed.

  (* ---------------------------------------------------------------------------------------- *)
  (* 2. expand                                                                                 *)
  (* ---------------------------------------------------------------------------------------- *)

  Theorem expand_spec : forall fuel q ef b i b' i',
    0 < b -> 1 < ef ->
    expand F fuel q ef b i = (b', i') ->
    b <= b' /\ (i <= i')%nat /\ (i' <= i + fuel)%nat /\
    ((i' < i + fuel)%nat -> q <= F b') /\
    b' == b * qpow ef (i' - i).
  Proof.
    induction fuel as [|fuel IH]; intros q ef b i b' i' Hb Hef H; simpl in H.
    - injection H as <- <-. rewrite Nat.sub_diag. simpl. repeat apply conj; try lra; try lia.
    - destruct (Qlt_le_dec (F b) q) as [Hlt|Hle].
      + assert (P : 0 < b * (ef - 1)) by (apply Qmult_lt_0_compat; lra).
        assert (Hb' : 0 < b * ef) by lra.
        destruct (IH q ef (b * ef) (S i) b' i' Hb' Hef H) as (I1 & I2 & I3 & I4 & I5).
        repeat apply conj; try lra; try lia.
        * intros Hi. apply I4. lia.
        * replace (i' - i)%nat with (S (i' - S i)) by lia. simpl qpow. rewrite I5. ring.
      + injection H as <- <-. rewrite Nat.sub_diag. simpl. repeat apply conj; try lra; try lia.
  Qed.

  (* ---------------------------------------------------------------------------------------- *)
  (* 3. quantile                                                                               *)
  (* ---------------------------------------------------------------------------------------- *)

  (* what holds in every case, also when the iteration budget is exhausted *)
  Theorem quantile_always : forall q ef prec max_iter res a b i,
    F 0 <= q -> 1 < ef ->
    quantile F q ef prec max_iter = (res, a, b, i) ->
    0 <= a /\ a <= res /\ res <= b /\ res == (a + b) / 2 /\ F a <= q /\ F a <= F res /\
    (i <= max_iter)%nat.
  Proof.
    intros q ef prec max_iter res a b i H0 Hef H. unfold quantile in H.
    destruct (expand F max_iter q ef 1 0) as [b0 i0] eqn:EX.
    destruct (bisect F (max_iter - i0) q prec 0 b0 i0) as [[a1 b1] i1] eqn:EB.
    injection H as <- <- <- <-.
    destruct (expand_spec max_iter q ef 1 0%nat b0 i0 ltac:(lra) Hef EX) as (X1 & X2 & X3 & X4 & _).
    destruct (bisect_inv (max_iter - i0) q prec 0 b0 i0 a1 b1 i1 ltac:(lra) H0 EB)
      as (I1 & I2 & I3 & I4 & I5 & I6 & I7 & I8 & _).
    destruct (half_between a1 b1 I2) as [M1 M2].
    repeat apply conj; try assumption; try reflexivity; try lia.
    apply F_mono; assumption.
  Qed.

  (* the budget was not exhausted: |F(result) - q| <= precision *)
  Theorem quantile_spec : forall q ef prec max_iter res a b i,
    F 0 <= q -> 1 < ef ->
    quantile F q ef prec max_iter = (res, a, b, i) ->
    (i < max_iter)%nat ->
    0 <= a /\ a <= res /\ res <= b /\ F a <= q /\ q <= F b /\ F b - F a <= prec /\
    F a <= F res /\ F res <= F b /\
    F res - q <= prec /\ q - F res <= prec /\ Qabs (F res - q) <= prec.
  Proof.
    intros q ef prec max_iter res a b i H0 Hef H Hi. unfold quantile in H.
    destruct (expand F max_iter q ef 1 0) as [b0 i0] eqn:EX.
    destruct (bisect F (max_iter - i0) q prec 0 b0 i0) as [[a1 b1] i1] eqn:EB.
    injection H as <- <- <- <-.
    destruct (expand_spec max_iter q ef 1 0%nat b0 i0 ltac:(lra) Hef EX) as (X1 & X2 & X3 & X4 & _).
    destruct (bisect_inv (max_iter - i0) q prec 0 b0 i0 a1 b1 i1 ltac:(lra) H0 EB)
      as (I1 & I2 & I3 & I4 & I5 & I6 & I7 & I8 & _).
    assert (Hq : q <= F b1) by (apply I5, X4; lia).
    assert (Hw : F b1 - F a1 <= prec) by (apply I8; lia).
    destruct (half_between a1 b1 I2) as [M1 M2].
    assert (R1 : F a1 <= F ((a1 + b1) / 2)) by (apply F_mono; assumption).
    assert (R2 : F ((a1 + b1) / 2) <= F b1) by (apply F_mono; lra).
    repeat apply conj; try assumption; try lra.
    apply Qabs_Qle_condition. split; lra.
  Qed.

  (* ---------------------------------------------------------------------------------------- *)
  (* 4. the default horizon                                                                    *)
  (* ---------------------------------------------------------------------------------------- *)

  Lemma horizon_loop_spec : forall fuel p_abs t,
    exists k, (k <= fuel)%nat /\ horizon_loop F fuel p_abs t == t * pow2 k /\
              ((k < fuel)%nat -> p_abs <= F (horizon_loop F fuel p_abs t)).
  Proof.
    induction fuel as [|fuel IH]; intros p_abs t; simpl.
    - exists 0%nat. unfold pow2; simpl. repeat apply conj; try lia. ring.
    - destruct (Qlt_le_dec (F t) p_abs) as [Hlt|Hle].
      + destruct (IH p_abs (t * 2)) as (k & K1 & K2 & K3).
        exists (S k). split; [lia|]. split.
        * rewrite K2. unfold pow2; simpl. ring.
        * intros Hk. apply K3. lia.
      + exists 0%nat. unfold pow2; simpl. repeat apply conj; try lia; [ring | intros _; exact Hle].
  Qed.

  (* either the required absorption probability is reached or the warning flag is set;
     the flag can only be set when the whole doubling budget was used *)
  Theorem horizon_spec : forall t0 p_abs max_iter t warned,
    horizon F t0 p_abs max_iter = (t, warned) ->
    (warned = false -> p_abs <= F t) /\
    (warned = true -> F t < p_abs) /\
    (exists k, (k <= S max_iter)%nat /\ t == t0 * pow2 k /\ t == t0 * 2 ^ Z.of_nat k /\
               (warned = true -> k = S max_iter)).
  Proof.
    intros t0 p_abs max_iter t warned H. unfold horizon in H.
    injection H as Ht Hw. rewrite Ht in Hw.
    assert (Hflag : (warned = false -> p_abs <= F t) /\ (warned = true -> F t < p_abs)).
    { revert Hw. destruct (Qlt_le_dec (F t) p_abs) as [Hl|Hl]; intros <-; split; intros E;
        try discriminate; assumption. }
    destruct Hflag as [W1 W2]. split; [exact W1|]. split; [exact W2|].
    revert Ht. destruct (Qlt_le_dec (F t0) p_abs) as [Hlt|Hle]; intros Ht.
    - destruct (horizon_loop_spec max_iter p_abs (t0 * 2)) as (k & K1 & K2 & K3).
      rewrite Ht in K2, K3.
      assert (E : t == t0 * pow2 (S k)) by (rewrite K2; unfold pow2; simpl; ring).
      exists (S k). split; [lia|]. split; [exact E|]. split.
      + rewrite E, pow2_Qpower. reflexivity.
      + intros Ew. assert (Hl := W2 Ew).
        destruct (Nat.eq_dec k max_iter) as [->|Hne]; [reflexivity|].
        assert (Hx : p_abs <= F t) by (apply K3; lia). lra.
    - subst t. exists 0%nat. split; [lia|]. split; [unfold pow2; simpl; ring|].
      split; [simpl; ring|].
      intros Ew. assert (Hl := W2 Ew). lra.
  Qed.

  Corollary horizon_never_silent : forall t0 p_abs max_iter,
    p_abs <= F (fst (horizon F t0 p_abs max_iter)) \/ snd (horizon F t0 p_abs max_iter) = true.
  Proof.
    intros t0 p_abs max_iter.
    destruct (horizon F t0 p_abs max_iter) as [t w] eqn:E.
    destruct (horizon_spec t0 p_abs max_iter t w E) as (H1 & _ & _).
    simpl. destruct w; [right; reflexivity | left; apply H1; reflexivity].
  Qed.
End S.

(* ------------------------------------------------------------------------------------------ *)
(* 5. A concrete CDF: F t = t / (1 + t), median 1                                              *)
(* ------------------------------------------------------------------------------------------ *)

Definition exF (t : Q) : Q := t / (1 + t).

Lemma exF_mono : forall a b, 0 <= a -> a <= b -> exF a <= exF b.
Proof.
  intros a b Ha Hab. unfold exF.
  apply Qle_shift_div_l; [lra|].
  assert (E : a / (1 + a) * (1 + b) == (a * (1 + b)) / (1 + a)) by (field; lra).
  rewrite E. apply Qle_shift_div_r; [lra|]. lra.
Qed.

Lemma exF_0 : exF 0 <= 1 # 2.
Proof. unfold exF. vm_compute. discriminate. Qed.

(* the computed median: 5 iterations, bracket [31/32, 1], result 63/64, |F(result) - 1/2| <= 1/100 *)
Example ex_quantile :
  let '(res, a, b, i) := quantile exF (1 # 2) 2 (1 # 100) 100 in
  (Nat.ltb i 100 = true) /\ Qred a = 31 # 32 /\ Qred b = 1 /\ Qred res = 63 # 64 /\ i = 5%nat /\
  Qle_bool (Qabs (exF res - (1 # 2))) (1 # 100) = true /\
  Qle_bool (Qabs (res - 1)) (1 # 50) = true.
Proof. vm_compute. repeat split. Qed.

(* the silent exit of the code: with max_iter = 6 the budget is exhausted (i = max_iter) and the
   bracket [8, 12] for the 0.9-quantile (exact value 9) is still wider than the precision; this is
   exactly the case excluded by the hypothesis (i < max_iter) of quantile_spec *)
Example ex_quantile_exhausted :
  let '(res, a, b, i) := quantile exF (9 # 10) 2 (1 # 100) 6 in
  i = 6%nat /\ Qred a = 8 /\ Qred b = 12 /\ Qred res = 10 /\
  Qle_bool (exF b - exF a) (1 # 100) = false.
Proof. vm_compute. repeat split. Qed.

(* the general theorem instantiated: its hypotheses are satisfiable *)
Example ex_quantile_spec : forall res a b i,
  quantile exF (1 # 2) 2 (1 # 100) 100 = (res, a, b, i) -> (i < 100)%nat ->
  Qabs (exF res - (1 # 2)) <= 1 # 100.
Proof.
  intros res a b i H Hi.
  apply (quantile_spec exF exF_mono (1 # 2) 2 (1 # 100) 100%nat res a b i exF_0 ltac:(lra) H Hi).
Qed.

(* the horizon search: reached (no warning) with a sufficient budget, warning when truncated *)
Example ex_horizon :
  (let '(t, w) := horizon exF 1 (99 # 100) 20 in Qred t = 128 /\ w = false) /\
  (let '(t, w) := horizon exF 1 (99 # 100) 3 in Qred t = 16 /\ w = true).
Proof. vm_compute. repeat split. Qed.

Print Assumptions qpow_Qpower.
Print Assumptions F_proper_nonneg.
Print Assumptions bisect_inv.
Print Assumptions bisect_spec.
Print Assumptions expand_spec.
Print Assumptions quantile_always.
Print Assumptions quantile_spec.
Print Assumptions horizon_loop_spec.
Print Assumptions horizon_spec.
Print Assumptions horizon_never_silent.
Print Assumptions exF_mono.
Print Assumptions ex_quantile.
Print Assumptions ex_quantile_exhausted.
Print Assumptions ex_quantile_spec.
Print Assumptions ex_horizon.
