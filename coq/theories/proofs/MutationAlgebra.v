(* Algebra of the mutation-configuration probabilities (infinite-sites model on a
   block-counting chain), as computed by the library:

     Ptot  = (I - theta^-1 D^-1 S)^-1          D = diag(rtot), rtot = sum_i r_i
     ptot  = (I - Ptot) e
     P_i   = Ptot diag(r_i) D^-1
     prob of the ordered sequence (i_1..i_l) = alpha P_{i_1} ... P_{i_l} ptot
     prob of a configuration = sum over its distinct orderings.

   Hypotheses: D invertible (every transient state has positive total reward),
   theta <> 0, theta D - S invertible.  The invertibility of I - theta^-1 D^-1 S
   is DERIVED (lemma A_unit), not assumed.  Non-negativity of the rewards plays
   no role in these identities (F is an arbitrary field). *)
From mathcomp Require Import all_ssreflect all_algebra.
Set Implicit Arguments.
Unset Strict Implicit.
Unset Printing Implicit Defensive.
Import GRing.Theory.
Local Open Scope ring_scope.

(* ------------------------------------------------------------------ *)
(* a, b, c : any dimension n                                            *)
(* ------------------------------------------------------------------ *)
Section Resolvent.
Variables (F : fieldType) (n m : nat).
Variables (S : 'M[F]_n) (r : 'I_m -> 'rV[F]_n) (theta : F).

Definition rtot : 'rV[F]_n := \sum_i r i.
Definition Dmx : 'M[F]_n := diag_mx rtot.
Definition evec : 'cV[F]_n := const_mx 1.
Definition Amx : 'M[F]_n := 1%:M - theta^-1 *: (invmx Dmx *m S).
Definition Ptot : 'M[F]_n := invmx Amx.
Definition ptot : 'cV[F]_n := (1%:M - Ptot) *m evec.
Definition Pcls (i : 'I_m) : 'M[F]_n := Ptot *m diag_mx (r i) *m invmx Dmx.
(* theta D - S *)
Definition Rmx : 'M[F]_n := theta *: Dmx - S.

Hypothesis D_unit : Dmx \in unitmx.
Hypothesis theta_neq0 : theta != 0.
Hypothesis R_unit : Rmx \in unitmx.

Lemma tD_unit : theta *: Dmx \in unitmx.
Proof. by rewrite unitmxZ ?unitfE. Qed.

Lemma A_factor : Amx = invmx (theta *: Dmx) *m Rmx.
Proof.
rewrite (invmxZ tD_unit) /Rmx mulmxBr -!scalemxAl -scalemxAr scalerA.
by rewrite mulVf // scale1r (mulVmx D_unit).
Qed.

(* derived, not assumed *)
Lemma A_unit : Amx \in unitmx.
Proof. by rewrite A_factor unitmx_mul unitmx_inv tD_unit R_unit. Qed.

(* a *)
Theorem Ptot_resolvent : Ptot = invmx Rmx *m (theta *: Dmx).
Proof.
have H : Amx *m (invmx Rmx *m (theta *: Dmx)) = 1%:M.
  by rewrite {1}A_factor mulmxA (mulmxK R_unit) (mulVmx tD_unit).
by rewrite /Ptot -[LHS]mulmx1 -H (mulKmx A_unit).
Qed.

Lemma sum_diag_r : \sum_i diag_mx (r i) = Dmx.
Proof. by rewrite /Dmx /rtot raddf_sum. Qed.

(* b *)
Theorem sum_Pi : \sum_i Pcls i = Ptot.
Proof.
by rewrite /Pcls -mulmx_suml -mulmx_sumr sum_diag_r (mulmxK D_unit).
Qed.

(* c *)
Theorem ptot_exit : ptot = invmx Rmx *m (- S *m evec).
Proof.
rewrite /ptot mulmxBl mul1mx Ptot_resolvent -{1}[evec](mulKmx R_unit).
rewrite -[_ *m _ *m evec]mulmxA -mulmxBr -mulmxBl.
by rewrite /Rmx addrAC subrr add0r.
Qed.

(* bonus: P_i = (theta D - S)^-1 (theta diag(r_i)) *)
Theorem Pcls_resolvent i : Pcls i = invmx Rmx *m (theta *: diag_mx (r i)).
Proof.
rewrite /Pcls Ptot_resolvent -!mulmxA; congr (_ *m _).
rewrite -scalemxAl; congr (theta *: _).
have -> : Dmx *m (diag_mx (r i) *m invmx Dmx) = diag_mx (r i) *m (Dmx *m invmx Dmx).
  rewrite !mulmxA; congr (_ *m _); rewrite /Dmx !mulmx_diag; congr diag_mx.
  by apply/rowP=> j; rewrite !mxE mulrC.
by rewrite (mulmxV D_unit) mulmx1.
Qed.

(* ptot in terms of the exit-rate vector: with s = - S e,
   ptot = (theta D - S)^-1 s, so alpha ptot is the Laplace transform of the
   total (reward-weighted) branch length at theta. *)
Corollary empty_config_prob (alpha : 'rV[F]_n) :
  alpha *m ptot = alpha *m invmx Rmx *m (- S *m evec).
Proof. by rewrite ptot_exit (mulmxA alpha). Qed.

End Resolvent.

(* ------------------------------------------------------------------ *)
(* d, e : dimension n.+1, so that 'M_n.+1 is a ring                     *)
(* ------------------------------------------------------------------ *)
Section Sequences.
Variables (F : fieldType) (n' m : nat).
Local Notation n := n'.+1.
Variables (S : 'M[F]_n) (r : 'I_m -> 'rV[F]_n) (theta : F) (alpha : 'rV[F]_n).

Local Notation D := (Dmx r).
Local Notation R := (Rmx S r theta).
Local Notation PT := (Ptot S r theta).
Local Notation pt := (ptot S r theta).
Local Notation P := (Pcls S r theta).
Local Notation e := (evec F n).

Hypothesis D_unit : D \in unitmx.
Hypothesis theta_neq0 : theta != 0.
Hypothesis R_unit : R \in unitmx.

(* d1: all sequences of l mutation classes, as functions position -> class;
   the product is the ordered product P (f 0) * P (f 1) * ... * P (f (l-1)) *)
Theorem sum_paths_ffun l :
  \sum_(f : {ffun 'I_l -> 'I_m}) \prod_(j < l) P (f j) = PT ^+ l.
Proof.
rewrite -(bigA_distr_bigA (fun (_ : 'I_l) i => P i)).
rewrite (eq_bigr (fun=> PT)) => [|j _]; last exact: sum_Pi.
by rewrite prodr_const card_ord.
Qed.

(* d1': the same over l-tuples, ordered product along the tuple *)
Theorem sum_paths_tuple l :
  \sum_(s : l.-tuple 'I_m) \prod_(i <- s) P i = PT ^+ l.
Proof.
elim: l => [|l IH].
  rewrite (big_pred1 [tuple]) ?big_nil ?expr0 // => s.
  by rewrite (tuple0 s) /= eqxx.
rewrite (reindex (fun p : 'I_m * l.-tuple 'I_m => cons_tuple p.1 p.2)) /=; last first.
  exists (fun t => (thead t, behead_tuple t)) => [[i s] _ | t _] /=.
    by rewrite theadE; congr pair; apply: val_inj.
  by apply: val_inj => /=; case: (tupleP t).
rewrite -(pair_bigA _ (fun i (s : l.-tuple 'I_m) => \prod_(k <- i :: s) P k)) /=.
rewrite (eq_bigr (fun i => P i * PT ^+ l)) => [|i _].
  by rewrite -big_distrl /= (sum_Pi S theta D_unit) // exprS.
by rewrite -IH big_distrr /=; apply: eq_bigr => s _; rewrite big_cons.
Qed.

(* path probabilities summed over ALL sequences of l mutations *)
Corollary sum_path_probs l :
  \sum_(f : {ffun 'I_l -> 'I_m}) alpha *m (\prod_(j < l) P (f j)) *m pt
  = alpha *m PT ^+ l *m pt.
Proof. by rewrite -mulmx_suml -mulmx_sumr sum_paths_ffun. Qed.

Lemma level_mass l :
  alpha *m PT ^+ l *m pt = alpha *m PT ^+ l *m e - alpha *m PT ^+ l.+1 *m e.
Proof.
rewrite /ptot mulmxBl mul1mx mulmxBr; congr (_ - _).
by rewrite mulmxA exprSr -mulmxE (mulmxA alpha).
Qed.

(* d2: the generated mass up to L mutations telescopes *)
Theorem mass_telescope L :
  \sum_(l < L.+1) alpha *m PT ^+ l *m pt = alpha *m e - alpha *m PT ^+ L.+1 *m e.
Proof.
elim: L => [|L IH].
  by rewrite big_ord_recl big_ord0 addr0 level_mass expr0 mulmx1.
by rewrite big_ord_recr /= IH level_mass addrA subrK.
Qed.

Corollary mass_telescope1 L : alpha *m e = 1 ->
  \sum_(l < L.+1) alpha *m PT ^+ l *m pt = 1 - alpha *m PT ^+ L.+1 *m e.
Proof. by move=> <-; exact: mass_telescope. Qed.

(* e: grouping sequences by configuration (multiset of classes) *)
Section Grouping.
Variable l : nat.

(* count vector of a sequence: how many mutations of each class *)
Definition cnt (f : {ffun 'I_l -> 'I_m}) : {ffun 'I_m -> 'I_l.+1} :=
  [ffun i => inord #|[set j | f j == i]|].

Lemma cntE f i : cnt f i = #|[set j | f j == i]| :> nat.
Proof. by rewrite ffunE inordK // ltnS -[X in (_ <= X)%N](card_ord l) max_card. Qed.

Lemma cnt_sum f : (\sum_i cnt f i)%N = l.
Proof.
rewrite -[RHS]card_ord -sum1_card (partition_big f predT) //=.
apply: eq_bigr => i _; rewrite cntE -sum1_card.
by apply: eq_bigl => j; rewrite inE.
Qed.

(* the distinct orderings of configuration c are exactly the sequences with
   count vector c; configurations are the count vectors of total l *)
Theorem group_by_config (V : zmodType) (G : {ffun 'I_l -> 'I_m} -> V) :
  \sum_f G f =
  \sum_(c : {ffun 'I_m -> 'I_l.+1} | (\sum_i c i)%N == l) \sum_(f | cnt f == c) G f.
Proof.
rewrite (partition_big cnt (fun c : {ffun 'I_m -> 'I_l.+1} => (\sum_i c i)%N == l)) //.
by move=> f _; rewrite cnt_sum.
Qed.

(* probability of configuration c = sum over its distinct orderings *)
Definition config_prob (c : {ffun 'I_m -> 'I_l.+1}) : 'M[F]_1 :=
  \sum_(f | cnt f == c) alpha *m (\prod_(j < l) P (f j)) *m pt.

Theorem sum_config_probs :
  \sum_(c : {ffun 'I_m -> 'I_l.+1} | (\sum_i c i)%N == l) config_prob c
  = alpha *m PT ^+ l *m pt.
Proof. by rewrite -sum_path_probs [RHS]group_by_config. Qed.

(* count vectors of the wrong total have an empty fibre *)
Lemma config_prob_wrong_total (c : {ffun 'I_m -> 'I_l.+1}) :
  (\sum_i c i)%N != l -> config_prob c = 0.
Proof.
move=> Hc; rewrite /config_prob big_pred0 // => f.
by apply/negP => /eqP Ef; move: Hc; rewrite -Ef cnt_sum eqxx.
Qed.

End Grouping.

(* total mass of all configurations with at most L mutations *)
Corollary config_mass_upto L :
  \sum_(l < L.+1) \sum_(c : {ffun 'I_m -> 'I_l.+1} | (\sum_i c i)%N == l) config_prob c
  = alpha *m e - alpha *m PT ^+ L.+1 *m e.
Proof.
rewrite -mass_telescope; apply: eq_bigr => l _; exact: sum_config_probs.
Qed.

End Sequences.

Print Assumptions A_unit.
Print Assumptions Ptot_resolvent.
Print Assumptions sum_Pi.
Print Assumptions ptot_exit.
Print Assumptions Pcls_resolvent.
Print Assumptions empty_config_prob.
Print Assumptions sum_paths_ffun.
Print Assumptions sum_paths_tuple.
Print Assumptions sum_path_probs.
Print Assumptions mass_telescope.
Print Assumptions mass_telescope1.
Print Assumptions group_by_config.
Print Assumptions sum_config_probs.
Print Assumptions config_prob_wrong_total.
Print Assumptions config_mass_upto.
