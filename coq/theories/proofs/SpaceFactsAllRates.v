(* The structural facts of proofs/SpaceFacts.v (sections B, C, E there), strengthened.

   SpaceFacts.v proves time rescaling, deme-permutation equivariance, the single-locus marginals
   of the two-locus chain and the closure of the linked states at recombination rate 0 only by
   bounded reflection over a few RATIONAL valuations of the rates.  Here:

   0  transit_same_shape                         every transition keeps the numbers of loci and demes
   A  TIME RESCALING, no bound and no reflection (structural proofs over [transit]): every model,
      number of loci, demes, samples, both state spaces, every real c (c = 0 included, / 0 = 0)
        transit_time_rescaling                   transit (scaleP c P) s = rates of transit P s divided by c
        get_transitions_time_rescaling           same states in the same order, all rates / c
        lookup_rate_time_rescaling, rate_matrix_time_rescaling, generator_time_rescaling
      The only hypothesis is that every deme of the state has a time scale in the parameter record
      ([n_demes s <= length (p_tscale P)]; the model reads a missing one as the constant 1, which
      does not scale).
   C  RECOMBINATION RATE 0, no bound (structural): out of a state with lnk = lin (no unlinked
      lineage) and more than one locus, every transition keeps lnk = lin or has rate 0
        r0_linked_step_unbounded, r0_no_unlinking_unbounded, r0_linked_closed_unbounded
        r0_fully_linked_step_unbounded, r0_fully_linked_closed_unbounded   (SpaceChecks.fully_linked)
   B  EVERY REAL VALUATION of time scales, migration rates, recombination rate (bounded in the
      sample size / number of demes only: the groups of model/SpaceChecksSym.v): the model is run
      once over linear forms (model/LinForm.v), the criteria are decided on the symbolic rates,
      and the Paramcoq logical relation of proofs/SymbolicLumping.v transports them to all [rho]
        deme_permutation_equivariant_all_rates          (perm_spec_R)
        two_locus_marginal_is_single_locus_all_rates    (marginal_spec_R; no dependence on ARec)
        r0_linked_closed_all_rates                      (r0_spec_R)
        ..._all_params                                  the same for any real record of the right shape
        perm_params_realP                               permuted record = record of the permuted valuation *)
From Coq Require Import ZArith QArith Qreals Reals Lra List Arith Bool Lia Permutation.
From Param Require Import Param.
From PG Require Import base.Ops base.OpsR model.CoalModels model.StateSpace model.Rewards model.Check
     model.SpaceChecks model.LinForm model.SpaceChecksSym proofs.RatesProofs proofs.SpaceFacts
     proofs.SymbolicLumping.
Import ListNotations.
Close Scope Q_scope.
Close Scope R_scope.

(* ====================================================================================== *)
(* 0 - shapes: every transition keeps the numbers of loci and demes                        *)
(* ====================================================================================== *)
Lemma upd_length {A} (f : A -> A) : forall (l : list A) i, length (upd l i f) = length l.
Proof. induction l as [|x l IH]; intros [|i]; simpl; auto. Qed.

Lemma nth_upd_len {A} (g : list A -> list A) :
  (forall x, length (g x) = length x) ->
  forall (a : list (list A)) l i, length (nth i (upd a l g) []) = length (nth i a []).
Proof.
  intros Hg. induction a as [|x a IH]; intros [|l] [|i]; simpl; auto.
Qed.

Lemma upd3_length a l d b f : length (upd3 a l d b f) = length a.
Proof. unfold upd3. apply upd_length. Qed.

Lemma upd3_row_length a l d b f i : length (nth i (upd3 a l d b f) []) = length (nth i a []).
Proof. unfold upd3. apply nth_upd_len. intros x. apply upd_length. Qed.

(* the part of the shape that [transit] reads: number of loci, number of demes *)
Definition shape_of (a : arr3) : nat * nat := (length a, length (nth 0 a [])).

Lemma shape_upd3 a l d b f : shape_of (upd3 a l d b f) = shape_of a.
Proof. unfold shape_of. rewrite upd3_length, upd3_row_length. reflexivity. Qed.

Lemma shape_map_loci s a f :
  (forall a l, shape_of (f a l) = shape_of a) -> shape_of (map_loci s a f) = shape_of a.
Proof.
  intros H. unfold map_loci. generalize (seq 0 (n_loci s)). intros L. revert a.
  induction L as [|l L IH]; intros a; simpl; [reflexivity|]. rewrite IH. apply H.
Qed.

Lemma shape_upd_row a d (v : list nat) :
  shape_of (upd a 0 (fun row => upd row d (fun _ => v))) = shape_of a.
Proof.
  unfold shape_of. rewrite upd_length.
  rewrite (nth_upd_len (fun row => upd row d (fun _ => v))); [reflexivity|].
  intros x. apply upd_length.
Qed.

Definition same_shape (s t : state) : Prop := shape_of (lin t) = shape_of (lin s).

Lemma same_shape_loci s t : same_shape s t -> n_loci t = n_loci s.
Proof. unfold same_shape, shape_of, n_loci. intros H. congruence. Qed.
Lemma same_shape_demes s t : same_shape s t -> n_demes t = n_demes s.
Proof. unfold same_shape, shape_of, n_demes. intros H. congruence. Qed.

(* ---------- a generic invariant of transition dictionaries ---------- *)
Section EntryInv.
  Local Open Scope R_scope.
  Variable G : state -> R -> Prop.
  Hypothesis Gmerge : forall t r r', G t r' -> G t r -> G t (r' + r).

  Definition allG (tg : targets (T:=R)) : Prop := Forall (fun e => G (fst e) (snd e)) tg.

  Lemma allG_nil : allG [].
  Proof. constructor. Qed.

  Lemma add_target_allG tg t r : allG tg -> G t r -> allG (add_target OpsR tg t r).
  Proof.
    unfold allG. induction tg as [|[t' r'] tg IH]; intros H Hr; simpl.
    - constructor; [exact Hr | constructor].
    - inversion H as [|? ? H1 H2]; subst. simpl in H1.
      destruct (state_eqb t' t) eqn:E.
      + apply state_eqb_eq in E. subst t'. constructor; [simpl; apply Gmerge; assumption | exact H2].
      + constructor; [exact H1 | apply IH; assumption].
  Qed.

  Lemma dict_set_allG tg t r : allG tg -> G t r -> allG (dict_set tg t r).
  Proof.
    unfold allG. induction tg as [|[t' r'] tg IH]; intros H Hr; simpl.
    - constructor; [exact Hr | constructor].
    - inversion H as [|? ? H1 H2]; subst. simpl in H1.
      destruct (state_eqb t' t) eqn:E.
      + apply state_eqb_eq in E. subst t'. constructor; [exact Hr | exact H2].
      + constructor; [exact H1 | apply IH; assumption].
  Qed.

  Lemma dict_union_allG a b : allG a -> allG b -> allG (dict_union a b).
  Proof.
    intros Ha Hb. unfold dict_union. apply fold_left_inv; [|exact Ha].
    intros acc [t r] Hin Hacc. simpl. apply dict_set_allG; [exact Hacc|].
    unfold allG in Hb. rewrite Forall_forall in Hb. exact (Hb _ Hin).
  Qed.
End EntryInv.

Section Shape.
  Variable P : params (T:=R).
  Variable s : state.
  Let G (t : state) (_ : R) : Prop := same_shape s t.
  Let Gm : forall t r r', G t r' -> G t r -> G t (r' + r)%R.
  Proof. intros t r r' H _. exact H. Qed.

  Lemma migrate_unlinked_shape : allG G (migrate_unlinked OpsR P s).
  Proof.
    unfold migrate_unlinked.
    apply fold_left_inv; [|apply allG_nil]. intros acc l _ Hacc.
    apply fold_left_inv; [|exact Hacc]. intros acc2 [d1 d2] _ Hacc2.
    apply fold_left_inv; [|exact Hacc2]. intros acc3 b _ Hacc3.
    destruct (andb _ _); [|exact Hacc3].
    apply (add_target_allG G Gm); [exact Hacc3|].
    unfold G, same_shape; simpl. rewrite !shape_upd3. reflexivity.
  Qed.

  Lemma migrate_linked_shape : allG G (migrate_linked OpsR P s).
  Proof.
    unfold migrate_linked. destruct (Nat.eqb (n_loci s) 1); [apply allG_nil|].
    apply fold_left_inv; [|apply allG_nil]. intros acc2 [d1 d2] _ Hacc2.
    apply fold_left_inv; [|exact Hacc2]. intros acc3 b _ Hacc3.
    destruct (andb _ _); [|exact Hacc3].
    apply (add_target_allG G Gm); [exact Hacc3|].
    unfold G, same_shape; simpl. apply shape_map_loci. intros a l. rewrite !shape_upd3. reflexivity.
  Qed.

  Lemma coalesce1_shape : allG G (coalesce1 OpsR P s).
  Proof.
    unfold coalesce1.
    apply fold_left_inv; [|apply allG_nil]. intros acc d _ Hacc.
    apply fold_left_inv; [|exact Hacc]. intros acc2 br _ Hacc2.
    apply (add_target_allG G Gm); [exact Hacc2|].
    unfold G, same_shape; simpl. apply shape_upd_row.
  Qed.

  Lemma coalesce2_shape : allG G (coalesce2 OpsR P s).
  Proof.
    unfold coalesce2.
    apply fold_left_inv; [|apply allG_nil]. intros acc d _ Hacc.
    apply fold_left_inv; [|exact Hacc]. intros acc2 [c1 c2] _ Hacc2.
    cbv zeta.
    repeat match goal with
           | |- allG _ (if ?c then _ else _) => destruct c
           | |- allG _ (match ?c with _ => _ end) => destruct c
           | |- allG _ (add_target _ _ _ _) => apply (add_target_allG G Gm)
           end; try exact Hacc2;
      unfold G, same_shape; simpl; rewrite ?shape_upd3; try reflexivity;
      apply shape_map_loci; intros a l; rewrite ?shape_upd3; reflexivity.
  Qed.

  Lemma recombine_shape : allG G (recombine OpsR P s).
  Proof.
    unfold recombine. destruct (Nat.eqb (n_loci s) 1); [apply allG_nil|].
    apply fold_left_inv; [|apply allG_nil]. intros acc d _ Hacc.
    destruct (all_loci _ _); [|exact Hacc].
    apply (add_target_allG G Gm); [exact Hacc|]. unfold G, same_shape; reflexivity.
  Qed.

  Lemma transit_shape_all : allG G (transit OpsR P s).
  Proof.
    unfold transit.
    assert (H0 : allG G (dict_union (migrate_linked OpsR P s) (migrate_unlinked OpsR P s)))
      by (apply dict_union_allG; [apply migrate_linked_shape | apply migrate_unlinked_shape]).
    cbv zeta. destruct (is_absorbing s); [exact H0|].
    apply dict_union_allG; [|apply recombine_shape].
    apply dict_union_allG; [exact H0|].
    unfold coalesce_tr. destruct (Nat.eqb (n_loci s) 1); [apply coalesce1_shape | apply coalesce2_shape].
  Qed.
End Shape.

(* every target of [transit] has as many loci and demes as its source: all parameters, all states *)
Theorem transit_same_shape :
  forall (P : params (T:=R)) s t r, In (t, r) (transit OpsR P s) ->
    n_loci t = n_loci s /\ n_demes t = n_demes s.
Proof.
  intros P s t r Hin. pose proof (transit_shape_all P s) as H. unfold allG in H.
  rewrite Forall_forall in H. specialize (H _ Hin). simpl in H.
  split; [apply same_shape_loci | apply same_shape_demes]; exact H.
Qed.

(* ====================================================================================== *)
(* A - time rescaling, unbounded                                                           *)
(* ====================================================================================== *)
Local Open Scope R_scope.

(* time scales multiplied by c, migration rates and recombination rate divided by c
   (the real-number form of SpaceChecks.scale_params, which is specialised to Q) *)
Definition scaleP (c : R) (P : params (T:=R)) : params (T:=R) :=
  mkParams (p_model P)
           (map (fun x => x * c) (p_tscale P))
           (map (map (fun x => x / c)) (p_mig P))
           (p_rec P / c) (p_lc P).

(* every rate of a transition dictionary divided by c; keys and order unchanged *)
Definition sc (c : R) (tg : targets (T:=R)) : targets (T:=R) := map (fun tr => (fst tr, snd tr / c)) tg.
Definition sct (c : R) (trans : list (state * targets (T:=R))) : list (state * targets (T:=R)) :=
  map (fun e => (fst e, sc c (snd e))) trans.

Lemma sc_keys c tg : map fst (sc c tg) = map fst tg.
Proof. unfold sc. rewrite map_map. reflexivity. Qed.

Section Rescale.
  Variable c : R.

  Lemma add_target_sc tg t r : add_target OpsR (sc c tg) t (r / c) = sc c (add_target OpsR tg t r).
  Proof.
    induction tg as [|[t' r'] tg IH]; simpl; [reflexivity|].
    destruct (state_eqb t' t); simpl.
    - f_equal. f_equal. unfold Rdiv. ring.
    - f_equal. exact IH.
  Qed.

  Lemma dict_set_sc tg t r : dict_set (sc c tg) t (r / c) = sc c (dict_set tg t r).
  Proof.
    induction tg as [|[t' r'] tg IH]; simpl; [reflexivity|].
    destruct (state_eqb t' t); simpl; [reflexivity|]. f_equal. exact IH.
  Qed.

  Lemma dict_union_sc a b : dict_union (sc c a) (sc c b) = sc c (dict_union a b).
  Proof.
    unfold dict_union. revert a. induction b as [|[t r] b IH]; intros a; simpl; [reflexivity|].
    rewrite dict_set_sc. apply IH.
  Qed.

  Lemma fold_left_sc {B} (f f' : targets (T:=R) -> B -> targets (T:=R)) l :
    (forall acc x, In x l -> f' (sc c acc) x = sc c (f acc x)) ->
    forall a, fold_left f' l (sc c a) = sc c (fold_left f l a).
  Proof.
    induction l as [|x l IH]; intros H a; simpl; [reflexivity|].
    rewrite H by (left; reflexivity). apply IH. intros acc y Hy. apply H. right; exact Hy.
  Qed.

  Lemma fold_left_sc_nil {B} (f f' : targets (T:=R) -> B -> targets (T:=R)) l :
    (forall acc x, In x l -> f' (sc c acc) x = sc c (f acc x)) ->
    fold_left f' l [] = sc c (fold_left f l []).
  Proof. intros H. apply (fold_left_sc f f' l H []). Qed.

  Variable P : params (T:=R).

  Lemma nth_map_fix {A} (f : A -> A) d : f d = d -> forall l n, nth n (map f l) d = f (nth n l d).
  Proof. intros H l n. rewrite <- (map_nth f), H. reflexivity. Qed.

  Lemma mig_rate_scaleP d1 d2 : mig_rate OpsR (scaleP c P) d1 d2 = mig_rate OpsR P d1 d2 / c.
  Proof.
    unfold mig_rate. simpl p_mig. change (o0 OpsR) with 0.
    rewrite (nth_map_fix (map (fun x => x / c)) []) by reflexivity.
    apply (nth_map_fix (fun x => x / c) 0). unfold Rdiv. ring.
  Qed.

  Lemma tscale_of_scaleP d : (d < length (p_tscale P))%nat ->
    tscale_of OpsR (scaleP c P) d = tscale_of OpsR P d * c.
  Proof.
    intros Hd. unfold tscale_of. simpl p_tscale. change (o1 OpsR) with 1.
    rewrite (nth_indep _ 1 (1 * c)) by (rewrite map_length; exact Hd).
    apply (map_nth (fun x => x * c)).
  Qed.

  Lemma odiv_scale x t : odiv OpsR x (t * c) = odiv OpsR x t / c.
  Proof. unfold odiv. cbn [omul oinv OpsR]. unfold Rdiv. rewrite Rinv_mult. ring. Qed.

  Variable s : state.

  Lemma migrate_unlinked_sc : migrate_unlinked OpsR (scaleP c P) s = sc c (migrate_unlinked OpsR P s).
  Proof.
    unfold migrate_unlinked.
    apply fold_left_sc_nil. intros acc l _.
    apply fold_left_sc. intros acc2 [d1 d2] _.
    apply fold_left_sc. intros acc3 b _.
    destruct (andb _ _); [|reflexivity].
    rewrite <- add_target_sc. f_equal. rewrite mig_rate_scaleP. simpl. unfold Rdiv. ring.
  Qed.

  Lemma migrate_linked_sc : migrate_linked OpsR (scaleP c P) s = sc c (migrate_linked OpsR P s).
  Proof.
    unfold migrate_linked. destruct (Nat.eqb (n_loci s) 1); [reflexivity|].
    apply fold_left_sc_nil. intros acc2 [d1 d2] _.
    apply fold_left_sc. intros acc3 b _.
    destruct (andb _ _); [|reflexivity].
    cbv zeta. rewrite <- add_target_sc. f_equal. rewrite mig_rate_scaleP. simpl. unfold Rdiv. ring.
  Qed.

  Lemma recombine_sc : recombine OpsR (scaleP c P) s = sc c (recombine OpsR P s).
  Proof.
    unfold recombine. destruct (Nat.eqb (n_loci s) 1); [reflexivity|].
    apply fold_left_sc_nil. intros acc d _.
    destruct (all_loci _ _); [|reflexivity].
    rewrite <- add_target_sc. f_equal. simpl. unfold Rdiv. ring.
  Qed.

  (* the coalescence rates divide by the time scale of the deme: the deme must have one *)
  Hypothesis Hts : (n_demes s <= length (p_tscale P))%nat.

  Lemma coalesce1_sc : coalesce1 OpsR (scaleP c P) s = sc c (coalesce1 OpsR P s).
  Proof.
    unfold coalesce1.
    apply fold_left_sc_nil. intros acc d Hd. apply in_seq in Hd.
    change (p_model (scaleP c P)) with (p_model P).
    apply fold_left_sc. intros acc2 br _.
    rewrite <- add_target_sc. f_equal.
    rewrite tscale_of_scaleP by lia. apply odiv_scale.
  Qed.

  Lemma coalesce2_sc : coalesce2 OpsR (scaleP c P) s = sc c (coalesce2 OpsR P s).
  Proof.
    unfold coalesce2.
    apply fold_left_sc_nil. intros acc d Hd. apply in_seq in Hd.
    change (p_model (scaleP c P)) with (p_model P).
    cbv zeta. rewrite tscale_of_scaleP by lia.
    apply fold_left_sc. intros acc2 [c1 c2] _.
    rewrite !odiv_scale.
    repeat match goal with
           | |- (if ?b then _ else _) = sc c (if ?b then _ else _) => destruct b
           | |- (match ?x with _ => _ end) = sc c (match ?x with _ => _ end) => destruct x
           end; try reflexivity; rewrite <- add_target_sc; reflexivity.
  Qed.

  (* THE homogeneity statement: one state, any parameters, any c (c = 0 included: Coq's / 0 = 0
     makes both sides the all-zero dictionary) *)
  Lemma transit_sc : transit OpsR (scaleP c P) s = sc c (transit OpsR P s).
  Proof.
    unfold transit. cbv zeta.
    rewrite migrate_linked_sc, migrate_unlinked_sc, recombine_sc, dict_union_sc.
    destruct (is_absorbing s); [reflexivity|].
    unfold coalesce_tr. destruct (Nat.eqb (n_loci s) 1);
      [rewrite coalesce1_sc | rewrite coalesce2_sc]; rewrite !dict_union_sc; reflexivity.
  Qed.
End Rescale.

Theorem transit_time_rescaling :
  forall (P : params (T:=R)) (s : state) (c : R),
    (n_demes s <= length (p_tscale P))%nat ->
    transit OpsR (scaleP c P) s = map (fun tr => (fst tr, snd tr / c)) (transit OpsR P s).
Proof. intros P s c H. apply transit_sc. exact H. Qed.

(* ---------- the breadth-first construction ---------- *)
Lemma sct_app c a b : sct c (a ++ b) = sct c a ++ sct c b.
Proof. apply map_app. Qed.

Section BfsRescale.
  Variables (c : R) (P : params (T:=R)).
  Let P' := scaleP c P.
  Let Inv (s : state) : Prop := (n_demes s <= length (p_tscale P))%nat.

  Lemma Inv_step s t r : Inv s -> In (t, r) (transit OpsR P s) -> Inv t.
  Proof.
    unfold Inv. intros H Hin. destruct (transit_same_shape P s t r Hin) as [_ E]. rewrite E. exact H.
  Qed.

  Lemma new_targets_Inv (keys : list state) : Forall Inv keys -> forall new, Forall Inv new ->
    Forall Inv (fold_left (fun acc t => if mem_state t acc then acc else acc ++ [t]) keys new).
  Proof.
    induction 1 as [|t keys Ht _ IH]; intros new Hnew; simpl; [exact Hnew|].
    apply IH. destruct (mem_state t new); [exact Hnew|].
    apply Forall_app. split; [exact Hnew | constructor; [exact Ht | constructor]].
  Qed.

  Lemma transit_keys_Inv s : Inv s -> Forall Inv (map fst (transit OpsR P s)).
  Proof.
    intros H. apply Forall_forall. intros t Ht. apply in_map_iff in Ht. destruct Ht as [[t' r] [<- Hin]].
    exact (Inv_step s t' r H Hin).
  Qed.

  Lemma bfs_level_sc : forall sources visited trans new, Forall Inv sources ->
    bfs_level OpsR P' sources visited (sct c trans) new
    = let '(v, tr, nw) := bfs_level OpsR P sources visited trans new in (v, sct c tr, nw).
  Proof.
    induction sources as [|s rest IH]; intros visited trans new HI; simpl; [reflexivity|].
    inversion HI as [|? ? Hs Hrest]; subst.
    destruct (mem_state s visited); [apply IH; exact Hrest|].
    unfold P'. rewrite (transit_sc c P s Hs), sc_keys.
    replace (sct c trans ++ [(s, sc c (transit OpsR P s))]) with (sct c (trans ++ [(s, transit OpsR P s)]))
      by (rewrite sct_app; reflexivity).
    apply IH. exact Hrest.
  Qed.

  Lemma bfs_level_new_Inv : forall sources visited trans new, Forall Inv sources -> Forall Inv new ->
    Forall Inv (snd (bfs_level OpsR P sources visited trans new)).
  Proof.
    induction sources as [|s rest IH]; intros visited trans new HI Hnew; simpl; [exact Hnew|].
    inversion HI as [|? ? Hs Hrest]; subst.
    destruct (mem_state s visited); [apply IH; assumption|].
    apply IH; [exact Hrest|]. apply new_targets_Inv; [apply transit_keys_Inv; exact Hs | exact Hnew].
  Qed.

  Lemma bfs_sc : forall fuel sources visited trans, Forall Inv sources ->
    bfs OpsR P' fuel sources visited (sct c trans)
    = option_map (fun vt => (fst vt, sct c (snd vt))) (bfs OpsR P fuel sources visited trans).
  Proof.
    induction fuel as [|fuel IH]; intros sources visited trans HI; simpl; [reflexivity|].
    rewrite (bfs_level_sc sources visited trans [] HI).
    pose proof (bfs_level_new_Inv sources visited trans [] HI (Forall_nil _)) as Hnew.
    destruct (bfs_level OpsR P sources visited trans []) as [[v tr] nw]. simpl in Hnew.
    destruct nw as [|x nw]; [reflexivity|]. apply IH. exact Hnew.
  Qed.
End BfsRescale.

Lemma initial_state_demes nl nd nb n : (n_demes (initial_state nl nd nb n) <= nd)%nat.
Proof.
  unfold n_demes, initial_state. simpl lin.
  assert (H : forall L a, length (nth 0 (fold_left (fun a l => upd3 a l 0 0 (fun _ => n)) L a) [])
                          = length (nth 0 a [])).
  { induction L as [|l L IH]; intros a; simpl; [reflexivity|]. rewrite IH. apply upd3_row_length. }
  rewrite H. unfold zeros3. destruct nl; simpl; [lia|]. rewrite repeat_length. lia.
Qed.

(* [get_transitions] finds the same states in the same order, and every transition dictionary
   has its rates divided by c.  Every model, number of loci, demes, samples; both state spaces;
   every fuel; every real c. *)
Theorem get_transitions_time_rescaling :
  forall (P : params (T:=R)) (c : R) (fuel nl nd n : nat),
    (nd <= length (p_tscale P))%nat ->
    get_transitions OpsR (scaleP c P) fuel nl nd n
    = option_map (fun st => (fst st, sct c (snd st))) (get_transitions OpsR P fuel nl nd n).
Proof.
  intros P c fuel nl nd n Hnd. unfold get_transitions. change (p_lc (scaleP c P)) with (p_lc P).
  apply (bfs_sc c P fuel _ [] []). constructor; [|constructor].
  pose proof (initial_state_demes nl nd (if p_lc P then 1%nat else n) n). lia.
Qed.

(* ---------- rates and the rate matrix ---------- *)
Lemma find_sc c tg t :
  find (fun e => state_eqb (fst e) t) (sc c tg)
  = option_map (fun e => (fst e, snd e / c)) (find (fun e : state * R => state_eqb (fst e) t) tg).
Proof.
  induction tg as [|[t' r] tg IH]; simpl; [reflexivity|]. destruct (state_eqb t' t); [reflexivity | exact IH].
Qed.

Lemma find_sct c trans s :
  find (fun e => state_eqb (fst e) s) (sct c trans)
  = option_map (fun e => (fst e, sc c (snd e)))
               (find (fun e : state * targets (T:=R) => state_eqb (fst e) s) trans).
Proof.
  induction trans as [|[s' tg] trans IH]; simpl; [reflexivity|]. destruct (state_eqb s' s); [reflexivity | exact IH].
Qed.

Theorem lookup_rate_time_rescaling :
  forall c trans s t, lookup_rate OpsR (sct c trans) s t = lookup_rate OpsR trans s t / c.
Proof.
  intros c trans s t. unfold lookup_rate. rewrite find_sct.
  destruct (find (fun e => state_eqb (fst e) s) trans) as [[s' tg]|]; simpl.
  - rewrite find_sc. destruct (find (fun e => state_eqb (fst e) t) tg) as [[t' r]|]; simpl;
      [reflexivity | unfold Rdiv; ring].
  - unfold Rdiv; ring.
Qed.

Lemma osum_div c l : osum OpsR (map (fun x => x / c) l) = osum OpsR l / c.
Proof.
  unfold osum. induction l as [|x l IH]; [simpl; unfold Rdiv; ring|].
  cbn [map fold_right]. rewrite IH. cbn [oadd OpsR]. unfold Rdiv; ring.
Qed.

(* the generator built from the rescaled transitions is the generator divided by c, entry by
   entry (the diagonal too) *)
Theorem rate_matrix_time_rescaling :
  forall c states trans,
    rate_matrix OpsR states (sct c trans) = map (map (fun x => x / c)) (rate_matrix OpsR states trans).
Proof.
  intros c states trans. unfold rate_matrix. rewrite map_map. apply map_ext. intros s. cbv zeta.
  set (row := map (fun t => if state_eqb s t then o0 OpsR else lookup_rate OpsR trans s t) states).
  assert (E : map (fun t => if state_eqb s t then o0 OpsR else lookup_rate OpsR (sct c trans) s t) states
              = map (fun x => x / c) row).
  { unfold row. rewrite map_map. apply map_ext. intros t. destruct (state_eqb s t).
    - simpl. unfold Rdiv; ring.
    - apply lookup_rate_time_rescaling. }
  rewrite E, osum_div. clear E. set (tot := osum OpsR row). clearbody tot. clearbody row.
  rewrite map_map. revert row. generalize states as L.
  induction L as [|t L IH]; intros [|x row]; simpl; try reflexivity.
  f_equal; [|apply IH]. destruct (state_eqb s t); [unfold Rdiv; ring | reflexivity].
Qed.

(* all together, for the model's own pipeline: same states, every rate and the whole generator
   divided by c *)
Corollary generator_time_rescaling :
  forall (P : params (T:=R)) (c : R) (fuel nl nd n : nat) states trans,
    (nd <= length (p_tscale P))%nat ->
    get_transitions OpsR P fuel nl nd n = Some (states, trans) ->
    get_transitions OpsR (scaleP c P) fuel nl nd n = Some (states, sct c trans) /\
    (forall s t, lookup_rate OpsR (sct c trans) s t = lookup_rate OpsR trans s t / c) /\
    rate_matrix OpsR states (sct c trans) = map (map (fun x => x / c)) (rate_matrix OpsR states trans).
Proof.
  intros P c fuel nl nd n states trans Hnd E.
  rewrite (get_transitions_time_rescaling P c fuel nl nd n Hnd), E. simpl.
  split; [reflexivity|]. split.
  - intros s t. apply lookup_rate_time_rescaling.
  - apply rate_matrix_time_rescaling.
Qed.

(* ====================================================================================== *)
(* C - recombination rate 0: the completely linked states are closed, unbounded            *)
(* ====================================================================================== *)
Section R0.
  Variable P : params (T:=R).
  Hypothesis Hrec : p_rec P = 0.
  Variable s : state.
  Hypothesis Hloci : n_loci s <> 1%nat.
  Hypothesis Hfl : lnk s = lin s.

  (* [Good] is any property of states kept by the two transitions that remain possible:
     migration and coalescence of linked lineages, which act on [lin] and [lnk] alike *)
  Variable Good : state -> Prop.
  Let mv_of (d1 d2 b : nat) (a : arr3) : arr3 :=
    map_loci s a (fun a l => upd3 (upd3 a l d1 b pred) l d2 b S).
  Let dec_of (d : nat) (a : arr3) : arr3 := map_loci s a (fun a l => upd3 a l d 0 pred).
  Hypothesis Hmv : forall d1 d2 b, Good (mkState (mv_of d1 d2 b (lin s)) (mv_of d1 d2 b (lnk s))).
  Hypothesis Hdec : forall d, Good (mkState (dec_of d (lin s)) (dec_of d (lnk s))).

  Let G (t : state) (r : R) : Prop := Good t \/ r = 0.
  Let Gm : forall t r r', G t r' -> G t r -> G t (r' + r).
  Proof. unfold G. intros t r r' [H|H] [H'|H']; auto. right. lra. Qed.

  Lemma unl_linked l d b : unl s l d b = 0%nat.
  Proof. unfold unl. rewrite Hfl. apply Nat.sub_diag. Qed.

  Lemma migrate_unlinked_r0 : allG G (migrate_unlinked OpsR P s).
  Proof.
    unfold migrate_unlinked.
    apply fold_left_inv; [|apply allG_nil]. intros acc l _ Hacc.
    apply fold_left_inv; [|exact Hacc]. intros acc2 [d1 d2] _ Hacc2.
    apply fold_left_inv; [|exact Hacc2]. intros acc3 b _ Hacc3.
    rewrite unl_linked. change (Nat.ltb 0 0) with false. rewrite andb_false_r. exact Hacc3.
  Qed.

  Lemma migrate_linked_r0 : allG G (migrate_linked OpsR P s).
  Proof.
    unfold migrate_linked. destruct (Nat.eqb (n_loci s) 1); [apply allG_nil|].
    apply fold_left_inv; [|apply allG_nil]. intros acc2 [d1 d2] _ Hacc2.
    apply fold_left_inv; [|exact Hacc2]. intros acc3 b _ Hacc3.
    destruct (andb _ _); [|exact Hacc3].
    apply (add_target_allG G Gm); [exact Hacc3|]. left. apply Hmv.
  Qed.

  Lemma coalesce2_r0 : allG G (coalesce2 OpsR P s).
  Proof.
    unfold coalesce2.
    apply fold_left_inv; [|apply allG_nil]. intros acc d _ Hacc.
    apply fold_left_inv; [|exact Hacc]. intros acc2 [c1 c2] Hin Hacc2.
    simpl in Hin.
    repeat (destruct Hin as [Hin|Hin]; [inversion Hin; subst c1 c2; clear Hin|]); [..|destruct Hin];
      cbv zeta; unfold class_count; cbv beta iota; rewrite ?unl_linked;
      cbn [Nat.eqb Nat.ltb Nat.leb Nat.mul orb andb]; rewrite ?orb_true_r;
      repeat match goal with
             | |- allG _ (if ?c then _ else _) => destruct c
             | |- allG _ (match ?c with _ => _ end) => destruct c
             | |- allG _ (add_target _ _ _ _) => apply (add_target_allG G Gm)
             end; try exact Hacc2; left; apply Hdec.
  Qed.

  Lemma recombine_r0 : allG G (recombine OpsR P s).
  Proof.
    unfold recombine. destruct (Nat.eqb (n_loci s) 1); [apply allG_nil|].
    apply fold_left_inv; [|apply allG_nil]. intros acc d _ Hacc.
    destruct (all_loci _ _); [|exact Hacc].
    apply (add_target_allG G Gm); [exact Hacc|]. right. rewrite Hrec. simpl. ring.
  Qed.

  Lemma transit_r0_all : allG G (transit OpsR P s).
  Proof.
    unfold transit.
    assert (H0 : allG G (dict_union (migrate_linked OpsR P s) (migrate_unlinked OpsR P s)))
      by (apply dict_union_allG; [apply migrate_linked_r0 | apply migrate_unlinked_r0]).
    cbv zeta. destruct (is_absorbing s); [exact H0|].
    apply dict_union_allG; [|apply recombine_r0].
    apply dict_union_allG; [exact H0|].
    unfold coalesce_tr. apply Nat.eqb_neq in Hloci. rewrite Hloci. apply coalesce2_r0.
  Qed.
End R0.

(* A state with more than one locus all of whose lineages are linked (lnk = lin, so that
   [unl s l d b = 0] everywhere): with recombination rate 0, every transition either leads to
   such a state again or has rate 0.  Every parameter record (any model, time scales, migration
   matrix), any number of demes and samples. *)
Theorem r0_linked_step_unbounded :
  forall (P : params (T:=R)) (s t : state) (r : R),
    p_rec P = 0 -> n_loci s <> 1%nat -> lnk s = lin s ->
    In (t, r) (transit OpsR P s) -> lnk t = lin t \/ r = 0.
Proof.
  intros P s t r Hrec Hl Hfl Hin.
  assert (H : allG (fun t r => lnk t = lin t \/ r = 0) (transit OpsR P s)).
  { apply (transit_r0_all P Hrec s Hl Hfl (fun t => lnk t = lin t)).
    - intros d1 d2 b. simpl. rewrite Hfl. reflexivity.
    - intros d. simpl. rewrite Hfl. reflexivity. }
  unfold allG in H. rewrite Forall_forall in H. exact (H _ Hin).
Qed.

Lemma linked_no_unlinked t : lnk t = lin t -> forall l d b, unl t l d b = 0%nat.
Proof. intros H l d b. unfold unl. rewrite H. apply Nat.sub_diag. Qed.

(* ... in the words of the task: a transition into a state WITH an unlinked lineage has rate 0 *)
Corollary r0_no_unlinking_unbounded :
  forall (P : params (T:=R)) (s t : state) (r : R),
    p_rec P = 0 -> n_loci s <> 1%nat -> lnk s = lin s ->
    In (t, r) (transit OpsR P s) ->
    (exists l d b, unl t l d b <> 0%nat) -> r = 0.
Proof.
  intros P s t r Hrec Hl Hfl Hin [l [d [b Hu]]].
  destruct (r0_linked_step_unbounded P s t r Hrec Hl Hfl Hin) as [H|H]; [|exact H].
  exfalso. apply Hu. apply linked_no_unlinked. exact H.
Qed.

(* reachability through transitions of non-zero rate, over the reals *)
Inductive nz_reachR (P : params (T:=R)) : state -> state -> Prop :=
| nzR_refl : forall s, nz_reachR P s s
| nzR_step : forall s t u q, nz_reachR P s t -> In (u, q) (transit OpsR P t) -> q <> 0 -> nz_reachR P s u.

Theorem r0_linked_closed_unbounded :
  forall (P : params (T:=R)) (s t : state),
    p_rec P = 0 -> n_loci s <> 1%nat -> lnk s = lin s -> nz_reachR P s t ->
    lnk t = lin t /\ n_loci t = n_loci s /\ forall l d b, unl t l d b = 0%nat.
Proof.
  intros P s t Hrec Hl Hfl Hreach.
  assert (H : lnk t = lin t /\ n_loci t = n_loci s).
  { induction Hreach as [s|s t u q Hreach IH Hin Hq]; [split; [exact Hfl | reflexivity]|].
    destruct (IH Hl Hfl) as [Ht Hn]. destruct (transit_same_shape P t u q Hin) as [En _]. split; [|congruence].
    destruct (r0_linked_step_unbounded P t u q Hrec (ltac:(congruence)) Ht Hin) as [H|H]; [exact H | contradiction]. }
  destruct H as [H1 H2]. split; [exact H1|]. split; [exact H2|]. apply linked_no_unlinked. exact H1.
Qed.

(* ---------- the same for SpaceChecks.fully_linked (two loci: lnk = lin and both loci alike),
   the notion used by SpaceFacts.r0_spec ---------- *)
Lemma fully_linked_iff t :
  fully_linked t = true <-> lnk t = lin t /\ nth 0 (lin t) [] = nth 1 (lin t) [].
Proof.
  unfold fully_linked. rewrite andb_true_iff, arr3_eqb_eq.
  rewrite (list_eqb_eq (list_eqb Nat.eqb)); [reflexivity|].
  apply list_eqb_eq. intros x y. apply Nat.eqb_eq.
Qed.

Lemma fully_linked_two s : n_loci s = 2%nat -> fully_linked s = true ->
  exists row, s = mkState [row; row] [row; row].
Proof.
  destruct s as [a k]. unfold n_loci. simpl. intros H2 H. apply fully_linked_iff in H. simpl in H.
  destruct H as [-> H]. destruct a as [|r0 [|r1 [|? ?]]]; try discriminate. simpl in H. subst r1.
  exists r0. reflexivity.
Qed.

Theorem r0_fully_linked_step_unbounded :
  forall (P : params (T:=R)) (s t : state) (r : R),
    p_rec P = 0 -> n_loci s = 2%nat -> fully_linked s = true ->
    In (t, r) (transit OpsR P s) -> fully_linked t = true \/ r = 0.
Proof.
  intros P s t r Hrec H2 Hf Hin. destruct (fully_linked_two s H2 Hf) as [row ->].
  assert (H : allG (fun t r => fully_linked t = true \/ r = 0)
                   (transit OpsR P (mkState [row; row] [row; row]))).
  { assert (Hl : n_loci (mkState [row; row] [row; row]) <> 1%nat) by (unfold n_loci; simpl; discriminate).
    apply (transit_r0_all P Hrec _ Hl eq_refl (fun t => fully_linked t = true)).
    - intros d1 d2 b. apply fully_linked_iff. unfold map_loci. simpl. split; reflexivity.
    - intros d. apply fully_linked_iff. unfold map_loci. simpl. split; reflexivity. }
  unfold allG in H. rewrite Forall_forall in H. exact (H _ Hin).
Qed.

Theorem r0_fully_linked_closed_unbounded :
  forall (P : params (T:=R)) (s t : state),
    p_rec P = 0 -> n_loci s = 2%nat -> fully_linked s = true -> nz_reachR P s t ->
    fully_linked t = true /\ n_loci t = 2%nat.
Proof.
  intros P s t Hrec H2 Hf Hreach.
  induction Hreach as [s|s t u q Hreach IH Hin Hq]; [split; assumption|].
  destruct (IH H2 Hf) as [Ht Hn]. destruct (transit_same_shape P t u q Hin) as [En _]. split; [|congruence].
  destruct (r0_fully_linked_step_unbounded P t u q Hrec Hn Ht Hin) as [H|H]; [exact H | contradiction].
Qed.

Close Scope R_scope.

(* ====================================================================================== *)
(* B - every real valuation of the rates, by symbolic computation and parametricity        *)
(* ====================================================================================== *)
Parametricity Recursive perm_params_g qualified.
Parametricity Recursive lookup_rate qualified.
Notation perm_params_g_R := PG_o_model_o_SpaceChecksSym_o_perm_params_g_R.
Notation lookup_rate_R := PG_o_model_o_StateSpace_o_lookup_rate_R.

Lemma lookup_rate_row_g {T} (OP : Ops T) trans s t :
  lookup_rate OP trans s t = rate_in_g OP (row_of_g trans s) t.
Proof.
  unfold lookup_rate, row_of_g, rate_in_g.
  destruct (find (fun e => state_eqb (fst e) s) trans) as [[s' tg]|]; reflexivity.
Qed.

Lemma Forall2_In_r {A B} (Rel : A -> B -> Prop) : forall l1 l2 b,
  Forall2 Rel l1 l2 -> In b l2 -> exists a, In a l1 /\ Rel a b.
Proof.
  induction 1 as [|x y l1 l2 Hxy _ IH]; intros Hin; [destruct Hin|].
  destruct Hin as [<-|Hin].
  - exists x. split; [left; reflexivity | exact Hxy].
  - destruct (IH Hin) as [a [Ha Hr]]. exists a. split; [right; exact Ha | exact Hr].
Qed.

Lemma Forall2_In_l {A B} (Rel : A -> B -> Prop) : forall l1 l2 a,
  Forall2 Rel l1 l2 -> In a l1 -> exists b, In b l2 /\ Rel a b.
Proof.
  induction 1 as [|x y l1 l2 Hxy _ IH]; intros Hin; [destruct Hin|].
  destruct Hin as [<-|Hin].
  - exists y. split; [left; reflexivity | exact Hxy].
  - destruct (IH Hin) as [b [Hb Hr]]. exists b. split; [right; exact Hb | exact Hr].
Qed.

Section Transport.
  Variable rho : rval.

  Lemma TR_add a r b s : TR rho a r -> TR rho b s -> TR rho (lf_add a b) (r + s)%R.
  Proof.
    intros Ha Hb Hbad. apply bad_add in Hbad as [H1 H2].
    rewrite eval_add, (Ha H1), (Hb H2). reflexivity.
  Qed.

  (* the model over linear forms and over the reals, for ANY related parameter records *)
  Lemma transit_rel PS PR s :
    params_R lf R (TR rho) PS PR -> rel_tg rho (transit OpsLF PS s) (transit OpsR PR s).
  Proof.
    intros HP. apply targets_R_rel.
    apply (transit_R lf R (TR rho) OpsLF OpsR (Ops_LF_R rho) _ _ HP s s (state_R_refl s)).
  Qed.

  Lemma get_transitions_rel PS PR fuel nl nd n :
    params_R lf R (TR rho) PS PR ->
    forall states trans, get_transitions OpsLF PS fuel nl nd n = Some (states, trans) ->
    exists transR,
      get_transitions OpsR PR fuel nl nd n = Some (states, transR) /\
      forall s t, TR rho (lookup_rate OpsLF trans s t) (lookup_rate OpsR transR s t).
  Proof.
    intros HP states trans E.
    pose proof (get_transitions_R lf R (TR rho) OpsLF OpsR (Ops_LF_R rho) _ _ HP
                  fuel fuel (nat_R_refl _) nl nl (nat_R_refl _) nd nd (nat_R_refl _)
                  n n (nat_R_refl _)) as H.
    apply option_R_inv in H. rewrite E in H.
    destruct (get_transitions OpsR PR fuel nl nd n) as [[statesR transR]|]; [|destruct H].
    apply prod_R_inv in H as [H1 H2]. simpl in H1, H2.
    apply (list_R_eq _ state_R_eq) in H1. subst statesR. exists transR. split; [reflexivity|].
    intros s t.
    apply (lookup_rate_R lf R (TR rho) OpsLF OpsR (Ops_LF_R rho) _ _ H2
             s s (state_R_refl s) t t (state_R_refl t)).
  Qed.

  Lemma perm_params_rel sigma PS PR :
    params_R lf R (TR rho) PS PR ->
    params_R lf R (TR rho) (perm_params_g OpsLF sigma PS) (perm_params_g OpsR sigma PR).
  Proof.
    intros HP. apply (perm_params_g_R lf R (TR rho) OpsLF OpsR (Ops_LF_R rho)); [|exact HP].
    apply list_R_refl. exact nat_R_refl.
  Qed.

  Lemma rel_tg_rate_into pi tgS tgR c : rel_tg rho tgS tgR ->
    TR rho (rate_into_g OpsLF pi tgS c) (rate_into_g OpsR pi tgR c).
  Proof.
    unfold rate_into_g. induction 1 as [|[c1 a] [c2 r] l1 l2 [E Har] _ IH]; simpl.
    - intros _. reflexivity.
    - simpl in E, Har. subst c2. destruct (state_eqb (pi c1) c); [|exact IH].
      simpl. apply TR_add; assumption.
  Qed.
End Transport.

(* ---------------------------------------------------------------------------------------- *)
(* B.1 deme permutations                                                                    *)
(* ---------------------------------------------------------------------------------------- *)
(* SpaceFacts.perm_spec over the reals.  The state lists are parameters of the statement: they
   do not depend on the rates.  (i) the state sets correspond, (ii) so do all rates (as REAL
   numbers), (iii) the initial vectors, (iv) the rewards ((iii), (iv) involve no rate and are
   the rational-valued statements of perm_spec on these state lists). *)
Definition perm_spec_R (P : params (T:=R)) (nl nd n : nat) (sigma : list nat)
           (states states' : list state) : Prop :=
  (exists trans trans',
    get_transitions OpsR P sym_fuel nl nd n = Some (states, trans) /\
    get_transitions OpsR (perm_params_g OpsR sigma P) sym_fuel nl nd n = Some (states', trans') /\
    (forall s t, In s states -> In t states ->
       lookup_rate OpsR trans' (perm_state sigma s) (perm_state sigma t) = lookup_rate OpsR trans s t)) /\
  (forall s, In s states -> In (perm_state sigma s) states') /\
  (forall s', In s' states' -> exists s, In s states /\ s' = perm_state sigma s) /\
  (forall config n_unlinked s, In config (compositions_of n nd) -> n_unlinked <= n -> In s states ->
     (alpha_at (perm_config sigma config) n_unlinked states' (perm_state sigma s)
      == alpha_at config n_unlinked states s)%Q) /\
  (forall s r, In s states -> In r [RTreeHeight; RTotalBranchLength; RUnit] ->
     (reward_get OpsQ n r (perm_state sigma s) == reward_get OpsQ n r s)%Q) /\
  (forall s d, In s states -> d < nd ->
     (reward_get OpsQ n (RDeme (pos_of d sigma)) (perm_state sigma s) == reward_get OpsQ n (RDeme d) s)%Q).

Lemma perm_check_sym_sound PS nl nd n sigma :
  perm_check_sym PS nl nd n sigma = true ->
  exists states states', forall rho PR, params_R lf R (TR rho) PS PR ->
    perm_spec_R PR nl nd n sigma states states'.
Proof.
  unfold perm_check_sym. intros H.
  destruct (get_transitions OpsLF PS sym_fuel nl nd n) as [[states trans]|] eqn:E1; [|discriminate].
  destruct (get_transitions OpsLF (perm_params_g OpsLF sigma PS) sym_fuel nl nd n)
    as [[states' trans']|] eqn:E2; [|discriminate].
  exists states, states'. intros rho PR HP.
  apply andb_true_iff in H as [H Hdeme]. apply andb_true_iff in H as [H Hrew].
  apply andb_true_iff in H as [H Halpha]. apply andb_true_iff in H as [H Hrates].
  apply andb_true_iff in H as [Hsub1 Hsub2].
  destruct (get_transitions_rel rho _ _ _ _ _ _ HP _ _ E1) as [trR [ER1 L1]].
  destruct (get_transitions_rel rho _ _ _ _ _ _ (perm_params_rel rho sigma _ _ HP) _ _ E2) as [trR' [ER2 L2]].
  unfold perm_spec_R. split; [|split; [|split; [|split; [|split]]]].
  - exists trR, trR'. split; [exact ER1|]. split; [exact ER2|].
    intros s t Hs Ht. rewrite forallb_forall in Hrates. specialize (Hrates s Hs). cbv zeta in Hrates.
    rewrite forallb_forall in Hrates. specialize (Hrates t Ht).
    rewrite <- !lookup_rate_row_g in Hrates.
    apply lf_eqb_sound in Hrates as [B1 [B2 E]].
    rewrite <- (L2 _ _ B1), <- (L1 _ _ B2). apply E.
  - intros s Hs. eapply subset_st_In; [exact Hsub1|]. apply in_map. exact Hs.
  - intros s' Hs'. pose proof (subset_st_In _ _ Hsub2 s' Hs') as Hin.
    apply in_map_iff in Hin. destruct Hin as [s [E Hs]]. exists s. split; [exact Hs | symmetry; exact E].
  - intros config nu s Hc Hnu Hs.
    rewrite forallb_forall in Halpha. specialize (Halpha config Hc).
    rewrite forallb_forall in Halpha.
    assert (Hin : In nu (seq 0 (S n))) by (apply in_seq; lia).
    specialize (Halpha nu Hin). cbv zeta in Halpha. rewrite forallb_forall in Halpha.
    apply Qeq_bool_iff. exact (Halpha s Hs).
  - intros s r Hs Hr. rewrite forallb_forall in Hrew. specialize (Hrew s Hs).
    rewrite forallb_forall in Hrew. apply Qeq_bool_iff. exact (Hrew r Hr).
  - intros s d Hs Hd. rewrite forallb_forall in Hdeme. specialize (Hdeme s Hs).
    rewrite forallb_forall in Hdeme. apply Qeq_bool_iff. apply Hdeme. apply in_seq. lia.
Qed.

(* the kernel evaluates the checks (once) when it type-checks the cast at Qed *)
Lemma perm_groups1_checked : forallb perm_check_sym1 perm_groups1 = true.
Proof. vm_cast_no_check (@eq_refl bool true). Qed.
Lemma perm_groups2_checked : forallb perm_check_sym2 perm_groups2 = true.
Proof. vm_cast_no_check (@eq_refl bool true). Qed.

(* Deme permutations, EVERY real valuation rho of time scales, migration rates and recombination
   rate.  One locus: (n, demes) in perm_groups1, Kingman / Beta(3/2) / Beta(7/4) / Dirac(1/3, 5/2),
   lineage- and block-counting, every permutation of the demes.  Two loci (Kingman, lineage
   counting): (n, demes) in perm_groups2.  The parameters of the permuted system are
   [perm_params_g OpsR sigma] of the real parameters, i.e. the permuted valuation. *)
Theorem deme_permutation_equivariant_all_rates :
  (forall n nd m lc sigma,
     In (n, nd) perm_groups1 -> In m sym_models -> In sigma (deme_perms nd) ->
     exists states states', forall rho : rval,
       perm_spec_R (realP rho nd m lc) 1 nd n sigma states states') /\
  (forall n nd sigma,
     In (n, nd) perm_groups2 -> In sigma (deme_perms nd) ->
     exists states states', forall rho : rval,
       perm_spec_R (realP rho nd Kingman true) 2 nd n sigma states states').
Proof.
  split.
  - intros n nd m lc sigma Hg Hm Hs.
    pose proof perm_groups1_checked as H. rewrite forallb_forall in H. specialize (H _ Hg).
    unfold perm_check_sym1 in H.
    rewrite forallb_forall in H. specialize (H m Hm).
    rewrite forallb_forall in H. specialize (H lc (ltac:(destruct lc; simpl; auto))).
    rewrite forallb_forall in H. specialize (H sigma Hs).
    destruct (perm_check_sym_sound _ _ _ _ _ H) as [states [states' Hall]].
    exists states, states'. intros rho. apply (Hall rho). apply params_sym_real.
  - intros n nd sigma Hg Hs.
    pose proof perm_groups2_checked as H. rewrite forallb_forall in H. specialize (H _ Hg).
    unfold perm_check_sym2 in H.
    rewrite forallb_forall in H. specialize (H sigma Hs).
    destruct (perm_check_sym_sound _ _ _ _ _ H) as [states [states' Hall]].
    exists states, states'. intros rho. apply (Hall rho). apply params_sym_real.
Qed.

(* ---------------------------------------------------------------------------------------- *)
(* B.2 single-locus marginals of the two-locus chain                                         *)
(* ---------------------------------------------------------------------------------------- *)
(* SpaceFacts.marginal_spec over the reals; [st2], [st1] are the two- and one-locus state
   lists.  For every two-locus state s and every one-locus state c other than the image of s,
   the total real two-locus rate from s into the states projecting onto c is the real
   one-locus rate from the image of s to c. *)
Definition marginal_spec_R (P : params (T:=R)) (nd n l : nat) (st2 st1 : list state) : Prop :=
  (exists tr2, get_transitions OpsR P sym_fuel 2 nd n = Some (st2, tr2)) /\
  (exists tr1, get_transitions OpsR P sym_fuel 1 nd n = Some (st1, tr1)) /\
  forall s, In s st2 ->
    In (proj_locus nd l s) st1 /\
    (forall t q, In (t, q) (transit OpsR P s) -> In (proj_locus nd l t) st1) /\
    (forall c, In c st1 -> c <> proj_locus nd l s ->
       rate_into_g OpsR (proj_locus nd l) (transit OpsR P s) c
       = rate_in_R (transit OpsR P (proj_locus nd l s)) c).

(* the valuation with another recombination rate *)
Definition with_rec (r : R) (rho : rval) : rval := mkRval (r_ts rho) (r_mig rho) r.

Lemma no_rec_eval rho r x : no_rec x = true -> eval (with_rec r rho) x = eval rho x.
Proof.
  unfold no_rec, eval. induction (terms x) as [|[a q] l IH]; simpl; intros H; [reflexivity|].
  apply andb_true_iff in H as [Ha Hl]. rewrite (IH Hl). f_equal. f_equal.
  destruct a; simpl in *; try reflexivity. discriminate.
Qed.

Lemma marginal_check_sym_sound n nd :
  marginal_check_sym (n, nd) = true ->
  exists st2 st1, forall rho l, In l [0; 1] ->
    marginal_spec_R (realP rho nd Kingman true) nd n l st2 st1 /\
    (* the marginal rates do not depend on the recombination rate at all *)
    (forall r s c, In s st2 -> In c st1 -> c <> proj_locus nd l s ->
       rate_into_g OpsR (proj_locus nd l) (transit OpsR (realP (with_rec r rho) nd Kingman true) s) c
       = rate_into_g OpsR (proj_locus nd l) (transit OpsR (realP rho nd Kingman true) s) c).
Proof.
  unfold marginal_check_sym. cbv zeta. intros H.
  destruct (get_transitions OpsLF (symP nd Kingman true) sym_fuel 2 nd n) as [[st2 tr2]|] eqn:E2; [|discriminate].
  destruct (get_transitions OpsLF (symP nd Kingman true) sym_fuel 1 nd n) as [[st1 tr1]|] eqn:E1; [|discriminate].
  exists st2, st1. intros rho l Hl.
  rewrite forallb_forall in H.
  assert (Hs : forall s, In s st2 ->
            mem_state (proj_locus nd l s) st1 = true /\
            (forall e, In e (transit OpsLF (symP nd Kingman true) s) -> mem_state (proj_locus nd l (fst e)) st1 = true) /\
            (forall c, In c st1 -> c <> proj_locus nd l s ->
               lf_eqb (rate_into_g OpsLF (proj_locus nd l) (transit OpsLF (symP nd Kingman true) s) c)
                      (rate_in_g OpsLF (transit OpsLF (symP nd Kingman true) (proj_locus nd l s)) c) = true /\
               no_rec (rate_into_g OpsLF (proj_locus nd l) (transit OpsLF (symP nd Kingman true) s) c) = true)).
  { intros s Hs. specialize (H s Hs). rewrite forallb_forall in H. specialize (H l Hl).
    apply andb_true_iff in H as [H H3]. apply andb_true_iff in H as [H1 H2].
    split; [exact H1|]. split.
    - intros e He. rewrite forallb_forall in H2. exact (H2 e He).
    - intros c Hc Hne. rewrite forallb_forall in H3. specialize (H3 c Hc).
      apply orb_true_iff in H3 as [E|E]; [apply state_eqb_eq in E; contradiction|].
      apply andb_true_iff in E. exact E. }
  clear H. split.
  - unfold marginal_spec_R.
    destruct (get_transitions_rel rho _ _ _ _ _ _ (params_sym_real rho nd Kingman true) _ _ E2) as [trR2 [ER2 _]].
    destruct (get_transitions_rel rho _ _ _ _ _ _ (params_sym_real rho nd Kingman true) _ _ E1) as [trR1 [ER1 _]].
    split; [exists trR2; exact ER2|]. split; [exists trR1; exact ER1|].
    intros s Hs2. destruct (Hs s Hs2) as [H1 [H2 H3]]. split; [apply mem_state_In; exact H1|]. split.
    + intros t q Htq.
      pose proof (transit_rel rho _ _ s (params_sym_real rho nd Kingman true)) as RT.
      destruct (Forall2_In_r _ _ _ _ RT Htq) as [e [He [Ek _]]]. simpl in Ek. rewrite <- Ek.
      apply mem_state_In. exact (H2 e He).
    + intros c Hc Hne. destruct (H3 c Hc Hne) as [E _].
      apply lf_eqb_sound in E as [B1 [B2 E]].
      pose proof (rel_tg_rate_into rho (proj_locus nd l) _ _ c
                    (transit_rel rho _ _ s (params_sym_real rho nd Kingman true))) as T1.
      pose proof (rel_tg_rate_in rho _ _ c
                    (transit_rel rho _ _ (proj_locus nd l s) (params_sym_real rho nd Kingman true))) as T2.
      rewrite <- (T1 B1), <- (T2 B2). apply E.
  - intros r s c Hs2 Hc Hne. destruct (Hs s Hs2) as [_ [_ H3]]. destruct (H3 c Hc Hne) as [E Hnr].
    apply lf_eqb_sound in E as [B1 _].
    pose proof (rel_tg_rate_into rho (proj_locus nd l) _ _ c
                  (transit_rel rho _ _ s (params_sym_real rho nd Kingman true))) as T1.
    pose proof (rel_tg_rate_into (with_rec r rho) (proj_locus nd l) _ _ c
                  (transit_rel (with_rec r rho) _ _ s (params_sym_real (with_rec r rho) nd Kingman true))) as T2.
    rewrite <- (T1 B1), <- (T2 B1). apply no_rec_eval. exact Hnr.
Qed.

Lemma marginal_groups_checked : forallb marginal_check_sym marginal_groups = true.
Proof. vm_cast_no_check (@eq_refl bool true). Qed.

(* Two loci, Kingman, lineage counting, (n, demes) in marginal_groups: for EVERY real valuation
   of time scales, migration rates and recombination rate, each locus of the two-locus chain is
   marginally the one-locus chain, and its marginal rates are the same for every recombination
   rate.  The state lists are the same for all valuations. *)
Theorem two_locus_marginal_is_single_locus_all_rates :
  forall n nd, In (n, nd) marginal_groups ->
  exists st2 st1, forall (rho : rval) l, In l [0; 1] ->
    marginal_spec_R (realP rho nd Kingman true) nd n l st2 st1 /\
    (forall r s c, In s st2 -> In c st1 -> c <> proj_locus nd l s ->
       rate_into_g OpsR (proj_locus nd l) (transit OpsR (realP (with_rec r rho) nd Kingman true) s) c
       = rate_into_g OpsR (proj_locus nd l) (transit OpsR (realP rho nd Kingman true) s) c).
Proof.
  intros n nd Hg. pose proof marginal_groups_checked as H. rewrite forallb_forall in H.
  exact (marginal_check_sym_sound n nd (H _ Hg)).
Qed.

(* ---------------------------------------------------------------------------------------- *)
(* B.3 recombination rate 0                                                                  *)
(* ---------------------------------------------------------------------------------------- *)
(* SpaceFacts.r0_spec over the reals *)
Definition r0_spec_R (P : params (T:=R)) (nd n : nat) (st : list state) : Prop :=
  (exists tr, get_transitions OpsR P sym_fuel 2 nd n = Some (st, tr)) /\
  forall config, In config (compositions_of n nd) ->
    (exists s, In s st /\ linked_start config s = true) /\
    (forall s t, In s st -> linked_start config s = true -> nz_reachR P s t ->
       In t st /\ fully_linked t = true).

Lemma only_rec_eval rho x : only_rec x = true -> r_rec rho = 0%R -> bad x = false /\ eval rho x = 0%R.
Proof.
  unfold only_rec, lf_ok, eval. intros H Hr. apply andb_true_iff in H as [Hb H].
  apply negb_true_iff in Hb. split; [exact Hb|].
  induction (terms x) as [|[a q] l IH]; simpl in *; [reflexivity|].
  apply andb_true_iff in H as [Ha Hl]. rewrite (IH Hl).
  apply atom_eqb_true in Ha. subst a. simpl. rewrite Hr. ring.
Qed.

Lemma r0_check_sym_sound n nd :
  r0_check_sym (n, nd) = true ->
  exists st, forall rho, r_rec rho = 0%R -> r0_spec_R (realP rho nd Kingman true) nd n st.
Proof.
  unfold r0_check_sym. cbv zeta. intros H.
  destruct (get_transitions OpsLF (symP nd Kingman true) sym_fuel 2 nd n) as [[st tr]|] eqn:E; [|discriminate].
  exists st. intros rho Hrho.
  apply andb_true_iff in H as [Hstart Hstep].
  rewrite forallb_forall in Hstart, Hstep.
  destruct (get_transitions_rel rho _ _ _ _ _ _ (params_sym_real rho nd Kingman true) _ _ E) as [trR [ER _]].
  split; [exists trR; exact ER|].
  intros config Hc. specialize (Hstart config Hc). apply andb_true_iff in Hstart as [Hex Hfl].
  apply existsb_exists in Hex. rewrite forallb_forall in Hfl. split; [exact Hex|].
  intros s t Hs Hls Hreach.
  assert (Hs0 : In s st /\ fully_linked s = true).
  { split; [exact Hs|]. specialize (Hfl s Hs). rewrite Hls in Hfl. exact Hfl. }
  clear Hls Hs. induction Hreach as [s|s t u q Hreach IH Hin Hq]; [exact Hs0|].
  destruct (IH Hs0) as [Ht Hft].
  specialize (Hstep t Ht). rewrite Hft in Hstep. simpl in Hstep. rewrite forallb_forall in Hstep.
  pose proof (transit_rel rho _ _ t (params_sym_real rho nd Kingman true)) as RT.
  destruct (Forall2_In_r _ _ _ _ RT Hin) as [e [He [Ek Hr]]]. simpl in Ek, Hr.
  specialize (Hstep e He). apply andb_true_iff in Hstep as [Hm Hz]. rewrite Ek in Hm, Hz.
  split; [apply mem_state_In; exact Hm|].
  apply orb_true_iff in Hz as [Hz|Hz]; [|exact Hz].
  destruct (only_rec_eval rho _ Hz Hrho) as [Hb Hev]. rewrite (Hr Hb) in Hev. contradiction.
Qed.

Lemma r0_groups_checked : forallb r0_check_sym r0_groups = true.
Proof. vm_cast_no_check (@eq_refl bool true). Qed.

(* Two loci, Kingman, lineage counting, (n, demes) in r0_groups, EVERY real valuation of time
   scales and migration rates with recombination rate 0: for every sample configuration the
   completely linked start state exists, and everything reachable from it through transitions
   of non-zero rate is a listed, completely linked state. *)
Theorem r0_linked_closed_all_rates :
  forall n nd, In (n, nd) r0_groups ->
  exists st, forall rho : rval, r_rec rho = 0%R -> r0_spec_R (realP rho nd Kingman true) nd n st.
Proof.
  intros n nd Hg. pose proof r0_groups_checked as H. rewrite forallb_forall in H.
  exact (r0_check_sym_sound n nd (H _ Hg)).
Qed.

(* ---------------------------------------------------------------------------------------- *)
(* B.4 the permuted system is the system of the permuted valuation; arbitrary real records   *)
(* ---------------------------------------------------------------------------------------- *)
Definition perm_rval (sigma : list nat) (rho : rval) : rval :=
  mkRval (fun d => r_ts rho (nth d sigma 0))
         (fun p q => r_mig rho (nth p sigma 0) (nth q sigma 0))
         (r_rec rho).

Lemma nth_map_seq {A} (f : nat -> A) (d : A) nd i : i < nd -> nth i (map f (seq 0 nd)) d = f i.
Proof.
  intros Hi. rewrite (nth_indep _ d (f 0)) by (rewrite map_length, seq_length; exact Hi).
  rewrite map_nth, seq_nth by exact Hi. reflexivity.
Qed.

Lemma map_sigma_seq {A} (f : nat -> A) sigma :
  map (fun d => f (nth d sigma 0)) (seq 0 (length sigma)) = map f sigma.
Proof. rewrite <- (map_map (fun d => nth d sigma 0) f), map_nth_seq. reflexivity. Qed.

(* for an ordering sigma of the demes 0 .. nd-1, permuting the real parameter record is the same
   as evaluating the model under the permuted valuation: symbolically, the permuted atoms *)
Lemma perm_params_realP sigma rho nd m lc :
  length sigma = nd -> (forall i, In i sigma -> i < nd) ->
  perm_params_g OpsR sigma (realP rho nd m lc) = realP (perm_rval sigma rho) nd m lc.
Proof.
  intros Hlen Hlt. subst nd. unfold perm_params_g, realP, mk_params, gatherd. simpl. f_equal.
  - rewrite (map_sigma_seq (r_ts rho)). apply map_ext_in.
    intros i Hi. apply nth_map_seq. apply Hlt. exact Hi.
  - rewrite (map_sigma_seq (fun p => map (fun q => r_mig rho p (nth q sigma 0)) (seq 0 (length sigma)))).
    apply map_ext_in. intros i Hi.
    rewrite (map_sigma_seq (r_mig rho i)). apply map_ext_in. intros j Hj.
    rewrite (nth_map_seq _ [] (length sigma) i) by (apply Hlt; exact Hi).
    apply nth_map_seq. apply Hlt. exact Hj.
Qed.

(* every listed ordering of the demes is a permutation of 0 .. nd-1 *)
Lemma insert_everywhere_perm {A} (x : A) : forall l l', In l' (insert_everywhere x l) -> Permutation l' (x :: l).
Proof.
  induction l as [|y l IH]; simpl; intros l' H.
  - destruct H as [<-|[]]. apply Permutation_refl.
  - destruct H as [<-|H]; [apply Permutation_refl|].
    apply in_map_iff in H. destruct H as [l'' [<- H]].
    eapply Permutation_trans; [apply perm_skip, IH, H | apply perm_swap].
Qed.

Lemma perms_of_perm {A} : forall (l l' : list A), In l' (perms_of l) -> Permutation l' l.
Proof.
  induction l as [|x l IH]; simpl; intros l' H.
  - destruct H as [<-|[]]. apply Permutation_refl.
  - apply in_flat_map in H. destruct H as [p [Hp H]].
    eapply Permutation_trans; [apply insert_everywhere_perm, H | apply perm_skip, IH, Hp].
Qed.

Lemma deme_perms_shape nd sigma : In sigma (deme_perms nd) ->
  length sigma = nd /\ forall i, In i sigma -> i < nd.
Proof.
  intros H. apply perms_of_perm in H. split.
  - rewrite (Permutation_length H). apply seq_length.
  - intros i Hi. apply (Permutation_in _ H) in Hi. apply in_seq in Hi. lia.
Qed.

Corollary perm_params_realP_deme_perms nd sigma rho m lc : In sigma (deme_perms nd) ->
  perm_params_g OpsR sigma (realP rho nd m lc) = realP (perm_rval sigma rho) nd m lc.
Proof. intros H. destruct (deme_perms_shape nd sigma H). apply perm_params_realP; assumption. Qed.

(* the three theorems for an arbitrary real parameter record of the right shape *)
Corollary deme_permutation_equivariant_all_params :
  forall n nd sigma (P : params (T:=R)),
    length (p_tscale P) = nd -> length (p_mig P) = nd ->
    (forall row, In row (p_mig P) -> length row = nd) ->
    In sigma (deme_perms nd) ->
    ((In (n, nd) perm_groups1 /\ exists m, In m sym_models /\ p_model P = cmodel_map Q2R m) ->
       exists states states', perm_spec_R P 1 nd n sigma states states') /\
    ((In (n, nd) perm_groups2 /\ p_model P = Kingman /\ p_lc P = true) ->
       exists states states', perm_spec_R P 2 nd n sigma states states').
Proof.
  intros n nd sigma P Hts Hmg Hrows Hs. split.
  - intros [Hg [m [Hm Em]]].
    destruct (proj1 deme_permutation_equivariant_all_rates n nd m (p_lc P) sigma Hg Hm Hs) as [st [st' H]].
    exists st, st'. specialize (H (rho_of P)). rewrite (realP_rho_of P nd m Em Hts Hmg Hrows) in H. exact H.
  - intros [Hg [Em Elc]].
    destruct (proj2 deme_permutation_equivariant_all_rates n nd sigma Hg Hs) as [st [st' H]].
    exists st, st'. specialize (H (rho_of P)). rewrite <- Elc in H.
    rewrite (realP_rho_of P nd Kingman Em Hts Hmg Hrows) in H. exact H.
Qed.

Corollary two_locus_marginal_is_single_locus_all_params :
  forall n nd l (P : params (T:=R)),
    In (n, nd) marginal_groups -> In l [0; 1] ->
    p_model P = Kingman -> p_lc P = true ->
    length (p_tscale P) = nd -> length (p_mig P) = nd ->
    (forall row, In row (p_mig P) -> length row = nd) ->
    exists st2 st1,
      marginal_spec_R P nd n l st2 st1 /\
      (forall r s c, In s st2 -> In c st1 -> c <> proj_locus nd l s ->
         rate_into_g OpsR (proj_locus nd l) (transit OpsR (set_rec r P) s) c
         = rate_into_g OpsR (proj_locus nd l) (transit OpsR P s) c).
Proof.
  intros n nd l P Hg Hl Em Elc Hts Hmg Hrows.
  destruct (two_locus_marginal_is_single_locus_all_rates n nd Hg) as [st2 [st1 H]].
  exists st2, st1. specialize (H (rho_of P) l Hl).
  change (realP (with_rec ?r (rho_of P)) nd Kingman true)
    with (set_rec r (realP (rho_of P) nd Kingman true)) in H.
  rewrite <- Elc in H. rewrite (realP_rho_of P nd Kingman Em Hts Hmg Hrows) in H. exact H.
Qed.

Corollary r0_linked_closed_all_params :
  forall n nd (P : params (T:=R)),
    In (n, nd) r0_groups -> p_rec P = 0%R ->
    p_model P = Kingman -> p_lc P = true ->
    length (p_tscale P) = nd -> length (p_mig P) = nd ->
    (forall row, In row (p_mig P) -> length row = nd) ->
    exists st, r0_spec_R P nd n st.
Proof.
  intros n nd P Hg Hrec Em Elc Hts Hmg Hrows.
  destruct (r0_linked_closed_all_rates n nd Hg) as [st H]. exists st.
  specialize (H (rho_of P) Hrec). rewrite <- Elc in H.
  rewrite (realP_rho_of P nd Kingman Em Hts Hmg Hrows) in H. exact H.
Qed.

(* ====================================================================================== *)
Print Assumptions transit_same_shape.
Print Assumptions transit_time_rescaling.
Print Assumptions get_transitions_time_rescaling.
Print Assumptions lookup_rate_time_rescaling.
Print Assumptions rate_matrix_time_rescaling.
Print Assumptions generator_time_rescaling.
Print Assumptions r0_linked_step_unbounded.
Print Assumptions r0_no_unlinking_unbounded.
Print Assumptions r0_linked_closed_unbounded.
Print Assumptions r0_fully_linked_step_unbounded.
Print Assumptions r0_fully_linked_closed_unbounded.
Print Assumptions deme_permutation_equivariant_all_rates.
Print Assumptions two_locus_marginal_is_single_locus_all_rates.
Print Assumptions r0_linked_closed_all_rates.
Print Assumptions perm_params_realP_deme_perms.
Print Assumptions deme_permutation_equivariant_all_params.
Print Assumptions two_locus_marginal_is_single_locus_all_params.
Print Assumptions r0_linked_closed_all_params.
