(* Central (cross-)moments from raw joint moments by inclusion-exclusion.

   phasegen/distributions.py (PhaseTypeDistribution.accumulate, center=True) computes the central
   cross-moment of k rewards Y_0..Y_{k-1} from the raw joint moments mu(I) = E[prod_{j in I} Y_j] as

       sum over subsets I of {0..k-1} of (-1)^(k-|I|) * mu(I) * prod_{j not in I} m_j,   m_j = mu({j}).

   Here this is proved to BE E[prod_j (Y_j - m_j)] for every linear functional E on a commutative
   algebra of "random variables" (no measure theory is needed: only linearity).  The normalisation
   E 1 = 1 enters in exactly one place: the code takes the order-0 raw moment mu({}) to be the
   constant 1 (lemma mu0, corollary central_from_raw_order0), and it is what makes the k = 1, 2, 3
   formulas come out in their usual form.

   Contents
     central_from_raw             the inclusion-exclusion formula, any k
     central_from_raw_order0      the same with the order-0 term written as the constant 1
     shifted_from_raw             the same for an arbitrary centering vector
     central1, central2, central3 the formula written out for k = 1, 2, 3 over plain elements
     variance_from_raw            var = m2 - mean^2
     central_perm, cov_sym        symmetry under permutations of the variables
     quadratic_form_is_variance   x^T C x is the central second moment of sum_i x_i Y_i            *)
From mathcomp Require Import all_ssreflect all_fingroup all_algebra.
From mathcomp Require Import ring.

Set Implicit Arguments.
Unset Strict Implicit.
Unset Printing Implicit Defensive.

Import GRing.Theory.
Local Open Scope ring_scope.

Section CentralMoments.

Variables (R : comRingType) (A : comAlgType R).
(* a linear expectation: {scalar A} is {linear A -> R^o | *%R}, a linear form on A *)
Variable E : {scalar A}.
Hypothesis E1 : E 1 = 1.

Lemma E_alg c : E c%:A = c.
Proof. by rewrite linearZ /= E1 mulr1. Qed.

Lemma E_mul_algr x c : E (x * c%:A) = c * E x.
Proof. by rewrite mulr_algr linearZ. Qed.

Lemma E_mul_algl x c : E (c%:A * x) = c * E x.
Proof. by rewrite mulr_algl linearZ. Qed.

(* E[x (Y - c)] = E[x Y] - c E[x] *)
Lemma E_mul_center x y c : E (x * (y - c%:A)) = E (x * y) - c * E x.
Proof. by rewrite mulrBr linearB /= E_mul_algr. Qed.

(* ------------------------------------------------------------------ *)
(* The general formula                                                 *)
(* ------------------------------------------------------------------ *)
Section General.

Variable k : nat.
Variable Y : 'I_k -> A.

Definition mu (I : {set 'I_k}) : R := E (\prod_(j in I) Y j).
Definition m (j : 'I_k) : R := mu [set j].

Lemma mE j : m j = E (Y j).
Proof. by rewrite /m /mu big_set1. Qed.

(* product of binomials = sum over subsets *)
Lemma prod_sub_subsets (c : 'I_k -> R) :
  \prod_(j < k) (Y j - (c j)%:A)
  = \sum_(I : {set 'I_k})
      (\prod_(j in I) Y j) * ((-1) ^+ (k - #|I|) * \prod_(j in ~: I) c j)%:A.
Proof.
have -> : \prod_(j < k) (Y j - (c j)%:A)
        = \prod_(j < k) \sum_(b : bool) (if b then Y j else - (c j)%:A).
  by apply: eq_bigr => j _; rewrite big_bool.
rewrite bigA_distr_bigA /=.
rewrite (reindex (fun I : {set 'I_k} => [ffun j => j \in I])) /=; last first.
  exists (fun f : {ffun 'I_k -> bool} => [set j | f j]) => [I _|f _].
    by apply/setP => j; rewrite inE ffunE.
  by apply/ffunP => j; rewrite ffunE inE.
apply: eq_bigr => I _.
rewrite (bigID (mem I)) /=; congr (_ * _).
  by apply: eq_bigr => j jI; rewrite ffunE jI.
have <- : #|~: I| = (k - #|I|)%N by rewrite -[X in (X - _)%N]card_ord -(cardsC I) addKn.
rewrite -prodrN -in_algE rmorph_prod /=.
rewrite [RHS](eq_bigl (fun j => j \notin I)); last by move=> j; rewrite inE.
by apply: eq_bigr => j /negbTE jI; rewrite ffunE jI scaleNr.
Qed.

Theorem central_from_raw :
  E (\prod_(j < k) (Y j - (m j)%:A))
  = \sum_(I : {set 'I_k}) (-1) ^+ (k - #|I|) * mu I * \prod_(j in ~: I) m j.
Proof.
rewrite prod_sub_subsets linear_sum /=; apply: eq_bigr => I _.
by rewrite E_mul_algr -/(mu I) mulrAC.
Qed.

(* The code takes the order-0 raw moment to be the constant 1 (accumulate_uncentered 0 = ones):
   this is where the normalisation E 1 = 1 enters. *)
Lemma mu0 : mu set0 = 1.
Proof. by rewrite /mu big_set0. Qed.

Corollary central_from_raw_order0 :
  E (\prod_(j < k) (Y j - (m j)%:A))
  = (-1) ^+ k * \prod_(j < k) m j
    + \sum_(I : {set 'I_k} | I != set0) (-1) ^+ (k - #|I|) * mu I * \prod_(j in ~: I) m j.
Proof.
rewrite central_from_raw (bigD1 set0) //=; congr (_ + _).
rewrite cards0 subn0 mu0 mulr1; congr (_ * _).
by apply: eq_bigl => j; rewrite !inE.
Qed.

(* the same with an arbitrary centering vector c (the code uses c = m) *)
Theorem shifted_from_raw (c : 'I_k -> R) :
  E (\prod_(j < k) (Y j - (c j)%:A))
  = \sum_(I : {set 'I_k}) (-1) ^+ (k - #|I|) * mu I * \prod_(j in ~: I) c j.
Proof.
rewrite prod_sub_subsets linear_sum /=; apply: eq_bigr => I _.
by rewrite E_mul_algr -/(mu I) mulrAC.
Qed.

(* symmetry: the central cross-moment does not depend on the order of the variables *)
Theorem central_perm (s : 'S_k) :
  E (\prod_(j < k) (Y (s j) - (m (s j))%:A)) = E (\prod_(j < k) (Y j - (m j)%:A)).
Proof. by rewrite [in RHS](reindex_inj (@perm_inj _ s)). Qed.

(* the raw joint moment of the permuted family is the raw joint moment of the image set *)
Lemma mu_perm (s : 'S_k) (I : {set 'I_k}) :
  E (\prod_(j in I) Y (s j)) = mu (s @: I).
Proof.
rewrite /mu big_imset //=; move=> i j _ _; exact: perm_inj.
Qed.

End General.

(* ------------------------------------------------------------------ *)
(* k = 1, 2, 3 written out                                             *)
(* ------------------------------------------------------------------ *)

Lemma central1 (Y0 : A) : E (Y0 - (E Y0)%:A) = 0.
Proof. by rewrite linearB /= E_alg subrr. Qed.

Lemma central2 (Y0 Y1 : A) :
  E ((Y0 - (E Y0)%:A) * (Y1 - (E Y1)%:A)) = E (Y0 * Y1) - E Y0 * E Y1.
Proof.
rewrite E_mul_center central1 mulr0 subr0.
by rewrite mulrBl linearB /= E_mul_algl.
Qed.

Corollary cov_sym (Y0 Y1 : A) :
  E ((Y0 - (E Y0)%:A) * (Y1 - (E Y1)%:A)) = E ((Y1 - (E Y1)%:A) * (Y0 - (E Y0)%:A)).
Proof. by rewrite mulrC. Qed.

(* variance = second raw moment - mean^2 *)
Corollary variance_from_raw (Y0 : A) :
  E ((Y0 - (E Y0)%:A) ^+ 2) = E (Y0 ^+ 2) - (E Y0) ^+ 2.
Proof. by rewrite !expr2 central2. Qed.

Lemma central3 (Y0 Y1 Y2 : A) :
  E ((Y0 - (E Y0)%:A) * (Y1 - (E Y1)%:A) * (Y2 - (E Y2)%:A))
  = E (Y0 * Y1 * Y2) - E Y0 * E (Y1 * Y2) - E Y1 * E (Y0 * Y2) - E Y2 * E (Y0 * Y1)
    + 2%:R * E Y0 * E Y1 * E Y2.
Proof.
rewrite E_mul_center central2.
have -> : (Y0 - (E Y0)%:A) * (Y1 - (E Y1)%:A) * Y2
        = Y0 * Y1 * Y2 - (E Y1)%:A * (Y0 * Y2) - (E Y0)%:A * (Y1 * Y2)
          + (E Y0)%:A * ((E Y1)%:A * Y2).
  by move: ((E Y0)%:A) ((E Y1)%:A) => u v; ring.
rewrite linearD /= !linearB /= !E_mul_algl.
move: (E (Y0 * Y1 * Y2) : R) (E (Y0 * Y2) : R) (E (Y1 * Y2) : R) (E (Y0 * Y1) : R) (E Y0 : R) (E Y1 : R) (E Y2 : R) => e012 e02 e12 e01 a b c; ring.
Qed.

(* ------------------------------------------------------------------ *)
(* x^T C x is a variance                                               *)
(* ------------------------------------------------------------------ *)
Section Gram.

Variable p : nat.
Variable Y : 'I_p -> A.
Variable x : 'I_p -> R.

Definition cov (i j : 'I_p) : R := E ((Y i - (E (Y i))%:A) * (Y j - (E (Y j))%:A)).

Lemma cov_symmetric i j : cov i j = cov j i.
Proof. exact: cov_sym. Qed.

Lemma cov_from_raw i j : cov i j = E (Y i * Y j) - E (Y i) * E (Y j).
Proof. exact: central2. Qed.

Let Z : A := \sum_i x i *: Y i.

Lemma centered_combination :
  Z - (E Z)%:A = \sum_i x i *: (Y i - (E (Y i))%:A).
Proof.
rewrite /Z linear_sum /= -in_algE rmorph_sum /= -sumrB; apply: eq_bigr => i _.
by rewrite [E _]linearZ /= scalerBr -scalerA.
Qed.

Theorem quadratic_form_is_variance :
  \sum_i \sum_j x i * x j * cov i j = E ((Z - (E Z)%:A) ^+ 2).
Proof.
rewrite centered_combination expr2 big_distrlr /= linear_sum /=.
apply: eq_bigr => i _; rewrite linear_sum /=; apply: eq_bigr => j _.
by rewrite -scalerAl -scalerAr scalerA linearZ.
Qed.

End Gram.

End CentralMoments.

(* {scalar A} is {linear A -> R^o | *%R}; every {linear A -> R^o} is one (the two scalings are
   convertible), so the theorems apply verbatim to E : {linear A -> R^o} *)
Lemma central_from_raw_linear (R : comRingType) (A : comAlgType R) (E : {linear A -> R^o})
      (k : nat) (Y : 'I_k -> A) :
  let mu (I : {set 'I_k}) : R := E (\prod_(j in I) Y j) in
  let m j := mu [set j] in
  E (\prod_(j < k) (Y j - (m j)%:A))
  = \sum_(I : {set 'I_k}) (-1) ^+ (k - #|I|) * mu I * \prod_(j in ~: I) m j.
Proof. move=> mu m; exact: (@central_from_raw R A E k Y). Qed.


Print Assumptions central_from_raw.
Print Assumptions central_from_raw_order0.
Print Assumptions central_from_raw_linear.
Print Assumptions shifted_from_raw.
Print Assumptions central_perm.
Print Assumptions mu_perm.
Print Assumptions central1.
Print Assumptions central2.
Print Assumptions cov_sym.
Print Assumptions variance_from_raw.
Print Assumptions central3.
Print Assumptions cov_symmetric.
Print Assumptions cov_from_raw.
Print Assumptions quadratic_form_is_variance.
