(* Equivalence of the GENERATED translation of the argument guards at the entry points (gen/GuardsGen.v, regenerated from
   phasegen/distributions.py and phasegen/state_space.py by /verif/translate/guards2coq.py on every run of the checks that depend on
   them) with the hand-written guard model `outcome` of model/Validate.v - about which proofs/ValidateProofs.v proves that every
   request outside the documented domain fails loudly and every request inside it is accepted.

   For each site: the generated verdict IS the model's outcome for the corresponding request (gen_*_eq), hence rejects exactly the
   arguments outside the documented domain (source_*_rejects / _accepts through the model theorems).  For vector arguments the
   verdict is ValueErr exactly when some element alone would be rejected. *)
From Coq Require Import ZArith QArith List Arith Bool Lia.
From PG Require Import model.Validate proofs.ValidateProofs gen.GuardsGen.
Import ListNotations.
Local Open Scope Q_scope.

Lemma lt0_sub_le a b : lt0 (a - b) = negb (Qle_bool b a).
Proof.
  unfold lt0. f_equal.
  destruct (Qle_bool 0 (a - b)) eqn:E1; destruct (Qle_bool b a) eqn:E2; try reflexivity.
  - apply Qle_bool_iff in E1. assert (H : b <= a) by (apply (Qplus_le_r _ _ (- b)); ring_simplify; setoid_replace (-1 * b + a) with (a - b) by ring; exact E1).
    apply Qle_bool_iff in H. congruence.
  - apply Qle_bool_iff in E2. assert (H : 0 <= a - b) by (apply (Qplus_le_r _ _ b); ring_simplify; exact E2).
    apply Qle_bool_iff in H. congruence.
Qed.

Theorem gen_construct_times_eq : forall st en, TreeHeightDistribution_init_verdict st en = outcome (RConstructTimes st en).
Proof.
  intros st [e|]; unfold TreeHeightDistribution_init_verdict; cbn [outcome].
  - destruct (lt0 st); [reflexivity|]. destruct (lt0 e); [reflexivity|]. rewrite lt0_sub_le. reflexivity.
  - destruct (lt0 st); reflexivity.
Qed.

Theorem gen_cdf_times_eq : forall ts,
  TreeHeightDistribution_cdf_verdict true ts = ValueErr <-> exists t, In t ts /\ outcome (RCdfTime t) = ValueErr.
Proof.
  intros ts. unfold TreeHeightDistribution_cdf_verdict. cbn [negb]. split.
  - destruct (existsb lt0 ts) eqn:E; [|discriminate]. intros _. apply existsb_exists in E. destruct E as [t [H1 H2]].
    exists t. split; [exact H1|]. cbn. rewrite H2. reflexivity.
  - intros [t [H1 H2]]. cbn in H2. destruct (lt0 t) eqn:E; [|discriminate].
    assert (existsb lt0 ts = true) as -> by (apply existsb_exists; exists t; auto). reflexivity.
Qed.

Theorem gen_cdf_times_ok : forall ts,
  TreeHeightDistribution_cdf_verdict true ts = Ok <-> forall t, In t ts -> outcome (RCdfTime t) = Ok.
Proof.
  intros ts. unfold TreeHeightDistribution_cdf_verdict. cbn [negb]. split.
  - destruct (existsb lt0 ts) eqn:E; [discriminate|]. intros _ t Ht. cbn.
    destruct (lt0 t) eqn:E2; [|reflexivity]. exfalso.
    assert (existsb lt0 ts = true) by (apply existsb_exists; exists t; auto). congruence.
  - intros H. destruct (existsb lt0 ts) eqn:E; [|reflexivity]. apply existsb_exists in E. destruct E as [t [H1 H2]].
    specialize (H t H1). cbn in H. rewrite H2 in H. discriminate.
Qed.

Theorem gen_accumulate_times_eq : forall ts,
  PhaseTypeDistribution__accumulate_verdict ts = ValueErr <-> exists t, In t ts /\ outcome (RAccumulateTime t) = ValueErr.
Proof.
  intros ts. unfold PhaseTypeDistribution__accumulate_verdict. split.
  - destruct (existsb lt0 ts) eqn:E; [|discriminate]. intros _. apply existsb_exists in E. destruct E as [t [H1 H2]].
    exists t. split; [exact H1|]. cbn. rewrite H2. reflexivity.
  - intros [t [H1 H2]]. cbn in H2. destruct (lt0 t) eqn:E; [|discriminate].
    assert (existsb lt0 ts = true) as -> by (apply existsb_exists; exists t; auto). reflexivity.
Qed.

Theorem gen_reward_count_eq : forall k nr, PhaseTypeDistribution_accumulate_verdict k nr = outcome (RRewardCount k nr).
Proof. intros k nr. unfold PhaseTypeDistribution_accumulate_verdict. cbn. destruct (Nat.eqb k nr); cbn; [destruct (Nat.eqb k 0)|]; reflexivity. Qed.

Theorem gen_mutation_config_eq : forall ne len expected theta,
  SFSDistribution_get_mutation_config_verdict ne len expected theta = outcome (RMutationConfig len expected theta ne).
Proof.
  intros ne len expected theta. unfold SFSDistribution_get_mutation_config_verdict. cbn [outcome].
  destruct (Nat.ltb 1 ne); [reflexivity|]. destruct (lt0 theta); [reflexivity|].
  destruct (Nat.eqb len expected); cbn [negb]; [destruct (Qeq_bool theta (inject_Z 0))|]; reflexivity.
Qed.

Theorem gen_quantile_eq : forall q ef, 1 < ef -> TreeHeightDistribution_quantile_verdict q ef = outcome (RQuantile q).
Proof.
  intros q ef Hef. unfold TreeHeightDistribution_quantile_verdict. cbn [outcome].
  change (inject_Z 1) with 1. destruct (lt0 q || lt0 (1 - q)); [reflexivity|].
  assert (E : le0 (ef - 1) = false).
  { apply le0_false. apply (Qplus_lt_l _ _ 1). ring_simplify. exact Hef. }
  rewrite E. reflexivity.
Qed.

Theorem gen_quantile_expansion_factor : forall q ef, ef <= 1 -> TreeHeightDistribution_quantile_verdict q ef = ValueErr.
Proof.
  intros q ef Hef. unfold TreeHeightDistribution_quantile_verdict. change (inject_Z 1) with 1.
  destruct (lt0 q || lt0 (1 - q)); [reflexivity|].
  assert (E : le0 (ef - 1) = true).
  { apply le0_spec. apply (Qplus_le_l _ _ 1). ring_simplify. exact Hef. }
  rewrite E. reflexivity.
Qed.

Theorem gen_sfs_two_loci_eq : forall n : Z, BlockCountingStateSpace_init_verdict (Some n) = outcome (RSfsTwoLoci n).
Proof. reflexivity. Qed.

Theorem gen_recombine_eq : forall r, Transition_recombine_verdict 2 r = outcome (RRecombinationKeyword r).
Proof. reflexivity. Qed.

(* what follows for the translated source, through proofs/ValidateProofs.v *)
Theorem source_mutation_config_rejects : forall ne len expected theta,
  ~ ((ne <= 1)%nat /\ 0 <= theta /\ len = expected) -> SFSDistribution_get_mutation_config_verdict ne len expected theta <> Ok.
Proof. intros. rewrite gen_mutation_config_eq. apply invalid_requests_fail_loudly. exact H. Qed.

Theorem source_mutation_config_accepts : forall ne len expected theta,
  (ne <= 1)%nat -> 0 <= theta -> len = expected -> SFSDistribution_get_mutation_config_verdict ne len expected theta = Ok.
Proof. intros. rewrite gen_mutation_config_eq. apply valid_requests_accepted. cbn. auto. Qed.

Theorem source_construct_times_rejects : forall st en,
  ~ (0 <= st /\ match en with None => True | Some e => 0 <= e /\ st <= e end) -> TreeHeightDistribution_init_verdict st en <> Ok.
Proof. intros. rewrite gen_construct_times_eq. apply invalid_requests_fail_loudly. exact H. Qed.

Theorem source_reward_count_rejects : forall k nr, k <> nr -> PhaseTypeDistribution_accumulate_verdict k nr <> Ok.
Proof. intros. rewrite gen_reward_count_eq. apply invalid_requests_fail_loudly. exact H. Qed.

Theorem source_quantile_rejects : forall q ef, ~ (0 <= q /\ q <= 1) -> TreeHeightDistribution_quantile_verdict q ef <> Ok.
Proof.
  intros q ef H. destruct (Qlt_le_dec 1 ef) as [Hef|Hef].
  - rewrite gen_quantile_eq by exact Hef. apply invalid_requests_fail_loudly. exact H.
  - rewrite gen_quantile_expansion_factor by exact Hef. discriminate.
Qed.

Print Assumptions gen_construct_times_eq.
Print Assumptions gen_mutation_config_eq.
Print Assumptions gen_quantile_eq.
Print Assumptions source_mutation_config_rejects.
