(* Equivalence of the GENERATED translation of the result bookkeeping of Inference (gen/InferenceGen.v, regenerated from
   phasegen/inference.py by /verif/translate/inference2coq.py on every run of the checks that depend on it) with the hand-written
   model model/Inference.v - about which proofs/InferenceProofs.v proves that merging keeps the lower loss, concatenates the losses,
   adds exactly one bootstrap row, and fails exactly when the other object has not run:

     gen_run_tail_eq          _run (from `results` on)  = the record model `run` builds from the same results
     gen_add_run_eq, gen_add_runs_eq, gen_add_bootstrap_eq, gen_add_bootstraps_eq

   and two invariants of the TRANSLATED SOURCE that the model record does not carry:
     Reported s   the reported distribution is the one built from the reported parameters (s_dist = s_params), and the reported
                  parameters and loss are those of the stored result
   established by _run and kept by add_run / add_runs / add_bootstrap(s) (source_*_reported). *)
From Coq Require Import QArith List Bool.
From PG Require Import model.Inference proofs.InferenceProofs gen.NpInference gen.InferenceGen.
Import ListNotations.

Definition omap {A B} (f : A -> B) (o : option A) : option B := match o with Some a => Some (f a) | None => None end.

Theorem gen_run_tail_eq : forall s r rs,
  to_model (Inference_run_tail s (r, rs))
  = mkInf (s_bounds s) (s_x0 s) (Some (r_x (argmin_first r rs))) (Some (r_fun (argmin_first r rs))) (map r_fun (r :: rs)) (s_boot s).
Proof. reflexivity. Qed.

(* with the optimiser as an oracle from start point to result, this is the model's `run` *)
Theorem gen_run_is_model_run : forall (opt : list Q -> oresult) s n us r rs,
  map opt (start_points (to_model s) n us) = r :: rs ->
  run opt (to_model s) n us = to_model (Inference_run_tail s (r, rs)).
Proof. intros opt s n us r rs E. unfold run. rewrite E. reflexivity. Qed.

Theorem gen_add_run_eq : forall s o, omap to_model (Inference_add_run s o) = add_run (to_model s) (to_model o).
Proof.
  intros [b x0 p l lr bt res d] [b' x0' p' l' lr' bt' res' d']. unfold Inference_add_run, add_run. cbn.
  destruct l' as [lo|]; [|reflexivity]. cbn.
  destruct l as [ls|]; [|reflexivity]. cbn.
  destruct (Qlt_le_dec lo ls); reflexivity.
Qed.

Theorem gen_add_runs_eq : forall os s, omap to_model (Inference_add_runs s os) = add_runs (to_model s) (map to_model os).
Proof.
  induction os as [|o os IH]; intros s; [reflexivity|].
  cbn [Inference_add_runs add_runs map]. rewrite <- gen_add_run_eq.
  destruct (Inference_add_run s o) as [s1|]; [apply IH | reflexivity].
Qed.

Theorem gen_add_bootstrap_dict_eq : forall s p, to_model (Inference_add_bootstrap_dict s p) = add_bootstrap_params (to_model s) p.
Proof. reflexivity. Qed.

Theorem gen_add_bootstrap_eq : forall s d,
  omap to_model (Inference_add_bootstrap s (BInference d)) = add_bootstrap (to_model s) (to_model d).
Proof.
  intros s [b' x0' p' l' lr' bt' res' d']. unfold Inference_add_bootstrap, add_bootstrap. cbn.
  destruct l'; cbn; [|reflexivity]. destruct p'; reflexivity.
Qed.

(* ---------------------------------------------------------------- what the model record does not carry *)
Definition Reported (s : isrc) : Prop :=
  s_dist s = s_params s /\ s_params s = res_x (s_result s) /\ s_loss s = res_fun (s_result s).

Theorem source_run_reported : forall s rs, Reported (Inference_run_tail s rs).
Proof. intros s [r rs]. repeat split. Qed.

Theorem source_add_run_reported : forall s o s', Reported s -> Reported o -> Inference_add_run s o = Some s' -> Reported s'.
Proof.
  intros s o s' [H1 [H2 H3]] [K1 [K2 K3]] E. unfold Inference_add_run in E.
  destruct (is_none (s_loss o)); [discriminate|]. injection E as <-.
  cbn. destruct (none_or_lt (s_loss s) (s_loss o)); cbn; repeat split; assumption.
Qed.

Theorem source_add_runs_reported : forall os s s', Reported s -> Forall Reported os -> Inference_add_runs s os = Some s' -> Reported s'.
Proof.
  induction os as [|o os IH]; intros s s' Hs Ho E; cbn in E; [injection E as <-; exact Hs|].
  destruct (Inference_add_run s o) as [s1|] eqn:E1; [|discriminate].
  inversion Ho as [|? ? Ho1 Ho2]; subst.
  apply (IH s1 s' (source_add_run_reported s o s1 Hs Ho1 E1) Ho2 E).
Qed.

Theorem source_add_bootstrap_reported : forall s d s', Reported s -> Inference_add_bootstrap s d = Some s' -> Reported s'.
Proof.
  intros s d s' H E. destruct d as [p|d]; cbn in E.
  - injection E as <-. exact H.
  - destruct (is_none (s_loss d)); [discriminate|]. destruct (s_params d); [|discriminate]. injection E as <-. exact H.
Qed.

(* merging never loses the lower loss, stated for the translated source through the model theorem *)
Theorem source_add_run_fails_iff : forall s o, Inference_add_run s o = None <-> s_loss o = None.
Proof.
  intros s o. pose proof (add_run_fails_iff (to_model s) (to_model o)) as H. rewrite <- gen_add_run_eq in H.
  cbn [to_model i_loss] in H. destruct (Inference_add_run s o); cbn [omap] in H; split; intros E; try discriminate; try reflexivity.
  - apply H in E. discriminate.
  - apply H. reflexivity.
Qed.

Print Assumptions gen_add_run_eq.
Print Assumptions gen_add_runs_eq.
Print Assumptions gen_add_bootstrap_eq.
Print Assumptions source_add_runs_reported.
Print Assumptions source_add_run_fails_iff.
