(* Theorems about the PINNED reading gen/ExpmGen.v of phasegen/expm.py (re-checked against the current source on every run by
   translate/expm2coq.py): the matrix exponential every statistic is computed with is the one of the LAST registered backend, and
   SciPy's (binary64) when none was registered. *)
From Coq Require Import List.
From PG Require Import gen.ExpmGen.
Import ListNotations.

Section Equiv.
  Variable M : Type.
  Variable scipy_linalg_expm : M -> M.

  Theorem gen_default_backend_is_scipy : forall m, Backend_expm M (Backend_default M scipy_linalg_expm) m = scipy_linalg_expm m.
  Proof. reflexivity. Qed.

  Lemma last_cons {A} : forall (l : list A) b b0, last (b :: l) b0 = last l b.
  Proof.
    induction l as [|c l IH]; intros b b0; [reflexivity|]. change (last (b :: c :: l) b0) with (last (c :: l) b0).
    rewrite (IH c b0), (IH c b). reflexivity.
  Qed.

  (* any sequence of register calls: the backend in force is the last one registered (the default when the sequence is empty) *)
  Theorem gen_backend_in_force : forall (regs : list (backend M)) m,
    Backend_expm M (fold_left (Backend_register M) regs (Backend_default M scipy_linalg_expm)) m
    = last regs (Backend_default M scipy_linalg_expm) m.
  Proof.
    intros regs. generalize (Backend_default M scipy_linalg_expm) as b0.
    induction regs as [|b regs IH]; intros b0 m; [reflexivity|]. cbn [fold_left]. rewrite IH. unfold Backend_register.
    rewrite last_cons. reflexivity.
  Qed.
End Equiv.
Print Assumptions gen_backend_in_force.
