From Coq Require Import List Arith Bool Lia Permutation Sorted.
From PG Require Import base.Perm.
Import ListNotations.

(* ------------------------------------------------------------------ *)
(* Generic list facts                                                  *)
(* ------------------------------------------------------------------ *)

Lemma combine_seq_fst :
  forall (A : Type) (ts : list A) (s : nat),
    map fst (combine ts (seq s (length ts))) = ts.
Proof.
  intros A ts. induction ts as [|a ts IH]; intros s; simpl.
  - reflexivity.
  - f_equal. apply IH.
Qed.

Lemma combine_seq_snd :
  forall (A : Type) (ts : list A) (s : nat),
    map snd (combine ts (seq s (length ts))) = seq s (length ts).
Proof.
  intros A ts. induction ts as [|a ts IH]; intros s; simpl.
  - reflexivity.
  - f_equal. apply IH.
Qed.

Lemma combine_seq_In :
  forall (A : Type) (ts : list A) (s : nat) (k : A) (i : nat),
    In (k, i) (combine ts (seq s (length ts))) ->
    s <= i /\ nth_error ts (i - s) = Some k.
Proof.
  intros A ts. induction ts as [|a ts IH]; intros s k i HIn; simpl in HIn.
  - contradiction.
  - destruct HIn as [Heq | HIn].
    + inversion Heq; subst. split; [lia|].
      replace (i - i) with 0 by lia. reflexivity.
    + apply IH in HIn. destruct HIn as [Hle Hnth]. split; [lia|].
      replace (i - s) with (S (i - S s)) by lia. simpl. exact Hnth.
Qed.

Lemma tagged_fst : forall (A : Type) (ts : list A), map fst (tagged ts) = ts.
Proof. intros A ts. unfold tagged. apply combine_seq_fst. Qed.

Lemma tagged_snd :
  forall (A : Type) (ts : list A), map snd (tagged ts) = seq 0 (length ts).
Proof. intros A ts. unfold tagged. apply combine_seq_snd. Qed.

Lemma tagged_In :
  forall (A : Type) (ts : list A) (k : A) (i : nat),
    In (k, i) (tagged ts) -> nth_error ts i = Some k.
Proof.
  intros A ts k i HIn. unfold tagged in HIn.
  apply combine_seq_In in HIn. destruct HIn as [_ Hnth].
  replace (i - 0) with i in Hnth by lia. exact Hnth.
Qed.

Lemma tagged_length : forall (A : Type) (ts : list A), length (tagged ts) = length ts.
Proof.
  intros A ts. rewrite <- (map_length fst). rewrite tagged_fst. reflexivity.
Qed.

Lemma seq_nth_error :
  forall (A : Type) (xs : list A),
    map (nth_error xs) (seq 0 (length xs)) = map Some xs.
Proof.
  intros A xs. induction xs as [|x xs IH]; simpl.
  - reflexivity.
  - f_equal. rewrite <- seq_shift. rewrite map_map. simpl. exact IH.
Qed.

Lemma map_Some_inj :
  forall (A : Type) (a b : list A), map Some a = map Some b -> a = b.
Proof.
  intros A a. induction a as [|x a IH]; intros b Heq; destruct b as [|y b];
    simpl in Heq; try discriminate.
  - reflexivity.
  - inversion Heq; subst. f_equal. apply IH. assumption.
Qed.

Lemma nth_error_map_inv :
  forall (A B : Type) (f : A -> B) (l : list A) (i : nat) (b : B),
    nth_error (map f l) i = Some b ->
    exists a, nth_error l i = Some a /\ f a = b.
Proof.
  intros A B f l. induction l as [|x l IH]; intros i b Hnth.
  - destruct i; simpl in Hnth; discriminate.
  - destruct i as [|i]; simpl in Hnth.
    + inversion Hnth; subst. exists x. split; reflexivity.
    + apply IH in Hnth. exact Hnth.
Qed.

Lemma StronglySorted_map :
  forall (A B : Type) (R : B -> B -> Prop) (f : A -> B) (l : list A),
    StronglySorted (fun a b => R (f a) (f b)) l -> StronglySorted R (map f l).
Proof.
  intros A B R f l HS. induction HS as [|a l HS IH HF]; simpl.
  - constructor.
  - constructor.
    + exact IH.
    + apply Forall_forall. intros y HIn. apply in_map_iff in HIn.
      destruct HIn as [x [Hfx HInx]]. subst y.
      rewrite Forall_forall in HF. apply HF. exact HInx.
Qed.

(* ------------------------------------------------------------------ *)
(* insert / isort                                                      *)
(* ------------------------------------------------------------------ *)

Section Sorting.
  Variable K : Type.
  Variable leb : K -> K -> bool.

  Lemma insert_perm :
    forall (P : Type) (x : K * P) (l : list (K * P)),
      Permutation (insert leb x l) (x :: l).
  Proof.
    intros P x l. induction l as [|y l IH]; simpl.
    - apply Permutation_refl.
    - destruct (leb (fst x) (fst y)).
      + apply Permutation_refl.
      + apply Permutation_trans with (y :: x :: l).
        * apply perm_skip. exact IH.
        * apply perm_swap.
  Qed.

  Lemma isort_cons :
    forall (P : Type) (x : K * P) (l : list (K * P)),
      isort leb (x :: l) = insert leb x (isort leb l).
  Proof. reflexivity. Qed.

  Lemma isort_perm :
    forall (P : Type) (l : list (K * P)), Permutation (isort leb l) l.
  Proof.
    intros P l. induction l as [|x l IH].
    - apply perm_nil.
    - rewrite isort_cons. apply Permutation_trans with (x :: isort leb l).
      + apply insert_perm.
      + apply perm_skip. exact IH.
  Qed.

  Hypothesis leb_total : forall a b, leb a b = true \/ leb b a = true.
  Hypothesis leb_trans :
    forall a b c, leb a b = true -> leb b c = true -> leb a c = true.

  Lemma insert_sorted :
    forall (P : Type) (x : K * P) (l : list (K * P)),
      StronglySorted (fun a b => leb (fst a) (fst b) = true) l ->
      StronglySorted (fun a b => leb (fst a) (fst b) = true) (insert leb x l).
  Proof.
    intros P x l HS. induction HS as [|y l HS IH HF]; simpl.
    - constructor; constructor.
    - destruct (leb (fst x) (fst y)) eqn:Hxy.
      + constructor.
        * constructor; assumption.
        * constructor; [exact Hxy|].
          rewrite Forall_forall in HF. apply Forall_forall. intros z HIn.
          apply leb_trans with (fst y); [exact Hxy|]. apply HF. exact HIn.
      + constructor; [exact IH|].
        apply Forall_forall. intros z HIn.
        apply (Permutation_in _ (insert_perm P x l)) in HIn.
        destruct HIn as [Hz | HIn].
        * subst z. destruct (leb_total (fst x) (fst y)) as [H1 | H1].
          -- rewrite H1 in Hxy. discriminate.
          -- exact H1.
        * rewrite Forall_forall in HF. apply HF. exact HIn.
  Qed.

  Lemma isort_sorted :
    forall (P : Type) (l : list (K * P)),
      StronglySorted (fun a b => leb (fst a) (fst b) = true) (isort leb l).
  Proof.
    intros P l. induction l as [|x l IH].
    - constructor.
    - rewrite isort_cons. apply insert_sorted. exact IH.
  Qed.
End Sorting.

(* ------------------------------------------------------------------ *)
(* sortK / argsort: permutations, gather                               *)
(* ------------------------------------------------------------------ *)

Theorem sortK_perm :
  forall K (leb : K -> K -> bool) ts, Permutation (sortK leb ts) ts.
Proof.
  intros K leb ts. unfold sortK.
  apply Permutation_trans with (map fst (tagged ts)).
  - apply Permutation_map. apply isort_perm.
  - rewrite tagged_fst. apply Permutation_refl.
Qed.

Theorem argsort_perm :
  forall K (leb : K -> K -> bool) ts,
    Permutation (argsort leb ts) (seq 0 (length ts)).
Proof.
  intros K leb ts. unfold argsort.
  apply Permutation_trans with (map snd (tagged ts)).
  - apply Permutation_map. apply isort_perm.
  - rewrite tagged_snd. apply Permutation_refl.
Qed.

Lemma isort_tagged_In :
  forall K (leb : K -> K -> bool) (ts : list K) (k : K) (i : nat),
    In (k, i) (isort leb (tagged ts)) -> nth_error ts i = Some k.
Proof.
  intros K leb ts k i HIn. apply tagged_In.
  apply (Permutation_in _ (isort_perm K leb nat (tagged ts))). exact HIn.
Qed.

Theorem sortK_gather :
  forall K (leb : K -> K -> bool) (dk : K) ts,
    sortK leb ts = gather dk ts (argsort leb ts).
Proof.
  intros K leb dk ts. unfold sortK, gather, argsort. rewrite map_map.
  apply map_ext_in. intros [k i] HIn. simpl.
  apply isort_tagged_In in HIn. symmetry. apply nth_error_nth. exact HIn.
Qed.

Theorem sortK_sorted :
  forall (K : Type) (leb : K -> K -> bool),
    (forall a b, leb a b = true \/ leb b a = true) ->
    (forall a b c, leb a b = true -> leb b c = true -> leb a c = true) ->
    forall ts, StronglySorted (fun a b => leb a b = true) (sortK leb ts).
Proof.
  intros K leb Htot Htrans ts. unfold sortK.
  apply StronglySorted_map with (R := fun a b => leb a b = true).
  apply isort_sorted; assumption.
Qed.

(* ------------------------------------------------------------------ *)
(* Sorted permutations of [seq] over nat                               *)
(* ------------------------------------------------------------------ *)

Lemma natleb_total : forall a b, Nat.leb a b = true \/ Nat.leb b a = true.
Proof.
  intros a b. destruct (Nat.le_ge_cases a b) as [H | H].
  - left. apply Nat.leb_le. exact H.
  - right. apply Nat.leb_le. exact H.
Qed.

Lemma natleb_trans :
  forall a b c, Nat.leb a b = true -> Nat.leb b c = true -> Nat.leb a c = true.
Proof.
  intros a b c H1 H2. apply Nat.leb_le. apply Nat.leb_le in H1.
  apply Nat.leb_le in H2. lia.
Qed.

Lemma sorted_perm_unique :
  forall l1 l2 : list nat,
    StronglySorted (fun a b => Nat.leb a b = true) l1 ->
    StronglySorted (fun a b => Nat.leb a b = true) l2 ->
    Permutation l1 l2 -> l1 = l2.
Proof.
  intros l1. induction l1 as [|a l1 IH]; intros l2 HS1 HS2 HP.
  - apply Permutation_nil in HP. symmetry. exact HP.
  - destruct l2 as [|b l2].
    + apply Permutation_sym in HP. apply Permutation_nil in HP. discriminate.
    + inversion HS1 as [|a' l1' HS1' HF1]; subst.
      inversion HS2 as [|b' l2' HS2' HF2]; subst.
      rewrite Forall_forall in HF1. rewrite Forall_forall in HF2.
      assert (Hab : a = b).
      { assert (HIna : In a (b :: l2)).
        { apply (Permutation_in _ HP). left. reflexivity. }
        assert (HInb : In b (a :: l1)).
        { apply (Permutation_in _ (Permutation_sym HP)). left. reflexivity. }
        destruct HIna as [Hba | HIna]; [symmetry; exact Hba|].
        destruct HInb as [Hab | HInb]; [exact Hab|].
        apply HF2 in HIna. apply HF1 in HInb.
        apply Nat.leb_le in HIna. apply Nat.leb_le in HInb. lia. }
      subst b. f_equal. apply IH; try assumption.
      apply Permutation_cons_inv with a. exact HP.
Qed.

Lemma seq_sorted :
  forall n s, StronglySorted (fun a b => Nat.leb a b = true) (seq s n).
Proof.
  intros n. induction n as [|n IH]; intros s; simpl.
  - constructor.
  - constructor.
    + apply IH.
    + apply Forall_forall. intros x HIn. apply in_seq in HIn.
      apply Nat.leb_le. lia.
Qed.

(* ------------------------------------------------------------------ *)
(* The main theorem                                                    *)
(* ------------------------------------------------------------------ *)

Theorem scatter_inverse :
  forall (K A : Type) (leb : K -> K -> bool) (F : K -> A) (d : A) (ts : list K),
    vectorised leb d (map F) ts = map F ts.
Proof.
  intros K A leb F d ts.
  unfold vectorised, inv_perm, gather.
  set (L := isort leb (tagged ts)).
  assert (HsK : sortK leb ts = map fst L) by reflexivity.
  assert (Hp : argsort leb ts = map snd L) by reflexivity.
  rewrite HsK, Hp.
  set (p := map snd L).
  set (l := isort Nat.leb (tagged p)).
  assert (Hq : argsort Nat.leb p = map snd l) by reflexivity.
  rewrite Hq. clear HsK Hp Hq.
  (* the first components of l are exactly seq 0 n *)
  assert (Hfst : map fst l = seq 0 (length (map F ts))).
  { apply sorted_perm_unique.
    - apply StronglySorted_map with (R := fun a b => Nat.leb a b = true).
      apply isort_sorted.
      + exact natleb_total.
      + exact natleb_trans.
    - apply seq_sorted.
    - apply Permutation_trans with (map fst (tagged p)).
      + apply Permutation_map. apply isort_perm.
      + rewrite tagged_fst. rewrite map_length.
        exact (argsort_perm K leb ts). }
  (* every pair (j, i) of l points at the right element *)
  assert (Hpair :
            forall pr, In pr l ->
                       nth_error (map F ts) (fst pr)
                       = Some (nth (snd pr) (map F (map fst L)) d)).
  { intros [j i] HIn. simpl.
    apply (Permutation_in _ (isort_perm nat Nat.leb nat (tagged p))) in HIn.
    apply tagged_In in HIn. unfold p in HIn.
    apply nth_error_map_inv in HIn. destruct HIn as [[k j'] [HL Hj]].
    simpl in Hj. subst j'.
    assert (HInL : In (k, j) L) by (apply nth_error_In with i; exact HL).
    apply isort_tagged_In in HInL.
    rewrite (map_nth_error F j ts HInL). f_equal. symmetry.
    apply nth_error_nth. apply map_nth_error.
    apply (map_nth_error fst i L HL). }
  apply map_Some_inj.
  rewrite <- (seq_nth_error A (map F ts)). rewrite <- Hfst.
  set (g := fun i : nat => nth i (map F (map fst L)) d) in *.
  rewrite !map_map. apply map_ext_in. intros pr HIn.
  symmetry. apply Hpair. exact HIn.
Qed.

Theorem vectorised_pointwise :
  forall (K A : Type) (leb : K -> K -> bool) (F : K -> A) (d : A)
         (loop : list K -> list A),
    (forall a b, leb a b = true \/ leb b a = true) ->
    (forall a b c, leb a b = true -> leb b c = true -> leb a c = true) ->
    (forall l, StronglySorted (fun a b => leb a b = true) l -> loop l = map F l) ->
    forall ts, vectorised leb d loop ts = map F ts.
Proof.
  intros K A leb F d loop Htot Htrans Hloop ts.
  rewrite <- (scatter_inverse K A leb F d ts).
  unfold vectorised. rewrite Hloop.
  - reflexivity.
  - apply sortK_sorted; assumption.
Qed.

Theorem vectorised_length :
  forall K A leb (F : K -> A) d ts,
    length (vectorised leb d (map F) ts) = length ts.
Proof.
  intros K A leb F d ts. rewrite scatter_inverse. apply map_length.
Qed.

Theorem vectorised_nth :
  forall (K A : Type) (leb : K -> K -> bool) (F : K -> A) (d : A) (dk : K)
         (ts : list K) (i : nat),
    i < length ts ->
    nth i (vectorised leb d (map F) ts) d = F (nth i ts dk).
Proof.
  intros K A leb F d dk ts i Hi. rewrite scatter_inverse.
  rewrite nth_indep with (d' := F dk).
  - apply map_nth.
  - rewrite map_length. exact Hi.
Qed.

Theorem vectorised_singleton :
  forall (K A : Type) (leb : K -> K -> bool) (F : K -> A) (d : A) (dk : K)
         (ts : list K) (i : nat),
    i < length ts ->
    nth i (vectorised leb d (map F) ts) d
    = nth 0 (vectorised leb d (map F) [nth i ts dk]) d.
Proof.
  intros K A leb F d dk ts i Hi.
  rewrite (vectorised_nth K A leb F d dk ts i Hi).
  rewrite scatter_inverse. reflexivity.
Qed.

Example vectorised_buggy_refuted :
  vectorised_buggy Nat.leb 0 (map (fun x => x)) [4; 1; 2] <> [4; 1; 2].
Proof.
  vm_compute. intros H. discriminate H.
Qed.

Print Assumptions scatter_inverse.
Print Assumptions vectorised_pointwise.
