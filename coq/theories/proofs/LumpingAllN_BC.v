(* The block-counting chain (one locus) of model/StateSpace.v is the lumping of the labelled
   structured Lambda-coalescent of model/Labelled.v, for EVERY number of samples, EVERY number of
   demes, every model (Kingman, Beta, Dirac) and every real valuation of the rates.  No reflection.
   Companion of proofs/LumpingAllN.v (lineage counting), whose lemmas are reused.

   Method.  [transit] builds its dictionary with add_target (which SUMS the rates of equal keys) and
   dict_union.  Instead of listing the dictionary we characterise the rate it assigns to an
   ARBITRARY state t as a sum with indicators over the entries the code generates, and show that
   this sum equals the sum over the labelled events whose successor projects onto t.

   Contents
     rate_of_fold_add, rate_of_dict_union   the rate a fold of add_target / a dict_union of key-disjoint
                                    dictionaries assigns to a key
     bcs n c                        the block-counting state with count matrix c (rows = demes,
                                    entry i = number of blocks of size i+1)
     mmove c p q b, setrow c d new  a block of size b+1 moves p -> q;  row d becomes new
     transit_bc_rate         (T)    rate_of (transit P (bcs n c)) t = M_mod c t + [not absorbing] C_mod c t
     transit_bc_entries, transit_bc_nodup, transit_pi_BC_nodup      the dictionary has no repeated key
     stype n szs                    size type: number of elements of each size 1..n
     splits_type_count              COUNTING LEMMA: a list with a_i elements of size i has
                                    prod_i C(a_i, k_i) sub-lists with exactly k_i elements of size i
     rate_bc_ways                   get_rate_bc m b (k restricted to its support) = prod_i C(a_i,k_i) * lam m b |k|
                                    (all three models; Dirac via BlockSumProofs.pmfprod_filter_pos)
     typ, newrow_typ, prodb_typ     Kingman: the entry (i, j) of kingman_coalesce_bc is the merger type e_i + e_j
     counts_after_move_bc, counts_after_merge_bc   block counts of the successors of a labelled state
     labelled_migration_bc, labelled_mergers_bc    labelled events into the fibre of t, per kind
     lumping_all_n_states_BC        the lumping identity at every well-formed labelled state
     lumping_single_locus_BC_unbounded             ... at every labelled state reachable from linit config
     lumping_single_locus_unbounded                both spaces: pi1 (p_lc P)

   The well-formedness used (wfb nd n x: demes < nd, blocks nonempty, at most n sample ids in total)
   is what makes "the merged block has size <= n", i.e. [upd] in CoalModels.coalesce is in range; it
   holds at linit config and is preserved by every labelled event.  [transit] never reads [p_lc P], so
   no hypothesis on it is needed.

   Assumptions: only those of the standard library's real numbers.                                  *)
From Coq Require Import ZArith Reals List Arith Bool Lia Lra.
From PG Require Import base.Ops base.OpsR model.CoalModels model.StateSpace model.Labelled.
From PG Require Import proofs.RatesProofs proofs.LumpingProofs proofs.BlockSumProofs proofs.LumpingAllN.
Import ListNotations.
Open Scope nat_scope.

(* ====================================================================================== *)
(* 1. dictionaries: the rate a fold of add_target assigns to a key is a sum                *)
(* ====================================================================================== *)
Lemma rate_of_cons t' r' (tg : targets (T:=R)) t :
  rate_of ((t', r') :: tg) t = if state_eqb t' t then r' else rate_of tg t.
Proof. unfold rate_of; simpl. destruct (state_eqb t' t); reflexivity. Qed.

Lemma state_eqb_false_neq s t : state_eqb s t = false -> s <> t.
Proof. intros E ->. rewrite state_eqb_refl in E. discriminate. Qed.

Lemma rate_of_add_target : forall (tg : targets (T:=R)) t r t',
  rate_of (add_target OpsR tg t r) t' = (rate_of tg t' + (if state_eqb t t' then r else 0))%R.
Proof.
  induction tg as [|[t1 r1] tg IH]; intros t r t'.
  - simpl add_target. rewrite rate_of_cons. unfold rate_of at 1 2; simpl.
    destruct (state_eqb t t'); ring.
  - simpl add_target. destruct (state_eqb t1 t) eqn:E.
    + apply state_eqb_true in E. subst t1. rewrite !rate_of_cons.
      cbn [oadd OpsR]. destruct (state_eqb t t'); ring.
    + rewrite !rate_of_cons, IH. destruct (state_eqb t1 t') eqn:E1; [|reflexivity].
      apply state_eqb_true in E1. subst t1.
      destruct (state_eqb t t') eqn:E2; [|ring].
      apply state_eqb_true in E2. subst t. rewrite state_eqb_refl in E. discriminate.
Qed.

Lemma add_target_keys_shape : forall (tg : targets (T:=R)) t r,
  map fst (add_target OpsR tg t r) = map fst tg \/
  (~ In t (map fst tg) /\ map fst (add_target OpsR tg t r) = map fst tg ++ [t]).
Proof.
  induction tg as [|[t1 r1] tg IH]; intros t r.
  - right. split; [intros []|reflexivity].
  - simpl add_target. destruct (state_eqb t1 t) eqn:E.
    + left. reflexivity.
    + destruct (IH t r) as [H|[H1 H2]].
      * left. simpl. rewrite H. reflexivity.
      * right. split.
        -- simpl. intros [->|H]; [rewrite state_eqb_refl in E; discriminate|contradiction].
        -- simpl. rewrite H2. reflexivity.
Qed.

Lemma add_target_NoDup (tg : targets (T:=R)) t r :
  NoDup (map fst tg) -> NoDup (map fst (add_target OpsR tg t r)).
Proof.
  intros H. destruct (add_target_keys_shape tg t r) as [E|[N E]]; rewrite E; [assumption|].
  apply NoDup_app_intro; [assumption|repeat constructor; simpl; tauto|].
  intros x Hx [<-|[]]. contradiction.
Qed.

Lemma add_target_key_in (tg : targets (T:=R)) t r k :
  In k (map fst (add_target OpsR tg t r)) -> In k (map fst tg) \/ k = t.
Proof.
  destruct (add_target_keys_shape tg t r) as [E|[N E]]; rewrite E; [auto|].
  rewrite in_app_iff. simpl. intuition.
Qed.

Section FoldAdd.
  Context {X : Type} (g : X -> bool) (key : X -> state) (val : X -> R).
  Let step := fun (a : targets (T:=R)) x => if g x then add_target OpsR a (key x) (val x) else a.

  Lemma rate_of_fold_add t : forall l acc,
    rate_of (fold_left step l acc) t =
    (rate_of acc t + rsum_over (fun x => if g x && state_eqb (key x) t then val x else 0%R) l)%R.
  Proof.
    induction l as [|x l IH]; intros acc.
    - simpl. unfold rsum_over; simpl. ring.
    - simpl fold_left. rewrite IH, rsum_over_cons. unfold step.
      destruct (g x); cbn [andb].
      + rewrite rate_of_add_target. ring.
      + ring.
  Qed.

  Lemma fold_add_NoDup : forall l acc,
    NoDup (map fst acc) -> NoDup (map fst (fold_left step l acc)).
  Proof.
    induction l as [|x l IH]; intros acc H; [assumption|].
    simpl. apply IH. unfold step. destruct (g x); [apply add_target_NoDup|]; assumption.
  Qed.

  Lemma fold_add_key_in k : forall l acc,
    In k (map fst (fold_left step l acc)) ->
    In k (map fst acc) \/ exists x, In x l /\ g x = true /\ key x = k.
  Proof.
    induction l as [|x l IH]; intros acc H; [auto|].
    simpl in H. apply IH in H as [H|[y [H1 H2]]].
    - unfold step in H. destruct (g x) eqn:G; [|auto].
      apply add_target_key_in in H as [H|H]; [auto|].
      right. exists x. simpl; auto.
    - right. exists y. simpl; auto.
  Qed.
End FoldAdd.

(* ---------- dict_set / dict_union ---------- *)
Lemma rate_of_dict_set : forall (tg : targets (T:=R)) t r t',
  rate_of (dict_set tg t r) t' = if state_eqb t t' then r else rate_of tg t'.
Proof.
  induction tg as [|[t1 r1] tg IH]; intros t r t'.
  - simpl. rewrite rate_of_cons. reflexivity.
  - simpl dict_set. destruct (state_eqb t1 t) eqn:E.
    + apply state_eqb_true in E. subst t1. rewrite !rate_of_cons.
      destruct (state_eqb t t'); reflexivity.
    + rewrite !rate_of_cons, IH. destruct (state_eqb t1 t') eqn:E1; [|reflexivity].
      apply state_eqb_true in E1. subst t1.
      destruct (state_eqb t t') eqn:E2; [|reflexivity].
      apply state_eqb_true in E2. subst t. rewrite state_eqb_refl in E. discriminate.
Qed.

Lemma dict_set_key_in : forall (tg : targets (T:=R)) t r k,
  In k (map fst (dict_set tg t r)) -> In k (map fst tg) \/ k = t.
Proof.
  induction tg as [|[t1 r1] tg IH]; intros t r k H.
  - simpl in H. destruct H as [H|[]]; auto.
  - simpl in H. destruct (state_eqb t1 t); simpl in H.
    + destruct H as [H|H]; simpl; auto.
    + destruct H as [H|H]; simpl; auto. apply IH in H as [H|H]; auto.
Qed.

Lemma dict_union_key_in : forall (b a : targets (T:=R)) k,
  In k (map fst (dict_union a b)) -> In k (map fst a) \/ In k (map fst b).
Proof.
  unfold dict_union. induction b as [|[t r] b IH]; intros a k H; [auto|].
  simpl in H. apply IH in H as [H|H]; [|simpl; auto].
  apply dict_set_key_in in H as [H|H]; simpl; auto.
Qed.

Lemma rate_of_dict_union_notin : forall (b a : targets (T:=R)) t,
  ~ In t (map fst b) -> rate_of (dict_union a b) t = rate_of a t.
Proof.
  unfold dict_union. induction b as [|[t1 r1] b IH]; intros a t H; [reflexivity|].
  simpl fold_left. rewrite IH by (intros Hin; apply H; simpl; auto).
  rewrite rate_of_dict_set. rewrite state_neq_eqb; [reflexivity|].
  intros ->. apply H. simpl; auto.
Qed.

Lemma rate_of_dict_union_in : forall (b a : targets (T:=R)) t,
  NoDup (map fst b) -> In t (map fst b) -> rate_of (dict_union a b) t = rate_of b t.
Proof.
  induction b as [|[t1 r1] b IH]; intros a t Hn Hin; [destruct Hin|].
  simpl in Hn. inversion Hn; subst. rewrite rate_of_cons.
  change (dict_union a ((t1, r1) :: b)) with (dict_union (dict_set a t1 r1) b).
  destruct (state_eqb t1 t) eqn:E.
  - apply state_eqb_true in E. subst t1.
    rewrite rate_of_dict_union_notin by assumption.
    rewrite rate_of_dict_set, state_eqb_refl. reflexivity.
  - apply IH; [assumption|]. simpl in Hin. destruct Hin as [->|Hin]; [|assumption].
    rewrite state_eqb_refl in E. discriminate.
Qed.

Lemma rate_of_dict_union (a b : targets (T:=R)) t :
  NoDup (map fst b) -> (forall k, In k (map fst a) -> In k (map fst b) -> False) ->
  rate_of (dict_union a b) t = (rate_of a t + rate_of b t)%R.
Proof.
  intros Hn Hd. destruct (mem_state t (map fst b)) eqn:E.
  - apply mem_state_In in E. rewrite rate_of_dict_union_in by assumption.
    rewrite (rate_of_absent a t); [ring|].
    intros e He E0. apply (Hd t); [rewrite <- E0; apply in_map; assumption|assumption].
  - assert (N : ~ In t (map fst b)).
    { intros H. apply In_mem_state in H. congruence. }
    rewrite rate_of_dict_union_notin by assumption.
    rewrite (rate_of_absent b t); [ring|].
    intros e He E0. apply N. rewrite <- E0. apply in_map; assumption.
Qed.

(* ---------- more on sums ---------- *)
Lemma rsum_over_swap {A B} (f : A -> B -> R) : forall (la : list A) (lb : list B),
  rsum_over (fun a => rsum_over (fun b => f a b) lb) la =
  rsum_over (fun b => rsum_over (fun a => f a b) la) lb.
Proof.
  induction la as [|a la IH]; intros lb.
  - unfold rsum_over at 1; simpl. symmetry. apply rsum_over_zero. intros; reflexivity.
  - rewrite rsum_over_cons, IH, <- rsum_over_plus. apply rsum_over_ext_in.
    intros b _. rewrite rsum_over_cons. reflexivity.
Qed.

(* group a sum by a key of any type with a boolean equality; keys outside [ks] must not count *)
Lemma rsum_group_by_gen {X K} (eqb : K -> K -> bool)
      (eqb_spec : forall a b, reflect (a = b) (eqb a b))
      (key : X -> K) (H : K -> R) ks : NoDup ks -> forall L,
  (forall x, In x L -> In (key x) ks \/ H (key x) = 0%R) ->
  rsum_over (fun x => H (key x)) L =
  rsum_over (fun k => INR (count_if (fun x => eqb (key x) k) L) * H k)%R ks.
Proof.
  intros Hn. induction L as [|a L IH]; intros Hin.
  - symmetry. apply rsum_over_zero. intros k _. simpl. ring.
  - rewrite rsum_over_cons. rewrite IH by (intros; apply Hin; simpl; auto).
    assert (E1 : rsum_over (fun k => if eqb (key a) k then H k else 0%R) ks = H (key a)).
    { destruct (Hin a (or_introl eq_refl)) as [Hk|Hz].
      - rewrite (rsum_over_single _ (key a)); auto.
        + destruct (eqb_spec (key a) (key a)); [reflexivity|contradiction].
        + intros k _ N. destruct (eqb_spec (key a) k); [congruence|reflexivity].
      - rewrite Hz. apply rsum_over_zero. intros k _.
        destruct (eqb_spec (key a) k); [subst; assumption|reflexivity]. }
    rewrite <- E1, <- rsum_over_plus. apply rsum_over_ext_in. intros k _.
    rewrite count_if_cons, plus_INR. destruct (eqb (key a) k); simpl; ring.
Qed.

(* ====================================================================================== *)
(* 2. block-counting states                                                                *)
(* ====================================================================================== *)
Definition mget (c : list (list nat)) (d i : nat) : nat := nth i (nth d c []) 0.
Definition bcs (n : nat) (c : list (list nat)) : state := mkState [c] (zeros3 1 (length c) n).
Definition mmove (c : list (list nat)) (p q b : nat) : list (list nat) :=
  upd (upd c p (fun row => upd row b pred)) q (fun row => upd row b S).
Definition setrow (c : list (list nat)) (d : nat) (new : list nat) : list (list nat) :=
  upd c d (fun _ => new).
Definition rectn (n : nat) (c : list (list nat)) : Prop := Forall (fun row => length row = n) c.

Lemma bcs_inj n c c' : bcs n c = bcs n c' -> c = c'.
Proof. intros H. inversion H. reflexivity. Qed.

Lemma mmove_length c p q b : length (mmove c p q b) = length c.
Proof. unfold mmove. rewrite !upd_length. reflexivity. Qed.

Lemma setrow_length c d new : length (setrow c d new) = length c.
Proof. apply upd_length. Qed.

Lemma nth_repeat_cases {A} (x d : A) : forall n i, nth i (repeat x n) d = x \/ nth i (repeat x n) d = d.
Proof. induction n as [|n IH]; destruct i; simpl; auto. Qed.

Lemma get3_zeros nl nd nb l d b : get3 (zeros3 nl nd nb) l d b = 0.
Proof.
  unfold get3, zeros3.
  destruct (nth_repeat_cases (repeat (repeat 0 nb) nd) [] nl l) as [-> | ->].
  - destruct (nth_repeat_cases (repeat 0 nb) [] nd d) as [-> | ->].
    + destruct (nth_repeat_cases 0 0 nb b) as [-> | ->]; reflexivity.
    + destruct b; reflexivity.
  - destruct d, b; reflexivity.
Qed.

Lemma rectn_row n c d : rectn n c -> d < length c -> length (nth d c []) = n.
Proof.
  unfold rectn. rewrite Forall_forall. intros H Hd. apply H. apply nth_In. assumption.
Qed.

(* a migration target differs from c in two rows, a merger target in one *)
Lemma mmove_neq_setrow n c p q b d new :
  rectn n c -> p < length c -> q < length c -> p <> q -> b < n -> 0 < mget c p b ->
  mmove c p q b <> setrow c d new.
Proof.
  intros Hr Hp Hq N Hb Hc E. unfold mmove, setrow in E.
  destruct (Nat.eq_dec d p) as [->|Nd].
  - pose proof (f_equal (fun m => nth b (nth q m []) 0) E) as H. cbv beta in H.
    rewrite nth_upd_same in H by (rewrite upd_length; assumption).
    rewrite (nth_upd_other _ [] c p q N) in H.
    rewrite (nth_upd_other _ [] c p q N) in H.
    rewrite nth_upd_same in H by (rewrite (rectn_row n c q Hr Hq); assumption). lia.
  - pose proof (f_equal (fun m => nth b (nth p m []) 0) E) as H. cbv beta in H.
    rewrite (nth_upd_other _ [] _ q p) in H by auto.
    rewrite nth_upd_same in H by assumption.
    rewrite (nth_upd_other _ [] c d p Nd) in H.
    rewrite nth_upd_same in H by (rewrite (rectn_row n c p Hr Hp); assumption).
    unfold mget in Hc. lia.
Qed.

(* ====================================================================================== *)
(* 3. [transit] at a block-counting state: the rate of every key as a sum                  *)
(* ====================================================================================== *)
Section BC.
  Variable P : params (T:=R).
  Variable n : nat.
  Notation m := (p_model P).

  (* ---- migration: ((p, q), b) = a block of size b+1 moves from p to q ---- *)
  Definition mig_key (c : list (list nat)) (x : nat * nat * nat) : state :=
    bcs n (mmove c (fst (fst x)) (snd (fst x)) (snd x)).
  Definition mig_val (c : list (list nat)) (x : nat * nat * nat) : R :=
    (mig_rate OpsR P (fst (fst x)) (snd (fst x)) * INR (mget c (fst (fst x)) (snd x)))%R.
  Definition mig_g (c : list (list nat)) (x : nat * nat * nat) : bool :=
    Nat.ltb 0 (mget c (fst (fst x)) (snd x)).
  Definition mig_list (c : list (list nat)) : list (nat * nat * nat) :=
    flat_map (fun pq => map (pair pq) (seq 0 (length (nth 0 c [])))) (deme_pairs (length c)).

  Lemma migrate_unlinked_bc c :
    migrate_unlinked OpsR P (bcs n c) =
    fold_left (fun a x => if mig_g c x then add_target OpsR a (mig_key c x) (mig_val c x) else a)
              (mig_list c) [].
  Proof.
    unfold migrate_unlinked.
    change (n_loci (bcs n c)) with 1. change (n_demes (bcs n c)) with (length c).
    change (n_blocks (bcs n c)) with (length (nth 0 c [])).
    cbn [seq fold_left].
    set (step := fun a x => if mig_g c x then add_target OpsR a (mig_key c x) (mig_val c x) else a).
    rewrite (fold_left_ext_in _
      (fun acc dd => fold_left (fun acc b => step acc (dd, b)) (seq 0 (length (nth 0 c []))) acc)).
    - rewrite (fold_left_flat_map (fun acc dd b => step acc (dd, b))). unfold mig_list.
      apply fold_left_ext_in. intros a [dd b] _. reflexivity.
    - intros acc [p q] _. apply fold_left_ext_in. intros a b _.
      unfold step, mig_g, mig_key, mig_val. cbn [fst snd].
      unfold unl. change (lnk (bcs n c)) with (zeros3 1 (length c) n).
      rewrite get3_zeros, Nat.sub_0_r.
      change (get3 (lin (bcs n c)) 0 p b) with (mget c p b). rewrite andb_diag.
      destruct (Nat.ltb 0 (mget c p b)); [|reflexivity].
      f_equal.
      + change (upd3 (upd3 (lin (bcs n c)) 0 p b pred) 0 q b S) with [mmove c p q b].
        unfold bcs. rewrite mmove_length. reflexivity.
      + rewrite oofN_R. reflexivity.
  Qed.

  Definition M_mod (c : list (list nat)) (t : state) : R :=
    rsum_over (fun x => if mig_g c x && state_eqb (mig_key c x) t then mig_val c x else 0%R)
              (mig_list c).

  Lemma mig_rate_bc c t : rate_of (migrate_unlinked OpsR P (bcs n c)) t = M_mod c t.
  Proof.
    rewrite migrate_unlinked_bc, rate_of_fold_add. unfold rate_of at 1; simpl. unfold M_mod. ring.
  Qed.

  Lemma mig_nodup_bc c : NoDup (map fst (migrate_unlinked OpsR P (bcs n c))).
  Proof. rewrite migrate_unlinked_bc. apply fold_add_NoDup. constructor. Qed.

  Lemma mig_keys_bc c k : In k (map fst (migrate_unlinked OpsR P (bcs n c))) ->
    exists x, In x (mig_list c) /\ mig_g c x = true /\ mig_key c x = k.
  Proof.
    rewrite migrate_unlinked_bc. intros H. apply fold_add_key_in in H as [[]|H]. exact H.
  Qed.

  (* ---- mergers: (d, (new, r)) = row d becomes new ---- *)
  Definition coal_key (c : list (list nat)) (x : nat * (list nat * R)) : state :=
    bcs n (setrow c (fst x) (fst (snd x))).
  Definition coal_val (x : nat * (list nat * R)) : R :=
    (snd (snd x) / tscale_of OpsR P (fst x))%R.
  Definition coal_list (c : list (list nat)) : list (nat * (list nat * R)) :=
    flat_map (fun d => map (pair d) (coalesce OpsR m (nth d c []))) (seq 0 (length c)).

  Lemma coalesce1_bc c :
    coalesce1 OpsR P (bcs n c) =
    fold_left (fun a x => add_target OpsR a (coal_key c x) (coal_val x)) (coal_list c) [].
  Proof.
    unfold coalesce1. change (n_demes (bcs n c)) with (length c).
    change (nth 0 (lin (bcs n c)) []) with c.
    rewrite (fold_left_ext_in _
      (fun acc d => fold_left (fun acc br => add_target OpsR acc (coal_key c (d, br)) (coal_val (d, br)))
                              (coalesce OpsR m (nth d c [])) acc)).
    - rewrite (fold_left_flat_map
        (fun acc d br => add_target OpsR acc (coal_key c (d, br)) (coal_val (d, br)))
        (fun d => coalesce OpsR m (nth d c []))).
      apply fold_left_ext_in. intros a [d br] _. reflexivity.
    - intros acc d _. apply fold_left_ext_in. intros a br _.
      unfold coal_key, coal_val. cbn [fst snd]. f_equal.
      change (upd (lin (bcs n c)) 0 (fun row => upd row d (fun _ => fst br))) with [setrow c d (fst br)].
      unfold bcs. rewrite setrow_length. reflexivity.
  Qed.

  Definition C_mod (c : list (list nat)) (t : state) : R :=
    rsum_over (fun x => if state_eqb (coal_key c x) t then coal_val x else 0%R) (coal_list c).

  Lemma coal_rate_bc c t : rate_of (coalesce1 OpsR P (bcs n c)) t = C_mod c t.
  Proof.
    rewrite coalesce1_bc.
    rewrite (rate_of_fold_add (fun _ => true) (coal_key c) coal_val t (coal_list c) []).
    unfold rate_of at 1; simpl. unfold C_mod. ring.
  Qed.

  Lemma coal_nodup_bc c : NoDup (map fst (coalesce1 OpsR P (bcs n c))).
  Proof.
    rewrite coalesce1_bc.
    apply (fold_add_NoDup (fun _ => true) (coal_key c) coal_val (coal_list c) []). constructor.
  Qed.

  Lemma coal_keys_bc c k : In k (map fst (coalesce1 OpsR P (bcs n c))) ->
    exists x, coal_key c x = k.
  Proof.
    rewrite coalesce1_bc. intros H.
    apply (fold_add_key_in (fun _ => true) (coal_key c) coal_val k (coal_list c) []) in H
      as [[]|[x [_ [_ H]]]].
    exists x; exact H.
  Qed.

  Lemma in_mig_list c pq b : In (pq, b) (mig_list c) ->
    In pq (deme_pairs (length c)) /\ b < length (nth 0 c []).
  Proof.
    unfold mig_list. rewrite in_flat_map. intros [pq' [H1 H2]].
    apply in_map_iff in H2 as [b' [E H2]]. inversion E; subst. apply in_seq in H2. split; [assumption|lia].
  Qed.

  Lemma transit_bc_unfold c :
    transit OpsR P (bcs n c) =
    let tg := dict_union [] (migrate_unlinked OpsR P (bcs n c)) in
    if is_absorbing (bcs n c) then tg
    else dict_union (dict_union tg (coalesce1 OpsR P (bcs n c))) [].
  Proof. reflexivity. Qed.

  (* a migration key is never a merger key *)
  Lemma bc_keys_disjoint c : rectn n c -> forall k,
    In k (map fst (migrate_unlinked OpsR P (bcs n c))) ->
    In k (map fst (coalesce1 OpsR P (bcs n c))) -> False.
  Proof.
    intros Hr k Hk Hk'.
    apply mig_keys_bc in Hk as [[[p q] b] [Hin [Hg Hk]]].
    apply coal_keys_bc in Hk' as [[d [new r]] Hk'].
    apply in_mig_list in Hin as [Hpq Hb]. apply in_deme_pairs in Hpq as [Hp [Hq N]].
    unfold mig_g in Hg. cbn [fst snd] in Hg. apply Nat.ltb_lt in Hg.
    rewrite <- Hk' in Hk. unfold mig_key, coal_key in Hk. cbn [fst snd] in Hk.
    apply bcs_inj in Hk. revert Hk. apply (mmove_neq_setrow n); auto.
    rewrite <- (rectn_row n c 0 Hr) by lia. assumption.
  Qed.

  (* the rate [transit] assigns to ANY state t, at any block-counting state *)
  Theorem transit_bc_rate c t : rectn n c ->
    rate_of (transit OpsR P (bcs n c)) t =
    (M_mod c t + if is_absorbing (bcs n c) then 0 else C_mod c t)%R.
  Proof.
    intros Hr. rewrite transit_bc_unfold. cbv zeta.
    assert (E1 : forall t', rate_of (dict_union [] (migrate_unlinked OpsR P (bcs n c))) t' = M_mod c t').
    { intros t'. rewrite rate_of_dict_union; [|apply mig_nodup_bc|intros k []].
      rewrite mig_rate_bc. unfold rate_of at 1; simpl. ring. }
    destruct (is_absorbing (bcs n c)).
    - rewrite E1. ring.
    - change (dict_union ?a []) with a.
      rewrite rate_of_dict_union; [rewrite E1, coal_rate_bc; reflexivity|apply coal_nodup_bc|].
      intros k Hk Hk'. apply dict_union_key_in in Hk as [[]|Hk].
      apply (bc_keys_disjoint c Hr k Hk Hk').
  Qed.

  (* the dictionary itself: migration entries, then merger entries, no key twice *)
  Theorem transit_bc_entries c : rectn n c ->
    transit OpsR P (bcs n c) =
    migrate_unlinked OpsR P (bcs n c) ++
    (if is_absorbing (bcs n c) then [] else coalesce1 OpsR P (bcs n c)).
  Proof.
    intros Hr. rewrite transit_bc_unfold. cbv zeta.
    rewrite (dict_union_fresh (migrate_unlinked OpsR P (bcs n c)) []) by (simpl; apply mig_nodup_bc).
    simpl app. destruct (is_absorbing (bcs n c)); [rewrite app_nil_r; reflexivity|].
    change (dict_union ?a []) with a. apply dict_union_fresh.
    apply NoDup_app_intro; [apply mig_nodup_bc|apply coal_nodup_bc|apply (bc_keys_disjoint c Hr)].
  Qed.

  Theorem transit_bc_nodup c : rectn n c -> NoDup (map fst (transit OpsR P (bcs n c))).
  Proof.
    intros Hr. rewrite (transit_bc_entries c Hr), map_app.
    destruct (is_absorbing (bcs n c)).
    - simpl. rewrite app_nil_r. apply mig_nodup_bc.
    - apply NoDup_app_intro; [apply mig_nodup_bc|apply coal_nodup_bc|apply (bc_keys_disjoint c Hr)].
  Qed.
End BC.

(* ====================================================================================== *)
(* 4. size types: how many elements of each size 1..n a list has                           *)
(* ====================================================================================== *)
Lemma sum_nat_map_zero {X} (f : X -> nat) : forall l, (forall x, In x l -> f x = 0) -> sum_nat (map f l) = 0.
Proof.
  induction l as [|a l IH]; intros H; [reflexivity|]. simpl. rewrite H by (simpl; auto).
  rewrite IH; [reflexivity|]. intros; apply H; simpl; auto.
Qed.

Lemma sum_nat_map_plus {X} (f g : X -> nat) : forall l,
  sum_nat (map (fun x => f x + g x) l) = sum_nat (map f l) + sum_nat (map g l).
Proof. induction l as [|a l IH]; [reflexivity|]. simpl. rewrite IH. lia. Qed.

Lemma sum_nat_map_ext_in {X} (f g : X -> nat) : forall l,
  (forall x, In x l -> f x = g x) -> sum_nat (map f l) = sum_nat (map g l).
Proof. intros l H. f_equal. apply map_ext_in. assumption. Qed.

Lemma sum_nat_single {X} (f : X -> nat) x0 : forall l,
  NoDup l -> In x0 l -> (forall x, In x l -> x <> x0 -> f x = 0) -> sum_nat (map f l) = f x0.
Proof.
  induction l as [|a l IH]; intros Hn Hin Hz; [destruct Hin|].
  inversion Hn; subst. simpl. destruct Hin as [->|Hin].
  - rewrite sum_nat_map_zero; [lia|]. intros x Hx. apply Hz; simpl; auto. intros ->; contradiction.
  - rewrite IH; auto.
    + rewrite Hz; [lia|simpl; auto|intros ->; contradiction].
    + intros; apply Hz; simpl; auto.
Qed.

Lemma sum_nat_map_one {X} : forall l : list X, sum_nat (map (fun _ => 1) l) = length l.
Proof. induction l as [|a l IH]; [reflexivity|]. simpl. rewrite IH. reflexivity. Qed.

Lemma count_if_ext {X} (f g : X -> bool) : forall l, (forall x, In x l -> f x = g x) -> count_if f l = count_if g l.
Proof.
  induction l as [|a l IH]; intros H; [reflexivity|].
  rewrite !count_if_cons, H by (simpl; auto). rewrite IH; [reflexivity|]. intros; apply H; simpl; auto.
Qed.

Lemma count_if_map {X Y} (h : X -> Y) (f : Y -> bool) : forall l,
  count_if f (map h l) = count_if (fun x => f (h x)) l.
Proof. induction l as [|a l IH]; [reflexivity|]. simpl map. rewrite !count_if_cons, IH. reflexivity. Qed.

Lemma count_if_filter {X} (g f : X -> bool) : forall l,
  count_if f (filter g l) = count_if (fun x => g x && f x) l.
Proof.
  induction l as [|a l IH]; [reflexivity|]. simpl filter.
  destruct (g a) eqn:G; rewrite !count_if_cons, ?IH, ?G; reflexivity.
Qed.

Lemma combine_map_l {X Y} (f : X -> Y) : forall l, combine (map f l) l = map (fun x => (f x, x)) l.
Proof. induction l as [|a l IH]; [reflexivity|]. simpl. rewrite IH. reflexivity. Qed.

Definition stype (n : nat) (szs : list nat) : list nat :=
  map (fun i => count_if (fun s => Nat.eqb s (S i)) szs) (seq 0 n).

Lemma stype_length n szs : length (stype n szs) = n.
Proof. unfold stype. rewrite map_length, seq_length. reflexivity. Qed.

Lemma nth_stype n szs i : i < n -> nth i (stype n szs) 0 = count_if (fun s => Nat.eqb s (S i)) szs.
Proof. intros H. unfold stype. rewrite nth_map_seq by assumption. reflexivity. Qed.

Lemma nth_stype_ge n szs i : n <= i -> nth i (stype n szs) 0 = 0.
Proof. intros H. apply nth_overflow. rewrite stype_length. assumption. Qed.

Lemma map_const_seq {Y} (y : Y) : forall n a, map (fun _ => y) (seq a n) = repeat y n.
Proof. induction n as [|n IH]; intros a; [reflexivity|]. simpl. rewrite IH. reflexivity. Qed.

Lemma stype_nil n : stype n [] = repeat 0 n.
Proof. unfold stype. exact (map_const_seq 0 n 0). Qed.

Lemma stype_cons n s szs : 1 <= s <= n -> stype n (s :: szs) = upd (stype n szs) (s - 1) S.
Proof.
  intros Hs. apply (nth_ext _ _ 0 0).
  - rewrite upd_length, !stype_length. reflexivity.
  - rewrite stype_length. intros i Hi.
    rewrite nth_upd by (rewrite stype_length; lia).
    destruct (Nat.eqb_spec i (s - 1)) as [E|N]; rewrite !nth_stype by lia; rewrite count_if_cons.
    + subst i. destruct (Nat.eqb_spec s (S (s - 1))); lia.
    + destruct (Nat.eqb_spec s (S i)); lia.
Qed.

Lemma wsum_stype (w : nat -> nat) n : forall szs, Forall (fun s => 1 <= s <= n) szs ->
  sum_nat (map (fun i => count_if (fun s => Nat.eqb s (S i)) szs * w (S i)) (seq 0 n)) = sum_nat (map w szs).
Proof.
  induction szs as [|s szs IH]; intros H.
  - apply sum_nat_map_zero. intros; reflexivity.
  - inversion H; subst. simpl map at 2. rewrite sum_nat_cons, <- IH by assumption.
    rewrite (sum_nat_map_ext_in _
      (fun i => (if Nat.eqb s (S i) then w (S i) else 0)
                + count_if (fun s0 => Nat.eqb s0 (S i)) szs * w (S i))).
    2:{ intros i _. rewrite count_if_cons. destruct (Nat.eqb s (S i)); lia. }
    rewrite sum_nat_map_plus. f_equal.
    rewrite (sum_nat_single _ (s - 1)).
    + replace (S (s - 1)) with s by lia. rewrite Nat.eqb_refl. reflexivity.
    + apply seq_NoDup.
    + apply in_seq. lia.
    + intros i _ N. destruct (Nat.eqb_spec s (S i)); [lia|reflexivity].
Qed.

Lemma sum_stype n szs : Forall (fun s => 1 <= s <= n) szs -> sum_nat (stype n szs) = length szs.
Proof.
  intros H. rewrite <- (sum_nat_map_one szs), <- (wsum_stype (fun _ => 1) n szs H).
  unfold stype. apply sum_nat_map_ext_in. intros; lia.
Qed.

Lemma dot_stype n szs : Forall (fun s => 1 <= s <= n) szs -> dot_idx (stype n szs) = sum_nat szs.
Proof.
  intros H. unfold dot_idx. rewrite stype_length. unfold stype at 1.
  rewrite combine_map_l, map_map. cbn [fst snd].
  rewrite (wsum_stype (fun s => s) n szs H). rewrite map_id. reflexivity.
Qed.

(* ---------- products of binomials ---------- *)
Lemma prodb_zeros : forall k,
  prodb (repeat 0 (length k)) k = if cvec_eqb (repeat 0 (length k)) k then 1%Z else 0%Z.
Proof.
  induction k as [|k0 k IH]; [reflexivity|].
  simpl length. simpl repeat. rewrite prodb_cons, IH. unfold cvec_eqb. simpl list_eqb.
  destruct k0; simpl.
  - fold cvec_eqb. destruct (cvec_eqb (repeat 0 (length k)) k); reflexivity.
  - reflexivity.
Qed.

Lemma prodb_upd_S : forall a k j, j < length a -> length a = length k ->
  prodb (upd a j S) k = ((if Nat.ltb 0 (nth j k 0%nat) then prodb a (upd k j pred) else 0) + prodb a k)%Z.
Proof.
  induction a as [|a0 a IH]; intros k j Hj Hl; [simpl in Hj; lia|].
  destruct k as [|k0 k]; [discriminate|]. simpl in Hj, Hl. destruct j as [|j].
  - simpl upd. simpl nth. rewrite !prodb_cons. destruct k0 as [|k0].
    + change (Nat.ltb 0 0) with false. cbv iota. rewrite !binom_0_r. ring.
    + change (Nat.ltb 0 (S k0)) with true. cbv iota. simpl pred. rewrite binom_S_S. ring.
  - simpl upd. simpl nth. rewrite !prodb_cons. rewrite IH by lia.
    destruct (Nat.ltb 0 (nth j k 0)); rewrite ?prodb_cons; ring.
Qed.

Lemma upd_S_eq_iff : forall (a k : list nat) j, j < length a ->
  (upd a j S = k <-> 0 < nth j k 0 /\ a = upd k j pred).
Proof.
  induction a as [|a0 a IH]; intros k j Hj; [simpl in Hj; lia|].
  destruct k as [|k0 k].
  - simpl. split; [destruct j; discriminate|intros [H _]; destruct j; simpl in H; lia].
  - destruct j as [|j]; simpl.
    + split.
      * intros H. inversion H; subst. split; [lia|reflexivity].
      * intros [H1 H2]. inversion H2; subst. f_equal. lia.
    + simpl in Hj. specialize (IH k j ltac:(lia)). split.
      * intros H. inversion H; subst. destruct (proj1 IH eq_refl) as [H1 H2].
        split; [assumption|]. f_equal. assumption.
      * intros [H1 H2]. inversion H2; subst. f_equal. apply IH. split; [assumption|reflexivity].
Qed.

Lemma cvec_upd_S_eqb (a k : list nat) j : j < length a ->
  cvec_eqb (upd a j S) k = Nat.ltb 0 (nth j k 0) && cvec_eqb a (upd k j pred).
Proof.
  intros Hj. pose proof (upd_S_eq_iff a k j Hj) as H.
  destruct (cvec_eqb_spec (upd a j S) k) as [E|N].
  - apply H in E as [E1 E2]. symmetry. apply andb_true_iff. split.
    + apply Nat.ltb_lt; assumption.
    + destruct (cvec_eqb_spec a (upd k j pred)); [reflexivity|contradiction].
  - symmetry. apply andb_false_iff.
    destruct (Nat.ltb_spec 0 (nth j k 0)) as [H1|H1]; [|auto]. right.
    destruct (cvec_eqb_spec a (upd k j pred)) as [E|_]; [|reflexivity].
    exfalso. apply N. apply H. auto.
Qed.

(* COUNTING LEMMA: the number of sub-multisets of l having exactly k_i elements of size i+1
   is prod_i C(a_i, k_i), a_i = number of elements of l of size i+1 *)
Theorem splits_type_count {X} (sz : X -> nat) n : forall (l : list X),
  Forall (fun x => 1 <= sz x <= n) l -> forall k, length k = n ->
  Z.of_nat (count_if (fun kr => cvec_eqb (stype n (map sz (fst kr))) k) (splits l)) =
  prodb (stype n (map sz l)) k.
Proof.
  induction l as [|x l IH]; intros Hl k Hk.
  - simpl splits. simpl map. rewrite stype_nil. subst n. rewrite prodb_zeros.
    unfold count_if. simpl. rewrite stype_nil.
    destruct (cvec_eqb (repeat 0 (length k)) k); reflexivity.
  - inversion Hl as [|x' l' Hx Hl']; subst x' l'.
    change (splits (x :: l))
      with (flat_map (fun kr => [(x :: fst kr, snd kr); (fst kr, x :: snd kr)]) (splits l)).
    rewrite (count_if_flat_map_two (fun kr : list X * list X => cvec_eqb (stype n (map sz (fst kr))) k)
               (fun kr => (x :: fst kr, snd kr)) (fun kr => (fst kr, x :: snd kr))).
    rewrite Nat2Z.inj_add. cbn [fst snd]. rewrite (IH Hl' k Hk).
    simpl map. rewrite (stype_cons n (sz x) (map sz l) Hx).
    rewrite prodb_upd_S by (rewrite ?stype_length; lia). f_equal.
    rewrite (count_if_ext _
      (fun kr => Nat.ltb 0 (nth (sz x - 1) k 0)
                 && cvec_eqb (stype n (map sz (fst kr))) (upd k (sz x - 1) pred))).
    2:{ intros kr _. rewrite (stype_cons n (sz x) _ Hx).
        apply cvec_upd_S_eqb. rewrite stype_length. lia. }
    destruct (Nat.ltb 0 (nth (sz x - 1) k 0)).
    + simpl andb. apply IH; [assumption|]. rewrite upd_length. assumption.
    + simpl andb. rewrite count_if_none by reflexivity. reflexivity.
Qed.

(* (K, R) in splits l: every count splits *)
Lemma splits_count_if {X} (f : X -> bool) : forall (l K R : list X),
  In (K, R) (splits l) -> count_if f K + count_if f R = count_if f l.
Proof.
  induction l as [|x l IH]; simpl; intros K R H.
  - destruct H as [E|[]]. inversion E; reflexivity.
  - apply in_flat_map in H as [[K' R'] [H' H]]. apply IH in H'. simpl in H.
    destruct H as [E|[E|[]]]; inversion E; subst; rewrite !count_if_cons; lia.
Qed.

(* ---------- all_combs ---------- *)
Lemma NoDup_all_combs : forall a, NoDup (all_combs a).
Proof.
  induction a as [|b rest IH]; [repeat constructor; simpl; tauto|].
  rewrite all_combs_cons. apply NoDup_flat_map.
  - apply seq_NoDup.
  - intros c _. apply NoDup_map_inj_on; [assumption|]. intros; congruence.
  - intros c c' x _ _ H H'. apply in_map_iff in H as [tl [<- _]].
    apply in_map_iff in H' as [tl' [E _]]. congruence.
Qed.

Lemma all_combs_complete : forall comb blocks, Forall2 le comb blocks -> In comb (all_combs blocks).
Proof.
  intros comb blocks H. induction H as [|c b cs bs Hcb H IH]; [simpl; auto|].
  rewrite all_combs_cons. apply in_flat_map. exists c. split; [apply in_seq; lia|].
  apply in_map. assumption.
Qed.

Lemma Forall2_le_map {X} (f g : X -> nat) : forall l,
  (forall x, In x l -> f x <= g x) -> Forall2 le (map f l) (map g l).
Proof.
  induction l as [|a l IH]; intros H; [constructor|]. simpl. constructor; [apply H; simpl; auto|].
  apply IH. intros; apply H; simpl; auto.
Qed.

(* ---------- componentwise difference; the row after a merger of type k ---------- *)
Definition vsub (a k : list nat) : list nat := map (fun bc => fst bc - snd bc) (combine a k).
Definition newrow (a k : list nat) : list nat := upd (vsub a k) (dot_idx k - 1) S.

Lemma vsub_length a k : length a = length k -> length (vsub a k) = length a.
Proof. intros H. unfold vsub. rewrite map_length, combine_length. lia. Qed.

Lemma nth_vsub : forall a k l, length a = length k -> nth l (vsub a k) 0 = nth l a 0 - nth l k 0.
Proof.
  induction a as [|a0 a IH]; intros k l H; destruct k as [|k0 k]; try discriminate.
  - destruct l; reflexivity.
  - simpl in H. destruct l as [|l]; [reflexivity|]. simpl. apply IH. lia.
Qed.

(* ====================================================================================== *)
(* 5. the block-counting rate of a merger type = number of ways x per-set rate             *)
(* ====================================================================================== *)
Lemma rate_bc_ways (m : cmodel (T:=R)) a k : Forall2 le k a ->
  get_rate_bc OpsR m (sum_nat a) (filter_pos a k) (filter_pos k k) =
  (IZR (prodb a k) * lam OpsR m (sum_nat a) (sum_nat k))%R.
Proof.
  intros H. pose proof (F2le_length _ _ H) as Hl.
  assert (HK : kingman_rate_bc OpsR (filter_pos a k) (filter_pos k k) =
               if Nat.eqb (sum_nat k) 2 then IZR (prodb a k) else 0%R).
  { rewrite kingman_rate_bc_pos, sum_filter_pos, prodb_filter_pos; [reflexivity| |].
    - apply filter_pos_length. symmetry; assumption.
    - apply filter_pos_self_pos. }
  destruct m as [|al st|psi c st].
  - change (get_rate_bc OpsR Kingman (sum_nat a) (filter_pos a k) (filter_pos k k))
      with (kingman_rate_bc OpsR (filter_pos a k) (filter_pos k k)).
    rewrite HK. unfold lam. destruct (Nat.eqb (sum_nat k) 2); cbn [o0 o1 OpsR]; ring.
  - change (get_rate_bc OpsR (Beta al st) (sum_nat a) (filter_pos a k) (filter_pos k k))
      with (IZR (prodb (filter_pos a k) (filter_pos k k))
            * beta_base OpsR al (sum_nat a) (sum_nat (filter_pos k k)))%R.
    rewrite (prodb_filter_pos a k), (sum_filter_pos k). reflexivity.
  - pose proof (F2le_sum _ _ H) as Hs. pose proof (sum_filter_pos_le a k) as Hf.
    rewrite get_rate_bc_dirac, dirac_tail, HK.
    rewrite (pmfprod_filter_pos psi k a H _ (sum_nat a - sum_nat k)) by lia.
    unfold lam. change (osub OpsR (o1 OpsR) psi) with (1 - psi)%R.
    cbn [oadd omul o0 o1 OpsR]. change (opow OpsR psi (sum_nat k)) with (psi ^ sum_nat k)%R.
    change (opow OpsR (1 - psi)%R (sum_nat a - sum_nat k)) with ((1 - psi) ^ (sum_nat a - sum_nat k))%R.
    destruct (Nat.eqb (sum_nat k) 2); ring.
Qed.

(* ====================================================================================== *)
(* 6. Kingman: binary merger types                                                         *)
(* ====================================================================================== *)
Definition typ (n i j : nat) : list nat := stype n [S i; S j].

Lemma nth_typ n i j l : l < n ->
  nth l (typ n i j) 0 = (if Nat.eqb l i then 1 else 0) + (if Nat.eqb l j then 1 else 0).
Proof.
  intros H. unfold typ. rewrite nth_stype by assumption. rewrite !count_if_cons.
  change (count_if (fun s => Nat.eqb s (S l)) []) with 0.
  change (Nat.eqb (S i) (S l)) with (Nat.eqb i l). change (Nat.eqb (S j) (S l)) with (Nat.eqb j l).
  destruct (Nat.eqb_spec i l), (Nat.eqb_spec l i), (Nat.eqb_spec j l), (Nat.eqb_spec l j); lia.
Qed.

Lemma typ_length n i j : length (typ n i j) = n.
Proof. apply stype_length. Qed.

Lemma typ_sizes n i j : i < n -> j < n -> Forall (fun s => 1 <= s <= n) [S i; S j].
Proof. intros. constructor; [lia|]. constructor; [lia|]. constructor. Qed.

Lemma typ_inj n i j i' j' : j <= i < n -> j' <= i' < n -> typ n i j = typ n i' j' -> (i, j) = (i', j').
Proof.
  intros H H' E.
  pose proof (f_equal (fun v => nth i v 0) E) as E1.
  pose proof (f_equal (fun v => nth i' v 0) E) as E2.
  pose proof (f_equal (fun v => nth j v 0) E) as E3. cbv beta in *.
  rewrite !nth_typ in E1, E2, E3 by lia.
  assert (Hi : i = i').
  { destruct (Nat.eqb_spec i i), (Nat.eqb_spec i j), (Nat.eqb_spec i i'), (Nat.eqb_spec i j'),
      (Nat.eqb_spec i' i), (Nat.eqb_spec i' j), (Nat.eqb_spec i' i'), (Nat.eqb_spec i' j'); lia. }
  subst i'. f_equal.
  destruct (Nat.eqb_spec j i), (Nat.eqb_spec j j), (Nat.eqb_spec j j'); lia.
Qed.

Lemma stype_swap n s1 s2 l : stype n (s1 :: s2 :: l) = stype n (s2 :: s1 :: l).
Proof. unfold stype. apply map_ext. intros i. rewrite !count_if_cons. lia. Qed.

Lemma stype_pair_typ n s1 s2 : 1 <= s1 <= n -> 1 <= s2 <= n ->
  exists i j, j <= i < n /\ stype n [s1; s2] = typ n i j.
Proof.
  intros H1 H2. destruct (le_lt_dec s2 s1) as [L|L].
  - exists (s1 - 1), (s2 - 1). split; [lia|]. unfold typ.
    replace (S (s1 - 1)) with s1 by lia. replace (S (s2 - 1)) with s2 by lia. reflexivity.
  - exists (s2 - 1), (s1 - 1). split; [lia|]. unfold typ.
    replace (S (s1 - 1)) with s1 by lia. replace (S (s2 - 1)) with s2 by lia. apply stype_swap.
Qed.

Lemma prodb_all_zero : forall a k, (forall l, nth l k 0 = 0) -> prodb a k = 1%Z.
Proof.
  induction a as [|a0 a IH]; intros k H; [reflexivity|]. destruct k as [|k0 k]; [reflexivity|].
  rewrite prodb_cons. pose proof (H 0) as H0. simpl in H0. subst k0.
  rewrite binom_0_r, IH; [reflexivity|]. intros l. exact (H (S l)).
Qed.

Lemma prodb_single : forall a k i, i < length a -> length a = length k ->
  (forall l, l <> i -> nth l k 0 = 0) -> prodb a k = binom (nth i a 0) (nth i k 0).
Proof.
  induction a as [|a0 a IH]; intros k i Hi Hl H; [simpl in Hi; lia|].
  destruct k as [|k0 k]; [discriminate|]. rewrite prodb_cons. simpl in Hi, Hl. destruct i as [|i].
  - simpl nth. rewrite prodb_all_zero; [ring|]. intros l. apply (H (S l)). lia.
  - simpl nth. pose proof (H 0 ltac:(lia)) as H0. simpl in H0. subst k0.
    rewrite binom_0_r, (IH k i); [ring|lia|lia|]. intros l Hne. apply (H (S l)). lia.
Qed.

Lemma prodb_two : forall a k i j, j < i -> i < length a -> length a = length k ->
  (forall l, l <> i -> l <> j -> nth l k 0 = 0) ->
  prodb a k = (binom (nth j a 0%nat) (nth j k 0%nat) * binom (nth i a 0%nat) (nth i k 0%nat))%Z.
Proof.
  induction a as [|a0 a IH]; intros k i j Hji Hi Hl H; [simpl in Hi; lia|].
  destruct k as [|k0 k]; [discriminate|]. rewrite prodb_cons. simpl in Hi, Hl.
  destruct i as [|i]; [lia|]. destruct j as [|j].
  - simpl nth. rewrite (prodb_single a k i); [reflexivity|lia|lia|].
    intros l Hne. apply (H (S l)); lia.
  - simpl nth. pose proof (H 0 ltac:(lia) ltac:(lia)) as H0. simpl in H0. subst k0.
    rewrite binom_0_r, (IH k i j); [ring|lia|lia|lia|]. intros l N1 N2. apply (H (S l)); lia.
Qed.

(* the entries of kingman_coalesce_bc *)
Definition kvalid (a : list nat) (ij : nat * nat) : bool :=
  if Nat.eqb (fst ij) (snd ij) then Nat.ltb 1 (nth (fst ij) a 0)
  else if Nat.ltb (snd ij) (fst ij) then Nat.ltb 0 (nth (fst ij) a 0) && Nat.ltb 0 (nth (snd ij) a 0)
  else false.
Definition kkey (a : list nat) (ij : nat * nat) : list nat :=
  if Nat.eqb (fst ij) (snd ij)
  then upd (upd a (fst ij) (fun x => x - 2)) (2 * (fst ij + 1) - 1) S
  else upd (upd (upd a (fst ij) pred) (snd ij) pred) (fst ij + snd ij + 1) S.
Definition krate (a : list nat) (ij : nat * nat) : R :=
  if Nat.eqb (fst ij) (snd ij)
  then kingman_rate_bc OpsR [nth (fst ij) a 0] [2]
  else kingman_rate_bc OpsR [nth (fst ij) a 0; nth (snd ij) a 0] [1; 1].

Lemma kcell_eq a i j : kcell a i j = if kvalid a (i, j) then [(kkey a (i, j), krate a (i, j))] else [].
Proof.
  unfold kcell, kvalid, kkey, krate. cbn [fst snd].
  destruct (Nat.eqb i j); [reflexivity|]. destruct (Nat.ltb j i); reflexivity.
Qed.

Lemma kvalid_le a ij : kvalid a ij = true -> snd ij <= fst ij.
Proof.
  unfold kvalid. destruct (Nat.eqb_spec (fst ij) (snd ij)); [lia|].
  destruct (Nat.ltb_spec (snd ij) (fst ij)); [lia|discriminate].
Qed.

Lemma kvalid_of_le n a i j : j <= i < n ->
  (forall l, l < n -> nth l (typ n i j) 0 <= nth l a 0) -> kvalid a (i, j) = true.
Proof.
  intros H Hle. unfold kvalid. cbn [fst snd].
  pose proof (Hle i ltac:(lia)) as Hi. pose proof (Hle j ltac:(lia)) as Hj.
  rewrite !nth_typ in Hi, Hj by lia.
  destruct (Nat.eqb_spec i j) as [->|N].
  - rewrite Nat.eqb_refl in Hi. apply Nat.ltb_lt. lia.
  - destruct (Nat.ltb_spec j i); [|lia].
    rewrite Nat.eqb_refl in Hi, Hj.
    destruct (Nat.eqb_spec i j), (Nat.eqb_spec j i); try lia.
    apply andb_true_iff. split; apply Nat.ltb_lt; lia.
Qed.

Lemma sum_typ n i j : i < n -> j < n -> sum_nat (typ n i j) = 2.
Proof. intros. unfold typ. rewrite sum_stype by (apply typ_sizes; assumption). reflexivity. Qed.

Lemma newrow_typ n a i j : length a = n -> j <= i < n ->
  newrow a (typ n i j) = kkey a (i, j).
Proof.
  intros Ha H. unfold newrow, kkey. cbn [fst snd].
  unfold typ at 2. rewrite dot_stype by (apply typ_sizes; lia). simpl sum_nat.
  destruct (Nat.eqb_spec i j) as [<-|N].
  - replace (S (i + S (i + 0)) - 1) with (2 * (i + 1) - 1) by lia. f_equal.
    apply (nth_ext _ _ 0 0).
    + rewrite vsub_length, upd_length by (rewrite typ_length; assumption). reflexivity.
    + rewrite vsub_length by (rewrite typ_length; assumption). intros l Hl.
      rewrite nth_vsub by (rewrite typ_length; assumption).
      rewrite nth_typ by lia. rewrite nth_upd by lia.
      destruct (Nat.eqb_spec l i); [subst; lia|lia].
  - replace (S (i + S (j + 0)) - 1) with (i + j + 1) by lia. f_equal.
    apply (nth_ext _ _ 0 0).
    + rewrite vsub_length, !upd_length by (rewrite typ_length; assumption). reflexivity.
    + rewrite vsub_length by (rewrite typ_length; assumption). intros l Hl.
      rewrite nth_vsub by (rewrite typ_length; assumption).
      rewrite nth_typ by lia. rewrite nth_upd by (rewrite upd_length; lia).
      rewrite (nth_upd_other pred 0 a i j N).
      rewrite nth_upd by lia.
      destruct (Nat.eqb_spec l i), (Nat.eqb_spec l j); subst; lia.
Qed.

Lemma prodb_typ n a i j : length a = n -> j <= i < n ->
  IZR (prodb a (typ n i j)) = krate a (i, j).
Proof.
  intros Ha H. unfold krate. cbn [fst snd]. destruct (Nat.eqb_spec i j) as [<-|N].
  - rewrite (prodb_single a (typ n i i) i); [|lia|rewrite typ_length; assumption|].
    + rewrite nth_typ by lia. rewrite Nat.eqb_refl.
      change (kingman_rate_bc OpsR [nth i a 0] [2]) with (kingman_rate OpsR (nth i a 0) 2).
      rewrite kingman_rate_2. reflexivity.
    + intros l Hne. destruct (Nat.lt_ge_cases l n) as [Hl|Hl].
      * rewrite nth_typ by lia. destruct (Nat.eqb_spec l i); lia.
      * apply nth_stype_ge; assumption.
  - rewrite (prodb_two a (typ n i j) i j); [|lia|lia|rewrite typ_length; assumption|].
    + rewrite !nth_typ by lia. rewrite !Nat.eqb_refl.
      destruct (Nat.eqb_spec j i), (Nat.eqb_spec i j); try lia.
      simpl Nat.add. rewrite !binom_1_r.
      change (kingman_rate_bc OpsR [nth i a 0; nth j a 0] [1; 1])
        with (IZR (Z.of_nat (nth i a 0 * nth j a 0))).
      f_equal. lia.
    + intros l N1 N2. destruct (Nat.lt_ge_cases l n) as [Hl|Hl].
      * rewrite nth_typ by lia. destruct (Nat.eqb_spec l i), (Nat.eqb_spec l j); lia.
      * apply nth_stype_ge; assumption.
Qed.

(* all index pairs, and the valid ones *)
Definition idx_pairs (n : nat) : list (nat * nat) :=
  flat_map (fun i => map (pair i) (seq 0 n)) (seq 0 n).

Lemma in_idx_pairs n i j : In (i, j) (idx_pairs n) -> i < n /\ j < n.
Proof.
  unfold idx_pairs. rewrite in_flat_map. intros [i' [Hi H]]. apply in_map_iff in H as [j' [E Hj]].
  inversion E; subst. apply in_seq in Hi, Hj. lia.
Qed.

Lemma in_idx_pairs_intro n i j : i < n -> j < n -> In (i, j) (idx_pairs n).
Proof.
  intros Hi Hj. unfold idx_pairs. apply in_flat_map. exists i. split; [apply in_seq; lia|].
  apply in_map. apply in_seq. lia.
Qed.

Lemma NoDup_idx_pairs n : NoDup (idx_pairs n).
Proof. apply NoDup_pairs_flat_map; [apply seq_NoDup|intros; apply seq_NoDup]. Qed.

Lemma NoDup_ktypes n a :
  NoDup (map (fun ij => typ n (fst ij) (snd ij)) (filter (kvalid a) (idx_pairs n))).
Proof.
  apply NoDup_map_inj_on; [apply NoDup_filter, NoDup_idx_pairs|].
  intros [i j] [i' j'] H H' E. apply filter_In in H as [H1 H2], H' as [H1' H2'].
  apply in_idx_pairs in H1, H1'. apply kvalid_le in H2, H2'. cbn [fst snd] in *.
  apply (typ_inj n); [lia|lia|assumption].
Qed.

(* ====================================================================================== *)
(* 7. the labelled process: block counts of a labelled state and of its successors         *)
(* ====================================================================================== *)
Definition sz (bd : lblock) : nat := length (fst bd).
Definition is_size (d s : nat) (bd : lblock) : bool :=
  Nat.eqb (snd bd) d && Nat.eqb (length (fst bd)) s.
Definition bc_row (n d : nat) (x : lstate) : list nat :=
  map (fun i => count_if (is_size d (S i)) x) (seq 0 n).
Definition bc_counts (nd n : nat) (x : lstate) : list (list nat) :=
  map (fun d => bc_row n d x) (seq 0 nd).

Lemma pi_BC_bcs nd n x : pi_BC nd n x = bcs n (bc_counts nd n x).
Proof. unfold pi_BC, bcs, bc_counts, bc_row. rewrite map_length, seq_length. reflexivity. Qed.

Lemma bc_counts_length nd n x : length (bc_counts nd n x) = nd.
Proof. unfold bc_counts. rewrite map_length, seq_length. reflexivity. Qed.

Lemma bc_row_length n d x : length (bc_row n d x) = n.
Proof. unfold bc_row. rewrite map_length, seq_length. reflexivity. Qed.

Lemma nth_bc_counts nd n x d : d < nd -> nth d (bc_counts nd n x) [] = bc_row n d x.
Proof. intros H. unfold bc_counts. rewrite nth_map_seq by assumption. reflexivity. Qed.

Lemma nth_bc_row n d x i : i < n -> nth i (bc_row n d x) 0 = count_if (is_size d (S i)) x.
Proof. intros H. unfold bc_row. rewrite nth_map_seq by assumption. reflexivity. Qed.

Lemma bc_counts_rect nd n x : rectn n (bc_counts nd n x).
Proof.
  unfold rectn, bc_counts. apply Forall_forall. intros row H.
  apply in_map_iff in H as [d [<- _]]. apply bc_row_length.
Qed.

Lemma bc_row_stype n d x : bc_row n d x = stype n (map sz (filter (in_deme d) x)).
Proof.
  unfold bc_row, stype. apply map_ext. intros i. rewrite count_if_map, count_if_filter. reflexivity.
Qed.

Lemma bc_counts_canon1 nd n l : bc_counts nd n (canon1 l) = bc_counts nd n l.
Proof.
  unfold bc_counts, bc_row, canon1. apply map_ext. intros d. apply map_ext. intros i.
  apply count_if_isort.
Qed.

(* ---------- well-formed labelled states: demes in range, blocks nonempty, at most n samples ---------- *)
Definition tsize (x : lstate) : nat := sum_nat (map sz x).
Definition wfb (nd n : nat) (x : lstate) : Prop :=
  Forall (fun bd => snd bd < nd /\ 1 <= sz bd) x /\ tsize x <= n.

Lemma in_le_sum_nat : forall l s, In s l -> s <= sum_nat l.
Proof.
  induction l as [|a l IH]; intros s H; [destruct H|]. rewrite sum_nat_cons.
  destruct H as [->|H]; [lia|]. specialize (IH s H). lia.
Qed.

Lemma wfb_block nd n x bd : wfb nd n x -> In bd x -> snd bd < nd /\ 1 <= sz bd <= n.
Proof.
  intros [H1 H2] Hin. rewrite Forall_forall in H1. destruct (H1 bd Hin) as [Ha Hb].
  repeat split; try assumption. unfold tsize in H2.
  pose proof (in_le_sum_nat (map sz x) (sz bd) (in_map sz x bd Hin)). lia.
Qed.

Lemma sum_nat_filter_le {X} (w : X -> nat) (f : X -> bool) : forall l,
  sum_nat (map w (filter f l)) <= sum_nat (map w l).
Proof.
  induction l as [|a l IH]; [apply le_n|]. simpl filter. simpl map at 2. rewrite sum_nat_cons.
  destruct (f a); [simpl map; rewrite sum_nat_cons|]; lia.
Qed.

Lemma splits_sum {X} (w : X -> nat) : forall (l K R : list X),
  In (K, R) (splits l) -> sum_nat (map w K) + sum_nat (map w R) = sum_nat (map w l).
Proof.
  induction l as [|x l IH]; simpl; intros K R H.
  - destruct H as [E|[]]. inversion E; reflexivity.
  - apply in_flat_map in H as [[K' R'] [H' H]]. apply IH in H'. simpl in H.
    destruct H as [E|[E|[]]]; inversion E; subst; simpl map; rewrite !sum_nat_cons; lia.
Qed.

Lemma length_le_tsize : forall K : lstate, Forall (fun bd => 1 <= sz bd) K -> length K <= tsize K.
Proof.
  induction K as [|a K IH]; intros H; [apply le_n|]. inversion H as [|a' K' Ha HK]; subst.
  unfold tsize in *. simpl map. rewrite sum_nat_cons. simpl length. specialize (IH HK). lia.
Qed.

Lemma length_insert_by {X} (leb : X -> X -> bool) a : forall l, length (insert_by leb a l) = S (length l).
Proof. induction l as [|b l IH]; [reflexivity|]. simpl. destruct (leb a b); simpl; rewrite ?IH; reflexivity. Qed.

Lemma length_isort {X} (leb : X -> X -> bool) : forall l, length (isort leb l) = length l.
Proof.
  induction l as [|a l IH]; [reflexivity|].
  change (isort leb (a :: l)) with (insert_by leb a (isort leb l)).
  rewrite length_insert_by, IH. reflexivity.
Qed.

Lemma length_concat_sum {X} : forall l : list (list X), length (concat l) = sum_nat (map (@length X) l).
Proof. induction l as [|a l IH]; [reflexivity|]. simpl. rewrite app_length, IH. reflexivity. Qed.

Lemma length_union_ids (K : lstate) : length (union_ids (map fst K)) = tsize K.
Proof.
  unfold union_ids, tsize. rewrite length_isort, length_concat_sum, map_map. reflexivity.
Qed.

(* ---------- the count matrix after a labelled migration ---------- *)
Lemma counts_after_move_bc nd n (x : lstate) b p q rest :
  In ((b, p), rest) (picks x) -> p < nd -> q < nd -> p <> q -> 1 <= length b <= n ->
  bc_counts nd n ((b, q) :: rest) = mmove (bc_counts nd n x) p q (length b - 1).
Proof.
  intros Hin Hp Hq N Hb. set (c := bc_counts nd n x).
  assert (Lc : length c = nd) by apply bc_counts_length.
  assert (Hcnt : forall d l, count_if (is_size d (S l)) x =
            (if is_size d (S l) (b, p) then 1 else 0) + count_if (is_size d (S l)) rest).
  { intros d l. apply (picks_count _ _ _ _ Hin). }
  apply (nth_ext _ _ [] []).
  - rewrite mmove_length, Lc. apply bc_counts_length.
  - rewrite bc_counts_length. intros d Hd. rewrite nth_bc_counts by assumption.
    unfold mmove. rewrite nth_upd by (rewrite upd_length; lia).
    destruct (Nat.eqb_spec d q) as [->|Ndq].
    + rewrite (nth_upd_other _ [] c p q N). unfold c. rewrite nth_bc_counts by assumption.
      apply (nth_ext _ _ 0 0).
      * rewrite upd_length, !bc_row_length. reflexivity.
      * rewrite bc_row_length. intros l Hl.
        rewrite nth_upd by (rewrite bc_row_length; lia). rewrite !nth_bc_row by lia.
        rewrite count_if_cons, !Hcnt. unfold is_size. cbn [fst snd].
        rewrite Nat.eqb_refl.
        destruct (Nat.eqb_spec p q); [lia|].
        destruct (Nat.eqb_spec l (length b - 1)) as [->|Nl].
        -- replace (S (length b - 1)) with (length b) by lia. rewrite Nat.eqb_refl. simpl. lia.
        -- destruct (Nat.eqb_spec (length b) (S l)); [lia|]. simpl. lia.
    + rewrite nth_upd by lia. destruct (Nat.eqb_spec d p) as [->|Ndp].
      * unfold c. rewrite nth_bc_counts by assumption.
        apply (nth_ext _ _ 0 0).
        -- rewrite upd_length, !bc_row_length. reflexivity.
        -- rewrite bc_row_length. intros l Hl.
           rewrite nth_upd by (rewrite bc_row_length; lia). rewrite !nth_bc_row by lia.
           rewrite count_if_cons, !Hcnt. unfold is_size. cbn [fst snd].
           rewrite Nat.eqb_refl.
           destruct (Nat.eqb_spec q p); [lia|].
           destruct (Nat.eqb_spec l (length b - 1)) as [->|Nl].
           ++ replace (S (length b - 1)) with (length b) by lia. rewrite Nat.eqb_refl. simpl. lia.
           ++ destruct (Nat.eqb_spec (length b) (S l)); [lia|]. simpl. lia.
      * unfold c. rewrite nth_bc_counts by assumption.
        apply (nth_ext _ _ 0 0).
        -- rewrite !bc_row_length. reflexivity.
        -- rewrite bc_row_length. intros l Hl. rewrite !nth_bc_row by lia.
           rewrite count_if_cons, !Hcnt. unfold is_size. cbn [fst snd].
           destruct (Nat.eqb_spec q d); [lia|]. destruct (Nat.eqb_spec p d); [lia|]. simpl. lia.
Qed.

(* ---------- the count matrix after a labelled merger ---------- *)
Lemma sizes_of_sub nd n x (K : lstate) : wfb nd n x -> (forall y, In y K -> In y x) ->
  Forall (fun s => 1 <= s <= n) (map sz K).
Proof.
  intros Hwf Hs. apply Forall_forall. intros s H. apply in_map_iff in H as [y [<- Hy]].
  apply (wfb_block nd n x y Hwf). apply Hs; assumption.
Qed.

Lemma counts_after_merge_bc nd n (x : lstate) d K R u :
  wfb nd n x -> d < nd -> In (K, R) (splits (filter (in_deme d) x)) -> 1 <= length K ->
  length u = tsize K ->
  bc_counts nd n ((u, d) :: R ++ filter (fun bd => negb (in_deme d bd)) x) =
  setrow (bc_counts nd n x) d (newrow (bc_row n d x) (stype n (map sz K))).
Proof.
  intros Hwf Hd Hin HK Hu. set (c := bc_counts nd n x). set (ins := filter (in_deme d) x) in *.
  assert (Lc : length c = nd) by apply bc_counts_length.
  destruct (splits_incl _ _ _ Hin) as [HKi HRi].
  assert (Hins : forall y, In y ins -> In y x /\ in_deme d y = true).
  { intros y Hy. apply filter_In in Hy. exact Hy. }
  assert (SK : Forall (fun s => 1 <= s <= n) (map sz K)).
  { apply (sizes_of_sub nd n x K Hwf). intros y Hy. apply Hins, HKi, Hy. }
  assert (Hdot : dot_idx (stype n (map sz K)) = length u).
  { rewrite dot_stype by assumption. rewrite Hu. reflexivity. }
  assert (Hu1 : 1 <= length u <= n).
  { rewrite Hu. split.
    - assert (Forall (fun bd => 1 <= sz bd) K).
      { apply Forall_forall. intros y Hy. apply (wfb_block nd n x y Hwf). apply Hins, HKi, Hy. }
      pose proof (length_le_tsize K H). lia.
    - pose proof (splits_sum sz _ _ _ Hin) as Hs. fold (tsize K) in Hs.
      pose proof (sum_nat_filter_le sz (in_deme d) x) as Hf. fold ins in Hf.
      destruct Hwf as [_ Hn]. unfold tsize in Hn. lia. }
  assert (Hsp : forall s, count_if (fun y => Nat.eqb (sz y) s) K + count_if (fun y => Nat.eqb (sz y) s) R
                          = count_if (is_size d s) x).
  { intros s. rewrite (splits_count_if _ _ _ _ Hin). unfold ins. rewrite count_if_filter. reflexivity. }
  assert (HRd : forall s, count_if (is_size d s) R = count_if (fun y => Nat.eqb (sz y) s) R).
  { intros s. apply count_if_ext. intros y Hy. unfold is_size.
    destruct (Hins y (HRi y Hy)) as [_ Hy']. unfold in_deme in Hy'. rewrite Hy'. reflexivity. }
  apply (nth_ext _ _ [] []).
  - rewrite setrow_length, Lc. apply bc_counts_length.
  - rewrite bc_counts_length. intros d' Hd'. rewrite nth_bc_counts by assumption.
    unfold setrow. rewrite nth_upd by lia.
    destruct (Nat.eqb_spec d' d) as [->|Ndd].
    + apply (nth_ext _ _ 0 0).
      * unfold newrow. rewrite upd_length, vsub_length, !bc_row_length by
          (rewrite bc_row_length, stype_length; reflexivity). reflexivity.
      * rewrite bc_row_length. intros l Hl. rewrite nth_bc_row by assumption.
        unfold newrow. rewrite Hdot.
        rewrite nth_upd by (rewrite vsub_length, bc_row_length by
          (rewrite bc_row_length, stype_length; reflexivity); lia).
        rewrite !nth_vsub by (rewrite bc_row_length, stype_length; reflexivity).
        rewrite count_if_cons, count_if_app, HRd.
        rewrite (count_if_none (is_size d (S l)) (filter _ x)).
        2:{ intros y Hy. apply filter_In in Hy as [_ Hy]. apply negb_true_iff in Hy.
            unfold is_size. unfold in_deme in Hy. rewrite Hy. reflexivity. }
        unfold is_size at 1. cbn [fst snd]. rewrite Nat.eqb_refl. cbn [andb].
        destruct (Nat.eqb_spec l (length u - 1)) as [->|Nl].
        -- replace (S (length u - 1)) with (length u) by lia. rewrite Nat.eqb_refl.
           rewrite nth_bc_row, nth_stype by lia. rewrite count_if_map.
           replace (S (length u - 1)) with (length u) by lia.
           pose proof (Hsp (length u)). lia.
        -- destruct (Nat.eqb_spec (length u) (S l)); [lia|].
           rewrite nth_bc_row, nth_stype by lia. rewrite count_if_map.
           pose proof (Hsp (S l)). lia.
    + unfold c. rewrite nth_bc_counts by assumption.
      apply (nth_ext _ _ 0 0).
      * rewrite !bc_row_length. reflexivity.
      * rewrite bc_row_length. intros l Hl. rewrite !nth_bc_row by assumption.
        rewrite count_if_cons, count_if_app.
        rewrite (count_if_none (is_size d' (S l)) R).
        2:{ intros y Hy. destruct (Hins y (HRi y Hy)) as [_ Hy']. unfold in_deme in Hy'.
            apply Nat.eqb_eq in Hy'. unfold is_size. rewrite Hy'.
            destruct (Nat.eqb_spec d d'); [lia|reflexivity]. }
        rewrite count_if_filter_neg.
        2:{ intros y Hy. unfold is_size in Hy. apply andb_true_iff in Hy as [Hy _].
            apply Nat.eqb_eq in Hy. unfold in_deme. apply Nat.eqb_neq. lia. }
        unfold is_size at 1. cbn [fst snd]. destruct (Nat.eqb_spec d d'); [lia|]. simpl. lia.
Qed.

(* ====================================================================================== *)
(* 8. the labelled rates into the fibre of ANY state t                                     *)
(* ====================================================================================== *)
Definition pair_eqb (a b : nat * nat) : bool := Nat.eqb (fst a) (fst b) && Nat.eqb (snd a) (snd b).

Lemma pair_eqb_spec a b : reflect (a = b) (pair_eqb a b).
Proof.
  destruct a as [a1 a2], b as [b1 b2]. unfold pair_eqb. cbn [fst snd].
  destruct (Nat.eqb_spec a1 b1), (Nat.eqb_spec a2 b2); constructor; congruence.
Qed.

Section LabelledBC.
  Variable P : params (T:=R).
  Notation m := (p_model P).
  Variables (nd n : nat) (t : state).

  Let F := fun ey : event * lstate =>
    if state_eqb (pi_BC nd n (snd ey)) t then erate OpsR P (fst ey) else 0%R.

  Lemma F_eq e y : F (e, y) = if state_eqb (bcs n (bc_counts nd n y)) t then erate OpsR P e else 0%R.
  Proof. unfold F. cbn [fst snd]. rewrite pi_BC_bcs. reflexivity. Qed.

  Lemma labelled_migration_bc x : wfb nd n x ->
    rsum_over F
      (flat_map (fun br : lblock * list lblock =>
         let '((b, p), rest) := br in
         flat_map (fun q => if Nat.eqb p q then [] else [(EMig p q, canon1 ((b, q) :: rest))]) (seq 0 nd))
         (picks x))
    = M_mod P n (bc_counts nd n x) t.
  Proof.
    intros Hwf. set (c := bc_counts nd n x).
    set (Phi := fun ps : nat * nat =>
      rsum_over (fun q => if Nat.eqb (fst ps) q then 0%R else
                   if state_eqb (bcs n (mmove c (fst ps) q (snd ps - 1))) t
                   then mig_rate OpsR P (fst ps) q else 0%R) (seq 0 nd)).
    rewrite rsum_over_flat_map.
    rewrite (rsum_over_ext_in _ (fun br : lblock * list lblock => Phi (snd (fst br), sz (fst br)))).
    2:{ intros [[b p] rest] Hin. cbn [fst snd]. unfold Phi. cbn [fst snd]. rewrite rsum_over_flat_map.
        assert (Hb : In (b, p) x).
        { rewrite <- (map_fst_picks x). apply in_map_iff. exists (b, p, rest); auto. }
        destruct (wfb_block nd n x (b, p) Hwf Hb) as [Hp Hs]. cbn [fst snd] in Hp. unfold sz in Hs. cbn [fst] in Hs.
        apply rsum_over_ext_in. intros q Hq. apply in_seq in Hq.
        destruct (Nat.eqb_spec p q) as [E|N]; [reflexivity|].
        unfold rsum_over; cbn [map rsum_list fold_right]. rewrite F_eq.
        rewrite bc_counts_canon1, (counts_after_move_bc nd n x b p q rest) by (auto; lia).
        fold c. unfold sz. cbn [fst erate]. destruct (state_eqb _ t); ring. }
    rewrite <- (rsum_over_map fst (fun bd : lblock => Phi (snd bd, sz bd))), map_fst_picks.
    set (ks := flat_map (fun p => map (fun i => (p, S i)) (seq 0 n)) (seq 0 nd)).
    rewrite (rsum_group_by_gen pair_eqb pair_eqb_spec (fun bd : lblock => (snd bd, sz bd)) Phi ks).
    2:{ unfold ks. apply NoDup_flat_map; [apply seq_NoDup| |].
        - intros p _. apply NoDup_map_inj_on; [apply seq_NoDup|]. intros; congruence.
        - intros p p' k _ _ H H'. apply in_map_iff in H as [i [<- _]].
          apply in_map_iff in H' as [i' [E _]]. congruence. }
    2:{ intros bd Hin. left. destruct (wfb_block nd n x bd Hwf Hin) as [Hp Hs].
        unfold ks. apply in_flat_map. exists (snd bd). split; [apply in_seq; lia|].
        apply in_map_iff. exists (sz bd - 1). split; [f_equal; lia|apply in_seq; lia]. }
    unfold ks. rewrite rsum_over_flat_map.
    unfold M_mod, mig_list. rewrite rsum_over_flat_map. unfold deme_pairs.
    assert (Lc : length c = nd) by apply bc_counts_length. rewrite Lc.
    rewrite rsum_over_flat_map. apply rsum_over_ext_in. intros p Hp. apply in_seq in Hp.
    assert (Ln : length (nth 0 c []) = n).
    { apply (rectn_row n c 0 (bc_counts_rect nd n x)). lia. }
    rewrite Ln. rewrite rsum_over_map, rsum_over_flat_map.
    unfold Phi. cbn [fst snd].
    rewrite (rsum_over_ext_in _ (fun i => rsum_over (fun q =>
       (INR (count_if (is_size p (S i)) x) *
        (if Nat.eqb p q then 0 else
         if state_eqb (bcs n (mmove c p q (S i - 1))) t then mig_rate OpsR P p q else 0))%R) (seq 0 nd))).
    2:{ intros i _. rewrite rsum_over_scal. reflexivity. }
    rewrite rsum_over_swap. apply rsum_over_ext_in. intros q Hq. apply in_seq in Hq.
    destruct (Nat.eqb_spec p q) as [E|N].
    - unfold rsum_over at 2. simpl. apply rsum_over_zero. intros; ring.
    - unfold rsum_over at 2. cbn [map rsum_list fold_right]. rewrite rsum_over_map.
      rewrite <- (Rplus_0_r (rsum_over _ (seq 0 n))). f_equal.
      apply rsum_over_ext_in. intros i Hi. apply in_seq in Hi.
      unfold mig_g, mig_key, mig_val. cbn [fst snd].
      assert (Em : mget c p i = count_if (is_size p (S i)) x).
      { unfold mget, c. rewrite nth_bc_counts, nth_bc_row by lia. reflexivity. }
      rewrite Em. replace (S i - 1) with i by lia.
      destruct (Nat.ltb_spec 0 (count_if (is_size p (S i)) x)) as [Hc|Hc].
      + cbn [andb]. destruct (state_eqb _ t); ring.
      + replace (count_if (is_size p (S i)) x) with 0 by lia. simpl. ring.
  Qed.

  (* ---- mergers ---- *)
  Definition Gd (c : list (list nat)) (d : nat) (br : list nat * R) : R :=
    if state_eqb (bcs n (setrow c d (fst br))) t then (snd br / tscale_of OpsR P d)%R else 0%R.

  Lemma C_mod_decomp c :
    C_mod P n c t =
    rsum_over (fun d => rsum_over (Gd c d) (coalesce OpsR m (nth d c []))) (seq 0 (length c)).
  Proof.
    unfold C_mod, coal_list. rewrite rsum_over_flat_map. apply rsum_over_ext_in. intros d _.
    rewrite rsum_over_map. reflexivity.
  Qed.

  (* the merger events of deme d listed by Labelled.levents1 *)
  Definition merge_events_at (x : lstate) (d : nat) : list (event * lstate) :=
    flat_map (fun kr : list lblock * list lblock =>
       let '(K, R) := kr in
       if Nat.leb 2 (length K)
       then [(EMerge d (length (filter (in_deme d) x)) (length K),
              canon1 ((union_ids (map fst K), d) :: R ++ filter (fun bd => negb (in_deme d bd)) x))]
       else []) (splits (filter (in_deme d) x)).

  (* contribution of ONE set of blocks of merger type k (k_i blocks of size i+1) *)
  Definition Hd (x : lstate) (d : nat) (k : list nat) : R :=
    if Nat.leb 2 (sum_nat k) then
      if state_eqb (bcs n (setrow (bc_counts nd n x) d (newrow (bc_row n d x) k))) t
      then (lam OpsR m (length (filter (in_deme d) x)) (sum_nat k) / tscale_of OpsR P d)%R else 0%R
    else 0%R.

  Lemma sizes_ins x d : wfb nd n x -> Forall (fun y => 1 <= sz y <= n) (filter (in_deme d) x).
  Proof.
    intros Hwf. apply Forall_forall. intros y Hy. apply filter_In in Hy as [Hy _].
    apply (wfb_block nd n x y Hwf Hy).
  Qed.

  Lemma sizes_sub x d K R : wfb nd n x -> In (K, R) (splits (filter (in_deme d) x)) ->
    Forall (fun s => 1 <= s <= n) (map sz K).
  Proof.
    intros Hwf Hin. apply (sizes_of_sub nd n x K Hwf). intros y Hy.
    destruct (splits_incl _ _ _ Hin) as [HK _]. apply HK in Hy. apply filter_In in Hy. tauto.
  Qed.

  Lemma merge_events_types x d : wfb nd n x -> d < nd ->
    rsum_over F (merge_events_at x d) =
    rsum_over (fun kr => Hd x d (stype n (map sz (fst kr)))) (splits (filter (in_deme d) x)).
  Proof.
    intros Hwf Hd'. unfold merge_events_at. rewrite rsum_over_flat_map.
    apply rsum_over_ext_in. intros [K R] Hin. cbn [fst]. unfold Hd.
    rewrite (sum_stype n (map sz K) (sizes_sub x d K R Hwf Hin)), map_length.
    destruct (Nat.leb_spec 2 (length K)) as [HK|HK]; [|reflexivity].
    unfold rsum_over; cbn [map rsum_list fold_right]. rewrite F_eq, bc_counts_canon1.
    rewrite (counts_after_merge_bc nd n x d K R _ Hwf Hd' Hin ltac:(lia) (length_union_ids K)).
    cbn [erate]. change (odiv OpsR ?a ?b) with (a / b)%R.
    destruct (state_eqb _ t); ring.
  Qed.

  Lemma merge_events_zero x d : length (filter (in_deme d) x) <= 1 ->
    rsum_over F (merge_events_at x d) = 0%R.
  Proof.
    intros Hl. unfold merge_events_at. rewrite rsum_over_flat_map. apply rsum_over_zero.
    intros [K R] Hin. apply splits_length in Hin.
    destruct (Nat.leb_spec 2 (length K)); [lia|reflexivity].
  Qed.

  Lemma row_facts x d : wfb nd n x ->
    bc_row n d x = stype n (map sz (filter (in_deme d) x)) /\
    sum_nat (bc_row n d x) = length (filter (in_deme d) x).
  Proof.
    intros Hwf. split; [apply bc_row_stype|]. rewrite bc_row_stype, sum_stype, map_length; [reflexivity|].
    apply (sizes_of_sub nd n x _ Hwf). intros y Hy. apply filter_In in Hy. tauto.
  Qed.

  Lemma type_le_row x d K R : In (K, R) (splits (filter (in_deme d) x)) -> forall l,
    count_if (fun s => Nat.eqb s (S l)) (map sz K) <=
    count_if (fun s => Nat.eqb s (S l)) (map sz (filter (in_deme d) x)).
  Proof.
    intros Hin l. rewrite !count_if_map.
    pose proof (splits_count_if (fun y => Nat.eqb (sz y) (S l)) _ _ _ Hin). lia.
  Qed.

  (* Beta and Dirac: one entry per merger type *)
  Lemma merge_events_mm x d : wfb nd n x -> d < nd ->
    rsum_over F (merge_events_at x d) =
    rsum_over (Gd (bc_counts nd n x) d) (mm_coalesce_bc OpsR m (bc_row n d x)).
  Proof.
    intros Hwf Hd'. destruct (row_facts x d Hwf) as [Ea Es].
    set (a := bc_row n d x) in *. set (ins := filter (in_deme d) x) in *.
    rewrite (merge_events_types x d Hwf Hd'). fold ins.
    rewrite (rsum_group_by_gen cvec_eqb cvec_eqb_spec
               (fun kr : list lblock * list lblock => stype n (map sz (fst kr))) (Hd x d)
               (all_combs a) (NoDup_all_combs a)).
    2:{ intros [K R] Hin. left. cbn [fst]. apply all_combs_complete. rewrite Ea.
        unfold stype. apply Forall2_le_map. intros l _. apply (type_le_row x d K R Hin). }
    unfold mm_coalesce_bc. rewrite rsum_over_flat_map. apply rsum_over_ext_in. intros k Hk.
    pose proof (all_combs_le _ _ Hk) as Hle. pose proof (F2le_length _ _ Hle) as Hlen.
    assert (Hn : length k = n) by (rewrite Hlen; apply bc_row_length).
    rewrite INR_IZR_INZ, (splits_type_count sz n ins (sizes_ins x d Hwf) k Hn), <- Ea.
    unfold Hd. fold a. fold ins.
    destruct (Nat.ltb_spec 1 (sum_nat k)); destruct (Nat.leb_spec 2 (sum_nat k)); try lia.
    - unfold rsum_over; cbn [map rsum_list fold_right]. unfold Gd. cbn [fst snd].
      change (upd (map (fun bc : nat * nat => fst bc - snd bc) (combine a k)) (dot_idx k - 1) S)
        with (newrow a k).
      rewrite (rate_bc_ways m a k Hle), Es.
      destruct (state_eqb _ t); unfold Rdiv; ring.
    - unfold rsum_over; simpl. ring.
  Qed.

  (* Kingman: one entry per unordered pair of block sizes *)
  Lemma merge_events_kingman x d : wfb nd n x -> d < nd -> m = Kingman ->
    rsum_over F (merge_events_at x d) =
    rsum_over (Gd (bc_counts nd n x) d) (kingman_coalesce_bc OpsR (bc_row n d x)).
  Proof.
    intros Hwf Hd' Em. destruct (row_facts x d Hwf) as [Ea Es].
    set (a := bc_row n d x) in *. set (ins := filter (in_deme d) x) in *.
    assert (La : length a = n) by apply bc_row_length.
    rewrite (merge_events_types x d Hwf Hd'). fold ins.
    rewrite (rsum_group_by_gen cvec_eqb cvec_eqb_spec
               (fun kr : list lblock * list lblock => stype n (map sz (fst kr))) (Hd x d)
               _ (NoDup_ktypes n a)).
    2:{ intros [K R] Hin. cbn [fst].
        pose proof (sizes_sub x d K R Hwf Hin) as SK.
        destruct (Nat.eq_dec (length K) 2) as [E2|N2].
        - left. destruct K as [|y1 [|y2 [|y3 K]]]; simpl in E2; try lia.
          simpl map in *. pose proof (Forall_inv SK) as S1.
          pose proof (Forall_inv (Forall_inv_tail SK)) as S2. cbv beta in S1, S2.
          destruct (stype_pair_typ n (sz y1) (sz y2) S1 S2) as [i [j [Hij E]]]. rewrite E.
          apply in_map_iff. exists (i, j). split; [reflexivity|]. apply filter_In.
          split; [apply in_idx_pairs_intro; lia|].
          apply (kvalid_of_le n); [assumption|]. intros l Hl. rewrite <- E.
          rewrite Ea, !nth_stype by assumption.
          apply (type_le_row x d [y1; y2] R Hin).
        - right. unfold Hd. rewrite (sum_stype n _ SK), map_length.
          destruct (Nat.leb_spec 2 (length K)); [|reflexivity].
          rewrite Em. unfold lam.
          replace (Nat.eqb (length K) 2) with false by (symmetry; apply Nat.eqb_neq; assumption).
          cbn [o0 OpsR]. destruct (state_eqb _ t); unfold Rdiv; ring. }
    rewrite rsum_over_map, rsum_over_filter.
    rewrite kingman_coalesce_bc_cells, La, rsum_over_flat_map. unfold idx_pairs.
    rewrite rsum_over_flat_map. apply rsum_over_ext_in. intros i Hi. apply in_seq in Hi.
    rewrite rsum_over_flat_map, rsum_over_map. apply rsum_over_ext_in. intros j Hj. apply in_seq in Hj.
    rewrite kcell_eq. cbn [fst snd]. destruct (kvalid a (i, j)) eqn:V; [|reflexivity].
    pose proof (kvalid_le a (i, j) V) as Hji. cbn [fst snd] in Hji.
    unfold rsum_over; cbn [map rsum_list fold_right].
    rewrite INR_IZR_INZ, (splits_type_count sz n ins (sizes_ins x d Hwf) _ (typ_length n i j)), <- Ea.
    rewrite (prodb_typ n a i j La) by lia.
    unfold Hd. fold a. rewrite (sum_typ n i j) by lia. cbn [Nat.leb].
    rewrite (newrow_typ n a i j La) by lia. unfold Gd. cbn [fst snd].
    rewrite Em. unfold lam. cbn [Nat.eqb o1 OpsR].
    destruct (state_eqb _ t); unfold Rdiv; ring.
  Qed.

  Lemma coalesce_long (a : list nat) : length a <> 1 ->
    coalesce OpsR m a =
    match m with Kingman => kingman_coalesce_bc OpsR a | _ => mm_coalesce_bc OpsR m a end.
  Proof.
    intros H. destruct a as [|a0 [|a1 a']]; simpl in H; try lia; destruct m; reflexivity.
  Qed.

  Lemma labelled_mergers_bc x d : wfb nd n x -> d < nd ->
    rsum_over F (merge_events_at x d) =
    rsum_over (Gd (bc_counts nd n x) d) (coalesce OpsR m (bc_row n d x)).
  Proof.
    intros Hwf Hd'. destruct (Nat.eq_dec n 1) as [E1|N1].
    - destruct (row_facts x d Hwf) as [_ Es].
      assert (Hl : length (filter (in_deme d) x) <= 1).
      { assert (Hf : Forall (fun bd => 1 <= sz bd) (filter (in_deme d) x)).
        { eapply Forall_impl; [|apply (sizes_ins x d Hwf)]. intros y Hy. cbv beta in Hy. lia. }
        pose proof (length_le_tsize _ Hf) as H1.
        pose proof (sum_nat_filter_le sz (in_deme d) x) as H2.
        destruct Hwf as [_ H3]. unfold tsize in *. lia. }
      rewrite (merge_events_zero x d Hl).
      assert (Er : bc_row n d x = [count_if (is_size d 1) x]).
      { unfold bc_row. rewrite E1. reflexivity. }
      rewrite <- Es, Er in Hl. rewrite Er.
      set (a0 := count_if (is_size d 1) x) in *. rewrite sum_nat_cons in Hl. simpl sum_nat in Hl.
      assert (Ha0 : a0 = 0 \/ a0 = 1) by lia.
      destruct Ha0 as [-> | ->]; destruct m; reflexivity.
    - rewrite coalesce_long by (rewrite bc_row_length; assumption).
      destruct m eqn:Em.
      + apply merge_events_kingman; assumption.
      + rewrite <- Em. apply merge_events_mm; assumption.
      + rewrite <- Em. apply merge_events_mm; assumption.
  Qed.

  (* THE LUMPING IDENTITY at a well-formed labelled state, for ANY state t *)
  Theorem lumping_bc_wf x : wfb nd n x ->
    rate_of (transit OpsR P (pi_BC nd n x)) t = rsum_over F (levents1 nd x).
  Proof.
    intros Hwf. rewrite pi_BC_bcs, transit_bc_rate by apply bc_counts_rect.
    unfold levents1. rewrite rsum_over_app. f_equal.
    - symmetry. apply labelled_migration_bc. assumption.
    - rewrite rsum_over_flat_map.
      rewrite (rsum_over_ext_in _ (fun d => rsum_over F (merge_events_at x d))).
      2:{ intros d _. change (fun bd : lblock => Nat.eqb (snd bd) d) with (in_deme d).
          rewrite partition_filter. reflexivity. }
      set (c := bc_counts nd n x).
      destruct (is_absorbing (bcs n c)) eqn:Ha.
      + symmetry. apply rsum_over_zero. intros d Hd'. apply in_seq in Hd'.
        apply merge_events_zero.
        destruct (row_facts x d Hwf) as [_ Es]. rewrite <- Es.
        unfold is_absorbing in Ha. change (n_loci (bcs n c)) with 1 in Ha. cbn [seq forallb] in Ha.
        rewrite andb_true_r in Ha. apply Nat.eqb_eq in Ha.
        change (sum3_locus (lin (bcs n c)) 0) with (sum_nat (map sum_nat c)) in Ha.
        rewrite <- (nth_bc_counts nd n x d) by lia. fold c.
        pose proof (nth_le_sum (map sum_nat c) d) as Hle.
        assert (E : nth d (map sum_nat c) 0 = sum_nat (nth d c [])) by exact (map_nth sum_nat c [] d).
        rewrite E, Ha in Hle. exact Hle.
      + rewrite C_mod_decomp. unfold c at 3. rewrite bc_counts_length. symmetry.
        apply rsum_over_ext_in. intros d Hd'. apply in_seq in Hd'.
        unfold c at 2. rewrite nth_bc_counts by lia.
        apply labelled_mergers_bc; [assumption|lia].
  Qed.
End LabelledBC.

(* ====================================================================================== *)
(* 9. well-formedness along the labelled process; the unbounded theorem                    *)
(* ====================================================================================== *)
Lemma sum_map_insert_by {X} (w : X -> nat) (leb : X -> X -> bool) a : forall l,
  sum_nat (map w (insert_by leb a l)) = w a + sum_nat (map w l).
Proof.
  induction l as [|b l IH]; [reflexivity|]. simpl insert_by. destruct (leb a b); [reflexivity|].
  simpl map. rewrite !sum_nat_cons, IH. lia.
Qed.

Lemma sum_map_isort {X} (w : X -> nat) (leb : X -> X -> bool) : forall l,
  sum_nat (map w (isort leb l)) = sum_nat (map w l).
Proof.
  induction l as [|a l IH]; [reflexivity|].
  change (isort leb (a :: l)) with (insert_by leb a (isort leb l)).
  rewrite sum_map_insert_by, IH. reflexivity.
Qed.

Lemma picks_sum {X} (w : X -> nat) : forall (l : list X) a rest,
  In (a, rest) (picks l) -> w a + sum_nat (map w rest) = sum_nat (map w l).
Proof.
  induction l as [|x l IH]; intros a rest H; [destruct H|]. simpl picks in H. destruct H as [E|H].
  - inversion E; subst. reflexivity.
  - apply in_map_iff in H as [[y r] [E H]]. inversion E; subst. cbn [fst snd map].
    rewrite !sum_nat_cons. specialize (IH _ _ H). lia.
Qed.

Lemma sum_filter_split {X} (w : X -> nat) (f : X -> bool) : forall l,
  sum_nat (map w (filter f l)) + sum_nat (map w (filter (fun y => negb (f y)) l)) = sum_nat (map w l).
Proof.
  induction l as [|a l IH]; [reflexivity|]. simpl filter. simpl map at 3. rewrite sum_nat_cons.
  destruct (f a); simpl negb; cbv iota; simpl map; rewrite sum_nat_cons; lia.
Qed.

Lemma sum_nat_app : forall l1 l2, sum_nat (l1 ++ l2) = sum_nat l1 + sum_nat l2.
Proof. induction l1 as [|a l1 IH]; intros l2; [reflexivity|]. simpl app. rewrite !sum_nat_cons, IH. lia. Qed.

Lemma tsize_canon1 l : tsize (canon1 l) = tsize l.
Proof. unfold tsize, canon1. apply sum_map_isort. Qed.

Lemma tsize_cons bd l : tsize (bd :: l) = sz bd + tsize l.
Proof. reflexivity. Qed.

Lemma levents1_wfb nd n x e y : wfb nd n x -> In (e, y) (levents1 nd x) -> wfb nd n y.
Proof.
  intros [Hf Hn] Hin. rewrite Forall_forall in Hf. unfold levents1 in Hin.
  apply in_app_iff in Hin as [Hin|Hin]; apply in_flat_map in Hin.
  - destruct Hin as [[[b p] rest] [Hp Hin]]. apply in_flat_map in Hin as [q [Hq Hin]].
    apply in_seq in Hq. destruct (Nat.eqb p q); [destruct Hin|].
    destruct Hin as [E|[]]. injection E as _ <-.
    pose proof (picks_incl _ _ _ Hp) as [Hbp Hrest]. split.
    + apply Forall_forall. intros bd Hbd. apply (in_isort _ ((b, q) :: rest)) in Hbd.
      destruct Hbd as [<-|Hbd]; [|auto].
      destruct (Hf _ Hbp) as [_ Hs]. split; [simpl; lia|exact Hs].
    + change (tsize (canon1 ((b, q) :: rest)) <= n).
      rewrite tsize_canon1, tsize_cons.
      pose proof (picks_sum sz _ _ _ Hp) as Hs. fold (tsize rest) in Hs. fold (tsize x) in Hs.
      change (sz (b, q)) with (sz (b, p)). lia.
  - destruct Hin as [d [Hd Hin]]. apply in_seq in Hd.
    change (fun bd : lblock => Nat.eqb (snd bd) d) with (in_deme d) in Hin.
    rewrite partition_filter in Hin.
    apply in_flat_map in Hin as [[K R] [Hs Hin]].
    destruct (Nat.leb_spec 2 (length K)) as [HK|HK]; [|destruct Hin].
    destruct Hin as [E|[]]. injection E as _ <-.
    destruct (splits_incl _ _ _ Hs) as [HKi HRi].
    assert (Hins : forall z, In z (filter (in_deme d) x) -> In z x).
    { intros z Hz. apply filter_In in Hz. tauto. }
    assert (HK1 : Forall (fun bd => 1 <= sz bd) K).
    { apply Forall_forall. intros z Hz. apply (Hf z). apply Hins, HKi, Hz. }
    pose proof (length_le_tsize K HK1) as HKt. unfold lblock in HKt. split.
    + apply Forall_forall. intros bd Hbd.
      apply (in_isort _ ((union_ids (map fst K), d) :: R ++ filter (fun z => negb (in_deme d z)) x)) in Hbd.
      destruct Hbd as [<-|Hbd].
      * split; [simpl; lia|]. unfold sz. cbn [fst]. rewrite length_union_ids. lia.
      * apply in_app_iff in Hbd as [Hbd|Hbd].
        -- apply Hf. apply Hins, HRi, Hbd.
        -- apply filter_In in Hbd. apply Hf; tauto.
    + change (tsize (canon1 ((union_ids (map fst K), d) :: R ++ filter (fun z => negb (in_deme d z)) x)) <= n).
      rewrite tsize_canon1, tsize_cons. unfold tsize. rewrite map_app, sum_nat_app.
      unfold sz at 1. cbn [fst]. rewrite length_union_ids.
      pose proof (splits_sum sz _ _ _ Hs) as H1.
      pose proof (sum_filter_split sz (in_deme d) x) as H2.
      change (filter (fun bd : list nat * nat => Nat.eqb (snd bd) d) x) with (filter (in_deme d) x) in H1.
      unfold tsize, lstate, lblock in *. lia.
Qed.

Lemma linit_wfb config : wfb (length config) (sum_nat config) (linit config).
Proof.
  unfold wfb, linit. split.
  - apply Forall_forall. intros bd H. apply in_map_iff in H as [[i d] [<- H]]. cbn [fst snd].
    split; [|unfold sz; simpl; lia]. apply in_combine_r in H. apply sample_demes_lt; assumption.
  - unfold tsize. rewrite map_map.
    rewrite (sum_nat_map_ext_in _ (fun _ => 1)) by (intros; reflexivity).
    rewrite sum_nat_map_one, combine_length, seq_length. apply Nat.le_min_l.
Qed.

Lemma reach_wfb config x :
  reach (targets_of (levents1 (length config))) (linit config) x ->
  wfb (length config) (sum_nat config) x.
Proof.
  intros H. induction H as [|x y _ IH Hy]; [apply linit_wfb|].
  unfold targets_of in Hy. apply in_map_iff in Hy as [[e y'] [<- Hy]].
  eapply levents1_wfb; eauto.
Qed.

(* the same at every labelled state with at most n samples in nonempty blocks *)
Theorem lumping_all_n_states_BC :
  forall (P : params (T:=R)) (nd n : nat) (x : lstate) (t : state), wfb nd n x ->
    rate_of (transit OpsR P (pi_BC nd n x)) t =
    rsum_over (fun ey => if state_eqb (pi_BC nd n (snd ey)) t then erate OpsR P (fst ey) else 0%R)
              (levents1 nd x).
Proof. intros P nd n x t Hwf. apply lumping_bc_wf. assumption. Qed.

(* the count chain's dictionary at the projection of ANY labelled state has no repeated key *)
Theorem transit_pi_BC_nodup :
  forall (P : params (T:=R)) (nd n : nat) (x : lstate),
    NoDup (map fst (transit OpsR P (pi_BC nd n x))).
Proof. intros P nd n x. rewrite pi_BC_bcs. apply transit_bc_nodup. apply bc_counts_rect. Qed.

(* THE UNBOUNDED LUMPING THEOREM, block-counting projection [pi1 false]: every number of demes
   [length config], every number of samples [sum_nat config], every model (Kingman, Beta, Dirac)
   and every real valuation of the rates.  [transit] does not read [p_lc P]: no hypothesis on it. *)
Theorem lumping_single_locus_BC_unbounded :
  forall (P : params (T:=R)) (config : list nat) (x : lstate),
    reach (targets_of (levents1 (length config))) (linit config) x ->
  forall t : state,
    rate_of (transit OpsR P (pi1 false (length config) (sum_nat config) x)) t =
    rsum_over (fun ey => if state_eqb (pi1 false (length config) (sum_nat config) (snd ey)) t
                         then erate OpsR P (fst ey) else 0%R)
              (levents1 (length config) x).
Proof.
  intros P config x Hr t. unfold pi1. apply lumping_all_n_states_BC. apply reach_wfb; assumption.
Qed.


(* both count chains at once, in the form of the bounded theorem of LumpingProofs.v *)
Theorem lumping_single_locus_unbounded :
  forall (P : params (T:=R)) (config : list nat) (x : lstate),
    reach (targets_of (levents1 (length config))) (linit config) x ->
  forall t : state,
    rate_of (transit OpsR P (pi1 (p_lc P) (length config) (sum_nat config) x)) t =
    rsum_over (fun ey => if state_eqb (pi1 (p_lc P) (length config) (sum_nat config) (snd ey)) t
                         then erate OpsR P (fst ey) else 0%R)
              (levents1 (length config) x).
Proof.
  intros P config x Hr t. destruct (p_lc P).
  - apply lumping_single_locus_LC_unbounded; assumption.
  - apply lumping_single_locus_BC_unbounded; assumption.
Qed.

Print Assumptions transit_bc_rate.
Print Assumptions transit_pi_BC_nodup.
Print Assumptions splits_type_count.
Print Assumptions rate_bc_ways.
Print Assumptions lumping_all_n_states_BC.
Print Assumptions lumping_single_locus_BC_unbounded.
Print Assumptions lumping_single_locus_unbounded.
