From Coq Require Import ZArith QArith Qround Qminmax List Arith Bool Lia Sorted Permutation.
From PG Require Import base.Perm proofs.PermProofs model.Demography.
Import ListNotations.
Open Scope Q_scope.
Require Import Lqa.

(* Correctness of the epoch generator of model/Demography.v for demographies made only of
   discrete events (EDiscrete): the epochs tile [0, inf), every epoch carries the value
   "most recent change at or before t" (rate_at) on its whole extent, every change time > 0 is
   an epoch boundary, and the order in which events are passed is irrelevant when no two
   changes hit the same key at the same time. *)

Definition is_discrete (e : event) : Prop := match e with EDiscrete _ => True | _ => False end.
(* times strictly ascending, non-negative, at least one change time *)
Definition wf_changes (changes : list (Q * list (key * Q))) : Prop :=
  changes <> [] /\ StronglySorted Qlt (map fst changes) /\ Forall (fun t => 0 <= t) (map fst changes).
Definition wf_event (e : event) : Prop := match e with EDiscrete c => wf_changes c | _ => False end.
Definition valid_key (np : nat) (k : key) : Prop :=
  match k with KSize p => (p < np)%nat | KMig p q => (p < np)%nat /\ (q < np)%nat end.
(* all change times of all events *)
Definition all_times (events : list event) : list Q :=
  flat_map (fun e => match e with EDiscrete c => map fst c | _ => [] end) events.

Lemma wf_event_discrete : forall e, wf_event e -> is_discrete e.
Proof. intros [c| |]; simpl; auto. Qed.

(* ------------------------------------------------------------------ *)
(* Boolean comparisons on Q                                            *)
(* ------------------------------------------------------------------ *)

Lemma Qleb_true : forall x y, Qle_bool x y = true <-> x <= y.
Proof. intros. apply Qle_bool_iff. Qed.

Lemma Qleb_false : forall x y, Qle_bool x y = false <-> y < x.
Proof.
  intros x y. split; intros H.
  - apply Qnot_le_lt. intros H1. apply Qle_bool_iff in H1. congruence.
  - destruct (Qle_bool x y) eqn:E; [|reflexivity]. apply Qle_bool_iff in E. lra.
Qed.

Lemma Qeqb_true : forall x y, Qeq_bool x y = true <-> x == y.
Proof. intros. apply Qeq_bool_iff. Qed.

Lemma Qeqb_false : forall x y, Qeq_bool x y = false <-> ~ x == y.
Proof.
  intros x y. split; intros H.
  - intros H1. apply Qeq_bool_iff in H1. congruence.
  - destruct (Qeq_bool x y) eqn:E; [|reflexivity]. apply Qeq_bool_iff in E. contradiction.
Qed.

(* decide every Q comparison occurring in the goal, discarding the impossible branches *)
Ltac qcases :=
  repeat match goal with
  | |- context [Qle_bool ?a ?b] =>
      let E := fresh "E" in
      destruct (Qle_bool a b) eqn:E; [apply Qleb_true in E | apply Qleb_false in E]
  | |- context [Qeq_bool ?a ?b] =>
      let E := fresh "E" in
      destruct (Qeq_bool a b) eqn:E; [apply Qeqb_true in E | apply Qeqb_false in E]
  end; simpl; try reflexivity; try (exfalso; lra).

(* ------------------------------------------------------------------ *)
(* Generic list facts                                                  *)
(* ------------------------------------------------------------------ *)

Lemma filter_and : forall (A : Type) (f g : A -> bool) l,
    filter (fun x => f x && g x) l = filter g (filter f l).
Proof.
  intros A f g l. induction l as [|a l IH]; simpl; [reflexivity|].
  destruct (f a); simpl.
  - destruct (g a); rewrite IH; reflexivity.
  - exact IH.
Qed.

Lemma filter_nil_all : forall (A : Type) (f : A -> bool) l,
    (forall x, In x l -> f x = false) -> filter f l = [].
Proof.
  intros A f l. induction l as [|a l IH]; intros H; simpl; [reflexivity|].
  rewrite (H a (or_introl eq_refl)). apply IH. intros x Hx. apply H. right. exact Hx.
Qed.

Lemma filter_len_le : forall (A : Type) (f : A -> bool) l, (length (filter f l) <= length l)%nat.
Proof.
  intros A f l. induction l as [|a l IH]; simpl; [lia|]. destruct (f a); simpl; lia.
Qed.

Lemma filter_len_mono : forall (A : Type) (f g : A -> bool) l,
    (forall x, In x l -> f x = true -> g x = true) ->
    (length (filter f l) <= length (filter g l))%nat.
Proof.
  intros A f g l. induction l as [|a l IH]; intros H; simpl; [lia|].
  assert (IH' : (length (filter f l) <= length (filter g l))%nat).
  { apply IH. intros x Hx. apply H. right. exact Hx. }
  destruct (f a) eqn:Ef.
  - rewrite (H a (or_introl eq_refl) Ef). simpl. lia.
  - destruct (g a); simpl; lia.
Qed.

Lemma filter_len_lt : forall (A : Type) (f g : A -> bool) l a,
    (forall x, In x l -> f x = true -> g x = true) ->
    In a l -> f a = false -> g a = true ->
    (length (filter f l) < length (filter g l))%nat.
Proof.
  intros A f g l a. induction l as [|b l IH]; intros H Hin Hf Hg; simpl; [contradiction|].
  assert (Hmono : (length (filter f l) <= length (filter g l))%nat).
  { apply filter_len_mono. intros x Hx. apply H. right. exact Hx. }
  destruct Hin as [Hab | Hin].
  - subst b. rewrite Hf, Hg. simpl. lia.
  - assert (IH' : (length (filter f l) < length (filter g l))%nat).
    { apply IH; try assumption. intros x Hx. apply H. right. exact Hx. }
    destruct (f b) eqn:Ef.
    + rewrite (H b (or_introl eq_refl) Ef). simpl. lia.
    + destruct (g b); simpl; lia.
Qed.

Lemma filter_le1_eq : forall (A : Type) (f : A -> bool) l a b,
    (length (filter f l) <= 1)%nat -> In a l -> In b l -> f a = true -> f b = true -> a = b.
Proof.
  intros A f l a b Hlen Ha Hb Hfa Hfb.
  assert (Ha' : In a (filter f l)) by (apply filter_In; split; assumption).
  assert (Hb' : In b (filter f l)) by (apply filter_In; split; assumption).
  destruct (filter f l) as [|x [|y r]]; simpl in *.
  - contradiction.
  - destruct Ha' as [Ha'|[]]. destruct Hb' as [Hb'|[]]. congruence.
  - lia.
Qed.

Lemma Permutation_filter' : forall (A : Type) (f : A -> bool) l l',
    Permutation l l' -> Permutation (filter f l) (filter f l').
Proof.
  intros A f l l' HP. induction HP; simpl.
  - constructor.
  - destruct (f x); [apply perm_skip|]; assumption.
  - destruct (f x), (f y); try apply Permutation_refl. apply perm_swap.
  - eapply Permutation_trans; eassumption.
Qed.

Lemma Permutation_flat_map' : forall (A B : Type) (g : A -> list B) l l',
    Permutation l l' -> Permutation (flat_map g l) (flat_map g l').
Proof.
  intros A B g l l' HP. induction HP; simpl.
  - constructor.
  - apply Permutation_app_head. assumption.
  - rewrite !app_assoc. apply Permutation_app_tail. apply Permutation_app_comm.
  - eapply Permutation_trans; eassumption.
Qed.

(* the last element of a list, as an option *)
Definition lastopt {A : Type} (l : list A) : option A := fold_left (fun _ c => Some c) l None.

Lemma lastopt_snoc : forall (A : Type) (l : list A) c, lastopt (l ++ [c]) = Some c.
Proof. intros. unfold lastopt. rewrite fold_left_app. reflexivity. Qed.

Lemma lastopt_In : forall (A : Type) (l : list A) c, lastopt l = Some c -> In c l.
Proof.
  intros A l c. induction l as [|x l IH] using rev_ind; intros H.
  - discriminate.
  - rewrite lastopt_snoc in H. inversion H; subst. apply in_or_app. right. left. reflexivity.
Qed.

(* ------------------------------------------------------------------ *)
(* set_nth / set_key / get_key                                         *)
(* ------------------------------------------------------------------ *)

Lemma set_nth_length : forall (A : Type) (l : list A) i v, length (set_nth l i v) = length l.
Proof. intros A l. induction l as [|x l IH]; intros [|i] v; simpl; auto. Qed.

Lemma nth_set_nth_eq : forall (A : Type) (l : list A) i v d,
    (i < length l)%nat -> nth i (set_nth l i v) d = v.
Proof.
  intros A l. induction l as [|x l IH]; intros [|i] v d H; simpl in *; try lia.
  - reflexivity.
  - apply IH. lia.
Qed.

Lemma nth_set_nth_neq : forall (A : Type) (l : list A) i j v d,
    i <> j -> nth j (set_nth l i v) d = nth j l d.
Proof.
  intros A l. induction l as [|x l IH]; intros [|i] [|j] v d H; simpl; try reflexivity; try congruence.
  apply IH. congruence.
Qed.

Lemma set_row_Forall : forall np (m : list (list Q)) p q v,
    Forall (fun r => length r = np) m ->
    Forall (fun r => length r = np) (set_nth m p (set_nth (nth p m []) q v)).
Proof.
  intros np m. induction m as [|r m IH]; intros p q v HF; simpl.
  - constructor.
  - inversion HF; subst. destruct p as [|p]; simpl.
    + constructor; [apply set_nth_length | assumption].
    + constructor; [reflexivity | apply IH; assumption].
Qed.

Definition shape (np : nat) (ep : epoch) : Prop :=
  length (e_sizes ep) = np /\ length (e_mig ep) = np /\
  Forall (fun r => length r = np) (e_mig ep).

Lemma shape_set_key : forall np ep k v, shape np ep -> shape np (set_key ep k v).
Proof.
  intros np ep k v [H1 [H2 H3]]. destruct k as [p | p q]; unfold shape; simpl.
  - rewrite set_nth_length. auto.
  - rewrite set_nth_length. split; [assumption|]. split; [assumption|].
    apply set_row_Forall. assumption.
Qed.

Lemma set_key_start : forall ep k v, e_start (set_key ep k v) = e_start ep.
Proof. intros ep [p | p q] v; reflexivity. Qed.

Lemma set_key_end : forall ep k v, e_end (set_key ep k v) = e_end ep.
Proof. intros ep [p | p q] v; reflexivity. Qed.

Lemma key_eqb_eq : forall a b, key_eqb a b = true -> a = b.
Proof.
  intros [p | p q] [p' | p' q']; simpl; intros H; try discriminate.
  - apply Nat.eqb_eq in H. congruence.
  - apply andb_true_iff in H. destruct H as [H1 H2].
    apply Nat.eqb_eq in H1. apply Nat.eqb_eq in H2. congruence.
Qed.

Lemma key_eqb_refl : forall a, key_eqb a a = true.
Proof. intros [p | p q]; simpl; rewrite ?Nat.eqb_refl; reflexivity. Qed.

Lemma get_set_key : forall np ep k' v k,
    shape np ep -> valid_key np k ->
    get_key (set_key ep k' v) k = if key_eqb k' k then v else get_key ep k.
Proof.
  intros np ep k' v k [H1 [H2 H3]] Hv.
  destruct k' as [p' | p' q']; destruct k as [p | p q]; simpl in *; try reflexivity.
  - destruct (Nat.eqb p' p) eqn:E.
    + apply Nat.eqb_eq in E. subst p'. apply nth_set_nth_eq. lia.
    + apply Nat.eqb_neq in E. apply nth_set_nth_neq. exact E.
  - destruct Hv as [Hp Hq]. destruct (Nat.eqb p' p) eqn:E; simpl.
    + apply Nat.eqb_eq in E. subst p'.
      rewrite nth_set_nth_eq by lia.
      destruct (Nat.eqb q' q) eqn:E2.
      * apply Nat.eqb_eq in E2. subst q'. apply nth_set_nth_eq.
        rewrite Forall_forall in H3. rewrite (H3 (nth p (e_mig ep) [])); [exact Hq|].
        apply nth_In. lia.
      * apply Nat.eqb_neq in E2. apply nth_set_nth_neq. exact E2.
    + apply Nat.eqb_neq in E. rewrite nth_set_nth_neq by exact E. reflexivity.
Qed.

(* ------------------------------------------------------------------ *)
(* apply_event over discrete events = one fold over discrete_changes   *)
(* ------------------------------------------------------------------ *)

Notation change := (Q * (key * Q))%type (only parsing).

Definition inwin (s : Q) (e : time_inf) (t : Q) : bool := Qle_bool s t && lt_inf t e.

Definition apply1 (s : Q) (e : time_inf) (ep : epoch) (c : change) : epoch :=
  if inwin s e (fst c) then set_key ep (fst (snd c)) (snd (snd c)) else ep.

Definition apply_list (s : Q) (e : time_inf) (l : list change) (ep : epoch) : epoch :=
  fold_left (apply1 s e) l ep.

Lemma apply_list_app : forall s e l1 l2 ep,
    apply_list s e (l1 ++ l2) ep = apply_list s e l2 (apply_list s e l1 ep).
Proof. intros. unfold apply_list. apply fold_left_app. Qed.

Lemma apply_list_cons : forall s e c l ep,
    apply_list s e (c :: l) ep = apply_list s e l (apply1 s e ep c).
Proof. reflexivity. Qed.

Lemma apply1_start : forall s e ep c, e_start (apply1 s e ep c) = e_start ep.
Proof. intros. unfold apply1. destruct (inwin s e (fst c)); [apply set_key_start | reflexivity]. Qed.

Lemma apply1_end : forall s e ep c, e_end (apply1 s e ep c) = e_end ep.
Proof. intros. unfold apply1. destruct (inwin s e (fst c)); [apply set_key_end | reflexivity]. Qed.

Lemma apply1_shape : forall np s e ep c, shape np ep -> shape np (apply1 s e ep c).
Proof. intros. unfold apply1. destruct (inwin s e (fst c)); [apply shape_set_key|]; assumption. Qed.

Lemma apply_list_start : forall s e l ep, e_start (apply_list s e l ep) = e_start ep.
Proof.
  intros s e l. induction l as [|c l IH]; intros ep; [reflexivity|].
  rewrite apply_list_cons, IH. apply apply1_start.
Qed.

Lemma apply_list_end : forall s e l ep, e_end (apply_list s e l ep) = e_end ep.
Proof.
  intros s e l. induction l as [|c l IH]; intros ep; [reflexivity|].
  rewrite apply_list_cons, IH. apply apply1_end.
Qed.

Lemma apply_list_shape : forall np s e l ep, shape np ep -> shape np (apply_list s e l ep).
Proof.
  intros np s e l. induction l as [|c l IH]; intros ep H; [exact H|].
  rewrite apply_list_cons. apply IH. apply apply1_shape. exact H.
Qed.

Lemma apply_kvs : forall s e t (kvs : list (key * Q)) ep,
    (if inwin s e t then fold_left (fun ep kv => set_key ep (fst kv) (snd kv)) kvs ep else ep)
    = apply_list s e (map (fun kv => (t, kv)) kvs) ep.
Proof.
  intros s e t kvs. destruct (inwin s e t) eqn:E; induction kvs as [|kv kvs IH]; intros ep;
    simpl map; try reflexivity; rewrite apply_list_cons.
  - assert (H1 : apply1 s e ep (t, kv) = set_key ep (fst kv) (snd kv)).
    { unfold apply1. simpl. rewrite E. reflexivity. }
    rewrite H1. simpl. apply IH.
  - assert (H1 : apply1 s e ep (t, kv) = ep).
    { unfold apply1. simpl. rewrite E. reflexivity. }
    rewrite H1. apply IH.
Qed.

Definition changes_of (changes : list (Q * list (key * Q))) : list change :=
  flat_map (fun tc => map (fun kv => (fst tc, kv)) (snd tc)) changes.

Lemma apply_changes_eq : forall changes ep,
    apply_changes changes ep = apply_list (e_start ep) (e_end ep) (changes_of changes) ep.
Proof.
  intros changes. induction changes as [|tc ch IH]; intros ep; [reflexivity|].
  unfold apply_changes. simpl fold_left.
  change (fold_left _ ch ?x) with (apply_changes ch x).
  pose proof (apply_kvs (e_start ep) (e_end ep) (fst tc) (snd tc) ep) as Hk.
  unfold inwin in Hk. rewrite Hk. rewrite IH.
  rewrite apply_list_start, apply_list_end.
  unfold changes_of. simpl flat_map. rewrite apply_list_app. reflexivity.
Qed.

Lemma discrete_changes_cons : forall c evs,
    discrete_changes (EDiscrete c :: evs) = changes_of c ++ discrete_changes evs.
Proof. reflexivity. Qed.

Lemma fold_apply_eq : forall evs ep,
    Forall wf_event evs ->
    fold_left (fun ep e => apply_event e ep) evs ep
    = apply_list (e_start ep) (e_end ep) (discrete_changes evs) ep.
Proof.
  intros evs. induction evs as [|e evs IH]; intros ep Hwf; [reflexivity|].
  inversion Hwf as [|e' evs' He Hevs]; subst.
  destruct e as [c| |]; simpl in He; try contradiction.
  simpl fold_left. rewrite IH by assumption.
  rewrite apply_changes_eq. rewrite apply_list_start, apply_list_end.
  rewrite discrete_changes_cons, apply_list_app. reflexivity.
Qed.

Lemma apply_list_get : forall np s e k, valid_key np k -> forall l ep, shape np ep ->
    get_key (apply_list s e l ep) k =
    match lastopt (filter (fun c : change => key_eqb (fst (snd c)) k && inwin s e (fst c)) l) with
    | Some c => snd (snd c)
    | None => get_key ep k
    end.
Proof.
  intros np s e k Hv l. induction l as [|c l IH] using rev_ind; intros ep Hsh; [reflexivity|].
  rewrite apply_list_app, filter_app. simpl. unfold apply1.
  destruct (inwin s e (fst c)) eqn:Ew.
  - rewrite (get_set_key np) by (try apply apply_list_shape; assumption).
    destruct (key_eqb (fst (snd c)) k); simpl.
    + rewrite lastopt_snoc. reflexivity.
    + rewrite app_nil_r. apply IH. exact Hsh.
  - rewrite andb_false_r. rewrite app_nil_r. apply IH. exact Hsh.
Qed.

(* ------------------------------------------------------------------ *)
(* broadcast: the end becomes the smallest change time after the start *)
(* ------------------------------------------------------------------ *)

(* [e] is the least element of T above s (None: there is none) *)
Definition bprop (s : Q) (e : time_inf) (T : list Q) : Prop :=
  (match e with None => True | Some t => In t T /\ s < t end) /\
  (forall u, In u T -> s < u -> match e with None => False | Some t' => t' <= u end).

Lemma find_sorted : forall (f : Q -> bool) ts t,
    StronglySorted Qlt ts -> find f ts = Some t ->
    In t ts /\ f t = true /\ forall u, In u ts -> u < t -> f u = false.
Proof.
  intros f ts t HS. induction HS as [|a ts HS IH HF]; simpl; intros Hf.
  - discriminate.
  - destruct (f a) eqn:Ea.
    + inversion Hf; subst. split; [left; reflexivity|]. split; [exact Ea|].
      intros u [Hu|Hu] Hlt.
      * subst. lra.
      * rewrite Forall_forall in HF. apply HF in Hu. lra.
    + destruct (IH Hf) as [H1 [H2 H3]]. split; [right; exact H1|]. split; [exact H2|].
      intros u [Hu|Hu] Hlt; [subst; exact Ea | apply H3; assumption].
Qed.

Lemma broadcast_times_prop : forall ts ep T,
    StronglySorted Qlt ts -> 0 <= e_start ep -> bprop (e_start ep) (e_end ep) T ->
    e_start (broadcast_times ts ep) = e_start ep /\
    e_sizes (broadcast_times ts ep) = e_sizes ep /\
    e_mig (broadcast_times ts ep) = e_mig ep /\
    bprop (e_start ep) (e_end (broadcast_times ts ep)) (T ++ ts).
Proof.
  intros ts ep T HS Hs [HB1 HB2]. unfold broadcast_times.
  set (f := fun t => negb (Qle_bool t (e_start ep)) && le_inf t (e_end ep) && negb (Qle_bool t 0)).
  destruct (find f ts) as [t|] eqn:Ef.
  - simpl. repeat (split; [reflexivity|]).
    destruct (find_sorted f ts t HS Ef) as [Hin [Hft Hmin]].
    unfold f in Hft. apply andb_true_iff in Hft. destruct Hft as [Hft Hft3].
    apply andb_true_iff in Hft. destruct Hft as [Hft1 Hft2].
    apply negb_true_iff in Hft1. apply Qleb_false in Hft1.
    split.
    + split; [apply in_or_app; right; exact Hin | exact Hft1].
    + intros u Hu Hsu. apply in_app_or in Hu. destruct Hu as [Hu | Hu].
      * specialize (HB2 u Hu Hsu). destruct (e_end ep) as [t'|]; [|contradiction].
        simpl in Hft2. apply Qleb_true in Hft2. lra.
      * destruct (Qlt_le_dec u t) as [Hlt | Hle]; [|exact Hle]. exfalso.
        specialize (Hmin u Hu Hlt). unfold f in Hmin.
        assert (E1 : Qle_bool u (e_start ep) = false) by (apply Qleb_false; lra).
        assert (E3 : Qle_bool u 0 = false) by (apply Qleb_false; lra).
        assert (E2 : le_inf u (e_end ep) = true).
        { destruct (e_end ep) as [t'|]; [|reflexivity]. simpl in *.
          apply Qleb_true in Hft2. apply Qleb_true. lra. }
        rewrite E1, E2, E3 in Hmin. discriminate.
  - repeat (split; [reflexivity|]).
    pose proof (find_none f ts Ef) as Hnone.
    split.
    + destruct (e_end ep) as [t'|]; [|exact I]. destruct HB1 as [H1 H2].
      split; [apply in_or_app; left; exact H1 | exact H2].
    + intros u Hu Hsu. apply in_app_or in Hu. destruct Hu as [Hu | Hu].
      * apply HB2; assumption.
      * specialize (Hnone u Hu). unfold f in Hnone.
        assert (E1 : Qle_bool u (e_start ep) = false) by (apply Qleb_false; lra).
        assert (E3 : Qle_bool u 0 = false) by (apply Qleb_false; lra).
        rewrite E1, E3 in Hnone. simpl in Hnone. rewrite andb_true_r in Hnone.
        destruct (e_end ep) as [t'|]; simpl in Hnone; [|discriminate].
        apply Qleb_false in Hnone. lra.
Qed.

Lemma all_times_cons : forall c evs,
    all_times (EDiscrete c :: evs) = map fst c ++ all_times evs.
Proof. reflexivity. Qed.

Lemma fold_broadcast_prop : forall evs ep T,
    Forall wf_event evs -> 0 <= e_start ep -> bprop (e_start ep) (e_end ep) T ->
    let ep' := fold_left (fun ep e => broadcast e ep) evs ep in
    e_start ep' = e_start ep /\ e_sizes ep' = e_sizes ep /\ e_mig ep' = e_mig ep /\
    bprop (e_start ep) (e_end ep') (T ++ all_times evs).
Proof.
  intros evs. induction evs as [|e evs IH]; intros ep T Hwf Hs HB; cbv zeta; simpl fold_left.
  - simpl. rewrite app_nil_r. auto.
  - inversion Hwf as [|e' evs' He Hevs]; subst.
    destruct e as [c| |]; simpl in He; try contradiction.
    destruct He as [_ [Hsorted _]].
    destruct (broadcast_times_prop (map fst c) ep T Hsorted Hs HB) as [E1 [E2 [E3 HB']]].
    simpl broadcast.
    set (ep1 := broadcast_times (map fst c) ep) in *.
    assert (Hs1 : 0 <= e_start ep1) by (rewrite E1; exact Hs).
    rewrite <- E1 in HB'.
    destruct (IH ep1 (T ++ map fst c) Hevs Hs1 HB') as [F1 [F2 [F3 HB'']]].
    rewrite F1, F2, F3, E1, E2, E3. repeat (split; [reflexivity|]).
    rewrite all_times_cons, app_assoc. rewrite <- E1. exact HB''.
Qed.

(* when nothing lies strictly between s and e, the window [s, e) holds exactly the times == s *)
Lemma inwin_eq : forall s e T u, bprop s e T -> In u T -> inwin s e u = Qeq_bool u s.
Proof.
  intros s e T u [HB1 HB2] Hu. unfold inwin.
  destruct e as [t'|]; simpl.
  - destruct HB1 as [_ Hst]. specialize (HB2 u Hu).
    destruct (Qlt_le_dec s u) as [H|H].
    + specialize (HB2 H). qcases.
    + clear HB2. qcases.
  - specialize (HB2 u Hu). destruct (Qlt_le_dec s u) as [H|H].
    + destruct (HB2 H).
    + clear HB2. qcases.
Qed.

(* ------------------------------------------------------------------ *)
(* the spec: "best" fold of rate_at                                    *)
(* ------------------------------------------------------------------ *)

Definition bstep (best : option change) (c : change) : option change :=
  match best with
  | None => Some c
  | Some b => if Qle_bool (fst b) (fst c) then Some c else Some b
  end.
Definition bestf (l : list change) : option change := fold_left bstep l None.

Definition value_of (k : key) (o : option change) : Q :=
  match o with None => default_value k | Some c => snd (snd c) end.

(* rate_at on an already prepared event list *)
Definition rate_ev (evs : list event) (k : key) (t : Q) : Q :=
  value_of k (bestf (filter (fun c : change => key_eqb (fst (snd c)) k && Qle_bool (fst c) t)
                            (discrete_changes evs))).
(* the same with the changes strictly before s *)
Definition vb_ev (evs : list event) (k : key) (s : Q) : Q :=
  value_of k (bestf (filter (fun c : change => key_eqb (fst (snd c)) k && negb (Qle_bool s (fst c)))
                            (discrete_changes evs))).

Lemma rate_at_eq : forall events k t, rate_at events k t = rate_ev (prepare_events events) k t.
Proof. reflexivity. Qed.

Lemma bestf_snoc : forall l c, bestf (l ++ [c]) = bstep (bestf l) c.
Proof. intros. unfold bestf. rewrite fold_left_app. reflexivity. Qed.

Lemma bestf_None : forall l, bestf l = None -> l = [].
Proof.
  intros l. destruct l as [|c l] using rev_ind; intros H; [reflexivity|].
  rewrite bestf_snoc in H. destruct (bestf l) as [b|]; simpl in H.
  - destruct (Qle_bool (fst b) (fst c)); discriminate.
  - discriminate.
Qed.

Lemma bestf_In : forall l b, bestf l = Some b -> In b l.
Proof.
  intros l. induction l as [|c l IH] using rev_ind; intros b H.
  - discriminate.
  - rewrite bestf_snoc in H. apply in_or_app.
    destruct (bestf l) as [b0|]; simpl in H.
    + destruct (Qle_bool (fst b0) (fst c)); inversion H; subst.
      * right. left. reflexivity.
      * left. apply IH. reflexivity.
    + inversion H; subst. right. left. reflexivity.
Qed.

Lemma bestf_max : forall l b, bestf l = Some b -> forall c, In c l -> fst c <= fst b.
Proof.
  intros l. induction l as [|c l IH] using rev_ind; intros b H c0 Hc0.
  - contradiction.
  - rewrite bestf_snoc in H. apply in_app_or in Hc0.
    destruct (bestf l) as [b0|] eqn:Eb; simpl in H.
    + destruct (Qle_bool (fst b0) (fst c)) eqn:E; inversion H; subst.
      * apply Qleb_true in E. destruct Hc0 as [Hc0 | [Hc0 | []]].
        -- specialize (IH b0 eq_refl c0 Hc0). lra.
        -- subst. lra.
      * apply Qleb_false in E. destruct Hc0 as [Hc0 | [Hc0 | []]].
        -- apply (IH b eq_refl c0 Hc0).
        -- subst. lra.
    + inversion H; subst. apply bestf_None in Eb. subst l.
      destruct Hc0 as [[] | [Hc0 | []]]. subst. lra.
Qed.

(* the changes at or before s split into those == s (the last one wins) and those before s *)
Lemma best_split : forall (l : list change) s,
    bestf (filter (fun c => Qle_bool (fst c) s) l) =
    match lastopt (filter (fun c => Qeq_bool (fst c) s) l) with
    | Some c => Some c
    | None => bestf (filter (fun c => negb (Qle_bool s (fst c))) l)
    end.
Proof.
  intros l s. induction l as [|c l IH] using rev_ind; [reflexivity|].
  rewrite !filter_app. simpl.
  destruct (Q_dec (fst c) s) as [[Hlt | Hgt] | Heq].
  - assert (E1 : Qle_bool (fst c) s = true) by (apply Qleb_true; lra).
    assert (E2 : Qeq_bool (fst c) s = false) by (apply Qeqb_false; lra).
    assert (E3 : Qle_bool s (fst c) = false) by (apply Qleb_false; lra).
    rewrite E1, E2, E3. simpl. rewrite app_nil_r, !bestf_snoc, IH.
    destruct (lastopt (filter (fun c0 => Qeq_bool (fst c0) s) l)) as [c'|] eqn:EL; [|reflexivity].
    apply lastopt_In in EL. apply filter_In in EL. destruct EL as [_ EL].
    apply Qeqb_true in EL. simpl.
    assert (E4 : Qle_bool (fst c') (fst c) = false) by (apply Qleb_false; lra).
    rewrite E4. reflexivity.
  - assert (E1 : Qle_bool (fst c) s = false) by (apply Qleb_false; lra).
    assert (E2 : Qeq_bool (fst c) s = false) by (apply Qeqb_false; lra).
    assert (E3 : Qle_bool s (fst c) = true) by (apply Qleb_true; lra).
    rewrite E1, E2, E3. simpl. rewrite !app_nil_r. exact IH.
  - assert (E1 : Qle_bool (fst c) s = true) by (apply Qleb_true; lra).
    assert (E2 : Qeq_bool (fst c) s = true) by (apply Qeqb_true; lra).
    assert (E3 : Qle_bool s (fst c) = true) by (apply Qleb_true; lra).
    rewrite E1, E2, E3. simpl. rewrite app_nil_r, bestf_snoc, lastopt_snoc.
    destruct (bestf (filter (fun c0 => Qle_bool (fst c0) s) l)) as [b|] eqn:Eb; [|reflexivity].
    apply bestf_In in Eb. apply filter_In in Eb. destruct Eb as [_ Eb].
    apply Qleb_true in Eb. simpl.
    assert (E4 : Qle_bool (fst b) (fst c) = true) by (apply Qleb_true; lra).
    rewrite E4. reflexivity.
Qed.

Lemma rate_split : forall evs k s,
    rate_ev evs k s =
    match lastopt (filter (fun c : change => key_eqb (fst (snd c)) k && Qeq_bool (fst c) s)
                          (discrete_changes evs)) with
    | Some c => snd (snd c)
    | None => vb_ev evs k s
    end.
Proof.
  intros evs k s. unfold rate_ev, vb_ev.
  rewrite (filter_and _ (fun c : change => key_eqb (fst (snd c)) k) (fun c : change => Qle_bool (fst c) s)).
  rewrite (filter_and _ (fun c : change => key_eqb (fst (snd c)) k) (fun c : change => Qeq_bool (fst c) s)).
  rewrite (filter_and _ (fun c : change => key_eqb (fst (snd c)) k) (fun c : change => negb (Qle_bool s (fst c)))).
  rewrite best_split.
  destruct (lastopt _); reflexivity.
Qed.

Lemma dc_time_in : forall evs c, In c (discrete_changes evs) -> In (fst c) (all_times evs).
Proof.
  intros evs c. induction evs as [|e evs IH]; simpl; intros H; [contradiction|].
  apply in_app_or in H. apply in_or_app. destruct H as [H | H].
  - left. destruct e as [ch| |]; simpl in H; try contradiction.
    apply in_flat_map in H. destruct H as [tc [Htc H]].
    apply in_map_iff in H. destruct H as [kv [Hc _]]. subst c. simpl.
    apply in_map. exact Htc.
  - right. apply IH. exact H.
Qed.

Lemma AT_nonneg : forall evs u, Forall wf_event evs -> In u (all_times evs) -> 0 <= u.
Proof.
  intros evs u Hwf. induction Hwf as [|e evs He Hevs IH]; simpl; intros H; [contradiction|].
  apply in_app_or in H. destruct H as [H | H]; [|apply IH; exact H].
  destruct e as [c| |]; simpl in *; try contradiction.
  destruct He as [_ [_ Hnn]]. rewrite Forall_forall in Hnn. apply Hnn. exact H.
Qed.

(* the changes strictly before the end of an epoch are those at or before its start *)
Lemma vb_next : forall evs k s t',
    bprop s (Some t') (all_times evs) -> vb_ev evs k t' = rate_ev evs k s.
Proof.
  intros evs k s t' [[_ Hst] HB2]. unfold vb_ev, rate_ev. f_equal. f_equal.
  apply filter_ext_in. intros c Hc. f_equal.
  apply dc_time_in in Hc. specialize (HB2 (fst c) Hc).
  destruct (Qlt_le_dec s (fst c)) as [H|H].
  - specialize (HB2 H). qcases.
  - clear HB2. qcases.
Qed.

Lemma rate_const : forall evs k s e t,
    bprop s e (all_times evs) -> s <= t -> lt_inf t e = true ->
    rate_ev evs k t = rate_ev evs k s.
Proof.
  intros evs k s e t [_ HB2] Hst Hte. unfold rate_ev. f_equal. f_equal.
  apply filter_ext_in. intros c Hc. f_equal.
  apply dc_time_in in Hc. specialize (HB2 (fst c) Hc).
  destruct (Qlt_le_dec s (fst c)) as [H|H].
  - specialize (HB2 H). destruct e as [t'|]; [|contradiction].
    simpl in Hte. apply negb_true_iff in Hte. apply Qleb_false in Hte. qcases.
  - clear HB2. qcases.
Qed.

(* ------------------------------------------------------------------ *)
(* one step of the generator                                           *)
(* ------------------------------------------------------------------ *)

Lemma next_epoch_props : forall np evs prev s,
    Forall wf_event evs -> e_end prev = Some s -> 0 <= s -> shape np prev ->
    let ep := next_epoch evs prev in
    e_start ep = s /\ shape np ep /\ bprop s (e_end ep) (all_times evs) /\
    (forall k, valid_key np k ->
       get_key ep k =
       match lastopt (filter (fun c : change => key_eqb (fst (snd c)) k && Qeq_bool (fst c) s)
                             (discrete_changes evs)) with
       | Some c => snd (snd c)
       | None => get_key prev k
       end).
Proof.
  intros np evs prev s Hwf Hend Hs Hsh. unfold next_epoch. rewrite Hend.
  set (ep0 := mkEpoch s None (e_sizes prev) (e_mig prev)).
  assert (HB0 : bprop (e_start ep0) (e_end ep0) []).
  { split; simpl; [exact I | intros u []]. }
  destruct (fold_broadcast_prop evs ep0 [] Hwf Hs HB0) as [E1 [E2 [E3 HB]]].
  set (ep1 := fold_left (fun ep e => broadcast e ep) evs ep0) in *.
  simpl in E1, E2, E3, HB.
  rewrite fold_apply_eq by exact Hwf.
  assert (Hsh1 : shape np ep1).
  { unfold shape. rewrite E2, E3. exact Hsh. }
  cbv zeta.
  rewrite apply_list_start, apply_list_end, E1.
  split; [reflexivity|]. split; [apply apply_list_shape; exact Hsh1|].
  split; [exact HB|].
  intros k Hk. rewrite (apply_list_get np) by assumption.
  assert (Hf : filter (fun c : change => key_eqb (fst (snd c)) k && inwin s (e_end ep1) (fst c))
                      (discrete_changes evs)
               = filter (fun c : change => key_eqb (fst (snd c)) k && Qeq_bool (fst c) s)
                        (discrete_changes evs)).
  { apply filter_ext_in. intros c Hc. f_equal.
    apply (inwin_eq s (e_end ep1) (all_times evs)); [exact HB | apply dc_time_in; exact Hc]. }
  rewrite Hf.
  destruct (lastopt _); [reflexivity|].
  destruct k as [p | p q]; simpl; rewrite ?E2, ?E3; reflexivity.
Qed.

Lemma next_epoch_start : forall evs prev,
    Forall wf_event evs ->
    e_start (next_epoch evs prev) = match e_end prev with Some t => t | None => e_start prev end.
Proof.
  intros evs prev Hwf. unfold next_epoch.
  set (ep0 := mkEpoch _ None (e_sizes prev) (e_mig prev)).
  rewrite fold_apply_eq by exact Hwf. rewrite apply_list_start.
  assert (H : forall l ep, Forall wf_event l ->
               e_start (fold_left (fun ep e => broadcast e ep) l ep) = e_start ep).
  { intros l. induction l as [|e l IH]; intros ep Hl; [reflexivity|].
    inversion Hl; subst. simpl. rewrite IH by assumption.
    destruct e as [c| |]; simpl in *; try contradiction.
    unfold broadcast_times. destruct (find _ _); reflexivity. }
  rewrite H by exact Hwf. reflexivity.
Qed.

(* ------------------------------------------------------------------ *)
(* the generator loop                                                  *)
(* ------------------------------------------------------------------ *)

Lemma epochs_from_S : forall evs f prev,
    epochs_from evs (S f) prev =
    next_epoch evs prev ::
      match e_end (next_epoch evs prev) with
      | None => []
      | Some _ => epochs_from evs f (next_epoch evs prev)
      end.
Proof. reflexivity. Qed.

(* what every produced epoch satisfies *)
Definition good (np : nat) (evs : list event) (ep : epoch) : Prop :=
  0 <= e_start ep /\ shape np ep /\
  bprop (e_start ep) (e_end ep) (all_times evs) /\
  (forall k, valid_key np k -> get_key ep k = rate_ev evs k (e_start ep)).

(* number of change times still ahead of s *)
Definition msr (evs : list event) (s : Q) : nat :=
  length (filter (fun u => negb (Qle_bool u s)) (all_times evs)).

Lemma msr_decr : forall evs s t, In t (all_times evs) -> s < t -> (msr evs t < msr evs s)%nat.
Proof.
  intros evs s t Hin Hst. unfold msr. apply filter_len_lt with (a := t).
  - intros x _ Hx. apply negb_true_iff in Hx. apply Qleb_false in Hx.
    apply negb_true_iff. apply Qleb_false. lra.
  - exact Hin.
  - apply negb_false_iff. apply Qleb_true. lra.
  - apply negb_true_iff. apply Qleb_false. exact Hst.
Qed.

Lemma epochs_from_main : forall np evs, Forall wf_event evs ->
  forall fuel prev s,
    e_end prev = Some s -> 0 <= s -> shape np prev ->
    (forall k, valid_key np k -> get_key prev k = vb_ev evs k s) ->
    (msr evs s < fuel)%nat ->
    let eps := epochs_from evs fuel prev in
    (exists ep rest, eps = ep :: rest /\ e_start ep = s) /\
    (forall d, e_end (last eps d) = None) /\
    Forall (good np evs) eps /\
    (forall t, s <= t -> exists ep, find (in_epoch t) eps = Some ep).
Proof.
  intros np evs Hwf fuel. induction fuel as [|fuel IH]; intros prev s Hend Hs Hsh Hget Hfuel.
  - lia.
  - cbv zeta. rewrite epochs_from_S.
    destruct (next_epoch_props np evs prev s Hwf Hend Hs Hsh) as [Est [Hsh' [HB Hg]]].
    remember (next_epoch evs prev) as ep eqn:Hep. clear Hep.
    assert (Hgood : good np evs ep).
    { unfold good. rewrite Est. split; [exact Hs|]. split; [exact Hsh'|]. split; [exact HB|].
      intros k Hk. rewrite (Hg k Hk), rate_split, (Hget k Hk). reflexivity. }
    destruct (e_end ep) as [t'|] eqn:Ee.
    + destruct HB as [[Hin Hst] HB2].
      assert (HB : bprop s (Some t') (all_times evs)) by (split; [split|]; assumption).
      assert (Ht' : 0 <= t') by lra.
      assert (Hget' : forall k, valid_key np k -> get_key ep k = vb_ev evs k t').
      { intros k Hk. rewrite (vb_next evs k s t' HB).
        destruct Hgood as [_ [_ [_ Hgk]]]. rewrite (Hgk k Hk), Est. reflexivity. }
      assert (Hfuel' : (msr evs t' < fuel)%nat).
      { pose proof (msr_decr evs s t' Hin Hst). lia. }
      destruct (IH ep t' Ee Ht' Hsh' Hget' Hfuel') as [[ep2 [rest [Heq Est2]]] [Hlast [Hall Hfind]]].
      rewrite Heq in *.
      split; [exists ep, (ep2 :: rest); split; [reflexivity | exact Est]|].
      split; [intros d; exact (Hlast d)|].
      split; [constructor; assumption|].
      intros t Hst'. simpl find.
      destruct (Qlt_le_dec t t') as [Hlt | Hle].
      * assert (Ein : in_epoch t ep = true).
        { unfold in_epoch. rewrite Est, Ee. simpl. qcases. }
        rewrite Ein. exists ep. reflexivity.
      * assert (Ein : in_epoch t ep = false).
        { unfold in_epoch. rewrite Est, Ee. simpl. qcases. }
        rewrite Ein. apply (Hfind t Hle).
    + split; [exists ep, []; split; [reflexivity | exact Est]|].
      split; [intros d; simpl; exact Ee|].
      split; [constructor; [exact Hgood | constructor]|].
      intros t Hst'. simpl find.
      assert (Ein : in_epoch t ep = true).
      { unfold in_epoch. rewrite Est, Ee. simpl. qcases. }
      rewrite Ein. exists ep. reflexivity.
Qed.

Lemma epochs_from_chain : forall evs, Forall wf_event evs ->
  forall fuel prev i ep ep',
    nth_error (epochs_from evs fuel prev) i = Some ep ->
    nth_error (epochs_from evs fuel prev) (S i) = Some ep' ->
    e_end ep = Some (e_start ep').
Proof.
  intros evs Hwf fuel. induction fuel as [|fuel IH]; intros prev i ep ep' H1 H2.
  - destruct i; discriminate.
  - rewrite epochs_from_S in H1, H2. destruct i as [|i].
    + simpl in H1. inversion H1; subst ep. simpl in H2.
      destruct (e_end (next_epoch evs prev)) as [t|] eqn:Ee; [|discriminate].
      destruct fuel as [|fuel]; [discriminate|].
      rewrite epochs_from_S in H2. simpl in H2. inversion H2; subst ep'.
      rewrite next_epoch_start by exact Hwf. rewrite Ee. reflexivity.
    + simpl in H1, H2.
      destruct (e_end (next_epoch evs prev)) as [t|] eqn:Ee.
      * apply (IH (next_epoch evs prev) i ep ep' H1 H2).
      * destruct i; discriminate.
Qed.

(* ------------------------------------------------------------------ *)
(* prepare_events and the initial epoch                                *)
(* ------------------------------------------------------------------ *)

Lemma prepare_perm : forall events, Permutation (prepare_events events) events.
Proof.
  intros events. unfold prepare_events.
  apply Permutation_trans with (map snd (map (fun e => (event_start e, e)) events)).
  - apply Permutation_map. apply isort_perm.
  - rewrite map_map. simpl. rewrite map_id. apply Permutation_refl.
Qed.

Lemma prepare_wf : forall events, Forall wf_event events -> Forall wf_event (prepare_events events).
Proof.
  intros events H. rewrite Forall_forall in *. intros e He. apply H.
  apply (Permutation_in _ (prepare_perm events)). exact He.
Qed.

Lemma all_times_perm : forall l l', Permutation l l' -> Permutation (all_times l) (all_times l').
Proof. intros. unfold all_times. apply Permutation_flat_map'. assumption. Qed.

Lemma discrete_changes_perm : forall l l',
    Permutation l l' -> Permutation (discrete_changes l) (discrete_changes l').
Proof. intros. unfold discrete_changes. apply Permutation_flat_map'. assumption. Qed.

Lemma shape_epoch0 : forall np, shape np (epoch0 np).
Proof.
  intros np. unfold shape, epoch0. simpl. rewrite !repeat_length.
  split; [reflexivity|]. split; [reflexivity|].
  apply Forall_forall. intros r Hr. apply repeat_spec in Hr. subst r. apply repeat_length.
Qed.

Lemma get_key_epoch0 : forall np k, valid_key np k -> get_key (epoch0 np) k = default_value k.
Proof.
  intros np [p | p q] Hv; simpl in *.
  - apply (repeat_spec np 1). apply nth_In. rewrite repeat_length. exact Hv.
  - destruct Hv as [Hp Hq].
    assert (Hr : nth p (repeat (repeat 0 np) np) [] = repeat 0 np).
    { apply (repeat_spec np). apply nth_In. rewrite repeat_length. exact Hp. }
    rewrite Hr. apply (repeat_spec np 0). apply nth_In. rewrite repeat_length. exact Hq.
Qed.

Lemma vb_zero : forall evs k, Forall wf_event evs -> vb_ev evs k 0 = default_value k.
Proof.
  intros evs k Hwf. unfold vb_ev. rewrite filter_nil_all; [reflexivity|].
  intros c Hc. apply dc_time_in in Hc. apply (AT_nonneg evs _ Hwf) in Hc.
  assert (E : Qle_bool 0 (fst c) = true) by (apply Qleb_true; exact Hc).
  rewrite E. apply andb_false_r.
Qed.

Lemma epochs_master : forall np events fuel,
    Forall wf_event events -> (length (all_times events) < fuel)%nat ->
    let evs := prepare_events events in
    let eps := epochs np events fuel in
    (exists ep rest, eps = ep :: rest /\ e_start ep = 0) /\
    (forall d, e_end (last eps d) = None) /\
    Forall (good np evs) eps /\
    (forall t, 0 <= t -> exists ep, find (in_epoch t) eps = Some ep).
Proof.
  intros np events fuel Hwf Hfuel evs eps. unfold eps, epochs.
  apply (epochs_from_main np evs (prepare_wf events Hwf) fuel (epoch0 np) 0).
  - reflexivity.
  - lra.
  - apply shape_epoch0.
  - intros k Hk. rewrite vb_zero by (apply prepare_wf; exact Hwf). apply get_key_epoch0. exact Hk.
  - unfold msr.
    pose proof (filter_len_le _ (fun u => negb (Qle_bool u 0)) (all_times evs)) as H1.
    pose proof (Permutation_length (all_times_perm _ _ (prepare_perm events))) as H2.
    fold evs in H2. lia.
Qed.

(* ------------------------------------------------------------------ *)
(* The theorems                                                        *)
(* ------------------------------------------------------------------ *)

(* 1. the epochs tile [0, inf) *)
Theorem epochs_tile :
  forall np events fuel, Forall wf_event events -> (length (all_times events) < fuel)%nat ->
    let eps := epochs np events fuel in
    eps <> [] /\
    e_start (hd (epoch0 np) eps) == 0 /\
    e_end (last eps (epoch0 np)) = None /\
    (forall i ep ep', nth_error eps i = Some ep -> nth_error eps (S i) = Some ep' -> e_end ep = Some (e_start ep')) /\
    (forall ep t, In ep eps -> e_end ep = Some t -> e_start ep < t).
Proof.
  intros np events fuel Hwf Hfuel eps.
  destruct (epochs_master np events fuel Hwf Hfuel) as [[ep0 [rest [Heq Est]]] [Hlast [Hall _]]].
  fold eps in Heq, Hlast, Hall.
  split; [rewrite Heq; discriminate|].
  split; [rewrite Heq; simpl; rewrite Est; reflexivity|].
  split; [apply Hlast|].
  split.
  - intros i ep ep' H1 H2. unfold eps, epochs in H1, H2.
    apply (epochs_from_chain _ (prepare_wf events Hwf) _ _ _ _ _ H1 H2).
  - intros ep t Hin He. rewrite Forall_forall in Hall.
    destruct (Hall ep Hin) as [_ [_ [[HB1 _] _]]]. rewrite He in HB1. apply HB1.
Qed.

(* 2. every epoch carries the value of the most recent change at or before its start
      (Leibniz equality: the generator only copies values) *)
Theorem epochs_carry_spec_eq :
  forall np events fuel, Forall wf_event events -> (length (all_times events) < fuel)%nat ->
    forall ep k, In ep (epochs np events fuel) -> valid_key np k ->
      get_key ep k = rate_at events k (e_start ep).
Proof.
  intros np events fuel Hwf Hfuel ep k Hin Hk.
  destruct (epochs_master np events fuel Hwf Hfuel) as [_ [_ [Hall _]]].
  rewrite Forall_forall in Hall. destruct (Hall ep Hin) as [_ [_ [_ Hg]]].
  rewrite rate_at_eq. apply Hg. exact Hk.
Qed.

Theorem epochs_carry_spec :
  forall np events fuel, Forall wf_event events -> (length (all_times events) < fuel)%nat ->
    forall ep k, In ep (epochs np events fuel) -> valid_key np k ->
      get_key ep k == rate_at events k (e_start ep).
Proof.
  intros np events fuel Hwf Hfuel ep k Hin Hk.
  rewrite (epochs_carry_spec_eq np events fuel Hwf Hfuel ep k Hin Hk). reflexivity.
Qed.

(* no change time lies strictly inside an epoch *)
Theorem epochs_no_change_inside :
  forall np events fuel, Forall wf_event events -> (length (all_times events) < fuel)%nat ->
    forall ep u, In ep (epochs np events fuel) -> In u (all_times events) ->
      e_start ep < u -> exists t, e_end ep = Some t /\ t <= u.
Proof.
  intros np events fuel Hwf Hfuel ep u Hin Hu Hlt.
  destruct (epochs_master np events fuel Hwf Hfuel) as [_ [_ [Hall _]]].
  rewrite Forall_forall in Hall. destruct (Hall ep Hin) as [_ [_ [[_ HB2] _]]].
  assert (Hu' : In u (all_times (prepare_events events))).
  { apply (Permutation_in _ (Permutation_sym (all_times_perm _ _ (prepare_perm events)))). exact Hu. }
  specialize (HB2 u Hu' Hlt). destruct (e_end ep) as [t|]; [|contradiction].
  exists t. split; [reflexivity | exact HB2].
Qed.

Theorem epochs_constant_inside_eq :
  forall np events fuel, Forall wf_event events -> (length (all_times events) < fuel)%nat ->
    forall ep k t, In ep (epochs np events fuel) -> in_epoch t ep = true ->
      rate_at events k t = rate_at events k (e_start ep).
Proof.
  intros np events fuel Hwf Hfuel ep k t Hin Hint.
  destruct (epochs_master np events fuel Hwf Hfuel) as [_ [_ [Hall _]]].
  rewrite Forall_forall in Hall. destruct (Hall ep Hin) as [_ [_ [HB _]]].
  unfold in_epoch in Hint. apply andb_true_iff in Hint. destruct Hint as [H1 H2].
  apply Qleb_true in H1. rewrite !rate_at_eq.
  apply (rate_const _ k _ _ t HB H1 H2).
Qed.

Theorem epochs_constant_inside :
  forall np events fuel, Forall wf_event events -> (length (all_times events) < fuel)%nat ->
    forall ep k t, In ep (epochs np events fuel) -> in_epoch t ep = true ->
      rate_at events k t == rate_at events k (e_start ep).
Proof.
  intros np events fuel Hwf Hfuel ep k t Hin Hint.
  rewrite (epochs_constant_inside_eq np events fuel Hwf Hfuel ep k t Hin Hint). reflexivity.
Qed.

(* hence at EVERY time t >= 0 the epoch found by get_epoch carries rate_at events k t *)
Theorem get_epoch_spec_eq :
  forall np events fuel, Forall wf_event events -> (length (all_times events) < fuel)%nat ->
    forall t, 0 <= t ->
      exists ep, get_epoch (epochs np events fuel) t = Some ep /\
                 In ep (epochs np events fuel) /\ in_epoch t ep = true /\
                 forall k, valid_key np k -> get_key ep k = rate_at events k t.
Proof.
  intros np events fuel Hwf Hfuel t Ht.
  destruct (epochs_master np events fuel Hwf Hfuel) as [_ [_ [_ Hfind]]].
  destruct (Hfind t Ht) as [ep Hep]. exists ep. unfold get_epoch.
  split; [exact Hep|]. apply find_some in Hep. destruct Hep as [Hin Hint].
  split; [exact Hin|]. split; [exact Hint|].
  intros k Hk.
  rewrite (epochs_carry_spec_eq np events fuel Hwf Hfuel ep k Hin Hk).
  symmetry. apply (epochs_constant_inside_eq np events fuel Hwf Hfuel ep k t Hin Hint).
Qed.

Theorem get_epoch_spec :
  forall np events fuel, Forall wf_event events -> (length (all_times events) < fuel)%nat ->
    forall t k, 0 <= t -> valid_key np k ->
      exists ep, get_epoch (epochs np events fuel) t = Some ep /\ get_key ep k == rate_at events k t.
Proof.
  intros np events fuel Hwf Hfuel t k Ht Hk.
  destruct (get_epoch_spec_eq np events fuel Hwf Hfuel t Ht) as [ep [H1 [_ [_ H2]]]].
  exists ep. split; [exact H1|]. rewrite (H2 k Hk). reflexivity.
Qed.

(* 3. every specified change time > 0 is an epoch boundary *)
Theorem change_times_are_boundaries :
  forall np events fuel, Forall wf_event events -> (length (all_times events) < fuel)%nat ->
    forall t, In t (all_times events) -> 0 < t ->
      exists ep, In ep (epochs np events fuel) /\ e_start ep == t.
Proof.
  intros np events fuel Hwf Hfuel t Hin Ht.
  assert (Ht0 : 0 <= t) by lra.
  destruct (get_epoch_spec_eq np events fuel Hwf Hfuel t Ht0) as [ep [_ [Hep [Hint _]]]].
  exists ep. split; [exact Hep|].
  unfold in_epoch in Hint. apply andb_true_iff in Hint. destruct Hint as [H1 H2].
  apply Qleb_true in H1.
  destruct (Qlt_le_dec (e_start ep) t) as [Hlt | Hle]; [|lra]. exfalso.
  destruct (epochs_no_change_inside np events fuel Hwf Hfuel ep t Hep Hin Hlt) as [t' [He Hle]].
  rewrite He in H2. simpl in H2. apply negb_true_iff in H2. apply Qleb_false in H2. lra.
Qed.

(* 4. the order in which events are passed does not matter when no two events change the same
      key at the same time *)
Lemma bestf_perm_unique : forall l l',
    Permutation l l' ->
    (forall a b, In a l -> In b l -> fst a == fst b -> a = b) ->
    bestf l = bestf l'.
Proof.
  intros l l' HP Huniq.
  destruct (bestf l) as [b|] eqn:E1; destruct (bestf l') as [b'|] eqn:E2.
  - f_equal. apply Huniq.
    + apply bestf_In. exact E1.
    + apply (Permutation_in _ (Permutation_sym HP)). apply bestf_In. exact E2.
    + assert (H1 : fst b' <= fst b).
      { apply (bestf_max l b E1). apply (Permutation_in _ (Permutation_sym HP)).
        apply bestf_In. exact E2. }
      assert (H2 : fst b <= fst b').
      { apply (bestf_max l' b' E2). apply (Permutation_in _ HP). apply bestf_In. exact E1. }
      lra.
  - apply bestf_None in E2. subst l'. apply Permutation_sym, Permutation_nil in HP. subst l.
    discriminate.
  - apply bestf_None in E1. subst l. apply Permutation_nil in HP. subst l'. discriminate.
  - reflexivity.
Qed.

Theorem event_order_irrelevant_eq :
  forall ev1 ev2, Permutation ev1 ev2 ->
    (forall k t, (length (filter (fun c => key_eqb (fst (snd c)) k && Qeq_bool (fst c) t) (discrete_changes ev1)) <= 1)%nat) ->
    forall t k, rate_at ev1 k t = rate_at ev2 k t.
Proof.
  intros ev1 ev2 HP Huniq t k. rewrite !rate_at_eq. unfold rate_ev. f_equal.
  assert (HP' : Permutation (prepare_events ev1) (prepare_events ev2)).
  { apply Permutation_trans with ev1; [apply prepare_perm|].
    apply Permutation_trans with ev2; [exact HP | apply Permutation_sym, prepare_perm]. }
  apply bestf_perm_unique.
  - apply Permutation_filter'. apply discrete_changes_perm. exact HP'.
  - intros a b Ha Hb Hab.
    apply filter_In in Ha. destruct Ha as [Ha Hfa].
    apply filter_In in Hb. destruct Hb as [Hb Hfb].
    apply andb_true_iff in Hfa. destruct Hfa as [Hka _].
    apply andb_true_iff in Hfb. destruct Hfb as [Hkb _].
    pose proof (discrete_changes_perm _ _ (prepare_perm ev1)) as HPd.
    apply (filter_le1_eq _ (fun c : change => key_eqb (fst (snd c)) k && Qeq_bool (fst c) (fst a))
                         (discrete_changes ev1) a b (Huniq k (fst a))).
    + apply (Permutation_in _ HPd). exact Ha.
    + apply (Permutation_in _ HPd). exact Hb.
    + rewrite Hka. simpl. apply Qeqb_true. reflexivity.
    + rewrite Hkb. simpl. apply Qeqb_true. symmetry. exact Hab.
Qed.

Theorem event_order_irrelevant :
  forall (np : nat) ev1 ev2 fuel, Permutation ev1 ev2 -> Forall wf_event ev1 ->
    (length (all_times ev1) < fuel)%nat ->
    (* no two distinct changes (from any events) of the same key at Qeq-equal times *)
    (forall k t, (length (filter (fun c => key_eqb (fst (snd c)) k && Qeq_bool (fst c) t) (discrete_changes ev1)) <= 1)%nat) ->
    forall t k, 0 <= t -> rate_at ev1 k t == rate_at ev2 k t.
Proof.
  intros np ev1 ev2 fuel HP _ _ Huniq t k _.
  rewrite (event_order_irrelevant_eq ev1 ev2 HP Huniq t k). reflexivity.
Qed.

(* consequently the epochs themselves carry the same values whichever order the events are given in *)
Corollary epochs_order_irrelevant :
  forall np ev1 ev2 fuel, Permutation ev1 ev2 -> Forall wf_event ev1 ->
    (length (all_times ev1) < fuel)%nat ->
    (forall k t, (length (filter (fun c => key_eqb (fst (snd c)) k && Qeq_bool (fst c) t) (discrete_changes ev1)) <= 1)%nat) ->
    forall t k, 0 <= t -> valid_key np k ->
      exists ep1 ep2, get_epoch (epochs np ev1 fuel) t = Some ep1 /\
                      get_epoch (epochs np ev2 fuel) t = Some ep2 /\
                      get_key ep1 k = get_key ep2 k.
Proof.
  intros np ev1 ev2 fuel HP Hwf Hfuel Huniq t k Ht Hk.
  assert (Hwf2 : Forall wf_event ev2).
  { rewrite Forall_forall in *. intros e He. apply Hwf.
    apply (Permutation_in _ (Permutation_sym HP)). exact He. }
  assert (Hfuel2 : (length (all_times ev2) < fuel)%nat).
  { rewrite <- (Permutation_length (all_times_perm _ _ HP)). exact Hfuel. }
  destruct (get_epoch_spec_eq np ev1 fuel Hwf Hfuel t Ht) as [ep1 [H1 [_ [_ G1]]]].
  destruct (get_epoch_spec_eq np ev2 fuel Hwf2 Hfuel2 t Ht) as [ep2 [H2 [_ [_ G2]]]].
  exists ep1, ep2. split; [exact H1|]. split; [exact H2|].
  rewrite (G1 k Hk), (G2 k Hk). apply event_order_irrelevant_eq; assumption.
Qed.

(* ------------------------------------------------------------------ *)
(* A concrete demography: 2 populations, 2 events, coincident times     *)
(* ------------------------------------------------------------------ *)

Definition ex_ev1 : event :=
  EDiscrete [(0, [(KSize 0%nat, 2)]); (1, [(KSize 1%nat, 3)])].
Definition ex_ev2 : event :=
  EDiscrete [(1, [(KMig 0%nat 1%nat, 1 # 2)]); (2, [(KSize 0%nat, 5)])].
Definition ex_events : list event := [ex_ev2; ex_ev1].

Example ex_epochs :
  epochs 2 ex_events 5 =
  [ mkEpoch 0 (Some 1) [2; 1] [[0; 0]; [0; 0]];
    mkEpoch 1 (Some 2) [2; 3] [[0; 1 # 2]; [0; 0]];
    mkEpoch 2 None [5; 3] [[0; 1 # 2]; [0; 0]] ].
Proof. vm_compute. reflexivity. Qed.

Example ex_hypotheses :
  Forall wf_event ex_events /\ (length (all_times ex_events) < 5)%nat /\
  (forall k t, (length (filter (fun c => key_eqb (fst (snd c)) k && Qeq_bool (fst c) t)
                               (discrete_changes ex_events)) <= 1)%nat).
Proof.
  split; [|split].
  - repeat constructor; try discriminate; try (vm_compute; reflexivity);
      try (vm_compute; discriminate).
  - vm_compute. lia.
  - intros k t. simpl.
    destruct k as [[|[|p]] | [|p] [|[|q]]]; simpl;
      repeat match goal with |- context [Qeq_bool ?a t] => destruct (Qeq_bool a t) eqn:? end;
      simpl; try lia;
      repeat match goal with H : Qeq_bool _ _ = true |- _ => apply Qeqb_true in H end;
      exfalso; lra.
Qed.

Example ex_rate_and_order :
  rate_at ex_events (KSize 1%nat) (3 # 2) = 3 /\
  get_epoch (epochs 2 ex_events 5) (3 # 2) = Some (mkEpoch 1 (Some 2) [2; 3] [[0; 1 # 2]; [0; 0]]) /\
  epochs 2 [ex_ev1; ex_ev2] 5 = epochs 2 ex_events 5.
Proof. vm_compute. repeat split; reflexivity. Qed.

Print Assumptions epochs_tile.
Print Assumptions epochs_carry_spec.
Print Assumptions epochs_carry_spec_eq.
Print Assumptions epochs_no_change_inside.
Print Assumptions epochs_constant_inside.
Print Assumptions get_epoch_spec.
Print Assumptions get_epoch_spec_eq.
Print Assumptions change_times_are_boundaries.
Print Assumptions event_order_irrelevant.
Print Assumptions event_order_irrelevant_eq.
Print Assumptions epochs_order_irrelevant.
