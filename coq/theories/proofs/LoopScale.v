(* Time rescaling of the epoch walk of model/Loop.v: if every epoch end time is multiplied by c > 0 and the step of the rescaled
   generators over a duration c * dt is the step of the original generators over dt, then evaluating the rescaled walk at c * u
   gives what the original walk gives at u.  Generic in the monoid and the generators; no hypothesis on u. *)
From Coq Require Import QArith List Lia Lqa.
From PG Require Import base.Perm model.Loop.
Import ListNotations.

Section LoopScale.
  Variables (M V1 V2 : Type) (mul : M -> M -> M) (one : M).
  Variables (step1 : V1 -> Q -> M) (step2 : V2 -> Q -> M).
  Variable c : Q.
  Hypothesis c_pos : 0 < c.
  Variable RV : V1 -> V2 -> Prop.
  Hypothesis step_scale : forall v v' dt dt', RV v v' -> dt' == c * dt -> step2 v' dt' = step1 v dt.

  Definition REs (x : Q * V1) (y : Q * V2) : Prop := fst y == c * fst x /\ RV (snd x) (snd y).

  Lemma advance_rest_scale : forall vl1 vl2 r1 r2, RV vl1 vl2 -> Forall2 REs r1 r2 ->
    forall Qm up up' u u', up' == c * up -> u' == c * u ->
      lQ (advance_rest M V2 mul step2 vl2 Qm up' r2 u') = lQ (advance_rest M V1 mul step1 vl1 Qm up r1 u).
  Proof.
    intros vl1 vl2 r1 r2 Hv HF. induction HF as [|[e1 v1] [e2 v2] r1 r2 [He Hvv] HF IH]; intros Qm up up' u u' Hup Hu.
    - cbn [advance_rest lQ]. f_equal. apply step_scale; [exact Hv|]. rewrite Hu, Hup. ring.
    - cbn [advance_rest]. cbn [fst snd] in He, Hvv.
      destruct (Qlt_le_dec e2 u') as [H2|H2]; destruct (Qlt_le_dec e1 u) as [H1|H1].
      + rewrite (step_scale v1 v2 (e1 - up) (e2 - up') Hvv) by (rewrite He, Hup; ring).
        apply IH; [exact He|exact Hu].
      + exfalso. rewrite He, Hu in H2. apply Qmult_lt_l in H2; [|exact c_pos]. lra.
      + exfalso. rewrite He, Hu in H2. apply (Qmult_lt_l _ _ c c_pos) in H1. lra.
      + cbn [lQ]. f_equal. apply step_scale; [exact Hvv|]. rewrite Hu, Hup. ring.
  Qed.

  Theorem eval_at_scale : forall e1 e2 vl1 vl2 u u', Forall2 REs e1 e2 -> RV vl1 vl2 -> u' == c * u ->
    eval_at M V2 mul one step2 e2 vl2 u' = eval_at M V1 mul one step1 e1 vl1 u.
  Proof.
    intros e1 e2 vl1 vl2 u u' HF Hv Hu. unfold eval_at, advance, init. cbn [lQ lprev lrest].
    apply (advance_rest_scale vl1 vl2 e1 e2 Hv HF); [ring|exact Hu].
  Qed.
End LoopScale.
Print Assumptions eval_at_scale.
