(* Proofs about the bookkeeping model of phasegen/inference.py (model/Inference.v):
   selection of the best run, start points, dependence on the random stream, bounds,
   add_run(s), add_bootstrap(s), create_run. *)
From Coq Require Import QArith List Bool Lia Lqa.
From PG Require Import model.Inference.
Import ListNotations.
Open Scope Q_scope.

(* ------------------------------------------------------------------------------------------ *)
(* 1. argmin_first returns a minimal element of the list                                       *)
(* ------------------------------------------------------------------------------------------ *)

Lemma argmin_first_min : forall rs best,
  let b := argmin_first best rs in
  In b (best :: rs) /\ (forall r, In r (best :: rs) -> r_fun b <= r_fun r).
Proof.
  induction rs as [|r rest IH]; intros best; cbv zeta.
  - simpl. split; [left; reflexivity|]. intros r [<-|[]]. apply Qle_refl.
  - simpl argmin_first.
    destruct (Qlt_le_dec (r_fun r) (r_fun best)) as [Hlt|Hle].
    + destruct (IH r) as [Hin Hmin]. split.
      * destruct Hin as [E | Hin]; [right; left; exact E | right; right; exact Hin].
      * intros r' [<- | [<- | Hr']].
        -- assert (H := Hmin r (or_introl eq_refl)). lra.
        -- apply Hmin. left; reflexivity.
        -- apply Hmin. right; exact Hr'.
    + destruct (IH best) as [Hin Hmin]. split.
      * destruct Hin as [E | Hin]; [left; exact E | right; right; exact Hin].
      * intros r' [<- | [<- | Hr']].
        -- apply Hmin. left; reflexivity.
        -- assert (H := Hmin best (or_introl eq_refl)). lra.
        -- apply Hmin. right; exact Hr'.
Qed.

(* Python's min returns the FIRST minimal element: everything before it is strictly larger *)
Lemma argmin_first_first : forall rs best,
  exists pre post, best :: rs = pre ++ argmin_first best rs :: post /\
                   forall r, In r pre -> r_fun (argmin_first best rs) < r_fun r.
Proof.
  induction rs as [|r rest IH]; intros best.
  - exists [], []. split; [reflexivity | intros r []].
  - simpl argmin_first.
    destruct (Qlt_le_dec (r_fun r) (r_fun best)) as [Hlt|Hle].
    + destruct (IH r) as (pre & post & E & Hpre).
      exists (best :: pre), post. split; [simpl; rewrite E; reflexivity|].
      intros r' [<- | Hr']; [|apply Hpre; exact Hr'].
      destruct (argmin_first_min rest r) as [_ Hmin].
      assert (H := Hmin r (or_introl eq_refl)). lra.
    + destruct (IH best) as (pre & post & E & Hpre).
      destruct pre as [|p pre].
      * simpl in E. injection E as E1 E2.
        exists [], (r :: post). split; [simpl; rewrite <- E1, E2; reflexivity | intros r' []].
      * simpl in E. injection E as E1 E2. subst p.
        exists (best :: r :: pre), post. split; [simpl; do 2 f_equal; exact E2|].
        intros r' [<- | [<- | Hr']].
        -- apply Hpre. left; reflexivity.
        -- assert (H := Hpre best (or_introl eq_refl)). lra.
        -- apply Hpre. right; exact Hr'.
Qed.

(* ------------------------------------------------------------------------------------------ *)
(* Start points                                                                                *)
(* ------------------------------------------------------------------------------------------ *)

Lemma samples_length : forall bounds n us, length (fst (samples bounds n us)) = n.
Proof.
  induction n as [|n IH]; intros us; simpl; [reflexivity|].
  destruct (sample bounds us) as [x us1].
  specialize (IH us1). destruct (samples bounds n us1) as [xs us2]. simpl in *. now rewrite IH.
Qed.

Lemma start_points_length : forall inf n us, (1 <= n)%nat -> length (start_points inf n us) = n.
Proof.
  intros inf n us Hn. unfold start_points. destruct (i_x0 inf).
  - simpl. rewrite samples_length. lia.
  - apply samples_length.
Qed.

Lemma start_points_nonempty : forall inf n us, (1 <= n)%nat -> start_points inf n us <> [].
Proof.
  intros inf n us Hn E. assert (H := start_points_length inf n us Hn). rewrite E in H. simpl in H. lia.
Qed.

Lemma start_points_x0 : forall inf x0 n us, i_x0 inf = Some x0 ->
  start_points inf n us = x0 :: fst (samples (i_bounds inf) (n - 1) us).
Proof. intros inf x0 n us E. unfold start_points. now rewrite E. Qed.

(* ------------------------------------------------------------------------------------------ *)
(* 2. run                                                                                      *)
(* ------------------------------------------------------------------------------------------ *)

(* fields that run never touches *)
Lemma run_frame : forall opt inf n us,
  i_bounds (run opt inf n us) = i_bounds inf /\ i_x0 (run opt inf n us) = i_x0 inf /\
  i_bootstraps (run opt inf n us) = i_bootstraps inf.
Proof.
  intros. unfold run. destruct (map opt (start_points inf n us)); simpl; auto.
Qed.

(* general form: any non-empty list of start points *)
Theorem run_spec_gen : forall opt inf n us,
  start_points inf n us <> [] ->
  exists x0, In x0 (start_points inf n us) /\
    i_params (run opt inf n us) = Some (r_x (opt x0)) /\
    i_loss (run opt inf n us) = Some (r_fun (opt x0)) /\
    In (r_fun (opt x0)) (i_loss_runs (run opt inf n us)) /\
    (forall l, In l (i_loss_runs (run opt inf n us)) -> r_fun (opt x0) <= l) /\
    i_loss_runs (run opt inf n us) = map (fun x => r_fun (opt x)) (start_points inf n us) /\
    length (i_loss_runs (run opt inf n us)) = length (start_points inf n us).
Proof.
  intros opt inf n us Hne. unfold run.
  destruct (start_points inf n us) as [|p ps] eqn:Esp; [congruence|].
  simpl map. cbv zeta. simpl.
  destruct (argmin_first_min (map opt ps) (opt p)) as [Hin Hmin]. cbv zeta in Hin, Hmin.
  set (best := argmin_first (opt p) (map opt ps)) in *.
  assert (Hin' : In best (map opt (p :: ps))) by exact Hin.
  apply in_map_iff in Hin'. destruct Hin' as (x0 & Ex0 & Hx0).
  exists x0. rewrite Ex0. split; [exact Hx0|].
  split; [reflexivity|]. split; [reflexivity|].
  assert (Hruns : r_fun (opt p) :: map r_fun (map opt ps) = map (fun x => r_fun (opt x)) (p :: ps)).
  { simpl. now rewrite map_map. }
  split.
  { change (In (r_fun best) (map r_fun (opt p :: map opt ps))). apply in_map. exact Hin. }
  split.
  { intros l Hl. change (In l (map r_fun (opt p :: map opt ps))) in Hl.
    apply in_map_iff in Hl. destruct Hl as (r & <- & Hr). apply Hmin. exact Hr. }
  split; [exact Hruns|].
  simpl. now rewrite !map_length.
Qed.

(* the form for n_runs >= 1 (no hypothesis on the stream is needed) *)
Theorem run_spec : forall opt inf n us, (1 <= n)%nat ->
  exists x0, In x0 (start_points inf n us) /\
    i_params (run opt inf n us) = Some (r_x (opt x0)) /\
    i_loss (run opt inf n us) = Some (r_fun (opt x0)) /\
    In (r_fun (opt x0)) (i_loss_runs (run opt inf n us)) /\
    (forall l, In l (i_loss_runs (run opt inf n us)) -> r_fun (opt x0) <= l) /\
    i_loss_runs (run opt inf n us) = map (fun x => r_fun (opt x)) (start_points inf n us) /\
    length (i_loss_runs (run opt inf n us)) = length (start_points inf n us) /\
    length (i_loss_runs (run opt inf n us)) = n.
Proof.
  intros opt inf n us Hn.
  destruct (run_spec_gen opt inf n us (start_points_nonempty inf n us Hn))
    as (x0 & H1 & H2 & H3 & H4 & H5 & H6 & H7).
  exists x0. repeat (split; [assumption|]).
  rewrite H7. apply start_points_length. exact Hn.
Qed.

Section Oracle.
  Variable opt : list Q -> oresult.

  (* the reported loss is the loss at the reported parameters *)
  Section LossContract.
    Variable loss : list Q -> Q.
    Hypothesis opt_fun : forall x, r_fun (opt x) == loss (r_x (opt x)).

    Corollary run_loss_at_params : forall inf n us, (1 <= n)%nat ->
      exists p l, i_params (run opt inf n us) = Some p /\ i_loss (run opt inf n us) = Some l /\
                  l == loss p /\ In l (i_loss_runs (run opt inf n us)) /\
                  (forall l', In l' (i_loss_runs (run opt inf n us)) -> l <= l').
    Proof.
      intros inf n us Hn.
      destruct (run_spec opt inf n us Hn) as (x0 & _ & H2 & H3 & H4 & H5 & _).
      exists (r_x (opt x0)), (r_fun (opt x0)). repeat (split; [assumption|]).
      split; [apply opt_fun|]. split; assumption.
    Qed.
  End LossContract.

  Theorem run_within_bounds : forall inf n us, (1 <= n)%nat ->
    (forall x, within (i_bounds inf) (r_x (opt x)) = true) ->
    exists p, i_params (run opt inf n us) = Some p /\ within (i_bounds (run opt inf n us)) p = true.
  Proof.
    intros inf n us Hn Hopt.
    destruct (run_spec opt inf n us Hn) as (x0 & _ & H2 & _).
    exists (r_x (opt x0)). split; [exact H2|].
    destruct (run_frame opt inf n us) as [-> _]. apply Hopt.
  Qed.
End Oracle.

(* ------------------------------------------------------------------------------------------ *)
(* 3. the random stream is used only through its first n_runs * length bounds elements        *)
(* ------------------------------------------------------------------------------------------ *)

Lemma firstn_cons_eq : forall (A : Type) k (a b : A) l l',
  firstn (S k) (a :: l) = firstn (S k) (b :: l') -> a = b /\ firstn k l = firstn k l'.
Proof. intros A k a b l l' H. simpl in H. now injection H. Qed.

Lemma firstn_eq_le : forall (A : Type) k k' (l l' : list A), (k <= k')%nat ->
  firstn k' l = firstn k' l' -> firstn k l = firstn k l'.
Proof.
  intros A k k' l l' Hk H.
  rewrite <- (Nat.min_l k k' Hk), <- !firstn_firstn, H. reflexivity.
Qed.

Lemma sample_prefix : forall bounds m us us',
  firstn (length bounds + m) us = firstn (length bounds + m) us' ->
  fst (sample bounds us) = fst (sample bounds us') /\
  firstn m (snd (sample bounds us)) = firstn m (snd (sample bounds us')).
Proof.
  induction bounds as [|[lo hi] rest IH]; intros m us us' H.
  - simpl in *. destruct us, us'; simpl; auto.
  - simpl length in H. simpl plus in H.
    destruct us as [|u us1], us' as [|u' us1'].
    + simpl. auto.
    + simpl in H. discriminate.
    + simpl in H. discriminate.
    + apply firstn_cons_eq in H. destruct H as [<- H].
      destruct (IH m us1 us1' H) as [E1 E2].
      simpl. destruct (sample rest us1) as [xs r1], (sample rest us1') as [xs' r1'].
      simpl in *. now rewrite E1.
Qed.

Lemma samples_prefix : forall bounds n m us us',
  firstn (n * length bounds + m) us = firstn (n * length bounds + m) us' ->
  fst (samples bounds n us) = fst (samples bounds n us') /\
  firstn m (snd (samples bounds n us)) = firstn m (snd (samples bounds n us')).
Proof.
  induction n as [|n IH]; intros m us us' H.
  - simpl in *. auto.
  - replace (S n * length bounds + m)%nat with (length bounds + (n * length bounds + m))%nat in H by lia.
    destruct (sample_prefix bounds _ us us' H) as [E1 E2].
    simpl. destruct (sample bounds us) as [x r1], (sample bounds us') as [x' r1']. simpl in E1, E2.
    destruct (IH m r1 r1' E2) as [E3 E4].
    destruct (samples bounds n r1) as [xs r2], (samples bounds n r1') as [xs' r2']. simpl in *.
    now rewrite E1, E3.
Qed.

Lemma start_points_prefix : forall inf n us us',
  firstn (n * length (i_bounds inf)) us = firstn (n * length (i_bounds inf)) us' ->
  start_points inf n us = start_points inf n us'.
Proof.
  intros inf n us us' H. unfold start_points. destruct (i_x0 inf).
  - f_equal.
    apply (samples_prefix (i_bounds inf) (n - 1) 0). rewrite Nat.add_0_r.
    apply firstn_eq_le with (k' := (n * length (i_bounds inf))%nat); [|exact H].
    apply Nat.mul_le_mono_r. lia.
  - apply (samples_prefix (i_bounds inf) n 0). rewrite Nat.add_0_r. exact H.
Qed.

(* no length hypothesis on the streams is needed *)
Theorem run_reproducible : forall opt inf n us us',
  firstn (n * length (i_bounds inf)) us = firstn (n * length (i_bounds inf)) us' ->
  run opt inf n us = run opt inf n us'.
Proof.
  intros opt inf n us us' H. unfold run. now rewrite (start_points_prefix inf n us us' H).
Qed.

(* ------------------------------------------------------------------------------------------ *)
(* 4. sampled start points lie within the bounds                                               *)
(* ------------------------------------------------------------------------------------------ *)

Lemma within_nil : within [] [] = true.
Proof. reflexivity. Qed.

Lemma within_cons : forall b bs x xs,
  within (b :: bs) (x :: xs) = (Qle_bool (fst b) x && Qle_bool x (snd b)) && within bs xs.
Proof.
  intros. unfold within. simpl.
  destruct (Nat.eqb (length bs) (length xs)), (Qle_bool (fst b) x), (Qle_bool x (snd b)); reflexivity.
Qed.

Lemma within_length : forall bounds x, within bounds x = true -> length x = length bounds.
Proof.
  intros bounds x H. unfold within in H. apply andb_true_iff in H. destruct H as [H _].
  apply Nat.eqb_eq in H. now symmetry.
Qed.

Theorem sample_within : forall bounds us,
  (length bounds <= length us)%nat ->
  Forall (fun u => 0 <= u /\ u < 1) us ->
  Forall (fun b => fst b <= snd b) bounds ->
  within bounds (fst (sample bounds us)) = true.
Proof.
  induction bounds as [|[lo hi] rest IH]; intros us Hlen Hus Hb.
  - destruct us; reflexivity.
  - destruct us as [|u us1]; [simpl in Hlen; lia|].
    simpl in Hlen. inversion Hus as [|? ? [Hu0 Hu1] Hus1]; subst.
    inversion Hb as [|? ? Hlohi Hrest]; subst. simpl in Hlohi.
    assert (IH' := IH us1 ltac:(lia) Hus1 Hrest).
    simpl. destruct (sample rest us1) as [xs r1]. simpl in *.
    rewrite within_cons, IH'. simpl.
    assert (P1 : 0 <= u * (hi - lo)) by (apply Qmult_le_0_compat; lra).
    assert (P2 : 0 <= (1 - u) * (hi - lo)) by (apply Qmult_le_0_compat; lra).
    assert (L1 : lo <= lo + u * (hi - lo)) by lra.
    assert (L2 : lo + u * (hi - lo) <= hi) by lra.
    apply Qle_bool_iff in L1. apply Qle_bool_iff in L2. rewrite L1, L2. reflexivity.
Qed.

(* every sampled start point of a run without explicit x0 is within the bounds *)
Lemma samples_within : forall bounds n us,
  (n * length bounds <= length us)%nat ->
  Forall (fun u => 0 <= u /\ u < 1) us ->
  Forall (fun b => fst b <= snd b) bounds ->
  Forall (fun x => within bounds x = true) (fst (samples bounds n us)).
Proof.
  intros bounds n. induction n as [|n IH]; intros us Hlen Hus Hb; simpl; [constructor|].
  assert (Hs := sample_within bounds us ltac:(lia) Hus Hb).
  assert (Hrest : (n * length bounds <= length (snd (sample bounds us)))%nat /\
                  Forall (fun u => 0 <= u /\ u < 1) (snd (sample bounds us))).
  { clear IH Hs Hb. assert (Hl : (length bounds <= length us)%nat) by (simpl in Hlen; lia).
    assert (G : length (snd (sample bounds us)) = (length us - length bounds)%nat /\
                Forall (fun u => 0 <= u /\ u < 1) (snd (sample bounds us))).
    { clear Hlen. revert us Hl Hus. induction bounds as [|[lo hi] rest IHb]; intros us Hl Hus.
      - destruct us; simpl; split; auto.
      - destruct us as [|u us1]; [simpl in Hl; lia|]. simpl in Hl.
        inversion Hus; subst.
        destruct (IHb us1 ltac:(lia) H2) as [E1 E2].
        simpl. destruct (sample rest us1) as [xs r1]. simpl in *. split; auto. }
    destruct G as [G1 G2]. split; [|exact G2]. rewrite G1. simpl in Hlen. lia. }
  destruct Hrest as [R1 R2].
  destruct (sample bounds us) as [x r1]. simpl in *.
  specialize (IH r1 R1 R2 Hb).
  destruct (samples bounds n r1) as [xs r2]. simpl in *. constructor; assumption.
Qed.

(* ------------------------------------------------------------------------------------------ *)
(* 5. add_run / add_runs                                                                       *)
(* ------------------------------------------------------------------------------------------ *)

Theorem add_run_fails_iff : forall self other, add_run self other = None <-> i_loss other = None.
Proof.
  intros self other. unfold add_run. destruct (i_loss other); split; intro H; try discriminate; reflexivity.
Qed.

Theorem add_run_keeps_lower : forall self other s' lo,
  add_run self other = Some s' -> i_loss other = Some lo ->
  i_loss s' = Some (match i_loss self with
                    | None => lo
                    | Some ls => if Qlt_le_dec lo ls then lo else ls
                    end) /\
  i_params s' = (match i_loss self with
                 | None => i_params other
                 | Some ls => if Qlt_le_dec lo ls then i_params other else i_params self
                 end) /\
  i_loss_runs s' = i_loss_runs self ++ i_loss_runs other /\
  i_bounds s' = i_bounds self /\ i_x0 s' = i_x0 self /\ i_bootstraps s' = i_bootstraps self.
Proof.
  intros self other s' lo H Hlo. unfold add_run in H. rewrite Hlo in H.
  injection H as <-. simpl.
  destruct (i_loss self) as [ls|]; [destruct (Qlt_le_dec lo ls)|]; auto 10.
Qed.

(* the new loss is one of the two and not larger than either *)
Lemma add_run_loss_min : forall self other s',
  add_run self other = Some s' ->
  exists l, i_loss s' = Some l /\ (Some l = i_loss self \/ Some l = i_loss other) /\
            (forall ls, i_loss self = Some ls -> l <= ls) /\
            (forall lo, i_loss other = Some lo -> l <= lo).
Proof.
  intros self other s' H.
  destruct (i_loss other) as [lo|] eqn:Hlo; [|apply (proj2 (add_run_fails_iff self other)) in Hlo; congruence].
  destruct (add_run_keeps_lower self other s' lo H Hlo) as [E _].
  destruct (i_loss self) as [ls|].
  - destruct (Qlt_le_dec lo ls) as [Hlt|Hle].
    + exists lo. split; [exact E|]. split; [right; reflexivity|].
      split; intros x Hx; injection Hx as <-; lra.
    + exists ls. split; [exact E|]. split; [left; reflexivity|].
      split; intros x Hx; injection Hx as <-; lra.
  - exists lo. split; [exact E|]. split; [right; reflexivity|].
    split; intros x Hx; [discriminate | injection Hx as <-; lra].
Qed.

(* add_runs succeeds exactly when every other object has run *)
Theorem add_runs_some_iff : forall others self,
  (exists s', add_runs self others = Some s') <-> Forall (fun o => i_loss o <> None) others.
Proof.
  induction others as [|o rest IH]; intros self; simpl.
  - split; [constructor | eauto].
  - destruct (add_run self o) as [s1|] eqn:E.
    + rewrite IH. split.
      * intros H. constructor; [|exact H]. intro Hn. apply (proj2 (add_run_fails_iff self o)) in Hn. congruence.
      * intros H. now inversion H.
    + split; [intros [s' H]; discriminate|].
      intros H. inversion H as [|? ? Ho _]; subst. apply (proj1 (add_run_fails_iff self o)) in E. contradiction.
Qed.

Theorem add_runs_loss_runs : forall others self s',
  add_runs self others = Some s' ->
  i_loss_runs s' = i_loss_runs self ++ concat (map i_loss_runs others) /\
  i_bounds s' = i_bounds self /\ i_x0 s' = i_x0 self /\ i_bootstraps s' = i_bootstraps self.
Proof.
  induction others as [|o rest IH]; intros self s' H; simpl in H.
  - injection H as <-. simpl. rewrite app_nil_r. auto.
  - destruct (add_run self o) as [s1|] eqn:E; [|discriminate].
    destruct (i_loss o) as [lo|] eqn:Hlo; [|apply (proj2 (add_run_fails_iff self o)) in Hlo; congruence].
    destruct (add_run_keeps_lower self o s1 lo E Hlo) as (_ & _ & E3 & E4 & E5 & E6).
    destruct (IH s1 s' H) as (F1 & F2 & F3 & F4).
    simpl. rewrite F1, E3, app_assoc. repeat split; congruence.
Qed.

Theorem add_runs_loss : forall others self s',
  add_runs self others = Some s' ->
  (i_loss self <> None \/ others <> []) ->
  exists l, i_loss s' = Some l /\
            In (Some l) (i_loss self :: map i_loss others) /\
            (forall l', In (Some l') (i_loss self :: map i_loss others) -> l <= l').
Proof.
  induction others as [|o rest IH]; intros self s' H Hne; simpl in H.
  - injection H as <-. destruct Hne as [Hne|Hne]; [|congruence].
    destruct (i_loss self) as [ls|]; [|congruence].
    exists ls. split; [reflexivity|]. split; [left; reflexivity|].
    intros l' [E|[]]. injection E as <-. lra.
  - destruct (add_run self o) as [s1|] eqn:E; [|discriminate].
    destruct (add_run_loss_min self o s1 E) as (l1 & E1 & Hor & Hls & Hlo).
    destruct (IH s1 s' H) as (l & F1 & F2 & F3); [left; congruence|].
    exists l. split; [exact F1|].
    assert (Hl1 : l <= l1) by (apply F3; left; now rewrite E1).
    split.
    + simpl in F2. destruct F2 as [F2|F2].
      * rewrite E1 in F2. injection F2 as ->.
        destruct Hor as [Hor|Hor]; [left; now symmetry | right; left; now symmetry].
      * right; right; exact F2.
    + intros l' [Hl'|[Hl'|Hl']].
      * assert (Hx := Hls l' Hl'). lra.
      * assert (Hx := Hlo l' Hl'). lra.
      * apply F3. right. exact Hl'.
Qed.

(* with nothing to add to an object that has not run, nothing changes *)
Lemma add_runs_nil : forall self, add_runs self [] = Some self.
Proof. reflexivity. Qed.

(* ------------------------------------------------------------------------------------------ *)
(* 6. add_bootstrap adds exactly one row                                                       *)
(* ------------------------------------------------------------------------------------------ *)

Theorem add_bootstrap_one_row : forall self other s',
  add_bootstrap self other = Some s' ->
  length (i_bootstraps s') = S (length (i_bootstraps self)) /\
  i_loss s' = i_loss self /\ i_params s' = i_params self /\
  i_loss_runs s' = i_loss_runs self /\
  exists p, i_params other = Some p /\ i_bootstraps s' = i_bootstraps self ++ [p].
Proof.
  intros self other s' H. unfold add_bootstrap in H.
  destruct (i_loss other); [|discriminate]. destruct (i_params other) as [p|]; [|discriminate].
  injection H as <-. simpl. rewrite app_length. simpl.
  repeat split; try reflexivity; try lia. exists p. split; reflexivity.
Qed.

Theorem add_bootstrap_fails_iff : forall self other,
  add_bootstrap self other = None <-> (i_loss other = None \/ i_params other = None).
Proof.
  intros self other. unfold add_bootstrap.
  destruct (i_loss other), (i_params other); split; intro H; try discriminate; auto;
    destruct H; discriminate.
Qed.

(* add_bootstraps of the Python code: one add_bootstrap per object *)
Fixpoint add_bootstraps (self : inference) (others : list inference) : option inference :=
  match others with
  | [] => Some self
  | o :: rest => match add_bootstrap self o with Some s' => add_bootstraps s' rest | None => None end
  end.

Theorem add_bootstraps_k_rows : forall others self s',
  add_bootstraps self others = Some s' ->
  (exists rows, i_bootstraps s' = i_bootstraps self ++ rows /\ map Some rows = map i_params others) /\
  length (i_bootstraps s') = (length (i_bootstraps self) + length others)%nat /\
  i_loss s' = i_loss self /\ i_params s' = i_params self /\ i_loss_runs s' = i_loss_runs self.
Proof.
  induction others as [|o rest IH]; intros self s' H; simpl in H.
  - injection H as <-. simpl. rewrite Nat.add_0_r. split; [|auto].
    exists []. now rewrite app_nil_r.
  - destruct (add_bootstrap self o) as [s1|] eqn:E; [|discriminate].
    destruct (add_bootstrap_one_row self o s1 E) as (A1 & A2 & A3 & A4 & p & A5 & A6).
    destruct (IH s1 s' H) as ((rows & B0 & B0') & B1 & B2 & B3 & B4).
    split.
    { exists (p :: rows). split.
      - rewrite B0, A6, <- app_assoc. reflexivity.
      - simpl. now rewrite A5, B0'. }
    split; [rewrite B1, A1; simpl; lia|].
    split; [congruence|]. split; congruence.
Qed.

(* add_bootstrap_params folded over k parameter vectors appends exactly those k rows *)
Theorem add_bootstrap_params_fold : forall ps self,
  i_bootstraps (fold_left add_bootstrap_params ps self) = i_bootstraps self ++ ps /\
  length (i_bootstraps (fold_left add_bootstrap_params ps self)) = (length (i_bootstraps self) + length ps)%nat.
Proof.
  induction ps as [|p ps IH]; intros self; simpl.
  - rewrite app_nil_r. auto.
  - destruct (IH (add_bootstrap_params self p)) as [E1 E2]. simpl in *.
    rewrite E1, <- app_assoc. split; [reflexivity|]. rewrite !app_length. simpl. lia.
Qed.

(* ------------------------------------------------------------------------------------------ *)
(* 7. create_run                                                                               *)
(* ------------------------------------------------------------------------------------------ *)

Theorem create_run_uses_x0 : forall self x0 r,
  create_run self x0 = Some r ->
  i_x0 r = Some x0 /\ within (i_bounds self) x0 = true /\ i_bounds r = i_bounds self /\
  (forall n us, hd [] (start_points r n us) = x0) /\
  (forall n us, exists rest, start_points r n us = x0 :: rest /\ length rest = (n - 1)%nat).
Proof.
  intros self x0 r H. unfold create_run in H.
  destruct (within (i_bounds self) x0) eqn:W; [|discriminate].
  injection H as <-. simpl. repeat split.
  intros n us. unfold start_points. simpl. eexists. split; [reflexivity|]. apply samples_length.
Qed.

Theorem create_run_rejects_out_of_bounds : forall self x0,
  within (i_bounds self) x0 = false -> create_run self x0 = None.
Proof. intros self x0 H. unfold create_run. now rewrite H. Qed.

Theorem create_run_some_iff : forall self x0,
  (exists r, create_run self x0 = Some r) <-> within (i_bounds self) x0 = true.
Proof.
  intros self x0. unfold create_run. destruct (within (i_bounds self) x0); split; eauto.
  - intros [r H]; discriminate.
  - discriminate.
Qed.

(* the first optimiser call of a run created by create_run starts from x0 *)
Corollary create_run_first_call : forall opt self x0 r n us,
  create_run self x0 = Some r ->
  hd 0 (i_loss_runs (run opt r n us)) = r_fun (opt x0).
Proof.
  intros opt self x0 r n us H.
  destruct (create_run_uses_x0 self x0 r H) as (_ & _ & _ & _ & Hsp).
  destruct (Hsp n us) as (rest & E & _).
  unfold run. rewrite E. reflexivity.
Qed.

(* ------------------------------------------------------------------------------------------ *)
(* Concrete instances: the hypotheses are satisfiable                                          *)
(* ------------------------------------------------------------------------------------------ *)

Definition sumsq (x : list Q) : Q := fold_right (fun a s => a * a + s) 0 x.
Definition ex_opt (x : list Q) : oresult := mkRes x (sumsq x) true.
Definition ex_inf : inference := mkInf [(-1, 1); (0, 2)] None None None [] [].
Definition ex_us : list Q := [1#2; 1#4; 3#4; 1#2; 1#4; 3#4; 9#10].

(* start points (0, 1/2), (1/2, 1), (-1/2, 3/2): losses 1/4, 5/4, 5/2; the best is the first *)
Example ex_run :
  let r := run ex_opt ex_inf 3 ex_us in
  length (start_points ex_inf 3 ex_us) = 3%nat /\
  map Qred (i_loss_runs r) = [1#4; 5#4; 5#2] /\
  option_map Qred (i_loss r) = Some (1#4) /\
  option_map (map Qred) (i_params r) = Some [0; 1#2] /\
  (match i_params r with Some p => within (i_bounds r) p | None => false end) = true.
Proof. vm_compute. repeat split. Qed.

(* the contract of run_loss_at_params holds for this oracle *)
Example ex_opt_contract : forall x, r_fun (ex_opt x) == sumsq (r_x (ex_opt x)).
Proof. intros x. reflexivity. Qed.

Definition ex_r1 := run ex_opt ex_inf 3 ex_us.
Definition ex_r2 := run ex_opt ex_inf 2 [1#2; 0; 3#4; 1#2].
Definition ex_r3 := run ex_opt ex_inf 1 [3#4; 1#2].

(* an add_runs chain: losses are concatenated, the lowest loss (0, from the second object) is kept *)
Example ex_add_runs :
  match add_runs ex_inf [ex_r1; ex_r2; ex_r3] with
  | Some s => map Qred (i_loss_runs s) = [1#4; 5#4; 5#2; 0; 5#4; 5#4] /\
              option_map Qred (i_loss s) = Some 0 /\
              option_map (map Qred) (i_params s) = Some [0; 0]
  | None => False
  end /\
  add_runs ex_inf [ex_r1; ex_inf] = None /\
  (match create_run ex_r1 [1#2; 1] with Some r => hd [] (start_points r 2 ex_us) = [1#2; 1] | None => False end) /\
  create_run ex_r1 [1#2; 3] = None /\
  option_map (fun s => length (i_bootstraps s)) (add_bootstraps ex_r1 [ex_r2; ex_r3]) = Some 2%nat.
Proof. vm_compute. repeat split. Qed.

Print Assumptions argmin_first_min.
Print Assumptions argmin_first_first.
Print Assumptions start_points_length.
Print Assumptions run_spec_gen.
Print Assumptions run_spec.
Print Assumptions run_loss_at_params.
Print Assumptions run_within_bounds.
Print Assumptions run_reproducible.
Print Assumptions sample_within.
Print Assumptions samples_within.
Print Assumptions add_run_fails_iff.
Print Assumptions add_run_keeps_lower.
Print Assumptions add_run_loss_min.
Print Assumptions add_runs_some_iff.
Print Assumptions add_runs_loss_runs.
Print Assumptions add_runs_loss.
Print Assumptions add_bootstrap_one_row.
Print Assumptions add_bootstrap_fails_iff.
Print Assumptions add_bootstraps_k_rows.
Print Assumptions add_bootstrap_params_fold.
Print Assumptions create_run_uses_x0.
Print Assumptions create_run_rejects_out_of_bounds.
Print Assumptions create_run_some_iff.
Print Assumptions create_run_first_call.
Print Assumptions ex_run.
Print Assumptions ex_add_runs.
