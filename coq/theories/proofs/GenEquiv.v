(* Equivalence of the GENERATED translation of phasegen/coalescent_models.py
   (gen/CoalModelsGen.v, regenerated from the Python source by /verif/translate/py2coq.py on every
   run of C14) with the hand-written model model/CoalModels.v and the guards of model/Validate.v.

   A change of a rate formula, guard or stored attribute in the Python file changes the generated
   definitions and makes the corresponding theorem below fail to check.

   External functions: the generated code is parametric in SP : special T (gen/Special.v).
     - binom.pmf and comb(exact=True) are instantiated by the model's own closed forms
       (model_special), so the Kingman / Dirac theorems hold for EVERY operations record;
     - scipy.special.beta enters the Beta-coalescent theorems (Section BetaR) through premises that
       are the classical facts about Euler's Beta function; they are the mathematical contract of
       scipy.special.beta and are not proved here (the development has no real Beta function);
     - float ** float is Rpower in the time-scale theorem.
   Preconditions that are really needed (see each theorem): equal lengths of the block lists b and k
   (the source indexes k by the positions of b), and k <> 1 / 2 <= k for the Beta base rate (the
   product form of the model is the Beta-function quotient only for 2 <= k <= b). *)
From Coq Require Import ZArith QArith Reals List Arith Bool Lia Lra Psatz.
From PG Require Import base.Ops base.OpsR model.CoalModels model.Validate
                       proofs.RatesProofs proofs.TimescaleProofs gen.Special gen.CoalModelsGen.
Import ListNotations.
Local Open Scope nat_scope.

(* ------------------------------------------------------------------ *)
(* constructor guards (over Q, the number type of model/Validate.v)    *)
(* ------------------------------------------------------------------ *)
Lemma Qle_bool_ext (x y x' y' : Q) : (x <= y <-> x' <= y')%Q -> Qle_bool x y = Qle_bool x' y'.
Proof. intros H. apply eq_true_iff_eq. rewrite !Qle_bool_iff. exact H. Qed.

Theorem gen_beta_init_guard_eq : forall (alpha : Q) (st : bool),
  outcome (RBetaAlpha alpha) = if BetaCoalescent_init_raises alpha st then ValueErr else Ok.
Proof.
  intros alpha st. unfold outcome, BetaCoalescent_init_raises, lt0, Qltb.
  rewrite (Qle_bool_ext 0 (alpha - 1) (1 # 1) alpha) by (split; intros; lra).
  rewrite (Qle_bool_ext 0 (2 - alpha) alpha (2 # 1)) by (split; intros; lra).
  reflexivity.
Qed.

Theorem gen_dirac_init_guard_eq : forall (psi c : Q) (st : bool),
  outcome (RDiracPsi psi) = if DiracCoalescent_init_raises psi c st then ValueErr else Ok.
Proof.
  intros psi c st. unfold outcome, DiracCoalescent_init_raises, le0, Qltb.
  rewrite (Qle_bool_ext (1 - psi) 0 (1 # 1) psi) by (split; intros; lra).
  change (0 # 1)%Q with 0%Q.
  destruct (Qle_bool psi 0), (Qle_bool (1 # 1) psi); reflexivity.
Qed.

(* ------------------------------------------------------------------ *)
(* every operations record                                             *)
(* ------------------------------------------------------------------ *)
Lemma map_nth_combine {A : Type} (g : nat -> nat -> A) : forall b k : list nat, length b = length k ->
  map (fun i => g (nth i b 0) (nth i k 0)) (seq 0 (length k)) = map (fun bk => g (fst bk) (snd bk)) (combine b k).
Proof.
  induction b as [|b0 b IH]; intros [|k0 k] H; simpl in H; try discriminate; [reflexivity|].
  simpl. f_equal. rewrite <- seq_shift, map_map. simpl. apply IH. lia.
Qed.

Section Generic.
  Context {T : Type} (OP : Ops T) (B rp : T -> T -> T).
  Local Notation SP := (model_special OP B rp).

  (* CoalescentModel.get_rate, with the abstract _get_rate instantiated by the model's *)
  Theorem gen_get_rate_eq : forall (m : cmodel) (s1 s2 : nat),
    CoalescentModel_get_rate OP (get_rate_bk OP m) s1 s2 = get_rate OP m s1 s2.
  Proof. reflexivity. Qed.

  Theorem gen_standard_timescale_eq : forall (bs : T -> T -> T) (N : T),
    StandardCoalescent_get_timescale N = timescale OP bs Kingman N.
  Proof. reflexivity. Qed.

  Theorem gen_standard_rate_eq : forall b k : nat,
    StandardCoalescent_get_rate OP b k = kingman_rate OP b k.
  Proof.
    intros b k. unfold StandardCoalescent_get_rate, kingman_rate.
    destruct (Nat.eqb k 2); [|reflexivity].
    f_equal. unfold oofN. f_equal.
    destruct b as [|b']; [reflexivity|]. rewrite Nat2Z.inj_mul. lia.
  Qed.

  (* the source reads k[0], k[1] at the positions of b: lists of equal length *)
  Theorem gen_standard_rate_bc_eq : forall (n : nat) (b k : list nat), length b = length k ->
    StandardCoalescent_get_rate_block_counting OP n b k = kingman_rate_bc OP b k.
  Proof.
    intros n b k H. unfold StandardCoalescent_get_rate_block_counting, kingman_rate_bc.
    destruct b as [|b0 [|b1 [|b2 b]]]; destruct k as [|k0 [|k1 [|k2 k]]]; simpl in H; try discriminate.
    - reflexivity.
    - simpl. apply gen_standard_rate_eq.
    - simpl. destruct k0 as [|[|k0]]; destruct k1 as [|[|k1]]; reflexivity.
    - reflexivity.
  Qed.

  Theorem gen_dirac_rate_eq : forall (psi c : T) (st : bool) (b k : nat),
    DiracCoalescent_get_rate OP SP psi c st b k = get_rate_bk OP (Dirac psi c st) b k.
  Proof.
    intros. unfold DiracCoalescent_get_rate, get_rate_bk. cbn [sp_binom_pmf model_special].
    rewrite gen_standard_rate_eq. reflexivity.
  Qed.

  Theorem gen_dirac_rate_bc_eq : forall (psi c : T) (st : bool) (n : nat) (b k : list nat),
    length b = length k ->
    DiracCoalescent_get_rate_block_counting OP SP psi c st n b k = get_rate_bc OP (Dirac psi c st) n b k.
  Proof.
    intros psi c st n b k H. unfold DiracCoalescent_get_rate_block_counting, get_rate_bc.
    cbn [sp_binom_pmf model_special].
    rewrite gen_standard_rate_bc_eq by exact H.
    try rewrite (map_nth_combine (fun bi ki => binom_pmf OP psi bi ki) b k H).   (* range(len(k)) or zip(b, k) *)
    reflexivity.
  Qed.

  (* the attributes stored by the constructors are the fields of the model's constructors *)
  Theorem gen_beta_init_fields_eq : forall (alpha : T) (st : bool),
    let '(st', alpha') := BetaCoalescent_init_fields alpha st in Beta alpha' st' = Beta alpha st.
  Proof. reflexivity. Qed.

  Theorem gen_dirac_init_fields_eq : forall (psi c : T) (st : bool),
    let '(psi', c', st') := DiracCoalescent_init_fields psi c st in Dirac psi' c' st' = Dirac psi c st.
  Proof. reflexivity. Qed.
End Generic.

(* ------------------------------------------------------------------ *)
(* the reals                                                           *)
(* ------------------------------------------------------------------ *)
Local Open Scope R_scope.

(* DiracCoalescent._get_timescale: N ** 2 against N * N *)
Theorem gen_dirac_timescale_eq : forall (bs : R -> R -> R) (psi c : R) (st : bool) (N : R),
  DiracCoalescent_get_timescale OpsR psi c st N = timescale OpsR bs (Dirac psi c st) N.
Proof. intros bs psi c [|] N; cbn; [ring|reflexivity]. Qed.

(* BetaCoalescent._get_timescale against the documented formula of proofs/TimescaleProofs.v
   (beta_timescale), with float ** float read as Rpower and Bv(alpha) = beta(2 - alpha, alpha) *)
Theorem gen_beta_timescale_eq : forall (B : R -> R -> R) (alpha : R) (st : bool) (N : R),
  BetaCoalescent_get_timescale OpsR (model_special OpsR B Rpower) st alpha N
  = timescale OpsR (beta_timescale (fun a => B (2 - a) a)) (Beta alpha st) N.
Proof.
  intros B alpha [|] N; [|reflexivity].
  assert (E : forall x y, 1 / x / y = 1 / (x * y)) by (intros; unfold Rdiv; rewrite Rinv_mult; ring).
  change (Rpower (1 + 1 / Rpower 2 (alpha - 1) / (alpha - 1)) alpha * Rpower N (alpha - 1) / alpha
          / B (2 - alpha) alpha
          = Rpower (1 + 1 / (Rpower 2 (alpha - 1) * (alpha - 1))) alpha * Rpower N (alpha - 1) / alpha
          / B (2 - alpha) alpha).
  rewrite E. reflexivity.
Qed.

(* BetaCoalescent rates.  The premises on [B] are the mathematical contract of scipy.special.beta:
   Euler's Beta function satisfies B(x+1, y) = B(x, y) x / (x + y) and B(x, y) = B(y, x) for
   x, y > 0, and B(alpha, 2 - alpha) is not 0.  They become explicit premises of the theorems. *)
Section BetaR.
  Variable B : R -> R -> R.
  Variable rp : R -> R -> R.
  Hypothesis B_rec : forall x y, 0 < x -> 0 < y -> B (x + 1) y = B x y * (x / (x + y)).
  Hypothesis B_sym : forall x y, 0 < x -> 0 < y -> B x y = B y x.
  Variable alpha : R.
  Hypothesis Halpha : 0 < alpha < 2.
  Hypothesis B_nz : B alpha (2 - alpha) <> 0.
  Local Notation SP := (model_special OpsR B rp).

  Lemma B_rec2 : forall x y, 0 < x -> 0 < y -> B x (y + 1) = B x y * (y / (x + y)).
  Proof.
    intros x y Hx Hy. rewrite (B_sym x (y + 1)) by lra. rewrite B_rec by assumption.
    rewrite (B_sym y x) by assumption. rewrite (Rplus_comm y x). reflexivity.
  Qed.

  Lemma beta_ratio : forall i j : nat,
    B (2 - alpha + INR i) (alpha + INR j)
    = B (2 - alpha) alpha * (prod_range OpsR (fun l => INR l - alpha) 2 i
                             * prod_range OpsR (fun l => alpha + INR l) 0 j / IZR (fact_Z (S (i + j)))).
  Proof.
    induction i as [|i IHi].
    - induction j as [|j IHj].
      + rewrite !prod_range_0. change (IZR (fact_Z (S (0 + 0)))) with 1. change (INR 0) with 0.
        rewrite !Rplus_0_r. field.
      + pose proof (pos_INR j) as Hj. pose proof (IZR_fact_pos (S (0 + j))) as HF.
        rewrite S_INR. replace (alpha + (INR j + 1)) with (alpha + INR j + 1) by ring.
        rewrite B_rec2 by (change (INR 0) with 0; lra). rewrite IHj.
        rewrite prod_range_S, !prod_range_0.
        replace (0 + S j)%nat with (S (0 + j)) by lia. rewrite (IZR_fact_S (S (0 + j))).
        rewrite !S_INR, !plus_INR. change (INR 0) with 0. field. lra.
    - intros j. pose proof (pos_INR i) as Hi. pose proof (pos_INR j) as Hj.
      pose proof (IZR_fact_pos (S (i + j))) as HF.
      rewrite S_INR. replace (2 - alpha + (INR i + 1)) with (2 - alpha + INR i + 1) by ring.
      rewrite B_rec by lra. rewrite IHi.
      rewrite (prod_range_S (fun l => INR l - alpha) i 2).
      replace (S i + j)%nat with (S (i + j)) by lia. rewrite (IZR_fact_S (S (i + j))).
      rewrite !S_INR, !plus_INR. change (INR 2) with (1 + 1). field. lra.
  Qed.

  (* BetaCoalescent._get_base_rate: beta(k - alpha, b - k + alpha) / beta(alpha, 2 - alpha)
     is the product form of the model *)
  Theorem gen_beta_base_eq : forall (st : bool) (b k : nat), (2 <= k <= b)%nat ->
    BetaCoalescent_get_base_rate OpsR SP st alpha b k = beta_base OpsR alpha b k.
  Proof.
    intros st b k Hk. unfold BetaCoalescent_get_base_rate. cbn [sp_beta model_special].
    rewrite odiv_R, !osub_R, !oofN_R. cbn [oadd oofZ OpsR].
    rewrite minus_IZR, <- !INR_IZR_INZ.
    replace (INR k - alpha) with (2 - alpha + INR (k - 2)).
    2:{ rewrite minus_INR by lia. change (INR 2) with (1 + 1). ring. }
    replace (INR b - INR k + alpha) with (alpha + INR (b - k)).
    2:{ rewrite minus_INR by lia. ring. }
    rewrite beta_ratio, beta_base_R.
    replace (S (k - 2 + (b - k))) with (b - 1)%nat by lia.
    change (INR 2) with (1 + 1). change (osub OpsR (1 + 1) alpha) with (2 - alpha).
    rewrite (B_sym (2 - alpha) alpha) by lra.
    pose proof (IZR_fact_pos (b - 1)) as HF.
    field. split; [lra | exact B_nz].
  Qed.

  (* BetaCoalescent._get_rate, guard included.  k = 1 is excluded: it is not a merger, and there the
     product form of the model is not the Beta-function quotient (Gamma(1 - alpha) is not covered) *)
  Theorem gen_beta_rate_eq : forall (st : bool) (b k : nat), k <> 1%nat ->
    BetaCoalescent_get_rate OpsR SP st alpha b k = get_rate_bk OpsR (Beta alpha st) b k.
  Proof.
    intros st b k Hk. unfold BetaCoalescent_get_rate, get_rate_bk.
    destruct (orb (Nat.ltb k 1) (Nat.ltb b k)) eqn:E; [reflexivity|].
    apply orb_false_elim in E. destruct E as [E1 E2].
    apply Nat.ltb_ge in E1. apply Nat.ltb_ge in E2.
    cbn [sp_comb model_special]. rewrite gen_beta_base_eq by lia. reflexivity.
  Qed.

  Theorem gen_beta_rate_bc_eq : forall (st : bool) (n : nat) (b k : list nat),
    (2 <= sum_nat k <= n)%nat ->
    BetaCoalescent_get_rate_block_counting OpsR SP st alpha n b k = get_rate_bc OpsR (Beta alpha st) n b k.
  Proof.
    intros st n b k Hk. unfold BetaCoalescent_get_rate_block_counting, get_rate_bc.
    cbn [sp_comb model_special]. change (fold_right Nat.add 0%nat k) with (sum_nat k).
    rewrite gen_beta_base_eq by exact Hk. reflexivity.
  Qed.
End BetaR.
