(* Theorems about the PINNED reading gen/UtilsGen.v of phasegen/utils.py (re-checked against the current source on every run by
   translate/utils2coq.py): `parallelize` is the ordered map whatever its flags (what the readings of the SFS assembly, the marginals and
   the inference bookkeeping assume of it), `takewhile_inclusive` is the prefix up to and including the first item that fails the
   predicate, `take_n` is the first n items or an error. *)
From Coq Require Import List Arith Bool Lia.
From PG Require Import gen.UtilsGen.
Import ListNotations.

Section Par.
  Context {A B : Type}.

  Theorem gen_parallelize_is_ordered_map : forall (func : A -> B) data par pbar, parallelize func data par pbar = map func data.
  Proof. intros func data par pbar. unfold parallelize, pool_imap, builtin_map, tqdm. destruct (par && _)%bool, pbar; reflexivity. Qed.

  Theorem gen_parallelize_flags_irrelevant : forall (func : A -> B) data par pbar par' pbar',
    parallelize func data par pbar = parallelize func data par' pbar'.
  Proof. intros. rewrite !gen_parallelize_is_ordered_map. reflexivity. Qed.

  Theorem gen_parallelize_length : forall (func : A -> B) data par pbar, length (parallelize func data par pbar) = length data.
  Proof. intros. rewrite gen_parallelize_is_ordered_map. apply map_length. Qed.

  Theorem gen_parallelize_entry : forall (func : A -> B) data par pbar i da db,
    i < length data -> nth i (parallelize func data par pbar) db = func (nth i data da).
  Proof.
    intros func data par pbar i da db Hi. rewrite gen_parallelize_is_ordered_map.
    rewrite (nth_indep _ db (func da)) by (rewrite map_length; exact Hi). apply map_nth.
  Qed.
End Par.

Section Take.
  Context {A : Type}.
  Variable p : A -> bool.

  Theorem gen_takewhile_inclusive_prefix : forall l, exists rest, l = takewhile_inclusive p l ++ rest.
  Proof.
    induction l as [|x l IH]; [exists []; reflexivity|]. cbn [takewhile_inclusive].
    destruct (p x); cbn [negb].
    - destruct IH as [rest Hr]. exists rest. cbn [app]. f_equal. exact Hr.
    - exists l. reflexivity.
  Qed.

  (* every item before the last one of the result satisfies the predicate *)
  Theorem gen_takewhile_inclusive_body : forall l pre x, takewhile_inclusive p l = pre ++ [x] -> Forall (fun y => p y = true) pre.
  Proof.
    induction l as [|a l IH]; intros pre x H; cbn [takewhile_inclusive] in H.
    - destruct pre; discriminate H.
    - destruct (p a) eqn:Ea; cbn [negb] in H.
      + destruct pre as [|b pre]; cbn [app] in H.
        * injection H as _ H. destruct l; cbn [takewhile_inclusive] in H; [constructor | discriminate H].
        * injection H as -> H. constructor; [exact Ea | exact (IH pre x H)].
      + destruct pre as [|b pre]; cbn [app] in H; [constructor|]. injection H as _ H. destruct pre; discriminate H.
  Qed.

  (* the result is the whole iterable, or it ends with the FIRST item that fails the predicate (which is included) *)
  Theorem gen_takewhile_inclusive_stop : forall l,
    (takewhile_inclusive p l = l /\ Forall (fun y => p y = true) (removelast l)) \/
    exists pre x rest, takewhile_inclusive p l = pre ++ [x] /\ l = pre ++ x :: rest /\ p x = false /\ Forall (fun y => p y = true) pre.
  Proof.
    induction l as [|a l IH]; [left; split; [reflexivity | constructor]|]. cbn [takewhile_inclusive].
    destruct (p a) eqn:Ea; cbn [negb].
    - destruct IH as [[H1 H2] | [pre [x [rest [H1 [H2 [H3 H4]]]]]]].
      + left. split; [f_equal; exact H1|]. destruct l as [|b l]; [constructor|]. cbn [removelast]. constructor; [exact Ea | exact H2].
      + right. exists (a :: pre), x, rest. cbn [app]. repeat split; [f_equal; exact H1 | f_equal; exact H2 | exact H3 | constructor; [exact Ea | exact H4]].
    - right. exists [], a, l. repeat split; [exact Ea | constructor].
  Qed.

  Theorem gen_takewhile_inclusive_nonempty : forall x l, takewhile_inclusive p (x :: l) <> [].
  Proof. intros x l. cbn [takewhile_inclusive]. discriminate. Qed.

  Theorem gen_take_n_spec : forall n (l : list A),
    take_n l n = if Nat.leb n (length l) then Some (firstn n l) else None.
  Proof.
    induction n as [|n IH]; intros l; cbn [take_n]; [reflexivity|].
    destruct l as [|x l]; [reflexivity|]. rewrite IH. cbn [length firstn]. cbn [Nat.leb]. destruct (Nat.leb n (length l)); reflexivity.
  Qed.
End Take.
(* the documented idiom `takewhile_inclusive(lambda _: dist.generated_mass < threshold, dist.get_mutation_configs(theta))`: the items are
   paired with the mass generated once they have been yielded; the result stops with the FIRST configuration at which the generated mass
   reaches the threshold (that configuration included), and is everything when the threshold is never reached before the last item *)
From Coq Require Import QArith.
Section Mass.
  Context {A : Type}.
  Definition below (thr : Q) (x : A * Q) : bool := negb (Qle_bool thr (snd x)).      (* generated_mass < threshold *)

  Theorem gen_collect_until_mass : forall (thr : Q) (l : list (A * Q)),
    (takewhile_inclusive (below thr) l = l /\ Forall (fun x => (snd x < thr)%Q) (removelast l)) \/
    exists pre x rest, takewhile_inclusive (below thr) l = pre ++ [x] /\ l = pre ++ x :: rest /\ (thr <= snd x)%Q /\
                       Forall (fun y => (snd y < thr)%Q) pre.
  Proof.
    intros thr l.
    assert (Hb : forall x, below thr x = true -> (snd x < thr)%Q).
    { intros x H. unfold below in H. apply negb_true_iff in H. apply Qnot_le_lt. intros Hle. apply Qle_bool_iff in Hle. congruence. }
    assert (Hf : forall pre, Forall (fun y => below thr y = true) pre -> Forall (fun y => (snd y < thr)%Q) pre).
    { intros pre H. induction H as [|y pre Hy _ IH]; constructor; [apply Hb; exact Hy | exact IH]. }
    destruct (gen_takewhile_inclusive_stop (below thr) l) as [[H1 H2] | [pre [x [rest [H1 [H2 [H3 H4]]]]]]].
    - left. split; [exact H1 | apply Hf; exact H2].
    - right. exists pre, x, rest. repeat split; [exact H1 | exact H2 | | apply Hf; exact H4].
      unfold below in H3. apply negb_false_iff in H3. apply Qle_bool_iff. exact H3.
  Qed.
End Mass.
Print Assumptions gen_collect_until_mass.
Print Assumptions gen_parallelize_is_ordered_map.
Print Assumptions gen_takewhile_inclusive_stop.
Print Assumptions gen_take_n_spec.
