(* Source-level ROUTE theorems for the spectrum: the translated accumulate (gen/MomentsGen.v, moments tie) composed with the pinned SFS
   assembly (gen/SfsGen.v, sfs tie).  On any piecewise-constant demography and at any end time, the matrix route sfs.cov[a, b] and the
   scalar route sfs.get_cov(a, b) are the same real number, and the diagonal of sfs.cov is sfs.var. *)
From Coq Require Import ZArith QArith Reals List Arith Bool Lia Lra.
From PG Require Import base.Ops base.OpsR model.CoalModels model.Matrix model.PhaseType proofs.PhaseTypeProofs.
Import ListNotations.
Local Open Scope R_scope.

Section K2.
  Variable expm : mat (T:=R) -> mat (T:=R).
  Variables (Ss : list (Q * mat (T:=R))) (Slast : mat (T:=R)) (alpha : vec (T:=R)) (lam : R).
  Notation Um := (U expm Ss Slast alpha lam).

  (* the symmetrised second cross moment (permute = True) is the average of the two ordered ones *)
  Theorem U2_permute_is_average : forall r0 r1 t, Um 2 [r0; r1] true t = (Um 2 [r0; r1] false t + Um 2 [r1; r0] false t) / 2.
  Proof.
    intros r0 r1 t. unfold U, accumulate_uncentered. cbn [permutations flat_map inserts map app length].
    pose proof (accumulate_raw_length OpsR expm Ss Slast alpha lam 2 [r0; r1] [t]) as H0.
    pose proof (accumulate_raw_length OpsR expm Ss Slast alpha lam 2 [r1; r0] [t]) as H1.
    destruct (accumulate_raw OpsR expm 2 Ss Slast [r0; r1] alpha lam [t]) as [|x [|? ?]]; try discriminate H0.
    destruct (accumulate_raw OpsR expm 2 Ss Slast [r1; r0] alpha lam [t]) as [|y [|? ?]]; try discriminate H1.
    cbn. lra.
  Qed.
End K2.

From PG Require Import gen.NpMoments gen.MomentsGen proofs.GenMomentsEquiv gen.NpSfs gen.SfsGen proofs.GenSfsEquiv.

(* the MATRIX route and the SCALAR route to the covariance of two bins of the spectrum agree, for the translated accumulate composed with
   the pinned SFS assembly, on any demography and at any end time: sfs.cov[a, b] = sfs.get_cov(a, b) *)
Section Routes.
  Variable expm : mat (T:=R) -> mat (T:=R).
  Variables (Ss : list (Q * mat (T:=R))) (Slast : mat (T:=R)) (alpha : vec (T:=R)) (lam : R).
  Variable dist_reward : vec (T:=R).                      (* self.reward of PhaseTypeDistribution: not used when rewards are given *)
  Variable combined : vec (T:=R) -> nat -> vec (T:=R).    (* CombinedReward([r, sfs_reward(i)]) as a reward vector *)
  Variable self_reward : vec (T:=R).                      (* self.reward of the SFS distribution *)
  Variable t : Q.                                         (* the end time *)
  Notation Um := (U expm Ss Slast alpha lam).

  (* PhaseTypeDistribution.moment(self, k, rewards, center, permute) at the end time t, through the translated accumulate *)
  Definition pmoment_src (k : nat) (rs : list (vec (T:=R))) (c p : bool) : R :=
    nth 0 (PhaseTypeDistribution_accumulate OpsR (raw_model expm Ss Slast alpha lam) dist_reward k [t] (Some rs) c p) 0.

  Lemma pmoment_raw2 r0 r1 : pmoment_src 2 [r0; r1] false false = Um 2 [r0; r1] false t.
  Proof. unfold pmoment_src. rewrite gen_accumulate_eq by reflexivity. reflexivity. Qed.
  Lemma pmoment_mean r c p : pmoment_src 1 [r] c p = Um 1 [r] true t.
  Proof.
    unfold pmoment_src. rewrite gen_accumulate_eq by reflexivity. rewrite accumulate_k_le1 by lia.
    change (nth 0 (accumulate_uncentered OpsR expm 1 Ss Slast [r] alpha lam p [t]) 0) with (Um 1 [r] p t). apply U1_permute.
  Qed.
  Lemma pmoment_cov r0 r1 : pmoment_src 2 [r0; r1] true true = Um 2 [r0; r1] true t - Um 1 [r0] true t * Um 1 [r1] true t.
  Proof. unfold pmoment_src. apply source_covariance_formula. Qed.

  Theorem source_sfs_cov_matrix_entry_is_get_cov : forall n a b,
    (1 <= a)%nat -> (a < n)%nat -> (1 <= b)%nat -> (b < n)%nat ->
    let indices := UnfoldedSFSDistribution_get_indices n in
    let mean := SFSDistribution_moment OpsR _ combined pmoment_src self_reward n indices 1 None true true in
    mget OpsR (SFSDistribution_cov OpsR _ combined pmoment_src self_reward n indices mean) a b
    = SFSDistribution_get_cov OpsR _ combined pmoment_src self_reward n a b.
  Proof.
    intros n a b Ha1 Han Hb1 Hbn indices mean.
    assert (Hnd : NoDup indices) by apply seq_NoDup.
    assert (Hrange : Forall (fun i => (i < n + 1)%nat) indices).
    { apply Forall_forall. intros i Hi. apply in_seq in Hi. lia. }
    assert (Hlen : length mean = (n + 1)%nat).
    { destruct (gen_sfs_moment_layout OpsR _ combined pmoment_src self_reward n indices 1 [self_reward] true true) as [H _]; [|exact H].
      unfold indices, UnfoldedSFSDistribution_get_indices. rewrite seq_length. lia. }
    rewrite (gen_sfs_cov_entry OpsR _ combined pmoment_src self_reward n indices mean a b Hnd Hrange Hlen) by lia.
    assert (Hin : forall i, (1 <= i)%nat -> (i < n)%nat -> existsb (Nat.eqb i) indices = true).
    { intros i H1 H2. apply existsb_exists. exists i. split; [apply in_seq; lia | apply Nat.eqb_refl]. }
    unfold A2. rewrite (Hin a), (Hin b) by assumption. cbn [andb]. unfold M2.
    assert (Hm : forall i, (1 <= i)%nat -> (i < n)%nat -> nth i mean 0 = Um 1 [combined self_reward i] true t).
    { intros i H1 H2. unfold mean, indices.
      transitivity (SFSDistribution__moment _ combined pmoment_src 1 i [self_reward] true true).
      - exact (gen_sfs_unfolded_entry OpsR _ combined pmoment_src self_reward n 1 [self_reward] true true i H1 H2).
      - unfold SFSDistribution__moment. cbn [map]. apply pmoment_mean. }
    change (o0 OpsR) with 0. rewrite (Hm a), (Hm b) by assumption.
    unfold SFSDistribution_get_cov.
    replace (Nat.eqb a 0 || Nat.eqb a n || Nat.eqb b 0 || Nat.eqb b n)%bool with false.
    2:{ symmetry. destruct (Nat.eqb_spec a 0), (Nat.eqb_spec a n), (Nat.eqb_spec b 0), (Nat.eqb_spec b n); try lia; reflexivity. }
    rewrite !pmoment_raw2, pmoment_cov, U2_permute_is_average.
    cbn [osub odiv oadd omul OpsR]. unfold odiv, oofN. cbn. unfold Rdiv. ring.
  Qed.

  (* ... and the diagonal of the covariance matrix is the variance spectrum sfs.var = sfs.moment(2) *)
  Theorem source_sfs_cov_diagonal_is_var : forall n a,
    (1 <= a)%nat -> (a < n)%nat ->
    let indices := UnfoldedSFSDistribution_get_indices n in
    let mean := SFSDistribution_moment OpsR _ combined pmoment_src self_reward n indices 1 None true true in
    mget OpsR (SFSDistribution_cov OpsR _ combined pmoment_src self_reward n indices mean) a a
    = nth a (SFSDistribution_moment OpsR _ combined pmoment_src self_reward n indices 2 None true true) 0.
  Proof.
    intros n a H1 H2 indices mean. unfold mean, indices. rewrite (source_sfs_cov_matrix_entry_is_get_cov n a a H1 H2 H1 H2).
    symmetry. transitivity (SFSDistribution__moment _ combined pmoment_src 2 a [self_reward; self_reward] true true).
    - exact (gen_sfs_unfolded_entry OpsR _ combined pmoment_src self_reward n 2 [self_reward; self_reward] true true a H1 H2).
    - unfold SFSDistribution__moment, SFSDistribution_get_cov. cbn [map].
      replace (Nat.eqb a 0 || Nat.eqb a n || Nat.eqb a 0 || Nat.eqb a n)%bool with false; [reflexivity|].
      symmetry. destruct (Nat.eqb_spec a 0), (Nat.eqb_spec a n); try lia; reflexivity.
  Qed.
End Routes.
Print Assumptions source_sfs_cov_matrix_entry_is_get_cov.
