(* Equivalence of the GENERATED translation of the propagation loops of phasegen/distributions.py
   (gen/LoopsGen.v, regenerated from PhaseTypeDistribution._accumulate and TreeHeightDistribution.cdf by
   /verif/translate/loops2coq.py on every run of the checks that depend on them) with the hand-written model:
   [cdf] and [accumulate_raw] of model/PhaseType.v, i.e. model/Loop.v's sorted loop wrapped by the scatter of
   base/Perm.v - the functions that the pointwise / grid-refinement / redundant-change-point / lumping theorems are about.

   Method: each generated function is first identified, BY CONVERSION (reflexivity), with a readable reference
   version written below (ref_cdf, ref_accumulate: the same loops with named helpers); a rewrite of the source that
   only renames locals or reorders independent statements leaves the generated term convertible.  The reference
   versions are then proved equal to the model by induction on the epoch list (the `while` loop against
   Loop.advance_rest) and on the sorted times (the `for` loop against Loop.run_loop), for EVERY list of epochs, every
   list of times (any order, repeats), every backend [expm].

   Hypotheses of the final theorems: n_states = length Slast (the number of states is the dimension of the generators);
   for _accumulate the regularisation factor is whatever [regf] returns for the first generator, and the law
   dot (c * a) v = c * dot a v (the source multiplies alpha by the scalar prefactor before the bilinear form; the
   model multiplies afterwards) - proved for the real instance. *)
From Coq Require Import ZArith QArith List Arith Bool Lia Permutation.
From PG Require Import base.Ops base.Perm model.CoalModels model.Matrix model.Loop model.PhaseType proofs.PermProofs gen.NpLoops gen.LoopsGen.

Import ListNotations.
Local Open Scope nat_scope.

(* ---------------- list lemmas ---------------- *)
Lemma upd_nth_app {A} (pre : list A) x post v : upd_nth (pre ++ x :: post) (length pre) v = pre ++ v :: post.
Proof. unfold upd_nth. induction pre as [|y pre IH]; cbn; [reflexivity|]. rewrite IH. reflexivity. Qed.

Lemma gather_map {A B} (f : A -> B) d xs p : map f (gather d xs p) = gather (f d) (map f xs) p.
Proof. unfold gather. rewrite map_map. apply map_ext. intros i. symmetry. apply map_nth. Qed.

Lemma gather_default {A} (d d' : A) xs p : Forall (fun i => i < length xs) p -> gather d xs p = gather d' xs p.
Proof. unfold gather. intros H. apply map_ext_in. intros i Hi. rewrite Forall_forall in H. apply nth_indep. apply H. exact Hi. Qed.

Lemma perm_range (p : list nat) n : Permutation p (seq 0 n) -> Forall (fun i => i < n) p.
Proof.
  intros H. apply Forall_forall. intros i Hi. apply (Permutation_in _ H) in Hi. apply in_seq in Hi. lia.
Qed.

Lemma run_loop_length {M V} (mul : M -> M -> M) (step : V -> Q -> M) vlast : forall ts s,
  length (run_loop M V mul step vlast s ts) = length ts.
Proof. induction ts as [|u ts IH]; intros s; [reflexivity|]. cbn. rewrite IH. reflexivity. Qed.

Section Common.
  Context {T : Type} (OP : Ops T).

  Lemma all_epochs_cons en (v : mat (T:=T)) R Slast :
    all_epochs ((en, v) :: R) Slast = (Some en, v) :: all_epochs R Slast.
  Proof. reflexivity. Qed.

  Lemma all_epochs_nonempty (R : list (Q * mat (T:=T))) Slast : exists c r, all_epochs R Slast = c :: r.
  Proof. destruct R as [|[en v] R]; cbn; eauto. Qed.
End Common.

(* ====================================================================================== *)
(* cdf                                                                                      *)
(* ====================================================================================== *)
Section Cdf.
  Context {T : Type} (OP : Ops T).
  Variable expm : mat (T:=T) -> mat (T:=T).
  Variables (n_states : nat) (alpha e : vec (T:=T)).

  Definition stepS (Sg : mat (T:=T)) (dt : Q) : mat := expm (mscale OP (oofQ OP dt) Sg).
  Definition out_cdf (Tm : mat (T:=T)) : T := osub OP (o1 OP) (dot OP alpha (mvec OP Tm e)).

  Section W.
    Variable u : Q.
    Fixpoint cdf_while (epochs : list (epoch_t (T:=T))) (Tm : mat (T:=T)) (u_prev : Q) (i_epoch : unit)
             (epoch ss : epoch_t (T:=T)) {struct epochs} :=
      if gt_end u (fst epoch) then
        let Tm := mmul OP Tm (expm (mscale OP (oofQ OP (end_or0 (fst epoch) - u_prev)%Q) (snd ss))) in
        let u_prev := end_or0 (fst epoch) in
        match epochs with
        | [] => (epochs, Tm, u_prev, i_epoch, epoch, ss)
        | epoch' :: epochs' => cdf_while epochs' Tm u_prev tt epoch' epoch'
        end
      else (epochs, Tm, u_prev, i_epoch, epoch, ss).
  End W.

  Definition cdf_step (acc : mat (T:=T) * Q * unit * epoch_t (T:=T) * list (epoch_t (T:=T)) * epoch_t (T:=T) * list T)
             (iu : nat * Q) :=
    let '(Tm, u_prev, i_epoch, epoch, epochs, ss, probs) := acc in
    let '(i, u) := iu in
    let '(epochs, Tm, u_prev, i_epoch, epoch, ss) := cdf_while u epochs Tm u_prev i_epoch epoch ss in
    let Tm := mmul OP Tm (expm (mscale OP (oofQ OP (u - u_prev)%Q) (snd ss))) in
    let probs := upd_nth probs i (osub OP (o1 OP) (dot OP alpha (mvec OP Tm e))) in
    (Tm, u, i_epoch, epoch, epochs, ss, probs).

  Definition ref_cdf (epochs0 : list (epoch_t (T:=T))) (t : list Q) : list T :=
    let ts := sortK Qleb t in
    match epochs0 with
    | [] => []
    | epoch :: epochs =>
        let '(_, _, _, _, _, _, probs) :=
          fold_left cdf_step (combine (seq 0 (length ts)) ts)
                    (mid OP n_states, inject_Z 0, tt, epoch, epochs, epoch, repeat (o0 OP) (length ts)) in
        gather (o0 OP) probs (inv_perm (argsort Qleb t))
    end.

  (* the generated function IS the reference version (by conversion) *)
  Lemma gen_cdf_is_ref : forall epochs0 t,
    TreeHeightDistribution_cdf OP expm n_states epochs0 alpha e t = ref_cdf epochs0 t.
  Proof. reflexivity. Qed.

  (* ---- the while loop against Loop.advance_rest ---- *)
  Notation adv := (advance_rest (mat (T:=T)) (mat (T:=T)) (mmul OP) stepS).

  Lemma cdf_while_spec (Slast : mat (T:=T)) u : forall (R : list (Q * mat (T:=T))) Tm up i cur rest,
    cur :: rest = all_epochs R Slast ->
    exists rest' Tm' up' i' cur' R',
      cdf_while u rest Tm up i cur cur = (rest', Tm', up', i', cur', cur') /\
      cur' :: rest' = all_epochs R' Slast /\
      adv Slast Tm up R u = mkL (mmul OP Tm' (stepS (snd cur') (u - up')%Q)) u R'.
  Proof.
    induction R as [|[en v] R IH]; intros Tm up i cur rest E.
    - cbn in E. injection E as -> ->. cbn [cdf_while gt_end fst].
      exists [], Tm, up, i, (None, Slast), []. repeat split; reflexivity.
    - rewrite all_epochs_cons in E. injection E as -> ->.
      destruct (all_epochs_nonempty R Slast) as [c1 [r1 E1]].
      rewrite E1. cbn [cdf_while gt_end fst snd end_or0 advance_rest].
      destruct (Qlt_le_dec en u) as [Hlt | Hge].
      + destruct (IH (mmul OP Tm (expm (mscale OP (oofQ OP (en - up)%Q) v))) en tt c1 r1 (eq_sym E1))
          as [rest' [Tm' [up' [i' [cur' [R' [H1 [H2 H3]]]]]]]].
        exists rest', Tm', up', i', cur', R'. repeat split; assumption.
      + exists (c1 :: r1), Tm, up, i, (Some en, v), ((en, v) :: R). repeat split.
        rewrite all_epochs_cons, E1. reflexivity.
  Qed.

  (* ---- the for loop against Loop.run_loop ---- *)
  Lemma cdf_fold_spec (Slast : mat (T:=T)) : forall (ts : list Q) (pre post : list T) (mid_ : list T) R Tm up i cur rest,
    cur :: rest = all_epochs R Slast -> length mid_ = length ts ->
    exists st',
      fold_left cdf_step (combine (seq (length pre) (length ts)) ts) (Tm, up, i, cur, rest, cur, pre ++ mid_ ++ post)
      = (st', pre ++ map out_cdf (run_loop _ _ (mmul OP) stepS Slast (mkL Tm up R) ts) ++ post).
  Proof.
    induction ts as [|u ts IH]; intros pre post mid_ R Tm up i cur rest E Hl.
    - destruct mid_; [|discriminate]. cbn. eexists. reflexivity.
    - destruct mid_ as [|m0 mid_]; [discriminate|]. cbn [length seq combine fold_left].
      unfold cdf_step at 2.
      destruct (cdf_while_spec Slast u R Tm up i cur rest E) as [rest' [Tm' [up' [i' [cur' [R' [H1 [H2 H3]]]]]]]].
      rewrite H1. cbn [app]. rewrite upd_nth_app.
      cbn [run_loop map]. cbv zeta. unfold advance. cbn [lQ lprev lrest]. rewrite H3. cbn [lQ].
      replace (S (length pre)) with (length (pre ++ [out_cdf (mmul OP Tm' (stepS (snd cur') (u - up')%Q))]))
        by (rewrite app_length; cbn; lia).
      injection Hl as Hl.
      destruct (IH (pre ++ [out_cdf (mmul OP Tm' (stepS (snd cur') (u - up')%Q))]) post mid_ R'
                   (mmul OP Tm' (stepS (snd cur') (u - up')%Q)) u i' cur' rest' H2 Hl) as [st' Hst].
      exists st'. rewrite <- !app_assoc in Hst. cbn [app] in Hst. exact Hst.
  Qed.

  Theorem ref_cdf_eq_model (Ss : list (Q * mat (T:=T))) (Slast : mat (T:=T)) (t : list Q) :
    n_states = length Slast ->
    ref_cdf (all_epochs Ss Slast) t = cdf OP expm Ss Slast alpha e t.
  Proof.
    intros Hn. unfold ref_cdf, cdf. cbv zeta.
    destruct (all_epochs_nonempty Ss Slast) as [c [r E]]. rewrite E.
    pose proof (cdf_fold_spec Slast (sortK Qleb t) [] [] (repeat (o0 OP) (length (sortK Qleb t))) Ss
                              (mid OP n_states) (inject_Z 0) tt c r (eq_sym E) (repeat_length _ _)) as [st' H].
    cbn [length app] in H. rewrite app_nil_r in H. rewrite H.
    destruct st' as [[[[[? ?] ?] ?] ?] ?]. rewrite app_nil_r.
    unfold loop_vectorised, vectorised. rewrite gather_map. unfold init. rewrite <- Hn.
    apply gather_default.
    rewrite map_length.
    rewrite run_loop_length, (Permutation_length (sortK_perm _ Qleb t)).
    apply perm_range. unfold inv_perm.
    pose proof (argsort_perm _ Nat.leb (argsort Qleb t)) as Hp.
    rewrite (Permutation_length (argsort_perm _ Qleb t)), seq_length in Hp. exact Hp.
  Qed.

  Theorem gen_cdf_eq_model (Ss : list (Q * mat (T:=T))) (Slast : mat (T:=T)) (t : list Q) :
    n_states = length Slast ->
    TreeHeightDistribution_cdf OP expm n_states (all_epochs Ss Slast) alpha e t = cdf OP expm Ss Slast alpha e t.
  Proof. intros Hn. rewrite gen_cdf_is_ref. apply ref_cdf_eq_model. exact Hn. Qed.
End Cdf.

(* ====================================================================================== *)
(* _accumulate                                                                              *)
(* ====================================================================================== *)
Section Acc.
  Context {T : Type} (OP : Ops T).
  Variable expm : mat (T:=T) -> mat (T:=T).
  Variable regf : mat (T:=T) -> T.
  Variables (n_states k : nat) (Rs : list (vec (T:=T))) (alpha : vec (T:=T)).

  Section Lam.
    Variable lam : T.
    Definition VL (Sg : mat (T:=T)) : mat := vanloan OP (mscale OP lam Sg) Rs k.
    Definition out_acc (Qm : mat (T:=T)) : T :=
      dot OP (vscale OP (omul OP (oofZ OP (fact_Z k)) (opow OP lam k)) alpha)
          (mvec OP (sub_block Qm 0 n_states (n_states * (k + 1) - n_states) n_states) (ones OP n_states)).

    Section W.
      Variable u : Q.
      Fixpoint acc_while (epochs : list (epoch_t (T:=T))) (Qm : mat (T:=T)) (u_prev : Q) (i_epoch : unit)
               (epoch ss : epoch_t (T:=T)) (Sg V : mat (T:=T)) {struct epochs} :=
        if gt_end u (fst epoch) then
          let Qm := mmul OP Qm (expm (mscale OP (odiv OP (oofQ OP (end_or0 (fst epoch) - u_prev)%Q) lam) V)) in
          let u_prev := end_or0 (fst epoch) in
          match epochs with
          | [] => (epochs, Qm, u_prev, i_epoch, epoch, ss, Sg, V)
          | epoch' :: epochs' =>
              acc_while epochs' Qm u_prev tt epoch' epoch' (mscale OP lam (snd epoch')) (vanloan OP (mscale OP lam (snd epoch')) Rs k)
          end
        else (epochs, Qm, u_prev, i_epoch, epoch, ss, Sg, V).
    End W.

    Definition acc_step (acc : mat (T:=T) * Q * unit * epoch_t (T:=T) * list (epoch_t (T:=T)) * epoch_t (T:=T)
                               * mat (T:=T) * mat (T:=T) * list T) (iu : nat * Q) :=
      let '(Qm, u_prev, i_epoch, epoch, epochs, ss, Sg, V, moments) := acc in
      let '(i, u) := iu in
      let '(epochs, Qm, u_prev, i_epoch, epoch, ss, Sg, V) := acc_while u epochs Qm u_prev i_epoch epoch ss Sg V in
      let Qm := mmul OP Qm (expm (mscale OP (odiv OP (oofQ OP (u - u_prev)%Q) lam) V)) in
      let moments := upd_nth moments i (out_acc Qm) in
      (Qm, u, i_epoch, epoch, epochs, ss, Sg, V, moments).

    Definition ref_acc_body (epoch : epoch_t (T:=T)) (epochs : list (epoch_t (T:=T))) (end_times : list Q) : list T :=
      let ts := sortK Qleb end_times in
      let '(_, _, _, _, _, _, _, _, moments) :=
        fold_left acc_step (combine (seq 0 (length ts)) ts)
                  (mid OP (n_states * (k + 1)), inject_Z 0, tt, epoch, epochs, epoch,
                   mscale OP lam (snd epoch), vanloan OP (mscale OP lam (snd epoch)) Rs k, repeat (o0 OP) (length ts)) in
      gather (o0 OP) moments (inv_perm (argsort Qleb end_times)).
  End Lam.

  Definition ref_accumulate (epochs0 : list (epoch_t (T:=T))) (end_times : list Q) : list T :=
    match epochs0 with
    | [] => []
    | epoch :: epochs => ref_acc_body (regf (snd epoch)) epoch epochs end_times
    end.

  Lemma gen_accumulate_is_ref : forall epochs0 end_times,
    PhaseTypeDistribution_accumulate OP expm regf n_states k epochs0 Rs alpha end_times = ref_accumulate epochs0 end_times.
  Proof. reflexivity. Qed.

  (* ---- against the model ---- *)
  Variable lam : T.
  Notation stepV := (vl_step OP expm lam).
  Notation adv := (advance_rest (mat (T:=T)) (mat (T:=T)) (mmul OP) stepV).
  Definition VLp (eS : Q * mat (T:=T)) : Q * mat (T:=T) := (fst eS, VL lam (snd eS)).

  Lemma acc_while_spec (Slast : mat (T:=T)) u : forall (R : list (Q * mat (T:=T))) Qm up i cur rest,
    cur :: rest = all_epochs R Slast ->
    exists rest' Qm' up' i' cur' R',
      acc_while lam u rest Qm up i cur cur (mscale OP lam (snd cur)) (VL lam (snd cur))
      = (rest', Qm', up', i', cur', cur', mscale OP lam (snd cur'), VL lam (snd cur')) /\
      cur' :: rest' = all_epochs R' Slast /\
      adv (VL lam Slast) Qm up (map VLp R) u = mkL (mmul OP Qm' (stepV (VL lam (snd cur')) (u - up')%Q)) u (map VLp R').
  Proof.
    induction R as [|[en v] R IH]; intros Qm up i cur rest E.
    - cbn in E. injection E as -> ->. cbn [acc_while gt_end fst].
      exists [], Qm, up, i, (None, Slast), []. repeat split; reflexivity.
    - rewrite all_epochs_cons in E. injection E as -> ->.
      destruct (all_epochs_nonempty R Slast) as [c1 [r1 E1]].
      rewrite E1. cbn [acc_while gt_end fst snd end_or0 advance_rest map VLp].
      destruct (Qlt_le_dec en u) as [Hlt | Hge].
      + destruct (IH (mmul OP Qm (expm (mscale OP (odiv OP (oofQ OP (en - up)%Q) lam) (VL lam v)))) en tt c1 r1 (eq_sym E1))
          as [rest' [Qm' [up' [i' [cur' [R' [H1 [H2 H3]]]]]]]].
        exists rest', Qm', up', i', cur', R'. repeat split; assumption.
      + exists (c1 :: r1), Qm, up, i, (Some en, v), ((en, v) :: R). repeat split.
        rewrite all_epochs_cons, E1. reflexivity.
  Qed.

  Lemma acc_fold_spec (Slast : mat (T:=T)) : forall (ts : list Q) (pre post mid_ : list T) R Qm up i cur rest,
    cur :: rest = all_epochs R Slast -> length mid_ = length ts ->
    exists st',
      fold_left (acc_step lam) (combine (seq (length pre) (length ts)) ts)
                (Qm, up, i, cur, rest, cur, mscale OP lam (snd cur), VL lam (snd cur), pre ++ mid_ ++ post)
      = (st', pre ++ map (out_acc lam) (run_loop _ _ (mmul OP) stepV (VL lam Slast) (mkL Qm up (map VLp R)) ts) ++ post).
  Proof.
    induction ts as [|u ts IH]; intros pre post mid_ R Qm up i cur rest E Hl.
    - destruct mid_; [|discriminate]. cbn. eexists. reflexivity.
    - destruct mid_ as [|m0 mid_]; [discriminate|]. cbn [length seq combine fold_left].
      unfold acc_step at 2.
      destruct (acc_while_spec Slast u R Qm up i cur rest E) as [rest' [Qm' [up' [i' [cur' [R' [H1 [H2 H3]]]]]]]].
      rewrite H1. cbn [app]. rewrite upd_nth_app.
      cbn [run_loop map]. cbv zeta. unfold advance. cbn [lQ lprev lrest]. rewrite H3. cbn [lQ].
      set (Q1 := mmul OP Qm' (expm (mscale OP (odiv OP (oofQ OP (u - up')%Q) lam) (VL lam (snd cur'))))).
      change (mmul OP Qm' (stepV (VL lam (snd cur')) (u - up')%Q)) with Q1.
      replace (S (length pre)) with (length (pre ++ [out_acc lam Q1])) by (rewrite app_length; cbn; lia).
      injection Hl as Hl.
      destruct (IH (pre ++ [out_acc lam Q1]) post mid_ R' Q1 u i' cur' rest' H2 Hl) as [st' Hst].
      exists st'. rewrite <- !app_assoc in Hst. cbn [app] in Hst. exact Hst.
  Qed.

  Hypothesis dot_scale : forall (c : T) (a v : vec (T:=T)), dot OP (vscale OP c a) v = omul OP c (dot OP a v).

  Lemma out_acc_is_acc_out (Qm : mat (T:=T)) : out_acc lam Qm = acc_out OP k n_states lam alpha Qm.
  Proof.
    unfold out_acc, acc_out. rewrite dot_scale. replace (n_states * (k + 1) - n_states) with (k * n_states) by lia. reflexivity.
  Qed.

  Theorem ref_accumulate_eq_model (Ss : list (Q * mat (T:=T))) (Slast : mat (T:=T)) (ts : list Q) :
    n_states = length Slast ->
    lam = regf (snd (hd (None, Slast) (all_epochs Ss Slast))) ->
    ref_accumulate (all_epochs Ss Slast) ts = accumulate_raw OP expm k Ss Slast Rs alpha lam ts.
  Proof.
    intros Hn Hlam. unfold ref_accumulate, accumulate_raw. cbv zeta.
    destruct (all_epochs_nonempty Ss Slast) as [c [r E]]. rewrite E in *. cbn [hd] in Hlam. rewrite <- Hlam.
    unfold ref_acc_body. cbv zeta.
    pose proof (acc_fold_spec Slast (sortK Qleb ts) [] [] (repeat (o0 OP) (length (sortK Qleb ts))) Ss
                              (mid OP (n_states * (k + 1))) (inject_Z 0) tt c r (eq_sym E) (repeat_length _ _)) as [st' H].
    cbn [length app] in H. rewrite app_nil_r in H. unfold VL in H. rewrite H.
    destruct st' as [[[[[[[? ?] ?] ?] ?] ?] ?] ?]. rewrite app_nil_r.
    unfold loop_vectorised, vectorised. rewrite gather_map. unfold init. rewrite <- Hn, (Nat.mul_comm (k + 1) n_states).
    rewrite (map_ext _ _ out_acc_is_acc_out).
    apply gather_default.
    rewrite map_length, run_loop_length, (Permutation_length (sortK_perm _ Qleb ts)).
    apply perm_range. unfold inv_perm.
    pose proof (argsort_perm _ Nat.leb (argsort Qleb ts)) as Hp.
    rewrite (Permutation_length (argsort_perm _ Qleb ts)), seq_length in Hp. exact Hp.
  Qed.

  Theorem gen_accumulate_eq_model (Ss : list (Q * mat (T:=T))) (Slast : mat (T:=T)) (ts : list Q) :
    n_states = length Slast ->
    lam = regf (snd (hd (None, Slast) (all_epochs Ss Slast))) ->
    PhaseTypeDistribution_accumulate OP expm regf n_states k (all_epochs Ss Slast) Rs alpha ts
    = accumulate_raw OP expm k Ss Slast Rs alpha lam ts.
  Proof. intros Hn Hlam. rewrite gen_accumulate_is_ref. apply ref_accumulate_eq_model; assumption. Qed.
End Acc.

(* ====================================================================================== *)
(* the real instance: the scalar law holds, so the theorems are unconditional there          *)
(* ====================================================================================== *)
From Coq Require Import Reals Lra.
From PG Require Import base.OpsR.

Lemma dot_scale_R : forall (c : R) (a v : vec (T:=R)), dot OpsR (vscale OpsR c a) v = omul OpsR c (dot OpsR a v).
Proof.
  intros c a v. unfold dot, vscale. cbn [omul oadd o0 OpsR].
  assert (G : forall a v acc, fold_left (fun acc xy => (acc + fst xy * snd xy)%R) (combine (map (Rmult c) a) v) (c * acc)%R
                              = (c * fold_left (fun acc xy => (acc + fst xy * snd xy)%R) (combine a v) acc)%R).
  { clear. induction a as [|x a IH]; intros v acc; [reflexivity|]. destruct v as [|y v]; [reflexivity|].
    cbn [map combine fold_left fst snd]. rewrite <- IH. f_equal. ring. }
  rewrite <- G. f_equal. ring.
Qed.

Theorem gen_accumulate_eq_model_R (expm : mat (T:=R) -> mat (T:=R)) (regf : mat (T:=R) -> R) (k : nat)
        (Ss : list (Q * mat (T:=R))) (Slast : mat (T:=R)) (Rs : list (vec (T:=R))) (alpha : vec (T:=R)) (ts : list Q) :
  PhaseTypeDistribution_accumulate OpsR expm regf (length Slast) k (all_epochs Ss Slast) Rs alpha ts
  = accumulate_raw OpsR expm k Ss Slast Rs alpha (regf (snd (hd (None, Slast) (all_epochs Ss Slast)))) ts.
Proof. apply gen_accumulate_eq_model; [exact dot_scale_R | reflexivity | reflexivity]. Qed.

Theorem gen_cdf_eq_model_R (expm : mat (T:=R) -> mat (T:=R))
        (Ss : list (Q * mat (T:=R))) (Slast : mat (T:=R)) (alpha e : vec (T:=R)) (ts : list Q) :
  TreeHeightDistribution_cdf OpsR expm (length Slast) (all_epochs Ss Slast) alpha e ts = cdf OpsR expm Ss Slast alpha e ts.
Proof. apply gen_cdf_eq_model. reflexivity. Qed.
