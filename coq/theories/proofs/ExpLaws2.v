(* Algebraic transfer theorems for an abstract matrix exponential, part 2:
   homogeneity, regularisation, time rescaling and multilinearity of the
   order-k Van Loan functional [mk], for EVERY order k.

   As in proofs/ExpLaws.v everything in the first part is proved for every
   family [expm : forall n, 'M_n -> 'M_n] over a commutative ring satisfying
   the laws E0, E1, E2 (only E2, intertwining, is actually used here).  The
   one tool is a generalisation of [vl_intertwine] to block-diagonal
   matrices diag(P_0, ..., P_k) whose blocks may differ from level to level
   ([vlf_intertwine] below); no invertibility is used anywhere.

   The second part instantiates the results with the real matrix exponential
   of analysis/MExp.v. *)
From Coq Require Import Reals.
From mathcomp Require Import all_ssreflect all_algebra fingroup perm.
From PG Require Import proofs.ExpLaws.
Set Implicit Arguments. Unset Strict Implicit. Unset Printing Implicit Defensive.
Import GRing.Theory.
Local Open Scope ring_scope.

Section ExpLaws2.
Variable R : comRingType.
Variable expm : forall n : nat, 'M[R]_n -> 'M[R]_n.
(* E0 *)
Hypothesis expm0 : forall n, expm (0 : 'M[R]_n) = 1%:M.
(* E1 *)
Hypothesis expmD : forall n (A B : 'M[R]_n),
  A *m B = B *m A -> expm (A + B) = expm A *m expm B.
(* E2, intertwining with a rectangular P *)
Hypothesis expm_intertwine :
  forall m n (A : 'M[R]_m) (B : 'M[R]_n) (P : 'M[R]_(m, n)),
    A *m P = P *m B -> expm A *m P = P *m expm B.

Ltac bsimp :=
  rewrite ?(mulmx1, mul1mx, mulmx0, mul0mx, addr0, add0r, scaler0).

(* ------------------------------------------------------------------ *)
(* 0 : extensionality in the rewards                                   *)

Lemma eq_vl n (S : 'M[R]_n) (Rs Rs' : nat -> 'M[R]_n) k :
  (forall i, (i < k)%N -> Rs i = Rs' i) -> vl S Rs k = vl S Rs' k.
Proof.
elim: k Rs Rs' => [|k IH] Rs Rs' H //=.
rewrite (H 0%N) // (IH _ (fun i => Rs' i.+1)) // => i ik.
exact: H.
Qed.

Lemma eq_mk n (a : 'rV[R]_n) (S : 'M[R]_n) (Rs Rs' : nat -> 'M[R]_n) k t :
  (forall i, (i < k)%N -> Rs i = Rs' i) -> mk expm a S Rs k t = mk expm a S Rs' k t.
Proof. by move=> H; rewrite /mk (eq_vl S H). Qed.

(* ------------------------------------------------------------------ *)
(* 0' : block-diagonal matrices with level-dependent blocks            *)

(* diag(P_0, ..., P_k). *)
Fixpoint vldiagf m n (Ps : nat -> 'M[R]_(m, n)) k
    : 'M[R]_(vlsz m k, vlsz n k) :=
  match k return 'M[R]_(vlsz m k, vlsz n k) with
  | k'.+1 => block_mx (Ps 0%N) 0 0 (vldiagf (fun i => Ps i.+1) k')
  | 0%N => Ps 0%N
  end.

Lemma eq_vldiagf m n (Ps Qs : nat -> 'M[R]_(m, n)) k :
  (forall i, (i <= k)%N -> Ps i = Qs i) -> vldiagf Ps k = vldiagf Qs k.
Proof.
elim: k Ps Qs => [|k IH] Ps Qs H /=; first exact: H.
rewrite (H 0%N) // (IH _ (fun i => Qs i.+1)) // => i ik.
exact: H.
Qed.

Lemma vldiagf_const m n (P : 'M[R]_(m, n)) k :
  vldiagf (fun _ => P) k = vldiag P k.
Proof. by elim: k => [|k IH] //=; rewrite IH. Qed.

Lemma vlfirst_diagf_mul m n (Ps : nat -> 'M[R]_(m, n)) k c
    (M : 'M[R]_(vlsz n k, c)) :
  vlfirst (k := k) (vldiagf Ps k *m M) = Ps 0%N *m vlfirst (k := k) M.
Proof.
case: k M => [|k] M //=.
by rewrite -{1}(vsubmxK M) mul_block_col col_mxKu; bsimp.
Qed.

Lemma vllast_mul_diagf r m n (Ps : nat -> 'M[R]_(m, n)) k
    (M : 'M[R]_(r, vlsz m k)) :
  vllast (k := k) (M *m vldiagf Ps k) = vllast (k := k) M *m Ps k.
Proof.
elim: k Ps M => [|k IH] Ps M //=.
by rewrite -{1}(hsubmxK M) mul_row_block row_mxKr; bsimp; rewrite IH.
Qed.

Lemma vltr_mul_diagf m n (Ps : nat -> 'M[R]_(m, n)) k (M : 'M[R]_(vlsz m k)) :
  vltr (k := k) (M *m vldiagf Ps k) = vltr (k := k) M *m Ps k.
Proof. by rewrite /vltr vlfirst_mul vllast_mul_diagf. Qed.

Lemma vltr_diagf_mul m n (Ps : nat -> 'M[R]_(m, n)) k (M : 'M[R]_(vlsz n k)) :
  vltr (k := k) (vldiagf Ps k *m M) = Ps 0%N *m vltr (k := k) M.
Proof. by rewrite /vltr vlfirst_diagf_mul vllast_mul. Qed.

Lemma vltop_diagf m n (P : 'M[R]_(m, n)) (Qs : nat -> 'M[R]_(m, n))
    (RL : 'M[R]_m) (RC : 'M[R]_n) k :
  RL *m Qs 0%N = P *m RC -> vltop RL k *m vldiagf Qs k = P *m vltop RC k.
Proof.
case: k => [|k] //= RP.
by rewrite mul_row_block mul_mx_row; bsimp; rewrite RP.
Qed.

(* The generalisation of [vl_intertwine]: the intertwiner of level i is
   P_i; the reward of level i goes from level i to level i+1. *)
Lemma vlf_intertwine m n (Ps : nat -> 'M[R]_(m, n)) (SL : 'M[R]_m)
    (SC : 'M[R]_n) (RL : nat -> 'M[R]_m) (RC : nat -> 'M[R]_n) k :
  (forall i, (i <= k)%N -> SL *m Ps i = Ps i *m SC) ->
  (forall i, (i < k)%N -> RL i *m Ps i.+1 = Ps i *m RC i) ->
  vl SL RL k *m vldiagf Ps k = vldiagf Ps k *m vl SC RC k.
Proof.
elim: k Ps RL RC => [|k IH] Ps RL RC SP RP /=; first exact: SP.
rewrite !mulmx_block; bsimp.
rewrite SP // (@vltop_diagf _ _ _ (fun i => Ps i.+1) _ _ k (RP 0%N _)) //.
rewrite (IH _ _ (fun i => RC i.+1)) // => i ik; [exact: SP | exact: RP].
Qed.

Lemma vltr_transfer0 m n (Ps : nat -> 'M[R]_(m, n)) (SL : 'M[R]_m)
    (SC : 'M[R]_n) (RL : nat -> 'M[R]_m) (RC : nat -> 'M[R]_n) k :
  (forall i, (i <= k)%N -> SL *m Ps i = Ps i *m SC) ->
  (forall i, (i < k)%N -> RL i *m Ps i.+1 = Ps i *m RC i) ->
  vltr (k := k) (expm (vl SL RL k)) *m Ps k
  = Ps 0%N *m vltr (k := k) (expm (vl SC RC k)).
Proof.
move=> SP RP; rewrite -vltr_mul_diagf -vltr_diagf_mul.
by rewrite (expm_intertwine (vlf_intertwine SP RP)).
Qed.

Lemma vltr_transfer m n (Ps : nat -> 'M[R]_(m, n)) (SL : 'M[R]_m)
    (SC : 'M[R]_n) (RL : nat -> 'M[R]_m) (RC : nat -> 'M[R]_n) k (t : R) :
  (forall i, (i <= k)%N -> SL *m Ps i = Ps i *m SC) ->
  (forall i, (i < k)%N -> RL i *m Ps i.+1 = Ps i *m RC i) ->
  vltr (k := k) (expm (t *: vl SL RL k)) *m Ps k
  = Ps 0%N *m vltr (k := k) (expm (t *: vl SC RC k)).
Proof.
move=> SP RP; rewrite -vltr_mul_diagf -vltr_diagf_mul.
by rewrite (lumping_transfer expm_intertwine t (vlf_intertwine SP RP)).
Qed.

(* ------------------------------------------------------------------ *)
(* 1 : homogeneity, conjugation by diag(1, c, ..., c^k)                *)

Fixpoint vlscale n (c : R) k : 'M[R]_(vlsz n k) :=
  match k return 'M[R]_(vlsz n k) with
  | k'.+1 => block_mx 1%:M 0 0 (c *: vlscale n c k')
  | 0%N => 1%:M
  end.

Lemma vlscaleE n (c : R) k (d : R) :
  d *: vlscale n c k = vldiagf (fun i => (d * c ^+ i)%:M) k.
Proof.
elim: k d => [|k IH] d /=; first by rewrite expr0 mulr1 scalemx1.
rewrite scale_block_mx !scaler0 scalemx1 expr0 mulr1 scalerA IH.
congr (block_mx _ _ _ _); apply: eq_vldiagf => i _.
by rewrite exprS mulrA.
Qed.

Lemma vlscale_diagf n (c : R) k :
  vlscale n c k = vldiagf (fun i => (c ^+ i)%:M) k.
Proof.
rewrite -[LHS]scale1r vlscaleE; apply: eq_vldiagf => i _.
by rewrite mul1r.
Qed.

(* c goes with the rewards on the right-hand side. *)
Lemma vl_vlscale n (S : 'M[R]_n) (Rs : nat -> 'M[R]_n) (c : R) k :
  vl S Rs k *m vlscale n c k
  = vlscale n c k *m vl S (fun i => c *: Rs i) k.
Proof.
rewrite vlscale_diagf; apply: vlf_intertwine => i _.
  by rewrite scalar_mxC.
by rewrite mul_mx_scalar mul_scalar_mx scalerA exprSr.
Qed.

Lemma vltr_mul_vlscale n (c : R) k (M : 'M[R]_(vlsz n k)) :
  vltr (k := k) (M *m vlscale n c k) = c ^+ k *: vltr (k := k) M.
Proof. by rewrite vlscale_diagf vltr_mul_diagf mul_mx_scalar. Qed.

Lemma vltr_vlscale_mul n (c : R) k (M : 'M[R]_(vlsz n k)) :
  vltr (k := k) (vlscale n c k *m M) = vltr (k := k) M.
Proof. by rewrite vlscale_diagf vltr_diagf_mul expr0 mul1mx. Qed.

Lemma vltr_scale_all0 n (S : 'M[R]_n) (Rs : nat -> 'M[R]_n) (c : R) k :
  vltr (k := k) (expm (vl S (fun i => c *: Rs i) k))
  = c ^+ k *: vltr (k := k) (expm (vl S Rs k)).
Proof.
rewrite -vltr_mul_vlscale -(vltr_vlscale_mul c).
by rewrite (expm_intertwine (vl_vlscale S Rs c k)).
Qed.

Lemma vltr_scale_all n (S : 'M[R]_n) (Rs : nat -> 'M[R]_n) (c : R) k (t : R) :
  vltr (k := k) (expm (t *: vl S (fun i => c *: Rs i) k))
  = c ^+ k *: vltr (k := k) (expm (t *: vl S Rs k)).
Proof.
rewrite -vltr_mul_vlscale -(vltr_vlscale_mul c).
by rewrite (lumping_transfer expm_intertwine t (vl_vlscale S Rs c k)).
Qed.

Theorem mk_scale_all n (a : 'rV[R]_n) (S : 'M[R]_n) (Rs : nat -> 'M[R]_n)
    (c : R) k (t : R) :
  mk expm a S (fun i => c *: Rs i) k t = c ^+ k *: mk expm a S Rs k t.
Proof. by rewrite /mk vltr_scale_all -scalemxAr -scalemxAl. Qed.

(* ------------------------------------------------------------------ *)
(* 2 : regularisation of order k                                       *)

(* Multiply the generator by lam, leave the rewards alone, run for the
   shorter time t' with t' * lam = t, and multiply the result by lam^k. *)
Theorem mk_regularisation n (a : 'rV[R]_n) (S : 'M[R]_n)
    (Rs : nat -> 'M[R]_n) k (lam t t' : R) :
  t' * lam = t ->
  mk expm a S Rs k t
  = lam ^+ k *: (a *m vltr (k := k) (expm (t' *: vl (lam *: S) Rs k))
                   *m const_mx 1).
Proof.
move=> <-; rewrite /mk !vl_scale scalerA.
rewrite (@eq_vl _ _ (fun i => (t' * lam) *: Rs i)
                    (fun i => lam *: (t' *: Rs i))); last first.
  by move=> i _; rewrite scalerA mulrC.
by rewrite vltr_scale_all0 -scalemxAr -scalemxAl.
Qed.

(* ------------------------------------------------------------------ *)
(* 3 : time rescaling of order k                                       *)

Theorem mk_time_rescaling n (a : 'rV[R]_n) (S S' : 'M[R]_n)
    (Rs : nat -> 'M[R]_n) k (c t : R) :
  c *: S' = S -> mk expm a S' Rs k (c * t) = c ^+ k *: mk expm a S Rs k t.
Proof.
move=> <-; rewrite /mk !vl_scale scalerA (mulrC t c).
rewrite (@eq_vl _ _ (fun i => (c * t) *: Rs i)
                    (fun i => c *: (t *: Rs i))); last first.
  by move=> i _; rewrite scalerA.
by rewrite vltr_scale_all0 -scalemxAr -scalemxAl.
Qed.

(* ------------------------------------------------------------------ *)
(* 4 : multilinearity: additivity and homogeneity in ONE reward slot,   *)
(*     for every order k and every slot j < k                           *)

(* Rs with slot j replaced by X. *)
Definition rset n (Rs : nat -> 'M[R]_n) (j : nat) (X : 'M[R]_n)
    : nat -> 'M[R]_n :=
  fun i => if i == j then X else Rs i.

(* Homogeneity in slot j: conjugate by diag(1, .., 1, c, .., c), the first
   c at level j+1. *)
Lemma vltr_scale_slot n (S : 'M[R]_n) (Rs : nat -> 'M[R]_n) j (X : 'M[R]_n)
    (c : R) k (t : R) :
  (j < k)%N ->
  vltr (k := k) (expm (t *: vl S (rset Rs j (c *: X)) k))
  = c *: vltr (k := k) (expm (t *: vl S (rset Rs j X) k)).
Proof.
move=> jk.
pose Ps (i : nat) : 'M[R]_n := if (i <= j)%N then 1%:M else c%:M.
have := @vltr_transfer _ _ Ps S S (rset Rs j X) (rset Rs j (c *: X)) k t.
rewrite /Ps leq0n leqNgt jk /= mul1mx mul_mx_scalar => -> // i ik.
  by case: ifP => _; rewrite scalar_mxC.
rewrite /rset; case: (ltngtP i j) => _ /=.
- by rewrite mulmx1 mul1mx.
- by rewrite scalar_mxC.
- by rewrite mul_mx_scalar mul1mx.
Qed.

(* Additivity in slot j: over the doubled state space n + n, levels up to
   j live in the first copy, the reward of slot j sends the first copy to
   the first copy with X and to the second copy with Y, and the later
   levels run the two copies in parallel.  Three level-dependent 0/1
   intertwiners pick out the X part, the Y part and their sum. *)
Lemma vltr_additive_slot n (S : 'M[R]_n) (Rs : nat -> 'M[R]_n) j
    (X Y : 'M[R]_n) k (t : R) :
  (j < k)%N ->
  vltr (k := k) (expm (t *: vl S (rset Rs j (X + Y)) k))
  = vltr (k := k) (expm (t *: vl S (rset Rs j X) k))
    + vltr (k := k) (expm (t *: vl S (rset Rs j Y) k)).
Proof.
move=> jk.
pose S2 : 'M[R]_(n + n) := block_mx S 0 0 S.
pose R2 (i : nat) : 'M[R]_(n + n) :=
  if i == j then block_mx X Y 0 0 else block_mx (Rs i) 0 0 (Rs i).
pose e1 : 'M[R]_(n + n, n) := col_mx 1%:M 0.
pose e2 : 'M[R]_(n + n, n) := col_mx 0 1%:M.
pose e12 : 'M[R]_(n + n, n) := col_mx 1%:M 1%:M.
set T := vltr (k := k) (expm (t *: vl S2 R2 k)).
have Se1 : S2 *m e1 = e1 *m S by rewrite mul_block_col mul_col_mx; bsimp.
have Se2 : S2 *m e2 = e2 *m S by rewrite mul_block_col mul_col_mx; bsimp.
have Se12 : S2 *m e12 = e12 *m S by rewrite mul_block_col mul_col_mx; bsimp.
have HX : T *m e1 = e1 *m vltr (k := k) (expm (t *: vl S (rset Rs j X) k)).
  apply: (@vltr_transfer _ _ (fun _ => e1)) => // i _.
  by rewrite /R2 /rset; case: ifP => _; rewrite mul_block_col mul_col_mx; bsimp.
have HY : T *m e2 = e1 *m vltr (k := k) (expm (t *: vl S (rset Rs j Y) k)).
  pose Ps (i : nat) := if (i <= j)%N then e1 else e2.
  have := @vltr_transfer _ _ Ps S2 S R2 (rset Rs j Y) k t.
  rewrite /Ps leq0n leqNgt jk /= => -> // i ik.
    by case: ifP.
  by rewrite /R2 /rset; case: (ltngtP i j) => _ /=;
    rewrite mul_block_col mul_col_mx; bsimp.
have HXY : T *m e12
           = e1 *m vltr (k := k) (expm (t *: vl S (rset Rs j (X + Y)) k)).
  pose Ps (i : nat) := if (i <= j)%N then e1 else e12.
  have := @vltr_transfer _ _ Ps S2 S R2 (rset Rs j (X + Y)) k t.
  rewrite /Ps leq0n leqNgt jk /= => -> // i ik.
    by case: ifP.
  by rewrite /R2 /rset; case: (ltngtP i j) => _ /=;
    rewrite mul_block_col mul_col_mx; bsimp.
have e12E : e12 = e1 + e2 by rewrite /e1 /e2 add_col_mx addr0 add0r.
move: HXY; rewrite e12E mulmxDr HX HY -mulmxDr.
move/(congr1 (mulmx (row_mx 1%:M 0))).
by rewrite !mulmxA mul_row_col; bsimp.
Qed.

Theorem mk_scale_slot n (a : 'rV[R]_n) (S : 'M[R]_n) (Rs : nat -> 'M[R]_n) j
    (X : 'M[R]_n) (c : R) k (t : R) :
  (j < k)%N ->
  mk expm a S (rset Rs j (c *: X)) k t = c *: mk expm a S (rset Rs j X) k t.
Proof.
by move=> jk; rewrite /mk vltr_scale_slot // -scalemxAr -scalemxAl.
Qed.

Theorem mk_additive_slot n (a : 'rV[R]_n) (S : 'M[R]_n) (Rs : nat -> 'M[R]_n)
    j (X Y : 'M[R]_n) k (t : R) :
  (j < k)%N ->
  mk expm a S (rset Rs j (X + Y)) k t
  = mk expm a S (rset Rs j X) k t + mk expm a S (rset Rs j Y) k t.
Proof.
by move=> jk; rewrite /mk vltr_additive_slot // mulmxDr mulmxDl.
Qed.

Lemma mk_zero_slot n (a : 'rV[R]_n) (S : 'M[R]_n) (Rs : nat -> 'M[R]_n) j k
    (t : R) :
  (j < k)%N -> mk expm a S (rset Rs j 0) k t = 0.
Proof.
move=> jk; have := mk_scale_slot a S Rs 0 0 t jk.
by rewrite !scale0r.
Qed.

Theorem mk_sum_slot n (a : 'rV[R]_n) (S : 'M[R]_n) (Rs : nat -> 'M[R]_n) j k
    (t : R) (I : Type) (r : seq I) (P : pred I) (F : I -> 'M[R]_n) :
  (j < k)%N ->
  mk expm a S (rset Rs j (\sum_(i <- r | P i) F i)) k t
  = \sum_(i <- r | P i) mk expm a S (rset Rs j (F i)) k t.
Proof.
move=> jk; apply: (big_morph (fun X => mk expm a S (rset Rs j X) k t)).
  by move=> X Y; apply: mk_additive_slot.
exact: mk_zero_slot.
Qed.

(* k = 2 *)

Lemma m2_slot0 n (a : 'rV[R]_n) (S R1 R2 : 'M[R]_n) (t : R) :
  m2 expm a S R1 R2 t = mk expm a S (rset (rw2 0 R2) 0 R1) 2 t.
Proof. by rewrite -mk2; apply: eq_mk => -[|[|i]]. Qed.

Lemma m2_slot1 n (a : 'rV[R]_n) (S R1 R2 : 'M[R]_n) (t : R) :
  m2 expm a S R1 R2 t = mk expm a S (rset (rw2 R1 0) 1 R2) 2 t.
Proof. by rewrite -mk2; apply: eq_mk => -[|[|i]]. Qed.

Theorem m2_additive_l n (a : 'rV[R]_n) (S R1 R1' R2 : 'M[R]_n) (t : R) :
  m2 expm a S (R1 + R1') R2 t = m2 expm a S R1 R2 t + m2 expm a S R1' R2 t.
Proof. by rewrite !m2_slot0 mk_additive_slot. Qed.

Theorem m2_additive_r n (a : 'rV[R]_n) (S R1 R2 R2' : 'M[R]_n) (t : R) :
  m2 expm a S R1 (R2 + R2') t = m2 expm a S R1 R2 t + m2 expm a S R1 R2' t.
Proof. by rewrite !m2_slot1 mk_additive_slot. Qed.

Theorem m2_scale_l n (a : 'rV[R]_n) (S R1 R2 : 'M[R]_n) (c t : R) :
  m2 expm a S (c *: R1) R2 t = c *: m2 expm a S R1 R2 t.
Proof. by rewrite !m2_slot0 mk_scale_slot. Qed.

Theorem m2_scale_r n (a : 'rV[R]_n) (S R1 R2 : 'M[R]_n) (c t : R) :
  m2 expm a S R1 (c *: R2) t = c *: m2 expm a S R1 R2 t.
Proof. by rewrite !m2_slot1 mk_scale_slot. Qed.

Lemma m2_0l n (a : 'rV[R]_n) (S R2 : 'M[R]_n) (t : R) :
  m2 expm a S 0 R2 t = 0.
Proof. by have := m2_scale_l a S 0 R2 0 t; rewrite !scale0r. Qed.

Lemma m2_0r n (a : 'rV[R]_n) (S R1 : 'M[R]_n) (t : R) :
  m2 expm a S R1 0 t = 0.
Proof. by have := m2_scale_r a S R1 0 0 t; rewrite !scale0r. Qed.

Theorem m2_sum_l n (a : 'rV[R]_n) (S R2 : 'M[R]_n) (t : R)
    (I : Type) (r : seq I) (P : pred I) (Ra : I -> 'M[R]_n) :
  m2 expm a S (\sum_(i <- r | P i) Ra i) R2 t
  = \sum_(i <- r | P i) m2 expm a S (Ra i) R2 t.
Proof.
apply: (big_morph (fun X => m2 expm a S X R2 t)); last exact: m2_0l.
by move=> X Y; apply: m2_additive_l.
Qed.

Theorem m2_sum_r n (a : 'rV[R]_n) (S R1 : 'M[R]_n) (t : R)
    (J : Type) (s : seq J) (Q : pred J) (Rb : J -> 'M[R]_n) :
  m2 expm a S R1 (\sum_(j <- s | Q j) Rb j) t
  = \sum_(j <- s | Q j) m2 expm a S R1 (Rb j) t.
Proof.
apply: (big_morph (fun X => m2 expm a S R1 X t)); last exact: m2_0r.
by move=> X Y; apply: m2_additive_r.
Qed.

(* "The covariances of the parts sum to the variance of the whole". *)
Theorem m2_bilinear n (a : 'rV[R]_n) (S : 'M[R]_n) (t : R)
    (I J : Type) (r : seq I) (s : seq J) (P : pred I) (Q : pred J)
    (Ra : I -> 'M[R]_n) (Rb : J -> 'M[R]_n) :
  m2 expm a S (\sum_(i <- r | P i) Ra i) (\sum_(j <- s | Q j) Rb j) t
  = \sum_(i <- r | P i) \sum_(j <- s | Q j) m2 expm a S (Ra i) (Rb j) t.
Proof. by rewrite m2_sum_l; apply: eq_bigr => i _; apply: m2_sum_r. Qed.

(* the same over finite index types *)
Corollary m2_bilinear_fin n (a : 'rV[R]_n) (S : 'M[R]_n) (t : R)
    (I J : finType) (Ra : I -> 'M[R]_n) (Rb : J -> 'M[R]_n) :
  m2 expm a S (\sum_i Ra i) (\sum_j Rb j) t
  = \sum_i \sum_j m2 expm a S (Ra i) (Rb j) t.
Proof. exact: m2_bilinear. Qed.

(* ------------------------------------------------------------------ *)
(* 5 : first moments of finite sums                                    *)

Lemma m1_0 n (a : 'rV[R]_n) (S : 'M[R]_n) (t : R) : m1 expm a S 0 t = 0.
Proof. by have := m1_scale expm_intertwine a S 0 0 t; rewrite !scale0r. Qed.

Theorem m1_sum n (a : 'rV[R]_n) (S : 'M[R]_n) (t : R)
    (I : Type) (r : seq I) (P : pred I) (Rs : I -> 'M[R]_n) :
  m1 expm a S (\sum_(i <- r | P i) Rs i) t
  = \sum_(i <- r | P i) m1 expm a S (Rs i) t.
Proof.
apply: (big_morph (fun X => m1 expm a S X t)); last exact: m1_0.
by move=> X Y; apply: (m1_additive expm_intertwine).
Qed.

Corollary m1_sum_fin n (a : 'rV[R]_n) (S : 'M[R]_n) (t : R)
    (I : finType) (Rs : I -> 'M[R]_n) :
  m1 expm a S (\sum_i Rs i) t = \sum_i m1 expm a S (Rs i) t.
Proof. exact: m1_sum. Qed.

End ExpLaws2.

(* ------------------------------------------------------------------ *)
(* Assumption audit: every theorem is closed under the global context (its
   only premises are the explicit arguments R, expm and E2).            *)

Print Assumptions eq_vl.
Print Assumptions eq_mk.
Print Assumptions vlf_intertwine.
Print Assumptions vltr_transfer0.
Print Assumptions vltr_transfer.
Print Assumptions vlscale_diagf.
Print Assumptions vl_vlscale.
Print Assumptions vltr_scale_all0.
Print Assumptions vltr_scale_all.
Print Assumptions mk_scale_all.
Print Assumptions mk_regularisation.
Print Assumptions mk_time_rescaling.
Print Assumptions vltr_scale_slot.
Print Assumptions vltr_additive_slot.
Print Assumptions mk_scale_slot.
Print Assumptions mk_additive_slot.
Print Assumptions mk_zero_slot.
Print Assumptions mk_sum_slot.
Print Assumptions m2_additive_l.
Print Assumptions m2_additive_r.
Print Assumptions m2_scale_l.
Print Assumptions m2_scale_r.
Print Assumptions m2_sum_l.
Print Assumptions m2_sum_r.
Print Assumptions m2_bilinear.
Print Assumptions m2_bilinear_fin.
Print Assumptions m1_sum.
Print Assumptions m1_sum_fin.

(* ------------------------------------------------------------------ *)
(* Part 2 : the real matrix exponential.  The hypotheses E0, E1, E2 are
   discharged by analysis/MExp.v, so the results hold unconditionally
   over the reals.                                                      *)

From PG Require Import analysis.Rstruct analysis.RSums analysis.MExp.

Notation rexpm := (fun n : nat => @mexp n).

(* 1 : homogeneity of degree k in the rewards *)
Theorem real_mk_scale_all n (a : 'rV[R]_n) (S : 'M[R]_n)
    (Rs : nat -> 'M[R]_n) (c : R) k (t : R) :
  mk rexpm a S (fun i => c *: Rs i) k t = c ^+ k *: mk rexpm a S Rs k t.
Proof. exact: (mk_scale_all (expm := rexpm) (@mexp_intertwine)). Qed.

(* 2 : regularisation of order k *)
Theorem real_mk_regularisation n (a : 'rV[R]_n) (S : 'M[R]_n)
    (Rs : nat -> 'M[R]_n) k (lam t t' : R) :
  t' * lam = t ->
  mk rexpm a S Rs k t
  = lam ^+ k *: (a *m vltr (k := k) (mexp (t' *: vl (lam *: S) Rs k))
                   *m const_mx 1).
Proof. exact: (mk_regularisation (expm := rexpm) (@mexp_intertwine)). Qed.

(* 3 : time rescaling of order k *)
Theorem real_mk_time_rescaling n (a : 'rV[R]_n) (S S' : 'M[R]_n)
    (Rs : nat -> 'M[R]_n) k (c t : R) :
  c *: S' = S -> mk rexpm a S' Rs k (c * t) = c ^+ k *: mk rexpm a S Rs k t.
Proof. exact: (mk_time_rescaling (expm := rexpm) (@mexp_intertwine)). Qed.

(* 4 : multilinearity, one slot of order k *)
Theorem real_mk_additive_slot n (a : 'rV[R]_n) (S : 'M[R]_n)
    (Rs : nat -> 'M[R]_n) j (X Y : 'M[R]_n) k (t : R) :
  (j < k)%N ->
  mk rexpm a S (rset Rs j (X + Y)) k t
  = mk rexpm a S (rset Rs j X) k t + mk rexpm a S (rset Rs j Y) k t.
Proof. exact: (mk_additive_slot (expm := rexpm) (@mexp_intertwine)). Qed.

Theorem real_mk_scale_slot n (a : 'rV[R]_n) (S : 'M[R]_n)
    (Rs : nat -> 'M[R]_n) j (X : 'M[R]_n) (c : R) k (t : R) :
  (j < k)%N ->
  mk rexpm a S (rset Rs j (c *: X)) k t = c *: mk rexpm a S (rset Rs j X) k t.
Proof. exact: (mk_scale_slot (expm := rexpm) (@mexp_intertwine)). Qed.

(* 4 : bilinearity for k = 2 *)
Theorem real_m2_additive_l n (a : 'rV[R]_n) (S R1 R1' R2 : 'M[R]_n) (t : R) :
  m2 rexpm a S (R1 + R1') R2 t = m2 rexpm a S R1 R2 t + m2 rexpm a S R1' R2 t.
Proof. exact: (m2_additive_l (expm := rexpm) (@mexp_intertwine)). Qed.

Theorem real_m2_additive_r n (a : 'rV[R]_n) (S R1 R2 R2' : 'M[R]_n) (t : R) :
  m2 rexpm a S R1 (R2 + R2') t = m2 rexpm a S R1 R2 t + m2 rexpm a S R1 R2' t.
Proof. exact: (m2_additive_r (expm := rexpm) (@mexp_intertwine)). Qed.

Theorem real_m2_scale_l n (a : 'rV[R]_n) (S R1 R2 : 'M[R]_n) (c t : R) :
  m2 rexpm a S (c *: R1) R2 t = c *: m2 rexpm a S R1 R2 t.
Proof. exact: (m2_scale_l (expm := rexpm) (@mexp_intertwine)). Qed.

Theorem real_m2_scale_r n (a : 'rV[R]_n) (S R1 R2 : 'M[R]_n) (c t : R) :
  m2 rexpm a S R1 (c *: R2) t = c *: m2 rexpm a S R1 R2 t.
Proof. exact: (m2_scale_r (expm := rexpm) (@mexp_intertwine)). Qed.

Theorem real_m2_bilinear n (a : 'rV[R]_n) (S : 'M[R]_n) (t : R)
    (I J : finType) (Ra : I -> 'M[R]_n) (Rb : J -> 'M[R]_n) :
  m2 rexpm a S (\sum_i Ra i) (\sum_j Rb j) t
  = \sum_i \sum_j m2 rexpm a S (Ra i) (Rb j) t.
Proof. exact: (m2_bilinear_fin (expm := rexpm) (@mexp_intertwine)). Qed.

(* 5 : first moments of finite sums *)
Theorem real_m1_sum n (a : 'rV[R]_n) (S : 'M[R]_n) (t : R)
    (I : finType) (Rs : I -> 'M[R]_n) :
  m1 rexpm a S (\sum_i Rs i) t = \sum_i m1 rexpm a S (Rs i) t.
Proof. exact: (m1_sum_fin (expm := rexpm) (@mexp_intertwine)). Qed.

Print Assumptions real_mk_scale_all.
Print Assumptions real_mk_regularisation.
Print Assumptions real_mk_time_rescaling.
Print Assumptions real_mk_additive_slot.
Print Assumptions real_mk_scale_slot.
Print Assumptions real_m2_additive_l.
Print Assumptions real_m2_additive_r.
Print Assumptions real_m2_scale_l.
Print Assumptions real_m2_scale_r.
Print Assumptions real_m2_bilinear.
Print Assumptions real_m1_sum.
