(* Theorems about the PINNED reading gen/NormsGen.v of the loss classes of phasegen/norms.py (re-checked against the current source on
   every run by translate/norms2coq.py): for the three named L-norms (one-dimensional operands of equal length) the loss is non-negative,
   exactly zero at a perfect fit, strictly positive at every other vector, and symmetric - which is what "the generating parameters are
   recovered on noise-free data" and "a perfect fit of loss exactly 0 is kept when runs are merged" rest on. *)
From Coq Require Import Reals List Lra Lia.
From PG Require Import gen.NormsGen.
Import ListNotations.
Local Open Scope R_scope.

Lemma sum_abs_nonneg v : 0 <= fold_right (fun x s => Rabs x + s) 0 v.
Proof. induction v as [|x v IH]; cbn [fold_right]; [lra|]. pose proof (Rabs_pos x). lra. Qed.
Lemma sum_sq_nonneg v : 0 <= fold_right (fun x s => x * x + s) 0 v.
Proof. induction v as [|x v IH]; cbn [fold_right]; [lra|]. pose proof (Rle_0_sqr x) as H. unfold Rsqr in H. lra. Qed.
Lemma max_abs_nonneg v : 0 <= fold_right (fun x s => Rmax (Rabs x) s) 0 v.
Proof. induction v as [|x v IH]; cbn [fold_right]; [lra|]. eapply Rle_trans; [exact IH | apply Rmax_r]. Qed.

Theorem norm_nonneg v p : 0 <= linalg_norm v p.
Proof. destruct p; cbn [linalg_norm]; [apply sum_abs_nonneg | apply sqrt_pos | apply max_abs_nonneg]. Qed.

Theorem norm_zero_iff v p : linalg_norm v p = 0 <-> Forall (fun x => x = 0) v.
Proof.
  destruct p; cbn [linalg_norm].
  - induction v as [|x v IH]; cbn [fold_right]; [split; [constructor | reflexivity]|].
    pose proof (Rabs_pos x) as Hx. pose proof (sum_abs_nonneg v) as Hv. split.
    + intros H. assert (Hx0 : Rabs x = 0) by lra. constructor.
      * destruct (Req_dec x 0) as [E|E]; [exact E | apply Rabs_no_R0 in E; contradiction].
      * apply IH. lra.
    + intros H. inversion H as [|y l Hy Hl]; subst. rewrite Rabs_R0. apply IH in Hl. lra.
  - assert (Hs : forall v, fold_right (fun x s => x * x + s) 0 v = 0 <-> Forall (fun x => x = 0) v).
    { clear v. induction v as [|x v IH]; cbn [fold_right]; [split; [constructor | reflexivity]|].
      pose proof (Rle_0_sqr x) as Hx. unfold Rsqr in Hx. pose proof (sum_sq_nonneg v) as Hv. split.
      - intros H. assert (Hx0 : x * x = 0) by lra. constructor; [apply Rmult_integral in Hx0; destruct Hx0; assumption | apply IH; lra].
      - intros H. inversion H as [|y l Hy Hl]; subst. apply IH in Hl. lra. }
    rewrite <- Hs. split.
    + intros H. apply sqrt_eq_0; [apply sum_sq_nonneg | exact H].
    + intros H. rewrite H. apply sqrt_0.
  - induction v as [|x v IH]; cbn [fold_right]; [split; [constructor | reflexivity]|].
    pose proof (Rabs_pos x) as Hx. pose proof (max_abs_nonneg v) as Hv. split.
    + intros H. pose proof (Rmax_l (Rabs x) (fold_right (fun x s => Rmax (Rabs x) s) 0 v)) as H1.
      pose proof (Rmax_r (Rabs x) (fold_right (fun x s => Rmax (Rabs x) s) 0 v)) as H2.
      constructor.
      * destruct (Req_dec x 0) as [E|E]; [exact E | apply Rabs_no_R0 in E; lra].
      * apply IH. lra.
    + intros H. inversion H as [|y l Hy Hl]; subst. rewrite Rabs_R0. apply IH in Hl. rewrite Hl. apply Rmax_left. lra.
Qed.

Lemma vsub_self a : Forall (fun x => x = 0) (vsub a a).
Proof. unfold vsub. induction a as [|x a IH]; cbn [combine map]; constructor; [cbn; lra | exact IH]. Qed.

Lemma vsub_zero_eq : forall a b, length a = length b -> Forall (fun x => x = 0) (vsub a b) -> a = b.
Proof.
  unfold vsub. induction a as [|x a IH]; intros [|y b] HL H; cbn in HL; try lia; [reflexivity|].
  cbn [combine map] in H. inversion H as [|z l Hz Hl]; subst. cbn [fst snd] in Hz. f_equal; [lra | apply IH; [lia | exact Hl]].
Qed.

(* a perfect fit has loss exactly zero, any other vector of the same length a strictly positive one; the loss is symmetric *)
Theorem compute_nonneg p a b : 0 <= LNorm_compute p a b.
Proof. apply norm_nonneg. Qed.
Theorem compute_perfect_fit p a : LNorm_compute p a a = 0.
Proof. apply norm_zero_iff. apply vsub_self. Qed.
Theorem compute_zero_only_at_perfect_fit p a b : length a = length b -> LNorm_compute p a b = 0 -> a = b.
Proof. intros HL H. apply vsub_zero_eq; [exact HL | apply (norm_zero_iff _ p); exact H]. Qed.
Theorem compute_positive_off_fit p a b : length a = length b -> a <> b -> 0 < LNorm_compute p a b.
Proof.
  intros HL Hne. destruct (Rle_lt_or_eq_dec _ _ (compute_nonneg p a b)) as [H|H]; [exact H|].
  exfalso. apply Hne. apply (compute_zero_only_at_perfect_fit p); [exact HL | symmetry; exact H].
Qed.

Lemma vsub_swap : forall a b, vsub b a = map Ropp (vsub a b).
Proof.
  unfold vsub. induction a as [|x a IH]; intros [|y b]; cbn [combine map]; try reflexivity. rewrite IH. cbn [fst snd]. f_equal. lra.
Qed.
Lemma norm_opp v p : linalg_norm (map Ropp v) p = linalg_norm v p.
Proof.
  destruct p; cbn [linalg_norm]; [| f_equal |]; induction v as [|x v IH]; cbn [map fold_right]; try reflexivity;
    rewrite IH; try rewrite Rabs_Ropp; try reflexivity. lra.
Qed.
Theorem compute_symmetric p a b : LNorm_compute p a b = LNorm_compute p b a.
Proof. unfold LNorm_compute. rewrite (vsub_swap a b), norm_opp. reflexivity. Qed.
Print Assumptions compute_positive_off_fit.
