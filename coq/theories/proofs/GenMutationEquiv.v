(* Theorems about the PINNED reading gen/MutationGen.v of the mutation-configuration code (re-checked against the current source on every
   run by translate/mutation2coq.py).  The reading of the pinned text is the hand-written model, so the facts of proofs/UnfoldProofs.v
   hold of it under the names of the source:

     gen_unfolded_configs_spec / gen_folded_configs_spec   _get_configs(n, k) enumerates exactly the vectors with n - 1 (n / 2) entries
                                                            that sum to k, each once
     gen_unfold_is_fibre / gen_unfold_nodup                 _unfold(config) is exactly the set of unfolded configurations that fold to config
     gen_mutation_config_is_the_model                       the probability is mutation_prob of model/MutationProb.v *)
From Coq Require Import ZArith QArith List Arith Bool Lia.
From PG Require Import base.Ops model.CoalModels model.Matrix model.Mutation model.MutationProb proofs.UnfoldProofs gen.MutationGen.
Import ListNotations.

Theorem gen_unfolded_configs_spec : forall n k v, (2 <= n)%nat ->
  (In v (UnfoldedSFSDistribution_get_configs n k) <-> length v = (n - 1)%nat /\ sum_nat v = k).
Proof. intros n k v Hn. unfold UnfoldedSFSDistribution_get_configs, StateSpace_get_partitions. apply partitions_sum_spec. lia. Qed.

Theorem gen_unfolded_configs_nodup : forall n k, (2 <= n)%nat -> NoDup (UnfoldedSFSDistribution_get_configs n k).
Proof. intros n k Hn. unfold UnfoldedSFSDistribution_get_configs, StateSpace_get_partitions. apply partitions_sum_nodup. lia. Qed.

Theorem gen_folded_configs_spec : forall n k v, (2 <= n)%nat ->
  (In v (FoldedSFSDistribution_get_configs n k) <-> length v = (n / 2)%nat /\ sum_nat v = k).
Proof.
  intros n k v Hn. unfold FoldedSFSDistribution_get_configs, StateSpace_get_partitions. apply partitions_sum_spec.
  apply (Nat.div_le_lower_bound n 2 1); lia.
Qed.

Theorem gen_unfold_is_fibre : forall n config u, (2 <= n)%nat -> length config = (n / 2)%nat ->
  (In u (FoldedSFSDistribution_unfold n config) <-> length u = (n - 1)%nat /\ fold_config n u = config).
Proof. exact unfold_is_fibre. Qed.

Theorem gen_unfold_nodup : forall n config, (2 <= n)%nat -> length config = (n / 2)%nat -> NoDup (FoldedSFSDistribution_unfold n config).
Proof. exact unfold_nodup. Qed.

Theorem gen_mutation_config_is_the_model : forall {T : Type} (OP : Ops T) Sm Rs alpha mask theta config,
  SFSDistribution_get_mutation_config OP Sm Rs alpha mask theta config = mutation_prob OP Sm Rs alpha mask theta config.
Proof. reflexivity. Qed.

Print Assumptions gen_unfolded_configs_spec.
Print Assumptions gen_folded_configs_spec.
Print Assumptions gen_unfold_is_fibre.
