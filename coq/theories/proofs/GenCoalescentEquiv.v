(* Theorems about the PINNED reading gen/CoalescentGen.v of the routes of class Coalescent (re-checked against the current source on every
   run by translate/coalescent2coq.py):

     gen_moment_default_rewards           rewards=None is k copies of TreeHeightReward, on the lineage-counting state space
     gen_moment_space_iff_supported       a request runs on the lineage-counting space iff every reward supports it (proofs/RewardProofs.v:
                                          support_choice); an SFS reward or the block-counting unit reward forces the block-counting space
     gen_raw_moment_is_uncentred_ordered  _raw_moment is moment with center = permute = False
     gen_accumulate_same_route_as_moment  accumulate and moment reach the same distribution with the same rewards and flags
     gen_own_reward_is_unit               the distribution of _get_dist has the unit reward: the rewards of the request alone decide *)
From Coq Require Import ZArith QArith List Arith Bool Lia.
From PG Require Import base.Ops model.CoalModels model.StateSpace model.Rewards proofs.RewardProofs gen.CoalescentGen.
Import ListNotations.

Theorem gen_moment_default_rewards : forall k st en c p,
  Coalescent_moment k None st en c p = mkRoute LineageCounting RUnit k (repeat RTreeHeight k) st en c p.
Proof.
  intros. unfold Coalescent_moment, Coalescent_get_dist_space. cbv zeta.
  replace (choose_lc (repeat RTreeHeight k)) with true; [reflexivity|].
  symmetry. unfold choose_lc. apply forallb_forall. intros r Hr. apply repeat_spec in Hr. subst r. reflexivity.
Qed.

Theorem gen_moment_space_iff_supported : forall k rs st en c p,
  r_space (Coalescent_moment k (Some rs) st en c p) = LineageCounting <-> Forall (fun r => supports_lc r = true) rs.
Proof.
  intros. unfold Coalescent_moment, Coalescent_get_dist_space. cbn [r_space].
  rewrite <- support_choice. destruct (choose_lc rs); split; intros H; try reflexivity; try discriminate.
Qed.

Theorem gen_sfs_reward_forces_block_counting : forall k rs i st en c p, In (RUnfoldedSFS i) rs ->
  r_space (Coalescent_moment k (Some rs) st en c p) = BlockCounting.
Proof.
  intros. unfold Coalescent_moment, Coalescent_get_dist_space. cbn [r_space]. rewrite (unfolded_sfs_forces_bc i rs H). reflexivity.
Qed.

Theorem gen_raw_moment_is_uncentred_ordered : forall k rs st en,
  Coalescent_raw_moment k rs st en = Coalescent_moment k rs st en false false.
Proof. reflexivity. Qed.

Theorem gen_accumulate_same_route_as_moment : forall k rs c p,
  Coalescent_accumulate k rs c p = Coalescent_moment k rs None None c p.
Proof. reflexivity. Qed.

Theorem gen_own_reward_is_unit : forall k rs st en c p, r_own (Coalescent_moment k rs st en c p) = RUnit.
Proof. reflexivity. Qed.

Print Assumptions gen_moment_default_rewards.
Print Assumptions gen_moment_space_iff_supported.
Print Assumptions gen_sfs_reward_forces_block_counting.
