(* Theorems about the PINNED reading gen/MarginalsGen.v of the marginal distributions and the density of
   phasegen/distributions.py (translate/marginals2coq.py re-checks the pin against the current source on every run).

     gen_deme_cov_entry / gen_locus_cov_entry     entry (row j, column i) of the covariance matrix across demes / loci is get_cov of the
                                                  i-th and j-th population / locus; the diagonal is get_cov(p, p)
     gen_deme_cov_symmetric                       the matrix is symmetric when the centred second cross moment is (proofs/GenMomentsEquiv.v:
                                                  source_covariance_symmetric)
     gen_deme_cov_total / gen_locus_cov_total     the sum of all entries is the double sum of get_cov (with analysis/SourceCovariance.v:
                                                  = the variance)
     gen_deme_corr_entry                          corr entry = cov entry / (std * std) with std = sqrt(var) of the marginal distributions
     gen_marginal_mean_is_moment                  demes[p].mean is moment(k=1) of the distribution whose own reward is CombinedReward([r, DemeReward(p)])
     gen_pdf_pointwise / gen_pdf_nonneg / pdf_window   pdf(t) is the difference quotient of the cdf over [x1, x1 + dx] with
                                                  x1 = max(t - dx/2, 0) >= 0, a window that contains t; it is >= 0 when the cdf is
                                                  non-decreasing on [0, oo) *)
From Coq Require Import ZArith QArith Qreals Reals List Arith Bool Lia Lra Lqa.
From PG Require Import base.Ops base.OpsR model.CoalModels model.Matrix gen.MarginalsGen.
Import ListNotations.
Local Open Scope R_scope.

Lemma nth_map_in {A B : Type} (f : A -> B) (l : list A) (i : nat) (da : A) (db : B) :
  (i < length l)%nat -> nth i (map f l) db = f (nth i l da).
Proof. revert i. induction l as [|x l IH]; intros [|i] H; cbn in *; try lia; [reflexivity|]. apply IH. lia. Qed.

Fixpoint rsum (l : list R) : R := match l with [] => 0 | x :: l' => x + rsum l' end.

Section Equiv.
  Variable Rw Pop : Type.
  Variable comb_deme : Rw -> Pop -> Rw.
  Variable comb_locus : Rw -> nat -> Rw.
  Variable pmoment : Rw -> nat -> option (list Rw) -> bool -> R.
  Variable sqrtf : R -> R.

  Notation get_cov_d := (MarginalDemeDistributions_get_cov Rw Pop comb_deme pmoment).
  Notation cov_d := (MarginalDemeDistributions_cov Rw Pop comb_deme pmoment).
  Notation corr_d := (MarginalDemeDistributions_corr OpsR Rw Pop comb_deme pmoment sqrtf).
  Notation get_corr_d := (MarginalDemeDistributions_get_corr OpsR Rw Pop comb_deme pmoment sqrtf).
  Notation get_cov_l := (MarginalLocusDistributions_get_cov Rw comb_locus pmoment).
  Notation cov_l := (MarginalLocusDistributions_cov Rw comb_locus pmoment).

  Theorem gen_deme_cov_entry : forall r pops i j d, (i < length pops)%nat -> (j < length pops)%nat ->
    nth i (nth j (cov_d r pops) []) 0 = get_cov_d r (nth i pops d) (nth j pops d).
  Proof.
    intros r pops i j d Hi Hj. unfold MarginalDemeDistributions_cov.
    rewrite (nth_map_in _ pops j d []) by exact Hj. rewrite (nth_map_in _ pops i d 0) by exact Hi. reflexivity.
  Qed.

  Theorem gen_deme_cov_diag : forall r pops i d, (i < length pops)%nat ->
    nth i (nth i (cov_d r pops) []) 0 = pmoment r 2 (Some [comb_deme r (nth i pops d); comb_deme r (nth i pops d)]) true.
  Proof. intros. rewrite (gen_deme_cov_entry r pops i i d) by assumption. reflexivity. Qed.

  Theorem gen_deme_cov_symmetric : forall r pops i j,
    (forall a b, pmoment r 2 (Some [a; b]) true = pmoment r 2 (Some [b; a]) true) ->
    (i < length pops)%nat -> (j < length pops)%nat ->
    nth i (nth j (cov_d r pops) []) 0 = nth j (nth i (cov_d r pops) []) 0.
  Proof.
    intros r pops i j Hsym Hi Hj. destruct pops as [|d pops']; [cbn in Hi; lia|].
    rewrite (gen_deme_cov_entry r _ i j d), (gen_deme_cov_entry r _ j i d) by assumption.
    unfold MarginalDemeDistributions_get_cov. apply Hsym.
  Qed.

  Theorem gen_deme_cov_total : forall r pops,
    rsum (map rsum (cov_d r pops)) = rsum (map (fun p2 => rsum (map (fun p1 => get_cov_d r p1 p2) pops)) pops).
  Proof. intros. unfold MarginalDemeDistributions_cov. rewrite map_map. reflexivity. Qed.

  Theorem gen_deme_corr_entry : forall r pops i j d, (i < length pops)%nat -> (j < length pops)%nat ->
    nth i (nth j (corr_d r pops) []) 0
    = nth i (nth j (cov_d r pops) []) 0
      / (sqrtf (pmoment (comb_deme r (nth i pops d)) 2 None true) * sqrtf (pmoment (comb_deme r (nth j pops d)) 2 None true)).
  Proof.
    intros r pops i j d Hi Hj. rewrite (gen_deme_cov_entry r pops i j d) by assumption.
    unfold MarginalDemeDistributions_corr.
    rewrite (nth_map_in _ pops j d []) by exact Hj. rewrite (nth_map_in _ pops i d 0) by exact Hi. reflexivity.
  Qed.

  Theorem gen_marginal_mean_is_moment : forall r pops p,
    In p pops -> In (p, comb_deme r p) (MarginalDemeDistributions_demes Rw Pop comb_deme r pops)
    /\ PhaseTypeDistribution_mean Rw pmoment (comb_deme r p) = pmoment (comb_deme r p) 1 None true.
  Proof. intros r pops p Hin. split; [|reflexivity]. unfold MarginalDemeDistributions_demes. apply in_map_iff. exists p. auto. Qed.

  Theorem gen_locus_cov_entry : forall r nl i j, (i < nl)%nat -> (j < nl)%nat ->
    nth i (nth j (cov_l r nl) []) 0 = get_cov_l r i j.
  Proof.
    intros r nl i j Hi Hj. unfold MarginalLocusDistributions_cov.
    rewrite (nth_map_in _ (seq 0 nl) j 0%nat []) by (rewrite seq_length; exact Hj).
    rewrite (nth_map_in _ (seq 0 nl) i 0%nat 0) by (rewrite seq_length; exact Hi).
    rewrite !seq_nth by assumption. reflexivity.
  Qed.

  Theorem gen_locus_cov_total : forall r nl,
    rsum (map rsum (cov_l r nl)) = rsum (map (fun j => rsum (map (fun i => get_cov_l r i j) (seq 0 nl))) (seq 0 nl)).
  Proof. intros. unfold MarginalLocusDistributions_cov. rewrite map_map. reflexivity. Qed.
End Equiv.

(* ---------------- the density ---------------- *)
Lemma pdf_x1_ge0 : forall dx t, (0 <= pdf_x1 dx t)%Q.
Proof. intros dx t. unfold pdf_x1. cbv zeta. destruct (Qlt_le_dec (t - dx / 2) 0) as [H|H]; [apply Qle_refl | exact H]. Qed.

Lemma pdf_window : forall dx t, (0 < dx)%Q -> (0 <= t)%Q -> (pdf_x1 dx t <= t)%Q /\ (t <= pdf_x1 dx t + dx)%Q.
Proof.
  intros dx t Hdx Ht. unfold pdf_x1. cbv zeta.
  assert (H2 : (dx / 2 == dx * (1 # 2))%Q) by (unfold Qdiv; reflexivity).
  destruct (Qlt_le_dec (t - dx / 2) 0) as [H|H]; rewrite H2 in H; split; try rewrite H2; Lqa.lra.
Qed.

Section Pdf.
  Variable F : Q -> R.                       (* the distribution function, one time at a time *)
  Variable q99 : Q.
  Let cdf (ts : list Q) : list R := map F ts.

  Theorem gen_pdf_pointwise : forall ts dx,
    TreeHeightDistribution_pdf OpsR cdf q99 ts (Some dx)
    = map (fun t => (F (pdf_x1 dx t + dx) - F (pdf_x1 dx t)) / oofQ OpsR dx) ts.
  Proof.
    intros ts dx. unfold TreeHeightDistribution_pdf, cdf. rewrite !map_map.
    induction ts as [|t ts IH]; [reflexivity|]. cbn [map combine]. rewrite IH. reflexivity.
  Qed.

  Theorem gen_pdf_default_dx : forall ts,
    TreeHeightDistribution_pdf OpsR cdf q99 ts None = TreeHeightDistribution_pdf OpsR cdf q99 ts (Some (q99 / (10000000000 # 1))%Q).
  Proof. reflexivity. Qed.

  Hypothesis F_mono : forall a b, (0 <= a)%Q -> (a <= b)%Q -> F a <= F b.

  Theorem gen_pdf_nonneg : forall ts dx, (0 < dx)%Q -> 0 < oofQ OpsR dx ->
    Forall (fun x => 0 <= x) (TreeHeightDistribution_pdf OpsR cdf q99 ts (Some dx)).
  Proof.
    intros ts dx Hdx HdxR. rewrite gen_pdf_pointwise. apply Forall_forall. intros x Hx.
    apply in_map_iff in Hx. destruct Hx as [t [<- _]].
    assert (H : F (pdf_x1 dx t) <= F (pdf_x1 dx t + dx)).
    { apply F_mono; [apply pdf_x1_ge0|]. Lqa.lra. }
    unfold Rdiv. apply Rmult_le_pos; [Lra.lra|]. left. apply Rinv_0_lt_compat. exact HdxR.
  Qed.
End Pdf.

Print Assumptions gen_deme_cov_entry.
Print Assumptions gen_deme_cov_symmetric.
Print Assumptions gen_deme_cov_total.
Print Assumptions gen_deme_corr_entry.
Print Assumptions gen_locus_cov_entry.
Print Assumptions gen_pdf_pointwise.
Print Assumptions gen_pdf_nonneg.
Print Assumptions pdf_window.
