From Coq Require Import ZArith Reals List Arith Lia Lra Psatz.
From PG Require Import base.Ops base.OpsR model.CoalModels model.LambdaSpec.
Import ListNotations.
Open Scope R_scope.

(* The block-counting rates of all outcomes of one merger size sum to the
   lineage-counting rate (generalised Vandermonde identity).

   [blocks] = (a_1 ... a_n): a_i lineages subtend i samples.  [upd] silently does
   nothing out of range, so the identity needs the incremented position to exist:
   sum_i i * a_i <= n ([wf_blocks]); in the real code sum_i i * a_i = n.
   Without [wf_blocks] the statement is false: for blocks = [2;2] (computed with OpsQ)
   the Kingman outcome sums are 1 (k=2) and 5 (k=3) against rates 6 and 0, and the
   Beta(3/2) sums are 5/8, 25/8, 1/2, 1/8 (k=2..5) against 15/4, 1/2, 1/8, 0. *)

Definition wf_blocks (blocks : list nat) : Prop :=
  (sum_nat (map (fun ci => fst ci * S (snd ci)) (combine blocks (seq 0 (length blocks)))) <= length blocks)%nat.

Ltac bools :=
  repeat match goal with
  | H : Nat.eqb _ _ = true |- _ => apply Nat.eqb_eq in H
  | H : Nat.eqb _ _ = false |- _ => apply Nat.eqb_neq in H
  | H : Nat.leb _ _ = true |- _ => apply Nat.leb_le in H
  | H : Nat.leb _ _ = false |- _ => apply Nat.leb_gt in H
  | H : Nat.ltb _ _ = true |- _ => apply Nat.ltb_lt in H
  | H : Nat.ltb _ _ = false |- _ => apply Nat.ltb_ge in H
  end.

(* ------------------------------------------------------------------ *)
(* sums over lists                                                    *)
(* ------------------------------------------------------------------ *)

Definition Rsum (l : list R) : R := fold_right Rplus 0 l.
Definition Zlsum (l : list Z) : Z := fold_right Z.add 0%Z l.

Lemma Rsum_app : forall l1 l2, Rsum (l1 ++ l2) = Rsum l1 + Rsum l2.
Proof.
  induction l1 as [|x l1 IH]; intros l2; simpl.
  - lra.
  - rewrite IH. lra.
Qed.

Lemma Zlsum_app : forall l1 l2, Zlsum (l1 ++ l2) = (Zlsum l1 + Zlsum l2)%Z.
Proof.
  induction l1 as [|x l1 IH]; intros l2; simpl.
  - reflexivity.
  - rewrite IH. ring.
Qed.

Lemma Rsum_flat_map_filter :
  forall {A} (P : list nat * R -> bool) (f : A -> list (list nat * R)) (l : list A),
    Rsum (map snd (filter P (flat_map f l)))
    = Rsum (map (fun x => Rsum (map snd (filter P (f x)))) l).
Proof.
  intros A P f l. induction l as [|x l IH]; simpl.
  - reflexivity.
  - rewrite filter_app, map_app, Rsum_app, IH. reflexivity.
Qed.

Lemma Zlsum_flat_map :
  forall {A B} (F : B -> Z) (g : A -> list B) (l : list A),
    Zlsum (map F (flat_map g l)) = Zlsum (map (fun x => Zlsum (map F (g x))) l).
Proof.
  intros A B F g l. induction l as [|x l IH]; simpl.
  - reflexivity.
  - rewrite map_app, Zlsum_app, IH. reflexivity.
Qed.

Lemma Zlsum_map_mult :
  forall {A} (c : Z) (f : A -> Z) (l : list A),
    Zlsum (map (fun x => c * f x)%Z l) = (c * Zlsum (map f l))%Z.
Proof.
  intros A c f l. induction l as [|x l IH]; simpl.
  - ring.
  - rewrite IH. ring.
Qed.

Lemma Zlsum_map_zero :
  forall {A} (l : list A), Zlsum (map (fun _ => 0%Z) l) = 0%Z.
Proof.
  intros A l. induction l as [|x l IH]; simpl; [reflexivity|]. rewrite IH. reflexivity.
Qed.

Lemma Rsum_map_mult :
  forall {A} (c : R) (f : A -> R) (l : list A),
    Rsum (map (fun x => f x * c) l) = Rsum (map f l) * c.
Proof.
  intros A c f l. induction l as [|x l IH]; simpl.
  - ring.
  - rewrite IH. ring.
Qed.

Lemma Rsum_map_plus :
  forall {A} (f g : A -> R) (l : list A),
    Rsum (map (fun x => f x + g x) l) = Rsum (map f l) + Rsum (map g l).
Proof.
  intros A f g l. induction l as [|x l IH]; simpl.
  - ring.
  - rewrite IH. ring.
Qed.

Lemma IZR_Zlsum : forall l, IZR (Zlsum l) = Rsum (map IZR l).
Proof.
  induction l as [|x l IH]; simpl.
  - reflexivity.
  - rewrite plus_IZR, IH. reflexivity.
Qed.

(* sums over an initial segment of nat *)
Fixpoint Zsum (f : nat -> Z) (n : nat) : Z :=
  match n with O => 0%Z | S n' => (Zsum f n' + f n')%Z end.

Lemma Zsum_ext : forall f g n, (forall i, (i < n)%nat -> f i = g i) -> Zsum f n = Zsum g n.
Proof.
  intros f g n. induction n as [|n IH]; intros H; simpl.
  - reflexivity.
  - rewrite IH by (intros i Hi; apply H; lia). rewrite H by lia. reflexivity.
Qed.

Lemma Zsum_zero : forall f n, (forall i, (i < n)%nat -> f i = 0%Z) -> Zsum f n = 0%Z.
Proof.
  intros f n. induction n as [|n IH]; intros H; simpl.
  - reflexivity.
  - rewrite IH by (intros i Hi; apply H; lia). rewrite H by lia. reflexivity.
Qed.

Lemma Zsum_shift : forall f n, Zsum f (S n) = (f O + Zsum (fun i => f (S i)) n)%Z.
Proof.
  intros f n. induction n as [|n IH].
  - simpl. ring.
  - change (Zsum f (S (S n))) with (Zsum f (S n) + f (S n))%Z.
    rewrite IH. simpl. ring.
Qed.

Lemma Zsum_plus : forall f g n, Zsum (fun i => f i + g i)%Z n = (Zsum f n + Zsum g n)%Z.
Proof.
  intros f g n. induction n as [|n IH]; simpl.
  - reflexivity.
  - rewrite IH. ring.
Qed.

Lemma Zsum_stable :
  forall f M N, (forall c, (M <= c)%nat -> f c = 0%Z) -> (M <= N)%nat -> Zsum f N = Zsum f M.
Proof.
  intros f M N Hz HMN. induction HMN as [|N HMN IH].
  - reflexivity.
  - simpl. rewrite IH, Hz by lia. ring.
Qed.

Lemma Zlsum_seq : forall f n, Zlsum (map f (seq 0 n)) = Zsum f n.
Proof.
  intros f n. induction n as [|n IH].
  - reflexivity.
  - rewrite seq_S, map_app, Zlsum_app, IH. simpl. ring.
Qed.

(* ------------------------------------------------------------------ *)
(* binomial coefficients and Vandermonde                              *)
(* ------------------------------------------------------------------ *)

Lemma binom_0_r : forall n, binom n 0 = 1%Z.
Proof. intros [|n]; reflexivity. Qed.

Lemma binom_0_S : forall k, binom 0 (S k) = 0%Z.
Proof. reflexivity. Qed.

Lemma binom_S_S : forall n k, binom (S n) (S k) = (binom n k + binom n (S k))%Z.
Proof. reflexivity. Qed.

Lemma binom_gt : forall n k, (n < k)%nat -> binom n k = 0%Z.
Proof.
  induction n as [|n IH]; intros [|k] H; try lia.
  - reflexivity.
  - rewrite binom_S_S, !IH by lia. reflexivity.
Qed.

Lemma binom_1_r : forall n, binom n 1 = Z.of_nat n.
Proof.
  induction n as [|n IH].
  - reflexivity.
  - rewrite binom_S_S, binom_0_r, IH. lia.
Qed.

Lemma binom_2_r : forall n, (2 * binom n 2 = Z.of_nat n * (Z.of_nat n - 1))%Z.
Proof.
  induction n as [|n IH].
  - reflexivity.
  - rewrite binom_S_S, binom_1_r.
    replace (Z.of_nat (S n)) with (Z.of_nat n + 1)%Z by lia. nia.
Qed.

Theorem vandermonde2 :
  forall p q k,
    Zsum (fun j => binom p j * binom q (k - j))%Z (S k) = binom (p + q) k.
Proof.
  induction p as [|p IH]; intros q k.
  - rewrite Zsum_shift, binom_0_r, Nat.sub_0_r.
    rewrite Zsum_zero by (intros i _; rewrite binom_0_S; ring).
    rewrite Nat.add_0_l. ring.
  - destruct k as [|k].
    + simpl. rewrite !binom_0_r. reflexivity.
    + rewrite Zsum_shift, binom_0_r, Nat.sub_0_r.
      rewrite (Zsum_ext _ (fun i => binom p i * binom q (k - i)
                                    + binom p (S i) * binom q (S k - S i))%Z)
        by (intros i _; rewrite binom_S_S; simpl Nat.sub; ring).
      rewrite Zsum_plus, IH.
      pose proof (IH q (S k)) as E.
      rewrite Zsum_shift, binom_0_r, Nat.sub_0_r in E.
      replace (S p + q)%nat with (S (p + q)) by lia.
      rewrite binom_S_S. lia.
Qed.

(* product of the per-class binomials *)
Definition prodb (bs ks : list nat) : Z :=
  fold_right Z.mul 1%Z (map (fun bk => binom (fst bk) (snd bk)) (combine bs ks)).

Lemma prodb_cons : forall b bs k ks, prodb (b :: bs) (k :: ks) = (binom b k * prodb bs ks)%Z.
Proof. reflexivity. Qed.

Lemma all_combs_cons :
  forall b rest,
    all_combs (b :: rest)
    = flat_map (fun c => map (fun tl => c :: tl) (all_combs rest)) (seq 0 (S b)).
Proof. reflexivity. Qed.

Lemma sum_nat_cons : forall x l, sum_nat (x :: l) = (x + sum_nat l)%nat.
Proof. reflexivity. Qed.

(* sum over all comb <= blocks with |comb| = k of prod_i C(a_i, c_i)  =  C(sum_i a_i, k) *)
Theorem vandermonde_general :
  forall (blocks : list nat) (k : nat),
    Zlsum (map (fun comb => if Nat.eqb (sum_nat comb) k then prodb blocks comb else 0%Z)
               (all_combs blocks))
    = binom (sum_nat blocks) k.
Proof.
  induction blocks as [|b rest IH]; intros k.
  - destruct k as [|k]; reflexivity.
  - rewrite all_combs_cons, Zlsum_flat_map, sum_nat_cons.
    rewrite (map_ext_in _
      (fun c => if Nat.leb c k then (binom b c * binom (sum_nat rest) (k - c))%Z else 0%Z)).
    2:{ intros c _. rewrite map_map.
        destruct (Nat.leb c k) eqn:Hck.
        - bools.
          rewrite <- IH, <- Zlsum_map_mult. f_equal. apply map_ext. intros tl.
          rewrite sum_nat_cons, prodb_cons.
          destruct (Nat.eqb (sum_nat tl) (k - c)) eqn:E1;
            destruct (Nat.eqb (c + sum_nat tl) k) eqn:E2;
            bools; try lia; ring.
        - bools.
          transitivity (Zlsum (map (fun _ : list nat => 0%Z) (all_combs rest)));
            [|apply Zlsum_map_zero].
          f_equal. apply map_ext. intros tl.
          rewrite sum_nat_cons.
          destruct (Nat.eqb (c + sum_nat tl) k) eqn:E2; [bools; lia | reflexivity]. }
    rewrite Zlsum_seq.
    set (h := fun c => if Nat.leb c k then (binom b c * binom (sum_nat rest) (k - c))%Z else 0%Z).
    rewrite <- vandermonde2.
    transitivity (Zsum h (S (Nat.max b k))).
    + symmetry. apply Zsum_stable; [|lia].
      intros c Hc. unfold h. rewrite binom_gt by lia. destruct (Nat.leb c k); ring.
    + transitivity (Zsum h (S k)).
      * apply Zsum_stable; [|lia].
        intros c Hc. unfold h. destruct (Nat.leb c k) eqn:E; [bools; lia | reflexivity].
      * apply Zsum_ext. intros i Hi. unfold h.
        destruct (Nat.leb i k) eqn:E; [reflexivity | bools; lia].
Qed.

Corollary vandermonde_general_R :
  forall (blocks : list nat) (k : nat),
    Rsum (map (fun comb => if Nat.eqb (sum_nat comb) k then IZR (prodb blocks comb) else 0)
              (all_combs blocks))
    = IZR (binom (sum_nat blocks) k).
Proof.
  intros blocks k. rewrite <- vandermonde_general, IZR_Zlsum, map_map.
  f_equal. apply map_ext. intros comb.
  destruct (Nat.eqb (sum_nat comb) k); reflexivity.
Qed.

(* ------------------------------------------------------------------ *)
(* all_combs, upd, dot_idx                                            *)
(* ------------------------------------------------------------------ *)

Lemma all_combs_le :
  forall blocks comb, In comb (all_combs blocks) -> Forall2 le comb blocks.
Proof.
  induction blocks as [|b rest IH]; intros comb H.
  - destruct H as [<-|[]]. constructor.
  - rewrite all_combs_cons in H. apply in_flat_map in H.
    destruct H as [c [Hc H]]. apply in_map_iff in H. destruct H as [tl [<- Htl]].
    apply in_seq in Hc. constructor; [lia | auto].
Qed.

Lemma F2le_length : forall comb blocks, Forall2 le comb blocks -> length comb = length blocks.
Proof.
  intros comb blocks H. induction H as [|c b cs bs Hcb H IH]; simpl; [reflexivity | rewrite IH; reflexivity].
Qed.

Lemma F2le_sum : forall comb blocks, Forall2 le comb blocks -> (sum_nat comb <= sum_nat blocks)%nat.
Proof.
  intros comb blocks H. induction H as [|c b cs bs Hcb H IH].
  - apply le_n.
  - rewrite !sum_nat_cons. lia.
Qed.

Lemma F2le_sub_sum :
  forall comb blocks, Forall2 le comb blocks ->
    (sum_nat (map (fun bc => fst bc - snd bc) (combine blocks comb)) + sum_nat comb = sum_nat blocks)%nat.
Proof.
  intros comb blocks H. induction H as [|c b cs bs Hcb H IH].
  - reflexivity.
  - simpl combine. simpl map. rewrite !sum_nat_cons. simpl fst. simpl snd. lia.
Qed.

Definition dotw (off : nat) (l : list nat) : nat :=
  sum_nat (map (fun ci => fst ci * S (snd ci))%nat (combine l (seq off (length l)))).

Lemma dotw_cons : forall off a l, dotw off (a :: l) = (a * S off + dotw (S off) l)%nat.
Proof. reflexivity. Qed.

Lemma dot_idx_dotw : forall comb, dot_idx comb = dotw 0 comb.
Proof. reflexivity. Qed.

Lemma wf_blocks_dotw : forall blocks, wf_blocks blocks <-> (dotw 0 blocks <= length blocks)%nat.
Proof. intros blocks. reflexivity. Qed.

Lemma F2le_dotw :
  forall comb blocks, Forall2 le comb blocks -> forall off, (dotw off comb <= dotw off blocks)%nat.
Proof.
  intros comb blocks H. induction H as [|c b cs bs Hcb H IH]; intros off.
  - apply le_n.
  - rewrite !dotw_cons. specialize (IH (S off)). nia.
Qed.

Lemma upd_length : forall {A} (l : list A) i f, length (upd l i f) = length l.
Proof.
  intros A l. induction l as [|x l IH]; intros [|i] f; simpl; try reflexivity.
  rewrite IH. reflexivity.
Qed.

Lemma sum_upd :
  forall l i f, (i < length l)%nat ->
    (sum_nat (upd l i f) + nth i l 0 = sum_nat l + f (nth i l 0))%nat.
Proof.
  induction l as [|x l IH]; intros [|i] f H; simpl in H; try lia.
  - simpl upd. simpl nth. rewrite !sum_nat_cons. lia.
  - simpl upd. simpl nth. rewrite !sum_nat_cons. specialize (IH i f). lia.
Qed.

Lemma sum_upd_S :
  forall l i, (i < length l)%nat -> sum_nat (upd l i S) = S (sum_nat l).
Proof.
  intros l i H. pose proof (sum_upd l i S H). lia.
Qed.

Lemma nth_upd_neq :
  forall l i j f, i <> j -> nth j (upd l i f) 0%nat = nth j l 0%nat.
Proof.
  induction l as [|x l IH]; intros [|i] [|j] f H; simpl; try reflexivity; try lia.
  apply IH. lia.
Qed.

(* ------------------------------------------------------------------ *)
(* multiple-merger models: one term per comb                          *)
(* ------------------------------------------------------------------ *)

Lemma mm_outcome_sum :
  forall (m : cmodel (T:=R)) (blocks : list nat) (k : nat),
    wf_blocks blocks -> (1 <= length blocks)%nat -> (2 <= k)%nat ->
    Rsum (map snd (filter (fun o => Nat.eqb (sum_nat (fst o) + k) (sum_nat blocks + 1))
                          (mm_coalesce_bc OpsR m blocks)))
    = Rsum (map (fun comb =>
                   if Nat.eqb (sum_nat comb) k
                   then get_rate_bc OpsR m (sum_nat blocks)
                                    (filter_pos blocks comb) (filter_pos comb comb)
                   else 0) (all_combs blocks)).
Proof.
  intros m blocks k Hwf Hlen Hk. unfold mm_coalesce_bc.
  rewrite Rsum_flat_map_filter. f_equal. apply map_ext_in. intros comb Hin.
  apply all_combs_le in Hin.
  pose proof (F2le_sub_sum _ _ Hin) as Hsub.
  pose proof (F2le_sum _ _ Hin) as Hsum.
  pose proof (F2le_dotw _ _ Hin 0%nat) as Hdot.
  pose proof (F2le_length _ _ Hin) as Hl.
  change (dotw 0 blocks <= length blocks)%nat in Hwf. rewrite <- dot_idx_dotw in Hdot.
  destruct (Nat.ltb 1 (sum_nat comb)) eqn:E1; bools.
  - cbn [filter fst snd].
    rewrite sum_upd_S.
    2:{ rewrite map_length, combine_length. lia. }
    destruct (Nat.eqb (S (sum_nat (map (fun bc : nat * nat => (fst bc - snd bc)%nat) (combine blocks comb))) + k)
                      (sum_nat blocks + 1)) eqn:E2;
      destruct (Nat.eqb (sum_nat comb) k) eqn:E3; bools; try lia; simpl; ring.
  - destruct (Nat.eqb (sum_nat comb) k) eqn:E3; bools; try lia. reflexivity.
Qed.

Lemma coalesce_mm_beta :
  forall a s blocks, (2 <= length blocks)%nat ->
    coalesce OpsR (Beta a s) blocks = mm_coalesce_bc OpsR (Beta a s) blocks.
Proof.
  intros a s [|b0 [|b1 rest]] H; simpl in H; try lia. reflexivity.
Qed.

Lemma coalesce_mm_dirac :
  forall psi c s blocks, (2 <= length blocks)%nat ->
    coalesce OpsR (Dirac psi c s) blocks = mm_coalesce_bc OpsR (Dirac psi c s) blocks.
Proof.
  intros psi c s [|b0 [|b1 rest]] H; simpl in H; try lia. reflexivity.
Qed.

Lemma coalesce_kingman :
  forall blocks, (2 <= length blocks)%nat ->
    coalesce OpsR Kingman blocks = kingman_coalesce_bc OpsR blocks.
Proof.
  intros [|b0 [|b1 rest]] H; simpl in H; try lia. reflexivity.
Qed.

(* filter_pos: drop the classes that do not take part *)
Lemma filter_pos_cons :
  forall v vs s ss,
    filter_pos (v :: vs) (s :: ss)
    = if Nat.ltb 0 s then v :: filter_pos vs ss else filter_pos vs ss.
Proof.
  intros v vs s ss. unfold filter_pos. simpl. destruct (Nat.ltb 0 s); reflexivity.
Qed.

Lemma filter_pos_nil_r : forall vs, filter_pos vs [] = [].
Proof. intros [|v vs]; reflexivity. Qed.

Lemma prodb_filter_pos :
  forall blocks comb,
    prodb (filter_pos blocks comb) (filter_pos comb comb) = prodb blocks comb.
Proof.
  induction blocks as [|b bs IH]; intros [|c cs].
  - reflexivity.
  - reflexivity.
  - rewrite filter_pos_nil_r. reflexivity.
  - rewrite !filter_pos_cons, prodb_cons.
    destruct (Nat.ltb 0 c) eqn:E; bools.
    + rewrite prodb_cons, IH. reflexivity.
    + replace c with 0%nat by lia. rewrite binom_0_r, IH. ring.
Qed.

Lemma sum_filter_pos : forall comb, sum_nat (filter_pos comb comb) = sum_nat comb.
Proof.
  induction comb as [|c cs IH].
  - reflexivity.
  - rewrite filter_pos_cons. destruct (Nat.ltb 0 c) eqn:E; bools; rewrite !sum_nat_cons, ?IH; lia.
Qed.

Lemma get_rate_bc_beta :
  forall a s n bs ks,
    get_rate_bc OpsR (Beta a s) n bs ks = IZR (prodb bs ks) * beta_base OpsR a n (sum_nat ks).
Proof. reflexivity. Qed.

Theorem block_outcomes_sum_beta :
  forall (a : R) (s : bool) (blocks : list nat) (k : nat),
    wf_blocks blocks -> (2 <= length blocks)%nat -> (2 <= k)%nat ->
    outcome_rate_sum (Beta a s) blocks k = get_rate_bk OpsR (Beta a s) (sum_nat blocks) k.
Proof.
  intros a s blocks k Hwf Hlen Hk. unfold outcome_rate_sum.
  rewrite coalesce_mm_beta by assumption.
  fold (Rsum (map snd (filter (fun o => Nat.eqb (sum_nat (fst o) + k) (sum_nat blocks + 1))
                              (mm_coalesce_bc OpsR (Beta a s) blocks)))).
  rewrite mm_outcome_sum by (assumption || lia).
  rewrite (map_ext _
    (fun comb => (if Nat.eqb (sum_nat comb) k then IZR (prodb blocks comb) else 0)
                 * beta_base OpsR a (sum_nat blocks) k)).
  2:{ intros comb. destruct (Nat.eqb (sum_nat comb) k) eqn:E; bools; [|ring].
      rewrite get_rate_bc_beta, prodb_filter_pos, sum_filter_pos, E. reflexivity. }
  rewrite Rsum_map_mult, vandermonde_general_R.
  unfold get_rate_bk.
  destruct (Nat.ltb k 1) eqn:E1; bools; [lia|].
  destruct (Nat.ltb (sum_nat blocks) k) eqn:E2; bools; simpl orb; cbv iota.
  - rewrite binom_gt by lia. simpl. ring.
  - reflexivity.
Qed.

(* ------------------------------------------------------------------ *)
(* Dirac                                                              *)
(* ------------------------------------------------------------------ *)

Lemma opow_pow : forall x n, opow OpsR x n = x ^ n.
Proof.
  intros x n. induction n as [|n IH]; simpl; [reflexivity | rewrite IH; reflexivity].
Qed.

Lemma binom_pmf_R :
  forall psi n k,
    binom_pmf OpsR psi n k = IZR (binom n k) * psi ^ k * (1 - psi) ^ (n - k).
Proof.
  intros psi n k. unfold binom_pmf.
  destruct (Nat.ltb n k) eqn:E; bools.
  - rewrite binom_gt by lia. simpl. ring.
  - rewrite !opow_pow. unfold osub. simpl.
    replace (1 + - psi) with (1 - psi) by ring. reflexivity.
Qed.

Definition pmfprod (psi : R) (bs ks : list nat) : R :=
  oprod OpsR (map (fun bk => binom_pmf OpsR psi (fst bk) (snd bk)) (combine bs ks)).

Lemma pmfprod_cons :
  forall psi b bs k ks,
    pmfprod psi (b :: bs) (k :: ks) = binom_pmf OpsR psi b k * pmfprod psi bs ks.
Proof. reflexivity. Qed.

Lemma get_rate_bc_dirac :
  forall psi c s n bs ks,
    get_rate_bc OpsR (Dirac psi c s) n bs ks
    = kingman_rate_bc OpsR bs ks
      + (if Nat.ltb (sum_nat bs) n
         then pmfprod psi bs ks * binom_pmf OpsR psi (n - sum_nat bs) 0
         else pmfprod psi bs ks) * c.
Proof. reflexivity. Qed.

Lemma dirac_tail :
  forall psi P sb n,
    (if Nat.ltb sb n then P * binom_pmf OpsR psi (n - sb) 0 else P) = P * (1 - psi) ^ (n - sb).
Proof.
  intros psi P sb n. destruct (Nat.ltb sb n) eqn:E; bools.
  - rewrite binom_pmf_R, binom_0_r, Nat.sub_0_r. simpl. ring.
  - replace (n - sb)%nat with 0%nat by lia. simpl. ring.
Qed.

Lemma sum_filter_pos_le :
  forall blocks comb, (sum_nat (filter_pos blocks comb) <= sum_nat blocks)%nat.
Proof.
  induction blocks as [|b bs IH]; intros [|c cs].
  - apply le_n.
  - apply le_n.
  - rewrite filter_pos_nil_r. apply Nat.le_0_l.
  - rewrite filter_pos_cons. specialize (IH cs).
    destruct (Nat.ltb 0 c); rewrite !sum_nat_cons; lia.
Qed.

Lemma pmfprod_filter_pos :
  forall psi comb blocks, Forall2 le comb blocks ->
  forall z r,
    (z + sum_nat (filter_pos blocks comb) = sum_nat blocks)%nat ->
    (r + sum_nat comb = sum_nat blocks)%nat ->
    pmfprod psi (filter_pos blocks comb) (filter_pos comb comb) * (1 - psi) ^ z
    = IZR (prodb blocks comb) * psi ^ (sum_nat comb) * (1 - psi) ^ r.
Proof.
  intros psi comb blocks H. induction H as [|c b cs bs Hcb H IH]; intros z r Hz Hr.
  - simpl in Hz, Hr. replace z with 0%nat by lia. replace r with 0%nat by lia.
    unfold pmfprod, prodb. simpl. ring.
  - pose proof (F2le_sum _ _ H) as Hs.
    pose proof (sum_filter_pos_le bs cs) as Hf.
    rewrite !filter_pos_cons in *. rewrite prodb_cons, mult_IZR.
    rewrite !sum_nat_cons in Hr. rewrite (sum_nat_cons c cs).
    destruct (Nat.ltb 0 c) eqn:E; bools.
    + rewrite !sum_nat_cons in Hz.
      rewrite pmfprod_cons, binom_pmf_R.
      replace r with ((b - c) + (r - (b - c)))%nat by lia.
      rewrite !pow_add.
      specialize (IH z (r - (b - c))%nat).
      transitivity (IZR (binom b c) * psi ^ c * (1 - psi) ^ (b - c)
                    * (pmfprod psi (filter_pos bs cs) (filter_pos cs cs) * (1 - psi) ^ z));
        [ring|].
      rewrite IH by lia. ring.
    + rewrite sum_nat_cons in Hz.
      assert (c = 0%nat) by lia. subst c. rewrite binom_0_r.
      replace r with (b + (r - b))%nat by lia.
      replace z with (b + (z - b))%nat by lia.
      rewrite !pow_add.
      specialize (IH (z - b) (r - b))%nat.
      transitivity ((1 - psi) ^ b
                    * (pmfprod psi (filter_pos bs cs) (filter_pos cs cs) * (1 - psi) ^ (z - b)));
        [ring|].
      rewrite IH by lia. simpl. ring.
Qed.

Lemma of_nat_mul_pred : forall b, Z.of_nat (b * (b - 1)) = (Z.of_nat b * (Z.of_nat b - 1))%Z.
Proof.
  intros [|b].
  - reflexivity.
  - rewrite Nat.sub_succ, Nat.sub_0_r. lia.
Qed.

Lemma kingman_rate_2 : forall b, kingman_rate OpsR b 2 = IZR (binom b 2).
Proof.
  intros b. unfold kingman_rate, odiv, oofN. simpl.
  rewrite of_nat_mul_pred, <- binom_2_r, mult_IZR. field.
Qed.

Lemma kingman_rate_not2 : forall b k, k <> 2%nat -> kingman_rate OpsR b k = 0.
Proof.
  intros b k H. unfold kingman_rate. destruct (Nat.eqb k 2) eqn:E; bools; [lia | reflexivity].
Qed.

Lemma kingman_rate_bc_pos :
  forall bs ks, length bs = length ks -> Forall (fun x => 0 < x)%nat ks ->
    kingman_rate_bc OpsR bs ks = if Nat.eqb (sum_nat ks) 2 then IZR (prodb bs ks) else 0.
Proof.
  intros bs ks Hl Hp.
  destruct bs as [|b0 [|b1 [|b2 bs]]]; destruct ks as [|k0 [|k1 [|k2 ks]]];
    simpl in Hl; try discriminate Hl.
  - reflexivity.
  - change (kingman_rate_bc OpsR [b0] [k0]) with (kingman_rate OpsR b0 k0).
    rewrite sum_nat_cons. change (sum_nat []) with 0%nat.
    destruct (Nat.eqb (k0 + 0) 2) eqn:E; bools.
    + replace k0 with 2%nat by lia. rewrite kingman_rate_2.
      unfold prodb. simpl combine. simpl map. simpl fold_right. f_equal. ring.
    + apply kingman_rate_not2. lia.
  - inversion Hp as [|x l Hk0 Hp1]; subst. inversion Hp1 as [|x l Hk1 Hp2]; subst.
    rewrite !sum_nat_cons. change (sum_nat []) with 0%nat.
    destruct (Nat.eqb (k0 + (k1 + 0)) 2) eqn:E; bools.
    + assert (k0 = 1%nat) by lia. assert (k1 = 1%nat) by lia. subst k0 k1.
      change (kingman_rate_bc OpsR [b0; b1] [1%nat; 1%nat]) with (IZR (Z.of_nat (b0 * b1))).
      unfold prodb. simpl combine. simpl map. simpl fold_right.
      rewrite !binom_1_r. f_equal. lia.
    + destruct k0 as [|[|k0]]; try lia; destruct k1 as [|[|k1]]; try lia; reflexivity.
  - inversion Hp as [|x l Hk0 Hp1]; subst. inversion Hp1 as [|x l Hk1 Hp2]; subst.
    inversion Hp2 as [|x l Hk2 Hp3]; subst.
    rewrite !sum_nat_cons.
    destruct (Nat.eqb (k0 + (k1 + (k2 + sum_nat ks))) 2) eqn:E; bools; [lia|].
    reflexivity.
Qed.

Lemma filter_pos_self_pos : forall comb, Forall (fun x => 0 < x)%nat (filter_pos comb comb).
Proof.
  induction comb as [|c cs IH].
  - constructor.
  - rewrite filter_pos_cons. destruct (Nat.ltb 0 c) eqn:E; bools; [constructor|]; assumption.
Qed.

Lemma filter_pos_length :
  forall blocks comb, length blocks = length comb ->
    length (filter_pos blocks comb) = length (filter_pos comb comb).
Proof.
  induction blocks as [|b bs IH]; intros [|c cs] H; simpl in H; try discriminate H.
  - reflexivity.
  - rewrite !filter_pos_cons. destruct (Nat.ltb 0 c); simpl; rewrite (IH cs) by lia; reflexivity.
Qed.

Lemma Rsum_map_zero : forall {A} (l : list A), Rsum (map (fun _ => 0) l) = 0.
Proof.
  intros A l. induction l as [|x l IH]; simpl; [reflexivity | rewrite IH; ring].
Qed.

Theorem block_outcomes_sum_dirac :
  forall (psi c : R) (s : bool) (blocks : list nat) (k : nat),
    wf_blocks blocks -> (2 <= length blocks)%nat -> (2 <= k)%nat ->
    outcome_rate_sum (Dirac psi c s) blocks k
    = get_rate_bk OpsR (Dirac psi c s) (sum_nat blocks) k.
Proof.
  intros psi c s blocks k Hwf Hlen Hk. unfold outcome_rate_sum.
  rewrite coalesce_mm_dirac by assumption.
  fold (Rsum (map snd (filter (fun o => Nat.eqb (sum_nat (fst o) + k) (sum_nat blocks + 1))
                              (mm_coalesce_bc OpsR (Dirac psi c s) blocks)))).
  rewrite mm_outcome_sum by (assumption || lia).
  set (n := sum_nat blocks).
  rewrite (map_ext_in _
    (fun comb => (if Nat.eqb (sum_nat comb) k then IZR (prodb blocks comb) else 0)
                 * (if Nat.eqb k 2 then 1 else 0)
                 + (if Nat.eqb (sum_nat comb) k then IZR (prodb blocks comb) else 0)
                   * (psi ^ k * (1 - psi) ^ (n - k) * c))).
  2:{ intros comb Hin. apply all_combs_le in Hin.
      destruct (Nat.eqb (sum_nat comb) k) eqn:E; bools; [|ring].
      pose proof (F2le_sum _ _ Hin) as Hs.
      pose proof (sum_filter_pos_le blocks comb) as Hf.
      rewrite get_rate_bc_dirac, dirac_tail.
      rewrite kingman_rate_bc_pos, sum_filter_pos, prodb_filter_pos, E.
      2:{ apply filter_pos_length. symmetry. apply (F2le_length _ _ Hin). }
      2:{ apply filter_pos_self_pos. }
      rewrite (pmfprod_filter_pos psi comb blocks Hin _ (n - k)) by (unfold n; lia).
      rewrite E. destruct (Nat.eqb k 2); ring. }
  rewrite Rsum_map_plus, !Rsum_map_mult, vandermonde_general_R.
  fold n. unfold get_rate_bk.
  rewrite binom_pmf_R.
  change (oadd OpsR) with Rplus. change (omul OpsR) with Rmult.
  destruct (Nat.eqb k 2) eqn:E; bools.
  - subst k. rewrite kingman_rate_2. ring.
  - rewrite kingman_rate_not2 by assumption. ring.
Qed.

(* ------------------------------------------------------------------ *)
(* Kingman                                                            *)
(* ------------------------------------------------------------------ *)

Definition kcell (blocks : list nat) (i j : nat) : list (list nat * R) :=
  if Nat.eqb i j then
    if Nat.ltb 1 (nth i blocks 0%nat) then
      [(upd (upd blocks i (fun x => (x - 2)%nat)) (2 * (i + 1) - 1) S,
        kingman_rate_bc OpsR [nth i blocks 0%nat] [2%nat])]
    else []
  else if Nat.ltb j i then
    if andb (Nat.ltb 0 (nth i blocks 0%nat)) (Nat.ltb 0 (nth j blocks 0%nat)) then
      [(upd (upd (upd blocks i pred) j pred) (i + j + 1) S,
        kingman_rate_bc OpsR [nth i blocks 0%nat; nth j blocks 0%nat] [1%nat; 1%nat])]
    else []
  else [].

Lemma kingman_coalesce_bc_cells :
  forall blocks,
    kingman_coalesce_bc OpsR blocks
    = flat_map (fun i => flat_map (fun j => kcell blocks i j) (seq 0 (length blocks)))
               (seq 0 (length blocks)).
Proof. reflexivity. Qed.

Lemma dotw_ge1 :
  forall l i off, (i < length l)%nat -> (nth i l 0 * (off + i + 1) <= dotw off l)%nat.
Proof.
  induction l as [|a l IH]; intros [|i] off H; simpl in H; try lia.
  - rewrite dotw_cons. simpl nth. replace (off + 0 + 1)%nat with (S off) by lia. lia.
  - rewrite dotw_cons. simpl nth. specialize (IH i (S off)).
    replace (S off + i + 1)%nat with (off + S i + 1)%nat in IH by lia. lia.
Qed.

Lemma dotw_ge2 :
  forall l i j off, (j < i)%nat -> (i < length l)%nat ->
    (nth i l 0 * (off + i + 1) + nth j l 0 * (off + j + 1) <= dotw off l)%nat.
Proof.
  induction l as [|a l IH]; intros [|i] [|j] off Hji Hi; simpl in Hi; try lia.
  - rewrite dotw_cons. simpl nth. pose proof (dotw_ge1 l i (S off)) as H1.
    replace (S off + i + 1)%nat with (off + S i + 1)%nat in H1 by lia.
    replace (off + 0 + 1)%nat with (S off) by lia. lia.
  - rewrite dotw_cons. simpl nth. specialize (IH i j (S off)).
    replace (S off + i + 1)%nat with (off + S i + 1)%nat in IH by lia.
    replace (S off + j + 1)%nat with (off + S j + 1)%nat in IH by lia. lia.
Qed.

Lemma nth_le_sum : forall l i, (nth i l 0 <= sum_nat l)%nat.
Proof.
  induction l as [|a l IH]; intros [|i]; simpl nth; rewrite ?sum_nat_cons.
  - apply Nat.le_0_l.
  - apply Nat.le_0_l.
  - lia.
  - specialize (IH i). lia.
Qed.

Lemma binom2_R : forall a, IZR (binom a 2) = INR a * (INR a - 1) / 2.
Proof.
  intros a. pose proof (binom_2_r a) as H.
  apply (f_equal IZR) in H. rewrite !mult_IZR, minus_IZR, <- !INR_IZR_INZ in H.
  simpl in H. lra.
Qed.

Definition kterm (blocks : list nat) (i j : nat) : R :=
  if Nat.eqb i j then INR (nth i blocks 0%nat) * (INR (nth i blocks 0%nat) - 1) / 2
  else if Nat.ltb j i then INR (nth j blocks 0%nat) * INR (nth i blocks 0%nat)
  else 0.

Lemma kcell_sum :
  forall blocks k i j,
    wf_blocks blocks -> (2 <= k)%nat -> (i < length blocks)%nat -> (j < length blocks)%nat ->
    Rsum (map snd (filter (fun o => Nat.eqb (sum_nat (fst o) + k) (sum_nat blocks + 1))
                          (kcell blocks i j)))
    = kterm blocks i j * (if Nat.eqb k 2 then 1 else 0).
Proof.
  intros blocks k i j Hwf Hk Hi Hj.
  change (dotw 0 blocks <= length blocks)%nat in Hwf.
  unfold kcell, kterm.
  destruct (Nat.eqb i j) eqn:Eij; bools.
  - subst j. pose proof (dotw_ge1 blocks i 0 Hi) as Hd.
    pose proof (nth_le_sum blocks i) as Hs.
    destruct (Nat.ltb 1 (nth i blocks 0%nat)) eqn:Ea; bools.
    + cbn [filter fst snd].
      rewrite sum_upd_S by (rewrite upd_length; nia).
      pose proof (sum_upd blocks i (fun x => (x - 2)%nat) Hi) as Hu. cbv beta in Hu.
      change (kingman_rate_bc OpsR [nth i blocks 0%nat] [2%nat])
        with (kingman_rate OpsR (nth i blocks 0%nat) 2).
      rewrite kingman_rate_2, binom2_R.
      destruct (Nat.eqb (S (sum_nat (upd blocks i (fun x => (x - 2)%nat))) + k) (sum_nat blocks + 1)) eqn:E2;
        destruct (Nat.eqb k 2) eqn:E3; bools; try lia; simpl; lra.
    + simpl.
      assert (Hc : nth i blocks 0%nat = 0%nat \/ nth i blocks 0%nat = 1%nat) by lia.
      destruct Hc as [-> | ->]; simpl; lra.
  - destruct (Nat.ltb j i) eqn:Eji; bools; [|simpl; lra].
    pose proof (dotw_ge2 blocks i j 0 Eji Hi) as Hd.
    destruct (Nat.ltb 0 (nth i blocks 0%nat)) eqn:Eai; bools.
    + destruct (Nat.ltb 0 (nth j blocks 0%nat)) eqn:Eaj; bools.
      * cbn [andb filter fst snd].
        rewrite sum_upd_S by (rewrite !upd_length; nia).
        pose proof (sum_upd blocks i pred Hi) as Hu1.
        assert (Hj' : (j < length (upd blocks i pred))%nat) by (rewrite upd_length; assumption).
        pose proof (sum_upd (upd blocks i pred) j pred Hj') as Hu2.
        rewrite nth_upd_neq in Hu2 by lia.
        change (kingman_rate_bc OpsR [nth i blocks 0%nat; nth j blocks 0%nat] [1%nat; 1%nat])
          with (IZR (Z.of_nat (nth i blocks 0%nat * nth j blocks 0%nat))).
        rewrite <- INR_IZR_INZ, mult_INR.
        destruct (Nat.eqb (S (sum_nat (upd (upd blocks i pred) j pred)) + k) (sum_nat blocks + 1)) eqn:E2;
          destruct (Nat.eqb k 2) eqn:E3; bools; try lia; simpl; lra.
      * cbn [andb]. replace (nth j blocks 0%nat) with 0%nat by lia. simpl. lra.
    + cbn [andb]. replace (nth i blocks 0%nat) with 0%nat by lia. simpl. lra.
Qed.

Lemma Rsum_seq_S :
  forall (g : nat -> R) n, Rsum (map g (seq 0 (S n))) = Rsum (map g (seq 0 n)) + g n.
Proof.
  intros g n. rewrite seq_S, map_app, Rsum_app. simpl. ring.
Qed.

Lemma Rsum_inner :
  forall (d : R) (h : nat -> R) i m, (i < m)%nat ->
    Rsum (map (fun j => if Nat.eqb i j then d else if Nat.ltb j i then h j else 0) (seq 0 m))
    = d + Rsum (map h (seq 0 i)).
Proof.
  intros d h i m. induction m as [|m IH]; intros H; [lia|].
  rewrite Rsum_seq_S.
  destruct (Nat.eqb i m) eqn:E; bools.
  - subst m.
    rewrite (map_ext_in _ h).
    2:{ intros j Hj. apply in_seq in Hj.
        destruct (Nat.eqb i j) eqn:E1; destruct (Nat.ltb j i) eqn:E2; bools; try lia. reflexivity. }
    ring.
  - rewrite IH by lia.
    destruct (Nat.ltb m i) eqn:E2; bools; try lia. ring.
Qed.

Lemma Rsum_pairs :
  forall (f : nat -> R) n,
    Rsum (map (fun i => f i * (f i - 1) / 2 + Rsum (map f (seq 0 i)) * f i) (seq 0 n))
    = Rsum (map f (seq 0 n)) * (Rsum (map f (seq 0 n)) - 1) / 2.
Proof.
  intros f n. induction n as [|n IH].
  - simpl. lra.
  - rewrite !Rsum_seq_S, IH. field.
Qed.

Lemma INR_sum_nat :
  forall blocks,
    INR (sum_nat blocks) = Rsum (map (fun i => INR (nth i blocks 0%nat)) (seq 0 (length blocks))).
Proof.
  induction blocks as [|a l IH].
  - reflexivity.
  - rewrite sum_nat_cons, plus_INR, IH.
    simpl length. rewrite <- cons_seq, <- seq_shift.
    rewrite map_cons, map_map. reflexivity.
Qed.

Theorem block_outcomes_sum_kingman :
  forall (blocks : list nat) (k : nat),
    wf_blocks blocks -> (2 <= length blocks)%nat -> (2 <= k)%nat ->
    outcome_rate_sum Kingman blocks k = get_rate_bk OpsR Kingman (sum_nat blocks) k.
Proof.
  intros blocks k Hwf Hlen Hk. unfold outcome_rate_sum.
  rewrite coalesce_kingman by assumption.
  rewrite kingman_coalesce_bc_cells.
  set (P := fun o : list nat * R => Nat.eqb (sum_nat (fst o) + k) (sum_nat blocks + 1)).
  fold (Rsum (map snd (filter P
     (flat_map (fun i => flat_map (fun j => kcell blocks i j) (seq 0 (length blocks)))
               (seq 0 (length blocks)))))).
  rewrite Rsum_flat_map_filter.
  set (f := fun i => INR (nth i blocks 0%nat)).
  rewrite (map_ext_in _
    (fun i => (f i * (f i - 1) / 2 + Rsum (map f (seq 0 i)) * f i)
              * (if Nat.eqb k 2 then 1 else 0))).
  2:{ intros i Hi. apply in_seq in Hi.
      rewrite Rsum_flat_map_filter.
      rewrite (map_ext_in _ (fun j => kterm blocks i j * (if Nat.eqb k 2 then 1 else 0))).
      2:{ intros j Hj. apply in_seq in Hj. unfold P. apply kcell_sum; (assumption || lia). }
      rewrite Rsum_map_mult. f_equal. unfold kterm.
      rewrite (Rsum_inner (INR (nth i blocks 0%nat) * (INR (nth i blocks 0%nat) - 1) / 2)
                          (fun j => INR (nth j blocks 0%nat) * INR (nth i blocks 0%nat))) by lia.
      rewrite (Rsum_map_mult (INR (nth i blocks 0%nat)) (fun j => INR (nth j blocks 0%nat))).
      reflexivity. }
  rewrite Rsum_map_mult, Rsum_pairs.
  unfold f. rewrite <- INR_sum_nat.
  unfold get_rate_bk.
  destruct (Nat.eqb k 2) eqn:E; bools.
  - subst k. rewrite kingman_rate_2, binom2_R. ring.
  - rewrite kingman_rate_not2 by assumption. ring.
Qed.

(* ------------------------------------------------------------------ *)
(* all three models                                                   *)
(* ------------------------------------------------------------------ *)

Theorem block_outcomes_sum :
  forall (m : cmodel (T:=R)) (blocks : list nat) (k : nat),
    wf_blocks blocks ->
    (2 <= length blocks)%nat -> (2 <= k)%nat ->
    outcome_rate_sum m blocks k = get_rate_bk OpsR m (sum_nat blocks) k.
Proof.
  intros [|a s|psi c s] blocks k Hwf Hlen Hk.
  - apply block_outcomes_sum_kingman; assumption.
  - apply block_outcomes_sum_beta; assumption.
  - apply block_outcomes_sum_dirac; assumption.
Qed.

Print Assumptions vandermonde2.
Print Assumptions vandermonde_general.
Print Assumptions vandermonde_general_R.
Print Assumptions block_outcomes_sum_beta.
Print Assumptions block_outcomes_sum_dirac.
Print Assumptions block_outcomes_sum_kingman.
Print Assumptions block_outcomes_sum.
