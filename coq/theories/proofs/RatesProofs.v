From Coq Require Import ZArith Reals List Arith Lia Lra Psatz.
From PG Require Import base.Ops base.OpsR model.CoalModels model.LambdaSpec.
Import ListNotations.
Open Scope R_scope.

(* ------------------------------------------------------------------ *)
(* OpsR unfolding                                                      *)
(* ------------------------------------------------------------------ *)
Lemma odiv_R x y : odiv OpsR x y = x / y.
Proof. reflexivity. Qed.
Lemma osub_R x y : osub OpsR x y = x - y.
Proof. reflexivity. Qed.
Lemma oofN_R n : oofN OpsR n = INR n.
Proof. unfold oofN. cbn. symmetry. apply INR_IZR_INZ. Qed.
Lemma opow_R a n : opow OpsR a n = a ^ n.
Proof.
  induction n as [|n IH].
  - reflexivity.
  - change (opow OpsR a (S n)) with (a * opow OpsR a n).
    rewrite IH. reflexivity.
Qed.

(* ------------------------------------------------------------------ *)
(* binomial coefficients and factorials                                *)
(* ------------------------------------------------------------------ *)
Lemma binom_0_r n : binom n 0 = 1%Z.
Proof. destruct n; reflexivity. Qed.
Lemma binom_0_S k : binom 0 (S k) = 0%Z.
Proof. reflexivity. Qed.
Lemma binom_S_S n k : binom (S n) (S k) = (binom n k + binom n (S k))%Z.
Proof. reflexivity. Qed.

Lemma binom_gt : forall n k, (n < k)%nat -> binom n k = 0%Z.
Proof.
  induction n as [|n IH]; intros [|k] H; try lia.
  - reflexivity.
  - rewrite binom_S_S. rewrite (IH k) by lia. rewrite (IH (S k)) by lia. reflexivity.
Qed.

Lemma binom_nn n : binom n n = 1%Z.
Proof.
  induction n as [|n IH].
  - reflexivity.
  - rewrite binom_S_S, IH. rewrite (binom_gt n (S n)) by lia. reflexivity.
Qed.

Lemma binom_nonneg : forall n k, (0 <= binom n k)%Z.
Proof.
  induction n as [|n IH]; intros [|k].
  - rewrite binom_0_r. lia.
  - rewrite binom_0_S. lia.
  - rewrite binom_0_r. lia.
  - rewrite binom_S_S. pose proof (IH k) as H1. pose proof (IH (S k)) as H2. lia.
Qed.

Lemma binom_1 n : binom n 1 = Z.of_nat n.
Proof.
  induction n as [|n IH].
  - reflexivity.
  - rewrite binom_S_S, binom_0_r, IH, Nat2Z.inj_succ. lia.
Qed.

Lemma binom_2 n : IZR (binom n 2) = INR n * (INR n - 1) / 2.
Proof.
  induction n as [|n IH].
  - change (binom 0 2) with 0%Z. change (INR 0) with 0. unfold Rdiv. ring.
  - rewrite binom_S_S, plus_IZR, IH, binom_1, <- INR_IZR_INZ, S_INR. field.
Qed.

Lemma fact_Z_S n : fact_Z (S n) = (Z.of_nat (S n) * fact_Z n)%Z.
Proof. reflexivity. Qed.

Lemma fact_Z_pos n : (0 < fact_Z n)%Z.
Proof.
  induction n as [|n IH].
  - reflexivity.
  - rewrite fact_Z_S. apply Z.mul_pos_pos; lia.
Qed.

Lemma IZR_fact_pos n : 0 < IZR (fact_Z n).
Proof. apply IZR_lt. apply fact_Z_pos. Qed.

Lemma IZR_fact_S n : IZR (fact_Z (S n)) = INR (S n) * IZR (fact_Z n).
Proof. rewrite fact_Z_S, mult_IZR, <- INR_IZR_INZ. reflexivity. Qed.

(* ------------------------------------------------------------------ *)
(* prod_range over R                                                   *)
(* ------------------------------------------------------------------ *)
Lemma prod_range_0 f lo : prod_range OpsR f lo 0 = 1.
Proof. reflexivity. Qed.
Lemma prod_range_cons f lo len :
  prod_range OpsR f lo (S len) = f lo * prod_range OpsR f (S lo) len.
Proof. reflexivity. Qed.

Lemma prod_range_S f : forall len lo,
  prod_range OpsR f lo (S len) = prod_range OpsR f lo len * f (lo + len)%nat.
Proof.
  induction len as [|len IH]; intros lo.
  - rewrite prod_range_cons, !prod_range_0, Nat.add_0_r. ring.
  - rewrite prod_range_cons, IH, (prod_range_cons f lo len).
    replace (S lo + len)%nat with (lo + S len)%nat by lia. ring.
Qed.

Lemma prod_range_ext f g : (forall j, f j = g j) ->
  forall len lo, prod_range OpsR f lo len = prod_range OpsR g lo len.
Proof.
  intros H. induction len as [|len IH]; intros lo.
  - reflexivity.
  - rewrite !prod_range_cons, IH, H. reflexivity.
Qed.

Lemma prod_range_pos f : forall len lo,
  (forall j, (lo <= j)%nat -> 0 < f j) -> 0 < prod_range OpsR f lo len.
Proof.
  induction len as [|len IH]; intros lo H.
  - rewrite prod_range_0. lra.
  - rewrite prod_range_cons. apply Rmult_lt_0_compat.
    + apply H. lia.
    + apply IH. intros j Hj. apply H. lia.
Qed.

Lemma beta_base_R a b k :
  beta_base OpsR a b k =
  prod_range OpsR (fun j => INR j - a) 2 (k - 2)
  * prod_range OpsR (fun j => a + INR j) 0 (b - k) / IZR (fact_Z (b - 1)).
Proof.
  unfold beta_base. rewrite odiv_R.
  rewrite (prod_range_ext (fun j => osub OpsR (oofN OpsR j) a) (fun j => INR j - a)).
  2:{ intros j. rewrite osub_R, oofN_R. reflexivity. }
  rewrite (prod_range_ext (fun j => oadd OpsR a (oofN OpsR j)) (fun j => a + INR j)).
  2:{ intros j. rewrite oofN_R. reflexivity. }
  reflexivity.
Qed.

(* ------------------------------------------------------------------ *)
(* Kingman rate                                                        *)
(* ------------------------------------------------------------------ *)
Lemma kingman_rate_R b k : (2 <= b)%nat ->
  kingman_rate OpsR b k = IZR (binom b k) * ind (Nat.eqb k 2).
Proof.
  intros Hb. unfold kingman_rate.
  destruct (Nat.eqb_spec k 2) as [Hk|Hk]; unfold ind.
  - subst k. rewrite odiv_R, !oofN_R, mult_INR, minus_INR by lia.
    rewrite binom_2. change (INR 2) with (1 + 1). change (INR 1) with 1. field.
  - change (o0 OpsR) with 0. ring.
Qed.

(* ------------------------------------------------------------------ *)
(* Theorem 1                                                           *)
(* ------------------------------------------------------------------ *)
Theorem rate_counts_ways :
  forall (m : cmodel (T:=R)) (b k : nat), (2 <= k <= b)%nat ->
    get_rate_bk OpsR m b k = IZR (binom b k) * lam m b k.
Proof.
  intros m b k Hk. destruct m as [|a st|psi c st]; unfold get_rate_bk, lam.
  - apply kingman_rate_R. lia.
  - replace (Nat.ltb k 1) with false by (symmetry; apply Nat.ltb_ge; lia).
    replace (Nat.ltb b k) with false by (symmetry; apply Nat.ltb_ge; lia).
    reflexivity.
  - rewrite kingman_rate_R by lia. unfold binom_pmf.
    replace (Nat.ltb b k) with false by (symmetry; apply Nat.ltb_ge; lia).
    rewrite osub_R. cbn [oadd omul oofZ o1 OpsR].
    rewrite (opow_R psi k), (opow_R (1 - psi) (b - k)). ring.
Qed.

(* ------------------------------------------------------------------ *)
(* Theorem 2                                                           *)
(* ------------------------------------------------------------------ *)
Theorem sampling_consistency :
  forall (m : cmodel (T:=R)) (b k : nat), (2 <= k <= b)%nat ->
    lam m b k = lam m (b + 1) k + lam m (b + 1) (k + 1).
Proof.
  intros m b k Hk. destruct m as [|a st|psi c st]; unfold lam.
  - replace (Nat.eqb (k + 1) 2) with false by (symmetry; apply Nat.eqb_neq; lia).
    unfold ind at 3. ring.
  - rewrite !beta_base_R.
    replace (b + 1 - 1)%nat with (S (b - 1)) by lia.
    replace (b + 1 - k)%nat with (S (b - k)) by lia.
    replace (k + 1 - 2)%nat with (S (k - 2)) by lia.
    replace (b + 1 - (k + 1))%nat with (b - k)%nat by lia.
    rewrite !prod_range_S, IZR_fact_S.
    replace (S (b - 1)) with b by lia.
    replace (2 + (k - 2))%nat with k by lia.
    replace (0 + (b - k))%nat with (b - k)%nat by lia.
    rewrite minus_INR by lia.
    pose proof (IZR_fact_pos (b - 1)) as HF.
    assert (HB : 0 < INR b) by (apply lt_0_INR; lia).
    field. split; lra.
  - replace (Nat.eqb (k + 1) 2) with false by (symmetry; apply Nat.eqb_neq; lia).
    unfold ind at 3.
    replace (b + 1 - k)%nat with (S (b - k)) by lia.
    replace (b + 1 - (k + 1))%nat with (b - k)%nat by lia.
    replace (k + 1)%nat with (S k) by lia.
    rewrite <- !tech_pow_Rmult. ring.
Qed.

(* ------------------------------------------------------------------ *)
(* rsum                                                                *)
(* ------------------------------------------------------------------ *)
Lemma rsum_S f n : rsum f (S n) = rsum f n + f n.
Proof. reflexivity. Qed.

Lemma rsum_ext f g n : (forall j, (j < n)%nat -> f j = g j) -> rsum f n = rsum g n.
Proof.
  induction n as [|n IH]; intros H.
  - reflexivity.
  - rewrite !rsum_S. rewrite IH by (intros j Hj; apply H; lia).
    rewrite (H n) by lia. reflexivity.
Qed.

Lemma rsum_shift f n : rsum f (S n) = f 0%nat + rsum (fun j => f (S j)) n.
Proof.
  induction n as [|n IH].
  - cbn. ring.
  - rewrite (rsum_S f (S n)), IH, (rsum_S (fun j => f (S j)) n). ring.
Qed.

Lemma rsum_minus f g n : rsum (fun j => f j - g j) n = rsum f n - rsum g n.
Proof.
  induction n as [|n IH].
  - cbn. ring.
  - rewrite !rsum_S, IH. ring.
Qed.

Lemma alt_pascal (g : nat -> R) d :
  rsum (fun j => (-1) ^ j * IZR (binom (S d) j) * g j) (S (S d)) =
  rsum (fun j => (-1) ^ j * IZR (binom d j) * g j) (S d)
  - rsum (fun j => (-1) ^ j * IZR (binom d j) * g (S j)) (S d).
Proof.
  set (A := fun j => (-1) ^ j * IZR (binom d j) * g j).
  set (B := fun j => (-1) ^ j * IZR (binom d j) * g (S j)).
  rewrite rsum_shift.
  rewrite (rsum_ext _ (fun j => A (S j) - B j)).
  2:{ intros j _. unfold A, B. rewrite binom_S_S, plus_IZR, <- !tech_pow_Rmult. ring. }
  rewrite rsum_minus.
  assert (HA : rsum A (S (S d)) = rsum A (S d)).
  { assert (HZ : A (S d) = 0).
    { unfold A. rewrite (binom_gt d (S d)) by lia. ring. }
    rewrite (rsum_S A (S d)), HZ. ring. }
  assert (H0 : A 0%nat = (-1) ^ 0 * IZR (binom (S d) 0) * g 0%nat).
  { unfold A. rewrite !binom_0_r. reflexivity. }
  rewrite <- HA. rewrite (rsum_shift A (S d)), H0. ring.
Qed.

Lemma lambda_integral_rec m b k : (2 <= k <= b)%nat ->
  lambda_integral m (b + 1) k = lambda_integral m b k - lambda_integral m (b + 1) (k + 1).
Proof.
  intros Hk. unfold lambda_integral.
  replace (b + 1 - k)%nat with (S (b - k)) by lia.
  replace (b + 1 - (k + 1))%nat with (b - k)%nat by lia.
  rewrite (alt_pascal (fun j => mu m (k - 2 + j)) (b - k)).
  f_equal. apply rsum_ext. intros j _.
  replace (k + 1 - 2 + j)%nat with (k - 2 + S j)%nat by lia. reflexivity.
Qed.

Lemma lambda_integral_diag m k : lambda_integral m k k = mu m (k - 2).
Proof.
  unfold lambda_integral. rewrite Nat.sub_diag.
  cbn [rsum]. rewrite binom_0_r, Nat.add_0_r. cbn [pow]. ring.
Qed.

Lemma beta_diag a : forall n,
  prod_range OpsR (fun j => INR j - a) 2 n / IZR (fact_Z (S n)) =
  rprod (fun l => (2 - a + INR l) / (2 + INR l)) n.
Proof.
  induction n as [|n IH].
  - rewrite prod_range_0. change (fact_Z 1) with 1%Z. cbn [rprod]. field.
  - rewrite prod_range_S, (IZR_fact_S (S n)). cbn [rprod]. rewrite <- IH.
    rewrite plus_INR, !S_INR. change (INR 0) with 0.
    pose proof (IZR_fact_pos (S n)) as HF. pose proof (pos_INR n) as Hn.
    field. split; lra.
Qed.

Lemma lam_diag m k : (2 <= k)%nat -> lam m k k = mu m (k - 2).
Proof.
  intros Hk. destruct m as [|a st|psi c st]; unfold lam, mu.
  - f_equal. destruct (Nat.eqb_spec k 2) as [H|H]; destruct (Nat.eqb_spec (k - 2) 0) as [H'|H'];
      try reflexivity; lia.
  - rewrite beta_base_R, Nat.sub_diag, prod_range_0.
    replace (k - 1)%nat with (S (k - 2)) by lia.
    rewrite <- beta_diag. field.
    pose proof (IZR_fact_pos (S (k - 2))) as HF. lra.
  - rewrite Nat.sub_diag. replace (2 + (k - 2))%nat with k by lia.
    replace (Nat.eqb (k - 2) 0) with (Nat.eqb k 2).
    + cbn [pow]. ring.
    + destruct (Nat.eqb_spec k 2) as [H|H]; destruct (Nat.eqb_spec (k - 2) 0) as [H'|H'];
        try reflexivity; lia.
Qed.

(* ------------------------------------------------------------------ *)
(* Theorem 3                                                           *)
(* ------------------------------------------------------------------ *)
Lemma rate_is_lambda_integral_aux m : forall d k, (2 <= k)%nat ->
  lam m (k + d) k = lambda_integral m (k + d) k.
Proof.
  induction d as [|d IH]; intros k Hk.
  - rewrite Nat.add_0_r, lam_diag, lambda_integral_diag by lia. reflexivity.
  - replace (k + S d)%nat with (k + d + 1)%nat by lia.
    rewrite lambda_integral_rec by lia.
    pose proof (sampling_consistency m (k + d) k ltac:(lia)) as HS.
    rewrite <- (IH k) by lia.
    replace (k + d + 1)%nat with (k + 1 + d)%nat in * by lia.
    rewrite <- (IH (k + 1)%nat) by lia.
    lra.
Qed.

Theorem rate_is_lambda_integral :
  forall (m : cmodel (T:=R)) (b k : nat), (2 <= k <= b)%nat ->
    lam m b k = lambda_integral m b k.
Proof.
  intros m b k Hk. replace b with (k + (b - k))%nat by lia.
  apply rate_is_lambda_integral_aux. lia.
Qed.

(* ------------------------------------------------------------------ *)
(* Theorem 4                                                           *)
(* ------------------------------------------------------------------ *)
Lemma ind_nonneg c : 0 <= ind c.
Proof. destruct c; unfold ind; lra. Qed.

Lemma lam_nonneg m b k : valid_model m -> (2 <= k <= b)%nat -> 0 <= lam m b k.
Proof.
  intros Hv Hk. destruct m as [|a st|psi c st]; unfold lam; cbn [valid_model] in Hv.
  - apply ind_nonneg.
  - rewrite beta_base_R. apply Rlt_le. apply Rdiv_lt_0_compat; [|apply IZR_fact_pos].
    apply Rmult_lt_0_compat.
    + apply prod_range_pos. intros j Hj. apply le_INR in Hj.
      change (INR 2) with (1 + 1) in Hj. lra.
    + apply prod_range_pos. intros j _. pose proof (pos_INR j) as Hj. lra.
  - destruct Hv as [Hpsi Hc].
    assert (H1 : 0 <= psi ^ k) by (apply pow_le; lra).
    assert (H2 : 0 <= (1 - psi) ^ (b - k)) by (apply pow_le; lra).
    pose proof (ind_nonneg (Nat.eqb k 2)) as H3.
    assert (H4 : 0 <= c * psi ^ k) by (apply Rmult_le_pos; assumption).
    assert (H5 : 0 <= c * psi ^ k * (1 - psi) ^ (b - k)) by (apply Rmult_le_pos; assumption).
    lra.
Qed.

Theorem rates_nonneg :
  forall (m : cmodel (T:=R)) (b k : nat), valid_model m -> (2 <= k <= b)%nat ->
    0 <= get_rate_bk OpsR m b k.
Proof.
  intros m b k Hv Hk. rewrite rate_counts_ways by assumption.
  apply Rmult_le_pos.
  - apply IZR_le. apply binom_nonneg.
  - apply lam_nonneg; assumption.
Qed.

(* ------------------------------------------------------------------ *)
(* Theorems 5, 6                                                       *)
(* ------------------------------------------------------------------ *)
Lemma fact_as_prod : forall n,
  prod_range OpsR (fun j => 2 + INR j) 0 n = IZR (fact_Z (S n)).
Proof.
  induction n as [|n IH].
  - rewrite prod_range_0. change (fact_Z 1) with 1%Z. reflexivity.
  - rewrite prod_range_S, IH, (IZR_fact_S (S n)). rewrite Nat.add_0_l, !S_INR. ring.
Qed.

Theorem beta_alpha2_is_kingman :
  forall st (b k : nat), (2 <= k <= b)%nat ->
    get_rate_bk OpsR (Beta 2 st) b k = get_rate_bk OpsR Kingman b k.
Proof.
  intros st b k Hk. rewrite !rate_counts_ways by assumption. f_equal.
  unfold lam. rewrite beta_base_R.
  destruct (Nat.eqb_spec k 2) as [H|H]; unfold ind.
  - subst k. rewrite Nat.sub_diag, prod_range_0, fact_as_prod.
    replace (S (b - 2)) with (b - 1)%nat by lia.
    pose proof (IZR_fact_pos (b - 1)) as HF. field. lra.
  - replace (k - 2)%nat with (S (k - 3)) by lia. rewrite prod_range_cons.
    change (INR 2) with (1 + 1). unfold Rdiv. ring.
Qed.

Theorem dirac_c0_is_kingman :
  forall psi st (b k : nat), (2 <= k <= b)%nat ->
    get_rate_bk OpsR (Dirac psi 0 st) b k = get_rate_bk OpsR Kingman b k.
Proof.
  intros psi st b k Hk. unfold get_rate_bk.
  cbn [oadd omul OpsR]. ring.
Qed.

(* ------------------------------------------------------------------ *)
(* Theorem 7                                                           *)
(* ------------------------------------------------------------------ *)
Theorem get_rate_spec :
  forall (m : cmodel (T:=R)) (s1 s2 : nat),
    get_rate OpsR m s1 s2 = if Nat.ltb s1 s2 then 0 else get_rate_bk OpsR m s1 (s1 + 1 - s2).
Proof.
  intros m s1 s2. reflexivity.
Qed.

Print Assumptions rate_counts_ways.
Print Assumptions sampling_consistency.
Print Assumptions rate_is_lambda_integral.
Print Assumptions rates_nonneg.
Print Assumptions beta_alpha2_is_kingman.
Print Assumptions dirac_c0_is_kingman.
Print Assumptions get_rate_spec.
