(* The count chains of model/StateSpace.v are exactly the lumping of the labelled ancestral
   process of model/Labelled.v, for all small configurations (bounds in the theorem statements),
   by computational reflection; and two unbounded structural facts about [transit].

   Main results (all closed under the global context):
     lumping_single_locus_bounded   1..3 demes, 2 <= n <= 5, four models, both spaces, two valuations
     lumping_two_locus_bounded      two loci, Kingman, lineage counting: 1 deme n <= 4, 2 demes n <= 3,
                                    every n_unlinked, two valuations
     absorbing_only_migrates        every P, every absorbing s (any ring of rates)
     coalesce1_keeps_lnk            every P, s (any ring of rates)                               *)
From Coq Require Import ZArith QArith List Arith Bool Lia PArith FSets.FMapPositive MSets.MSetPositive.
From PG Require Import base.Ops model.CoalModels model.StateSpace model.Check model.Labelled.
Import ListNotations.
Close Scope Q_scope.

(* ---------- boolean equalities decide equality ---------- *)
Lemma list_eqb_true {A} (eqb : A -> A -> bool) :
  (forall a b, eqb a b = true -> a = b) -> forall l1 l2, list_eqb eqb l1 l2 = true -> l1 = l2.
Proof.
  intros H; induction l1 as [|x l1 IH]; destruct l2 as [|y l2]; simpl; intros E; try discriminate; auto.
  apply andb_true_iff in E as [E1 E2]. f_equal; auto.
Qed.

Lemma list_eqb_refl {A} (eqb : A -> A -> bool) :
  (forall a, eqb a a = true) -> forall l, list_eqb eqb l l = true.
Proof. intros H; induction l; simpl; auto. rewrite H, IHl; reflexivity. Qed.

Lemma nat_eqb_true : forall a b, Nat.eqb a b = true -> a = b.
Proof. intros a b; apply Nat.eqb_eq. Qed.

Lemma state_eqb_true : forall s t, state_eqb s t = true -> s = t.
Proof.
  intros [l1 k1] [l2 k2]; unfold state_eqb, arr3_eqb; simpl; intros E.
  apply andb_true_iff in E as [E1 E2].
  assert (A : forall a b : arr3, list_eqb (list_eqb (list_eqb Nat.eqb)) a b = true -> a = b)
    by (repeat apply list_eqb_true; exact nat_eqb_true).
  f_equal; auto.
Qed.

Lemma state_eqb_refl : forall s, state_eqb s s = true.
Proof.
  intros [l k]; unfold state_eqb, arr3_eqb; simpl.
  assert (A : forall a : arr3, list_eqb (list_eqb (list_eqb Nat.eqb)) a a = true)
    by (repeat apply list_eqb_refl; exact Nat.eqb_refl).
  rewrite !A; reflexivity.
Qed.

Lemma mem_state_In : forall s l, mem_state s l = true -> In s l.
Proof.
  unfold mem_state; intros s l H. apply existsb_exists in H as [t [Ht E]].
  apply state_eqb_true in E; subst; assumption.
Qed.

Lemma In_mem_state : forall s l, In s l -> mem_state s l = true.
Proof. unfold mem_state; intros s l H. apply existsb_exists; exists s; split; auto using state_eqb_refl. Qed.

Lemma nodup_states_NoDup : forall l, nodup_states l = true -> NoDup l.
Proof.
  induction l as [|s l IH]; simpl; intros H; constructor; apply andb_true_iff in H as [H1 H2]; auto.
  intros Hin. apply In_mem_state in Hin. rewrite Hin in H1; discriminate.
Qed.

Lemma lstate_eqb_true : forall a b, lstate_eqb a b = true -> a = b.
Proof.
  apply list_eqb_true. intros [b1 d1] [b2 d2]; unfold lblock_eqb; simpl; intros E.
  apply andb_true_iff in E as [E1 E2].
  apply (list_eqb_true _ nat_eqb_true) in E1. apply nat_eqb_true in E2. congruence.
Qed.

Lemma lstate2_eqb_true : forall a b, lstate2_eqb a b = true -> a = b.
Proof.
  apply list_eqb_true. intros [[a1 b1] d1] [[a2 b2] d2]; unfold lineage_eqb; simpl; intros E.
  apply andb_true_iff in E as [E E3]. apply andb_true_iff in E as [E1 E2].
  apply (list_eqb_true _ nat_eqb_true) in E1, E2. apply nat_eqb_true in E3. congruence.
Qed.

(* ---------- reachability ---------- *)
Lemma reach_trans {X} (step : X -> list X) : forall x0 x y,
  reach step x0 x -> reach step x y -> reach step x0 y.
Proof. intros x0 x y H0 H; induction H; auto. eapply reach_step; eauto. Qed.

Lemma last_cons {A} : forall (p : list A) a d, last (a :: p) d = last p a.
Proof. induction p as [|b p IH]; intros; auto. change (last (a :: b :: p) d) with (last (b :: p) d). rewrite !IH; reflexivity. Qed.

Section SearchProofs.
  Context {X : Type} (enc : X -> positive) (eqb : X -> X -> bool) (step : X -> list X).
  Hypothesis eqb_true : forall a b, eqb a b = true -> a = b.

  Lemma add_new_sound (R : X -> Prop) : forall cands seen new,
    Forall R cands -> Forall R new -> Forall R (snd (add_new enc cands seen new)).
  Proof.
    induction cands as [|y cs IH]; simpl; intros seen new Hc Hn; auto.
    inversion Hc; subst. destruct (PositiveSet.mem (enc y) seen); apply IH; auto.
  Qed.

  Lemma step_closed_reach x0 : forall l, Forall (reach step x0) l -> Forall (reach step x0) (flat_map step l).
  Proof.
    intros l H. apply Forall_forall. intros y Hy. apply in_flat_map in Hy as [x [Hx Hy]].
    rewrite Forall_forall in H. eapply reach_step; eauto.
  Qed.

  Lemma search_sound x0 : forall fuel frontier seen acc L,
    Forall (reach step x0) frontier -> Forall (reach step x0) acc ->
    search enc step fuel frontier seen acc = Some L -> Forall (reach step x0) L.
  Proof.
    induction fuel as [|fuel IH]; simpl; intros frontier seen acc L Hf Ha E; try discriminate.
    destruct frontier as [|f fr].
    - inversion E; subst; assumption.
    - destruct (add_new enc (flat_map step (f :: fr)) seen []) as [seen' new] eqn:En.
      assert (Hn : Forall (reach step x0) new).
      { pose proof (add_new_sound (reach step x0) (flat_map step (f :: fr)) seen []
                      (step_closed_reach x0 _ Hf) (Forall_nil _)) as H.
        rewrite En in H; exact H. }
      eapply IH; [exact Hn| |exact E]. apply Forall_app; split; assumption.
  Qed.

  Lemma reachable_list_sound : forall fuel x0 L,
    reachable_list enc step fuel x0 = Some L -> Forall (reach step x0) L.
  Proof.
    unfold reachable_list; intros fuel x0 L E.
    eapply search_sound; [| |exact E]; repeat constructor.
  Qed.

  Lemma index_inv (S : list X) : forall L M,
    (forall k x, PositiveMap.find k M = Some x -> In x S) -> (forall x, In x L -> In x S) ->
    forall k x, PositiveMap.find k (fold_left (fun M x => PositiveMap.add (enc x) x M) L M) = Some x -> In x S.
  Proof.
    induction L as [|a L IH]; simpl; intros M HM HL; auto.
    apply IH; auto. intros k x. rewrite PositiveMapAdditionalFacts.gsspec.
    destruct (PositiveMap.E.eq_dec k (enc a)); [|apply HM].
    intros E; inversion E; subst; auto.
  Qed.

  Lemma memM_index_In : forall L y, memM enc eqb (index enc L) y = true -> In y L.
  Proof.
    unfold memM, index; intros L y H.
    destruct (PositiveMap.find (enc y) _) as [x|] eqn:E; try discriminate.
    apply eqb_true in H; subst y.
    eapply (index_inv L L); [| |exact E]; auto.
    intros k z; rewrite PositiveMap.gempty; discriminate.
  Qed.

  Lemma closed_complete : forall L x0, In x0 L -> closed_b enc eqb step (index enc L) L = true ->
    forall x, reach step x0 x -> In x L.
  Proof.
    intros L x0 H0 Hc x Hr; induction Hr; auto.
    unfold closed_b in Hc. rewrite forallb_forall in Hc. specialize (Hc _ IHHr).
    rewrite forallb_forall in Hc. apply memM_index_In; auto.
  Qed.

  Lemma path_ok_reach : forall p x, path_ok eqb step x p = true -> reach step x (last p x).
  Proof.
    induction p as [|y p IH]; simpl path_ok; intros x H; [constructor|].
    apply andb_true_iff in H as [H1 H2]. rewrite last_cons.
    apply reach_trans with y; [|apply IH; assumption].
    apply orb_true_iff in H1 as [H1|H1].
    - apply eqb_true in H1; subst; constructor.
    - apply existsb_exists in H1 as [z [Hz E]]. apply eqb_true in E; subst.
      eapply reach_step; [constructor|assumption].
  Qed.
End SearchProofs.

(* ---------- soundness of the group checker ---------- *)
Lemma check_group_sound {X} (enc : X -> positive) (eqb : X -> X -> bool)
      (ev : X -> list (event * X)) (pi_of : params (T:=Q) -> X -> state) nl nd n base inits Ps :
  (forall a b, eqb a b = true -> a = b) ->
  check_group enc eqb ev pi_of nl nd n base inits Ps = true ->
  forall ip, In ip inits -> forall P, In P Ps ->
    lumping_claim P nl nd n (pi_of P) ev (fst ip).
Proof.
  intros eqb_true H ip Hip P HP. unfold check_group in H.
  destruct (reachable_list enc (targets_of ev) search_fuel base) as [L|] eqn:EL; try discriminate.
  apply andb_true_iff in H as [H HPs]. apply andb_true_iff in H as [Hclosed Hinits].
  rewrite forallb_forall in Hinits. specialize (Hinits _ Hip).
  apply andb_true_iff in Hinits as [Hi Hlast]. apply andb_true_iff in Hi as [Hmem Hpath].
  rewrite forallb_forall in HPs. specialize (HPs _ HP).
  destruct (get_transitions OpsQ P lump_fuel nl nd n) as [[states trans]|] eqn:EG; try discriminate.
  apply andb_true_iff in HPs as [HPs Hsurj]. apply andb_true_iff in HPs as [Hnodup Hall].
  pose proof (reachable_list_sound enc (targets_of ev) _ _ _ EL) as Hsound.
  assert (Hinit : In (fst ip) L) by (eapply memM_index_In; eauto).
  assert (Hback : reach (targets_of ev) (fst ip) base).
  { apply eqb_true in Hlast. rewrite <- Hlast. eapply path_ok_reach; eauto. }
  exists states, trans. split; [exact EG|]. split; [apply nodup_states_NoDup; assumption|]. split.
  - intros x Hx.
    assert (HxL : In x L) by (eapply closed_complete; eauto).
    rewrite forallb_forall in Hall. specialize (Hall _ HxL).
    apply andb_true_iff in Hall as [Hm Hl]. split; [apply mem_state_In; assumption|assumption].
  - intros c Hc. rewrite forallb_forall in Hsurj. specialize (Hsurj _ Hc).
    apply existsb_exists in Hsurj as [x [HxL E]]. apply state_eqb_true in E.
    exists x; split; [|assumption].
    rewrite Forall_forall in Hsound. eapply reach_trans; eauto.
Qed.

(* ---------- the domain ---------- *)
Lemma compositions_complete : forall c, In c (compositions (sum_nat c) (length c)).
Proof.
  induction c as [|k c IH]; [simpl; auto|].
  change (In (k :: c) (flat_map (fun k0 => map (cons k0) (compositions (k + sum_nat c - k0) (length c)))
                                (seq 0 (S (k + sum_nat c))))).
  apply in_flat_map. exists k. split.
  - apply in_seq. lia.
  - replace (k + sum_nat c - k) with (sum_nat c) by lia. apply in_map; assumption.
Qed.

Lemma compositions_sound : forall nd n c, In c (compositions n nd) -> length c = nd /\ sum_nat c = n.
Proof.
  induction nd as [|nd IH]; intros n c Hc.
  - simpl in Hc. destruct (Nat.eqb_spec n 0); simpl in Hc; [|tauto].
    destruct Hc as [<-|[]]; subst; auto.
  - change (In c (flat_map (fun k => map (cons k) (compositions (n - k) nd)) (seq 0 (S n)))) in Hc.
    apply in_flat_map in Hc as [k [Hk Hc]]. apply in_map_iff in Hc as [c' [<- Hc']].
    apply IH in Hc' as [E1 E2]. apply in_seq in Hk.
    change (sum_nat (k :: c')) with (k + sum_nat c'). simpl length. lia.
Qed.

Lemma in_all_params : forall lcs V m lc, In V valuations -> In m models -> In lc lcs ->
  In (mkP V m lc) (all_params lcs).
Proof.
  intros lcs V m lc HV Hm Hlc. unfold all_params.
  apply in_flat_map; exists V; split; auto.
  apply in_flat_map; exists m; split; auto. apply in_map; assumption.
Qed.

(* ---------- the two computations ---------- *)
Definition groups1 : list (nat * nat) :=      (* (n, number of demes) *)
  [(2,1); (3,1); (4,1); (5,1); (2,2); (3,2); (4,2); (5,2); (2,3); (3,3); (4,3); (5,3)].
Definition groups2 : list (nat * nat) := [(2,1); (3,1); (4,1); (2,2); (3,2)].

(* labelled states searched per group: one locus 52 (5,1), 454 (5,2), 309 (4,3), 1866 (5,3);
   two loci 15 (2,1), 203 (3,1), 4140 (4,1), 94 (2,2), 2430 (3,2) *)
Lemma groups1_checked : forallb (fun g => check_group1 (fst g) (snd g)) groups1 = true.
Proof. vm_compute. reflexivity. Qed.

Lemma groups2_checked : forallb (fun g => check_group2 (fst g) (snd g)) groups2 = true.
Proof. vm_compute. reflexivity. Qed.

(* ---------- theorem 1: one locus ---------- *)
(* For every sample configuration [config] (samples per deme) over 1, 2 or 3 demes with 2 <= n <= 5
   samples, each of the valuations [valuation1], [valuation2] of (time scales, migration rates), each
   of Kingman, Beta(3/2), Beta(7/4), Dirac(1/3, 5/2), and both the lineage-counting (lc = true) and
   the block-counting space: get_transitions terminates, lists no state twice and exactly the
   projections of the labelled partitions reachable from the initial one, and at EVERY reachable
   labelled state the count chain's rates are the lumped labelled rates. *)
Theorem lumping_single_locus_bounded :
  forall config : list nat,
    1 <= length config <= 3 -> 2 <= sum_nat config <= 5 ->
  forall V, In V valuations -> forall m, In m models -> forall lc : bool,
    lumping_claim (mkP V m lc) 1 (length config) (sum_nat config)
                  (pi1 lc (length config) (sum_nat config)) (levents1 (length config)) (linit config).
Proof.
  intros config Hnd Hn V HV m Hm lc.
  set (nd := length config) in *. set (n := sum_nat config) in *.
  assert (Hg : In (n, nd) groups1).
  { assert (nd = 1 \/ nd = 2 \/ nd = 3) as [->|[->| ->]] by lia;
    assert (n = 2 \/ n = 3 \/ n = 4 \/ n = 5) as [->|[->|[->| ->]]] by lia; simpl; tauto. }
  pose proof groups1_checked as H. rewrite forallb_forall in H. specialize (H _ Hg).
  change (check_group1 n nd = true) in H. unfold check_group1 in H.
  eapply (check_group_sound _ _ _ _ _ _ _ _ _ _ lstate_eqb_true H
            (linit config, path1 (linit config)) _ (mkP V m lc)).
  Unshelve.
  - apply in_all_params; auto. destruct lc; simpl; auto.
  - apply (in_map (fun c => (linit c, path1 (linit c)))). apply compositions_complete.
Qed.

(* the same statement over the explicit finite domain *)
Corollary lumping_single_locus_bounded_list :
  forall n, In n [2; 3; 4; 5] -> forall nd, In nd [1; 2; 3] ->
  forall config, In config (compositions n nd) ->
  forall V, In V valuations -> forall m, In m models -> forall lc : bool,
    lumping_claim (mkP V m lc) 1 (length config) (sum_nat config)
                  (pi1 lc (length config) (sum_nat config)) (levents1 (length config)) (linit config).
Proof.
  intros n Hn nd Hnd config Hc.
  destruct (compositions_sound _ _ _ Hc) as [E1 E2].
  apply lumping_single_locus_bounded; rewrite ?E1, ?E2; simpl in Hn, Hnd; lia.
Qed.

(* ---------- theorem 2: two loci ---------- *)
(* Two loci, Kingman, lineage counting: 2 <= n <= 4 over one deme and 2 <= n <= 3 over two demes,
   every number of initially unlinked samples 0 <= n_unlinked <= n, recombination rate and the
   other rates from [valuation1] or [valuation2]: the count chain (lin, lnk) is the lumping of the
   ancestral recombination graph at every reachable labelled state.  Where the count chain calls a
   state absorbing (one lineage per locus) it is compared with labelled migration only. *)
Theorem lumping_two_locus_bounded :
  forall (config : list nat) (n_unlinked : nat),
    (length config = 1 /\ 2 <= sum_nat config <= 4) \/ (length config = 2 /\ 2 <= sum_nat config <= 3) ->
    n_unlinked <= sum_nat config ->
  forall V, In V valuations ->
    lumping_claim (mkP V Kingman true) 2 (length config) (sum_nat config)
                  (pi_2 (length config)) (levents2 (length config)) (linit2 config n_unlinked).
Proof.
  intros config u Hdom Hu V HV.
  set (nd := length config) in *. set (n := sum_nat config) in *.
  assert (Hg : In (n, nd) groups2).
  { destruct Hdom as [[-> Hn]|[-> Hn]].
    - assert (n = 2 \/ n = 3 \/ n = 4) as [->|[->| ->]] by lia; simpl; tauto.
    - assert (n = 2 \/ n = 3) as [->| ->] by lia; simpl; tauto. }
  pose proof groups2_checked as H. rewrite forallb_forall in H. specialize (H _ Hg).
  change (check_group2 n nd = true) in H. unfold check_group2 in H.
  eapply (check_group_sound _ _ _ _ _ _ _ _ _ _ lstate2_eqb_true H
            (linit2 config u, path2 n (linit2 config u)) _ (mkP V Kingman true)).
  Unshelve.
  - apply (in_map (fun V => mkP V Kingman true)); assumption.
  - apply in_flat_map. exists config. split; [apply compositions_complete|].
    apply (in_map (fun u => (linit2 config u, path2 n (linit2 config u)))).
    apply in_seq. lia.
Qed.

(* ---------- theorem 3: structural facts about [transit], no bound ---------- *)
(* (a) from an absorbing state the count chain only migrates *)
Theorem absorbing_only_migrates :
  forall (T : Type) (OP : Ops T) (P : params (T:=T)) (s : state),
    is_absorbing s = true ->
    transit OP P s = dict_union (migrate_linked OP P s) (migrate_unlinked OP P s).
Proof. intros T OP P s H. unfold transit. rewrite H. reflexivity. Qed.

(* (b) one-locus coalescence never touches the linkage array *)
Lemma fold_left_inv {A B} (f : A -> B -> A) (I : A -> Prop) : forall l a,
  I a -> (forall a b, I a -> In b l -> I (f a b)) -> I (fold_left f l a).
Proof.
  induction l as [|b l IH]; simpl; intros a Ha Hf; [assumption|].
  apply IH; [apply Hf; auto|intros; apply Hf; auto].
Qed.

Lemma add_target_keys {T} (OP : Ops T) : forall tg t r t' r',
  In (t', r') (add_target OP tg t r) -> (exists r0, In (t', r0) tg) \/ t' = t.
Proof.
  induction tg as [|[t1 r1] tg IH]; simpl; intros t r t' r' H.
  - destruct H as [H|[]]; inversion H; auto.
  - destruct (state_eqb t1 t); simpl in H; destruct H as [H|H].
    + inversion H; subst. left; exists r1; auto.
    + left; exists r'; auto.
    + inversion H; subst. left; exists r'; auto.
    + apply IH in H as [[r0 H]|H]; auto. left; exists r0; auto.
Qed.

Theorem coalesce1_keeps_lnk :
  forall (T : Type) (OP : Ops T) (P : params (T:=T)) (s t : state) (r : T),
    In (t, r) (coalesce1 OP P s) -> lnk t = lnk s.
Proof.
  intros T OP P s. unfold coalesce1.
  set (I := fun acc : targets (T:=T) => forall t r, In (t, r) acc -> lnk t = lnk s).
  change (I (fold_left
    (fun acc d => fold_left (fun acc br =>
       add_target OP acc (mkState (upd (lin s) 0 (fun row => upd row d (fun _ => fst br))) (lnk s))
                  (odiv OP (snd br) (tscale_of OP P d)))
       (coalesce OP (p_model P) (nth d (nth 0 (lin s) []) [])) acc) (seq 0 (n_demes s)) [])).
  apply fold_left_inv; [intros t r []|]. intros acc d Hacc _.
  apply fold_left_inv; auto. intros acc' br Hacc' _ t r Hin.
  apply add_target_keys in Hin as [[r0 Hin]| ->]; [eapply Hacc'; eauto|reflexivity].
Qed.

Print Assumptions lumping_single_locus_bounded.
Print Assumptions lumping_single_locus_bounded_list.
Print Assumptions lumping_two_locus_bounded.
Print Assumptions absorbing_only_migrates.
Print Assumptions coalesce1_keeps_lnk.
