From Coq Require Import ZArith QArith List Bool Lia Lqa.
From PG Require Import model.Validate.
Open Scope Q_scope.

Lemma lt0_spec x : lt0 x = true <-> x < 0.
Proof. unfold lt0. rewrite negb_true_iff. split.
  - intros H. apply Qnot_le_lt. intro Hc. apply Qle_bool_iff in Hc. congruence.
  - intros H. destruct (Qle_bool 0 x) eqn:E; [|reflexivity]. apply Qle_bool_iff in E. lra. Qed.
Lemma lt0_false x : lt0 x = false <-> 0 <= x.
Proof. unfold lt0. rewrite negb_false_iff. apply Qle_bool_iff. Qed.
Lemma le0_spec x : le0 x = true <-> x <= 0.
Proof. apply Qle_bool_iff. Qed.
Lemma le0_false x : le0 x = false <-> 0 < x.
Proof. unfold le0. split.
  - intros H. apply Qnot_le_lt. intro Hc. apply Qle_bool_iff in Hc. congruence.
  - intros H. destruct (Qle_bool x 0) eqn:E; [|reflexivity]. apply Qle_bool_iff in E. lra. Qed.

Ltac cases :=
  repeat match goal with
  | |- context [if ?b then _ else _] => let E := fresh "E" in destruct b eqn:E
  | H : context [if ?b then _ else _] |- _ => let E := fresh "E" in destruct b eqn:E
  end.
Ltac norm :=
  repeat match goal with
  | H : lt0 _ = true |- _ => apply lt0_spec in H
  | H : lt0 _ = false |- _ => apply lt0_false in H
  | H : le0 _ = true |- _ => apply le0_spec in H
  | H : le0 _ = false |- _ => apply le0_false in H
  | H : (_ <? _)%Z = true |- _ => apply Z.ltb_lt in H
  | H : (_ <? _)%Z = false |- _ => apply Z.ltb_ge in H
  | H : negb _ = true |- _ => apply negb_true_iff in H
  | H : negb _ = false |- _ => apply negb_false_iff in H
  | H : Qle_bool _ _ = true |- _ => apply Qle_bool_iff in H
  | H : Qle_bool ?a ?b = false |- _ =>
      let Hc := fresh "Hc" in
      assert (b < a) by (apply Qnot_le_lt; intro Hc; apply Qle_bool_iff in Hc; congruence); clear H
  | H : _ || _ = true |- _ => apply orb_true_iff in H; destruct H
  | H : _ || _ = false |- _ => apply orb_false_iff in H; destruct H
  | H : _ && _ = true |- _ => apply andb_true_iff in H; destruct H
  | H : _ && _ = false |- _ => apply andb_false_iff in H; destruct H
  | H : Nat.eqb _ _ = true |- _ => apply Nat.eqb_eq in H
  | H : Nat.eqb _ _ = false |- _ => apply Nat.eqb_neq in H
  | H : Nat.ltb _ _ = true |- _ => apply Nat.ltb_lt in H
  | H : Nat.ltb _ _ = false |- _ => apply Nat.ltb_ge in H
  end.

(* every request outside the documented domain is rejected *)
Theorem invalid_requests_fail_loudly : forall r, ~ in_domain r -> outcome r <> Ok.
Proof.
  intros r Hnd Hok. apply Hnd. clear Hnd.
  destruct r as [n u rec|rec|loci|mm loci|st en|t|t|t|rt v|rt v|a|psi|k nr|len ex theta ne|q];
    simpl in *; try (destruct en as [e|]); cases; try discriminate; norm; subst;
    repeat split; try lia; try lra; auto;
    try (destruct mm; [right; lia|left; reflexivity]); try (destruct mm; [discriminate|left; reflexivity]).
Qed.

(* and no valid request is rejected (no over-rejection) *)
Theorem valid_requests_accepted : forall r, in_domain r -> outcome r = Ok.
Proof.
  intros r Hd.
  destruct r as [n u rec|rec|loci|mm loci|st en|t|t|t|rt v|rt v|a|psi|k nr|len ex theta ne|q];
    simpl in *; try (destruct en as [e|]); cases; try reflexivity; norm; exfalso;
    repeat match goal with H : _ /\ _ |- _ => destruct H | H : _ \/ _ |- _ => destruct H end;
    subst; try lia; try lra; try discriminate; try congruence.
Qed.

(* the kind of failure: unsupported combinations raise NotImplementedError, invalid values ValueError *)
Theorem unsupported_is_not_implemented :
  (forall n u rec, (2 < n)%Z -> outcome (RLocusConfig n u rec) = NotImpl) /\
  (forall loci, (1 < loci)%Z -> outcome (RSfsTwoLoci loci) = NotImpl) /\
  (forall loci, (1 < loci)%Z -> outcome (RMultipleMergerLoci true loci) = NotImpl) /\
  (forall len ex theta ne, (1 < ne)%nat -> outcome (RMutationConfig len ex theta ne) = NotImpl).
Proof.
  repeat split; intros; simpl.
  - destruct (n <? 1)%Z eqn:E1; [apply Z.ltb_lt in E1; lia|].
    destruct (2 <? n)%Z eqn:E2; [reflexivity|apply Z.ltb_ge in E2; lia].
  - destruct (1 <? loci)%Z eqn:E; [reflexivity|apply Z.ltb_ge in E; lia].
  - destruct (1 <? loci)%Z eqn:E; [reflexivity|apply Z.ltb_ge in E; lia].
  - destruct (Nat.ltb 1 ne) eqn:E; [reflexivity|apply Nat.ltb_ge in E; lia].
Qed.

(* every route by which a size or a rate can be supplied ends in the same guard *)
Theorem every_route_is_guarded :
  (forall (rt : size_route) v, v <= 0 -> outcome (RPopSize rt v) = ValueErr) /\
  (forall (rt : mig_route) v, v < 0 -> outcome (RMigrationRate rt v) = ValueErr) /\
  (forall rec, rec < 0 -> outcome (RRecombinationKeyword rec) = ValueErr).
Proof.
  repeat split; intros; simpl.
  - destruct (le0 v) eqn:E; [reflexivity|apply le0_false in E; lra].
  - destruct (lt0 v) eqn:E; [reflexivity|apply lt0_false in E; lra].
  - destruct (lt0 rec) eqn:E; [reflexivity|apply lt0_false in E; lra].
Qed.

Example invalid_examples :
  outcome (RLocusConfig 3 0 0) = NotImpl /\ outcome (RLocusConfig 0 0 0) = ValueErr /\
  outcome (RConstructTimes 2 (Some 1)) = ValueErr /\ outcome (RBetaAlpha (5#2)) = ValueErr /\
  outcome (RDiracPsi 1) = ValueErr /\ outcome (RQuantile (3#2)) = ValueErr /\
  outcome (RPopSize STrajectoryValue (-1)) = ValueErr /\ outcome (RRewardCount 2 3) = ValueErr /\
  outcome (RConstructTimes 0 (Some 3)) = Ok.
Proof. vm_compute. repeat split. Qed.

Print Assumptions invalid_requests_fail_loudly.
Print Assumptions valid_requests_accepted.
Print Assumptions unsupported_is_not_implemented.
Print Assumptions every_route_is_guarded.
Print Assumptions invalid_examples.
