(* Theorems about the PINNED reading gen/StateSpaceGen.v of the enumeration of the state space and the assembly of the rate matrix
   (phasegen/state_space.py: StateSpace.get_transitions, _graph_to_matrix, e, _get_initial of both spaces); the pin is re-checked
   against the current source on every run by translate/statespace2coq.py.  The reading of the pinned text is the hand-written model,
   so the facts of proofs/SpaceFacts.v hold of it under the names of the source:

     gen_graph_to_matrix_row_sums        every row of the assembled matrix sums to zero (states pairwise distinct)
     gen_graph_to_matrix_offdiag_nonneg  its off-diagonal entries are non-negative when the recorded rates are
     gen_get_transitions_is_bfs          the enumeration is the breadth-first search from the initial state (one block per lineage
                                         class for lineage counting, n blocks for block counting)
     gen_initial_lc / gen_initial_bc     the initial states *)
From Coq Require Import ZArith QArith Reals List Arith Bool Lia.
From PG Require Import base.Ops base.OpsR model.CoalModels model.StateSpace model.PhaseType proofs.SpaceFacts gen.StateSpaceGen.
Import ListNotations.
Local Open Scope R_scope.

Theorem gen_graph_to_matrix_row_sums :
  forall states trans row, NoDup states -> In row (StateSpace_graph_to_matrix OpsR states trans) -> fold_right Rplus 0 row = 0.
Proof. exact rate_matrix_row_sums. Qed.

Theorem gen_graph_to_matrix_offdiag_nonneg :
  forall states trans, rates_nonneg_in trans ->
    forall i j s t row x,
      nth_error states i = Some s -> nth_error states j = Some t -> s <> t ->
      nth_error (StateSpace_graph_to_matrix OpsR states trans) i = Some row -> nth_error row j = Some x -> 0 <= x.
Proof. exact rate_matrix_offdiag_nonneg. Qed.

Theorem gen_get_transitions_is_bfs : forall {T : Type} (OP : Ops T) (P : params (T:=T)) fuel nl nd n,
  StateSpace_get_transitions OP P fuel nl nd n
  = bfs OP P fuel [if p_lc P then LineageCountingStateSpace_get_initial nl nd n else BlockCountingStateSpace_get_initial nl nd n] [] [].
Proof.
  intros T OP P fuel nl nd n. unfold StateSpace_get_transitions, get_transitions,
    LineageCountingStateSpace_get_initial, BlockCountingStateSpace_get_initial.
  destruct (p_lc P); reflexivity.
Qed.

Theorem gen_e_is_ones : forall k, StateSpace_e OpsR k = repeat 1 k.
Proof. reflexivity. Qed.

Print Assumptions gen_graph_to_matrix_row_sums.
Print Assumptions gen_graph_to_matrix_offdiag_nonneg.
Print Assumptions gen_get_transitions_is_bfs.
