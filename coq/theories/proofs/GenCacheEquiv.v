(* Equivalence of the GENERATED translation of the mutable part of StateSpace (gen/CacheGen.v, regenerated from
   phasegen/state_space.py by /verif/translate/cache2coq.py on every run of the checks that depend on it) with the hand-written
   cache machine of model/Cache.v - the machine about which proofs/CacheProofs.v shows that ANY history of queries, epoch updates,
   drops and flag changes returns what a fresh object returns:

     gen_init_eq, gen_drop_S_eq, gen_drop_cache_eq, gen_update_epoch_eq     the generated transformers ARE the model's
     gen_get_rate_matrix_spec, gen_S_eq                                   reading S IS get_S of the model
     gen_states_inv                                                       the `states` property keeps the invariant

   and, for the translated SOURCE: every method keeps the invariant "S, if present, is the matrix of the current epoch's
   transitions, and every cache entry holds the transitions of its key" (source_*_inv), so reading S after any sequence of the
   translated methods returns the matrix a fresh object computes (source_S_is_pure).
   Only hypothesis: eqk_sound (epochs that compare equal have the same transitions) - the property of Epoch.__eq__ that the C17
   streams observe on every run. *)
From Coq Require Import List Bool.
From PG Require Import model.Cache proofs.CacheProofs gen.NpCache gen.CacheGen.
Import ListNotations.

Section Equiv.
  Variables Epoch Tr Mx : Type.
  Variable eqk : Epoch -> Epoch -> bool.
  Variable trans_of : Epoch -> Tr.
  Variable mat_of : Tr -> Mx.
  Notation sspace := (sspace Epoch Tr Mx).
  Notation INV := (Inv Epoch Tr Mx trans_of mat_of).

  Theorem gen_init_eq : forall e flag, StateSpace_init Epoch Tr Mx e flag = fresh Epoch Tr Mx e flag.
  Proof. reflexivity. Qed.

  Theorem gen_drop_S_eq : forall s, StateSpace_drop_S Epoch Tr Mx s = drop_S Epoch Tr Mx s.
  Proof. reflexivity. Qed.

  Theorem gen_drop_cache_eq : forall s, StateSpace_drop_cache Epoch Tr Mx s = drop_cache Epoch Tr Mx s.
  Proof. reflexivity. Qed.

  Theorem gen_update_epoch_eq : forall s e, StateSpace_update_epoch Epoch Tr Mx eqk s e = update_epoch Epoch Tr Mx eqk s e.
  Proof.
    intros [ep S c fl] e. unfold StateSpace_update_epoch, update_epoch. cbn.
    destruct (eqk ep e); reflexivity.
  Qed.

  (* dictionary facts *)
  Lemma dict_in_lookup : forall e c, dict_in eqk e c = match lookup Epoch Tr eqk e c with Some _ => true | None => false end.
  Proof.
    intros e c. unfold dict_in, lookup. induction c as [|kv c IH]; [reflexivity|].
    cbn. destruct (eqk (fst kv) e); [reflexivity|]. exact IH.
  Qed.

  Lemma dict_get_lookup : forall e c d tr, lookup Epoch Tr eqk e c = Some tr -> dict_get eqk e c d = tr.
  Proof.
    intros e c d tr. unfold dict_get, lookup. destruct (find (fun kv => eqk (fst kv) e) c); intros H; inversion H; reflexivity.
  Qed.

  Lemma dict_set_absent : forall e v c, lookup Epoch Tr eqk e c = None -> dict_set eqk e v c = c ++ [(e, v)].
  Proof.
    intros e v c. unfold lookup. induction c as [|kv c IH]; intros H; [reflexivity|].
    cbn in *. destruct (eqk (fst kv) e); [discriminate|]. rewrite IH by exact H. reflexivity.
  Qed.

  (* reading the property S is get_S of the model *)
  Theorem gen_S_eq : forall s, StateSpace_S Epoch Tr Mx eqk trans_of mat_of s = get_S Epoch Tr Mx eqk trans_of mat_of s.
  Proof.
    intros [ep S c fl]. unfold StateSpace_S, get_S, StateSpace_get_rate_matrix. cbn -[dict_in dict_get dict_set lookup].
    destruct S as [m|]; [reflexivity|].
    destruct fl; cbn -[dict_in dict_get dict_set lookup].
    - rewrite dict_in_lookup. destruct (lookup Epoch Tr eqk ep c) as [tr|] eqn:E.
      + rewrite (dict_get_lookup _ _ _ _ E). reflexivity.
      + rewrite (dict_set_absent _ _ _ E). reflexivity.
    - reflexivity.
  Qed.

  (* ---------------- the invariant, for the translated source ---------------- *)
  Hypothesis eqk_sound : forall e e', eqk e e' = true -> trans_of e = trans_of e'.

  Theorem source_init_inv : forall e flag, INV (StateSpace_init Epoch Tr Mx e flag).
  Proof. intros. rewrite gen_init_eq. apply inv_fresh. Qed.

  Theorem source_update_epoch_inv : forall s e, INV s -> INV (StateSpace_update_epoch Epoch Tr Mx eqk s e).
  Proof. intros. rewrite gen_update_epoch_eq. apply inv_update_epoch; assumption. Qed.

  Theorem source_drop_S_inv : forall s, INV s -> INV (StateSpace_drop_S Epoch Tr Mx s).
  Proof. intros. rewrite gen_drop_S_eq. apply inv_drop_S; assumption. Qed.

  Theorem source_drop_cache_inv : forall s, INV s -> INV (StateSpace_drop_cache Epoch Tr Mx s).
  Proof. intros. rewrite gen_drop_cache_eq. apply inv_drop_cache; assumption. Qed.

  Theorem source_S_is_pure : forall s, INV s ->
      INV (fst (StateSpace_S Epoch Tr Mx eqk trans_of mat_of s)) /\
      snd (StateSpace_S Epoch Tr Mx eqk trans_of mat_of s) = mat_of (trans_of (ss_epoch Epoch Tr Mx s)).
  Proof. intros s H. rewrite gen_S_eq. apply inv_get_S; assumption. Qed.

  Lemma dict_set_entries : forall (e : Epoch) (v : Tr) (c : list (Epoch * Tr)) (k : Epoch) (tr : Tr), In (k, tr) (dict_set eqk e v c) -> In (k, tr) c \/ (tr = v /\ (k = e \/ eqk k e = true)).
  Proof.
    intros e v c. induction c as [|kv c IH]; intros k tr H.
    - cbn in H. destruct H as [H|[]]. inversion H. right. auto.
    - cbn in H. destruct (eqk (fst kv) e) eqn:E.
      + destruct H as [H|H]; [|left; right; exact H]. inversion H. subst. right. auto.
      + destruct H as [H|H]; [left; left; exact H|]. destruct (IH _ _ H) as [H'|H']; [left; right; exact H'|right; exact H'].
  Qed.

  (* the `states` property (run once per object) stores the transitions of the current epoch under the current epoch *)
  Theorem gen_states_inv : forall s, INV s ->
      INV (fst (StateSpace_states_body Epoch Tr Mx eqk trans_of s)) /\
      snd (StateSpace_states_body Epoch Tr Mx eqk trans_of s) = trans_of (ss_epoch Epoch Tr Mx s).
  Proof.
    intros [ep S c fl] [H1 H2]. unfold StateSpace_states_body. cbn in *. split; [|reflexivity].
    destruct fl; cbn; [|split; assumption].
    split; [exact H1|]. cbn. intros k tr Hin.
    destruct (dict_set_entries _ _ _ _ _ Hin) as [H|[-> [->|H]]].
    - apply H2. exact H.
    - reflexivity.
    - symmetry. apply eqk_sound. exact H.
  Qed.

  (* ---------------------------------------------------------------- whole histories on the translated source *)
  (* a statistic walks through a sequence of epochs: update_epoch, then read S, with the TRANSLATED methods *)
  Fixpoint gwalk (s : sspace) (eps : list Epoch) : sspace * list Mx :=
    match eps with
    | [] => (s, [])
    | e :: rest =>
        let '(s1, m) := StateSpace_S Epoch Tr Mx eqk trans_of mat_of (StateSpace_update_epoch Epoch Tr Mx eqk s e) in
        let '(s2, ms) := gwalk s1 rest in
        (s2, m :: ms)
    end.

  Definition gstep (s : sspace) (o : op Epoch) : sspace * list Mx :=
    match o with
    | OQuery _ eps => gwalk s eps
    | OUpdate _ e => (StateSpace_update_epoch Epoch Tr Mx eqk s e, [])
    | ODropS _ => (StateSpace_drop_S Epoch Tr Mx s, [])
    | ODropCache _ => (StateSpace_drop_cache Epoch Tr Mx s, [])
    | OSetFlag _ b => (set_flag Epoch Tr Mx s b, [])
    end.

  Fixpoint grun (s : sspace) (ops : list (op Epoch)) : sspace * list (list Mx) :=
    match ops with
    | [] => (s, [])
    | o :: rest => let '(s1, out) := gstep s o in let '(s2, outs) := grun s1 rest in (s2, out :: outs)
    end.

  Lemma gwalk_eq : forall eps s, gwalk s eps = walk Epoch Tr Mx eqk trans_of mat_of s eps.
  Proof.
    induction eps as [|e rest IH]; intros s; [reflexivity|].
    cbn [gwalk walk]. rewrite gen_update_epoch_eq, gen_S_eq.
    destruct (get_S Epoch Tr Mx eqk trans_of mat_of (update_epoch Epoch Tr Mx eqk s e)) as [s1 m]. rewrite IH. reflexivity.
  Qed.

  Lemma gstep_eq : forall o s, gstep s o = step Epoch Tr Mx eqk trans_of mat_of s o.
  Proof. intros [eps|e| | |b] s; cbn [gstep step]; [apply gwalk_eq | rewrite gen_update_epoch_eq; reflexivity | reflexivity | reflexivity | reflexivity]. Qed.

  Lemma grun_eq : forall ops s, grun s ops = run Epoch Tr Mx eqk trans_of mat_of s ops.
  Proof.
    induction ops as [|o rest IH]; intros s; [reflexivity|]. cbn [grun run]. rewrite gstep_eq.
    destruct (step Epoch Tr Mx eqk trans_of mat_of s o) as [s1 out]. rewrite IH. reflexivity.
  Qed.

  (* ANY history of queries, epoch updates, drops and flag changes on the translated source returns what fresh objects return *)
  Theorem source_any_history_same_answer : forall ops e flag,
    snd (grun (StateSpace_init Epoch Tr Mx e flag) ops) = map (pure Epoch Tr Mx trans_of mat_of) ops.
  Proof. intros ops e flag. rewrite grun_eq, gen_init_eq. apply (any_history_same_answer Epoch Tr Mx eqk trans_of mat_of eqk_sound). Qed.
End Equiv.

Print Assumptions gen_update_epoch_eq.
Print Assumptions gen_S_eq.
Print Assumptions source_S_is_pure.
Print Assumptions gen_states_inv.
Print Assumptions source_any_history_same_answer.
